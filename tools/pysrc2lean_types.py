#!/usr/bin/env python3
"""Source-level translation of the field codec: `ubxlib/types.py` - `Item.pack/unpack`, `Padding.pack/unpack`,
`CH.pack/unpack` and the container's `Fields.pack/unpack` - from the Python AST of the working tree into Lean
definitions in the `Except Ubx.Exc` monad -> lean/UbxModel/Gen/SrcTypes.lean.

An item object is `Py.ItemObj` (`fmt`, `length`, `value`); a method is
`def m (self : Py.ItemObj) (args…) : Except Ubx.Exc (ρ × Py.ItemObj)` (what it returns, the object afterwards).
`Fields.unpack/pack` walk the items in their `order`: `for (_, v) in sorted(self._fields.items(), key=…order)` is a fold
over the list of item objects in that order (`Py.forItems`), `v.pack()` / `v.unpack(…)` dispatch on the class of the
item (`Py.ItemObj.cls`: which class an item is comes from the table `tools/extract.py` reads off the real objects).

Modelled, not translated (Model/PyTypes.lean): `struct.pack/unpack/calcsize` for the one-value formats, `str.encode()` /
`bytes.decode()` (a `str` is the bytes of its UTF-8 encoding; `UnicodeDecodeError` is a `ValueError`), `rstrip('\\x00')`,
slicing, `bytes(n)`, `bytearray(b'\\x00') * n`, the dict of fields as the ordered list of its items.
Anything outside the subset raises `Untranslatable`."""
import ast
import os
import sys

from pysrc2lean import Untranslatable, fail, lname

CLASSES = {   # class -> {method: (params, result type)}
    'Item': {'pack': ([], 'bytes'), 'unpack': ([('data', 'bytes')], 'nat')},
    'Padding': {'pack': ([], 'bytes'), 'unpack': ([('data', 'bytes')], 'nat')},
    'CH': {'pack': ([], 'bytes'), 'unpack': ([('data', 'bytes')], 'nat')},
}
ATTRS = {'fmt': ('fmt', 'str'), 'value': ('value', 'val'), 'length': ('length', 'nat')}
LEANTYPE = {'bytes': 'List Nat', 'nat': 'Nat', 'str': 'String', 'val': 'Ubx.Val', 'int': 'Int', 'text': 'List Nat'}


class T:
    def __init__(self, node):
        self.node = node

    def expr(self, n, env):
        if isinstance(n, ast.Constant):
            v = n.value
            if isinstance(v, int) and not isinstance(v, bool) and v >= 0:
                return str(v), 'nat'
            if isinstance(v, str) and '"' not in v and '\\' not in v and v.isprintable():
                return f'"{v}"', 'str'
            fail(n, 'constant')
        if isinstance(n, ast.Name):
            if n.id in env:
                return env[n.id]
            fail(n, 'unknown name')
        if isinstance(n, ast.Attribute) and isinstance(n.value, ast.Name) and n.value.id == 'self' and n.attr in ATTRS:
            f, t = ATTRS[n.attr]
            return f'self.{f}', t
        if isinstance(n, ast.BinOp):
            (a, ta), (b, tb) = self.expr(n.left, env), self.expr(n.right, env)
            if isinstance(n.op, ast.Add) and ta == tb == 'str':
                return f'({a} ++ {b})', 'str'
            if isinstance(n.op, ast.Add) and ta == tb == 'bytes':
                return f'({a} ++ {b})', 'bytes'
            if isinstance(n.op, ast.Sub) and ta == tb == 'nat':
                return f'({a} - {b})', 'nat'
            if isinstance(n.op, ast.Mult) and ta == 'bytes' and tb == 'nat':
                return f'(Py.repeatBytes {a} {b})', 'bytes'
            fail(n, 'arithmetic')
        if isinstance(n, ast.Subscript) and isinstance(n.value, ast.Name) and n.value.id in env:
            base, t = env[n.value.id]
            s = n.slice
            if t == 'int1' and isinstance(s, ast.Constant) and s.value == 0:
                return base, 'int'
            if t == 'bytes' and isinstance(s, ast.Slice) and s.step is None:
                lo = self.expr(s.lower, env) if s.lower is not None else ('0', 'nat')
                if s.upper is not None:
                    hi = self.expr(s.upper, env)
                    if lo[0] == '0' and hi[1] == 'nat':
                        return f'({base}.take {hi[0]})', 'bytes'
                elif lo[1] == 'nat':
                    return f'({base}.drop {lo[0]})', 'bytes'
            fail(n, 'subscript')
        if isinstance(n, ast.Call):
            f = ast.unparse(n.func)
            if f == 'len' and len(n.args) == 1:
                a, t = self.expr(n.args[0], env)
                if t in ('bytes', 'text'):
                    return f'{a}.length', 'nat'
            if f == 'bytes' and len(n.args) == 1:
                a, t = self.expr(n.args[0], env)
                if t == 'nat':
                    return f'(List.replicate {a} 0)', 'bytes'
            if f == 'bytearray' and len(n.args) == 1 and isinstance(n.args[0], ast.Constant) and isinstance(n.args[0].value, bytes):
                return '[' + ', '.join(str(b) for b in n.args[0].value) + ']', 'bytes'
            if f == 'bytearray' and not n.args:
                return '([] : List Nat)', 'bytes'
            if isinstance(n.func, ast.Attribute) and n.func.attr == 'rstrip' and len(n.args) == 1 and isinstance(n.args[0], ast.Constant) \
                    and n.args[0].value == '\x00':
                a, t = self.expr(n.func.value, env)
                if t == 'text':
                    return f'(Ubx.stripNuls {a})', 'text'
        fail(n, 'expression')

    def cond(self, n, env):
        if isinstance(n, ast.Compare) and len(n.ops) == 1:
            (a, ta), (b, tb) = self.expr(n.left, env), self.expr(n.comparators[0], env)
            ops = {ast.Lt: '<', ast.Gt: '>', ast.LtE: '≤', ast.GtE: '≥'}
            if type(n.ops[0]) in ops and ta == tb == 'nat':
                return f'(decide ({a} {ops[type(n.ops[0])]} {b}))'
        fail(n, 'condition')

    def raising(self, n, env):
        """a call that may raise -> (Lean of type Except Exc <t>, t)"""
        if not isinstance(n, ast.Call):
            return None
        f = ast.unparse(n.func)
        if f == 'struct.pack' and len(n.args) == 2:
            (a, ta), (b, tb) = self.expr(n.args[0], env), self.expr(n.args[1], env)
            if ta == 'str' and tb == 'val':
                return f'(Py.structPackVal {a} {b})', 'bytes'
        if f == 'struct.calcsize' and len(n.args) == 1:
            a, ta = self.expr(n.args[0], env)
            if ta == 'str':
                return f'(Py.calcsize {a})', 'nat'
        if f == 'struct.unpack' and len(n.args) == 2:
            (a, ta), (b, tb) = self.expr(n.args[0], env), self.expr(n.args[1], env)
            if ta == 'str' and tb == 'bytes':
                return f'(Py.structUnpack {a} {b})', 'int1'
        if isinstance(n.func, ast.Attribute) and n.func.attr == 'encode' and not n.args:
            a, t = self.expr(n.func.value, env)
            if t == 'val':
                return f'(Py.encodeVal {a})', 'bytes'
        if isinstance(n.func, ast.Attribute) and n.func.attr == 'decode' and not n.args:
            a, t = self.expr(n.func.value, env)
            if t == 'bytes':
                return f'(Py.decodeUtf8 {a})', 'text'
        return None

    def block(self, stmts, env, ind, after=None):
        stmts = [s for s in stmts if not (isinstance(s, ast.Expr) and isinstance(s.value, ast.Constant))]
        pad = ' ' * ind
        if not stmts:
            if after is None:
                fail(self.node, 'a path through the function ends without return')
            return after(env, ind)
        s, rest = stmts[0], stmts[1:]
        rest_fn = lambda e, i: self.block(rest, e, i, after)
        if isinstance(s, ast.Return):
            a, t = self.expr(s.value, env)
            if t != self.rtype:
                fail(s, f'returns {t}, not {self.rtype}')
            return f'.ok ({a}, self)'
        if isinstance(s, ast.Raise) and s.exc is not None and ast.unparse(s.exc).startswith('ValueError'):
            return '.error .valueError'
        if isinstance(s, ast.Assign) and len(s.targets) == 1:
            t0, v = s.targets[0], s.value
            r = self.raising(v, env)
            if isinstance(t0, ast.Name):
                e2 = dict(env)
                if r:
                    e2[t0.id] = (t0.id, r[1])
                    return f'{r[0]} >>= fun {t0.id} =>\n{pad}  {rest_fn(e2, ind + 2)}'
                a, t = self.expr(v, env)
                e2[t0.id] = (t0.id, t)
                return f'let {t0.id} := {a}\n{pad}{rest_fn(e2, ind)}'
            if isinstance(t0, ast.Attribute) and isinstance(t0.value, ast.Name) and t0.value.id == 'self' and t0.attr == 'value':
                a, t = self.expr(v, env)
                wrap = {'int': f'(.int {a})', 'text': f'(.str {a})', 'val': a}.get(t)
                if wrap is None:
                    fail(s, f'{t} assigned to value')
                return f'let self := {{ self with value := {wrap} }}\n{pad}{rest_fn(env, ind)}'
            fail(s, 'assignment')
        if isinstance(s, ast.If):
            c = self.cond(s.test, env)
            a = self.block(s.body, env, ind + 2, rest_fn)
            b = self.block(s.orelse, env, ind + 2, rest_fn) if s.orelse else rest_fn(env, ind + 2)
            return f'if {c} then\n{pad}  {a}\n{pad}else\n{pad}  {b}'
        if isinstance(s, ast.Try):
            # try: x = <raising call> except UnicodeDecodeError: raise ValueError     (UnicodeDecodeError is a ValueError)
            if not (len(s.body) == 1 and len(s.handlers) == 1 and not s.orelse and not s.finalbody
                    and ast.unparse(s.handlers[0].type) == 'UnicodeDecodeError' and len(s.handlers[0].body) == 1
                    and isinstance(s.handlers[0].body[0], ast.Raise) and ast.unparse(s.handlers[0].body[0].exc).startswith('ValueError')
                    and isinstance(s.body[0], ast.Assign) and isinstance(s.body[0].targets[0], ast.Name)):
                fail(s, 'try statement')
            r = self.raising(s.body[0].value, env)
            if not r:
                fail(s, 'try body')
            name = s.body[0].targets[0].id
            e2 = dict(env)
            e2[name] = (name, r[1])
            return f'Py.reraise .valueError .valueError {r[0]} >>= fun {name} =>\n{pad}  {rest_fn(e2, ind + 2)}'
        fail(s, 'statement')

    def method(self, cls_node, cls, name):
        fn = next((n for n in cls_node.body if isinstance(n, ast.FunctionDef) and n.name == name), None)
        if fn is None:
            fail(cls_node, f'method {cls}.{name} not found')
        params, rt = CLASSES[cls][name]
        got = [a.arg for a in fn.args.args if a.arg != 'self']
        if len(got) != len(params) or fn.args.defaults:
            fail(fn, 'signature')
        self.rtype = rt
        env = {g: (g, pt) for g, (_, pt) in zip(got, params)}
        body = self.block(fn.body, env, 2)
        sig = ' '.join(f'({g} : {LEANTYPE[pt]})' for g, (_, pt) in zip(got, params))
        return f'def {cls}.{lname(name)} (self : Py.ItemObj) {sig} : Except Ubx.Exc ({LEANTYPE[rt]} × Py.ItemObj) :=\n  {body}\n'

    # ---- Fields.pack / Fields.unpack: a loop over the items in their order -------------------------
    def sorted_items_loop(self, fn):
        """the one `for (_, v) in sorted(self._fields.items(), key=lambda item: item[1].order):` of the method, its variable, body, and what
        surrounds it"""
        loops = [s for s in fn.body if isinstance(s, ast.For)]
        if len(loops) != 1:
            fail(fn, 'exactly one loop expected')
        lp = loops[0]
        it = ast.unparse(lp.iter).replace(' ', '')
        if it != 'sorted(self._fields.items(),key=lambdaitem:item[1].order)' or lp.orelse:
            fail(lp, 'loop over something else than the fields in their order')
        tgt = lp.target
        if not (isinstance(tgt, ast.Tuple) and len(tgt.elts) == 2 and all(isinstance(e, ast.Name) for e in tgt.elts)):
            fail(lp, 'loop target')
        i = fn.body.index(lp)
        return tgt.elts[1].id, lp.body, [s for s in fn.body[:i] if not (isinstance(s, ast.Expr) and isinstance(s.value, ast.Constant))], fn.body[i + 1:]

    def fields_unpack(self, cls_node):
        fn = next(n for n in cls_node.body if isinstance(n, ast.FunctionDef) and n.name == 'unpack')
        v, body, before, after = self.sorted_items_loop(fn)
        # work_data = data ; loop: consumed = v.unpack(work_data); work_data = work_data[consumed:] ; return work_data
        if not (len(before) == 1 and ast.unparse(before[0]) == 'work_data = data' and len(body) == 2
                and ast.unparse(body[0]) == f'consumed = {v}.unpack(work_data)' and ast.unparse(body[1]) == 'work_data = work_data[consumed:]'
                and len(after) == 1 and ast.unparse(after[0]) == 'return work_data'):
            fail(fn, 'Fields.unpack is not the loop this translator knows')
        return ('def Fields.unpack (items : List Py.ItemObj) (data : List Nat) : Except Ubx.Exc (List Nat × List Py.ItemObj) :=\n'
                '  let work_data := data\n'
                '  Py.forItems items work_data (fun v work_data =>\n'
                '    Gen.Src.Types.dispatch_unpack v work_data >>= fun (consumed, v) =>\n'
                '      let work_data := (work_data.drop consumed)\n'
                '      .ok (work_data, v))\n')

    def fields_pack(self, cls_node):
        fn = next(n for n in cls_node.body if isinstance(n, ast.FunctionDef) and n.name == 'pack')
        v, body, before, after = self.sorted_items_loop(fn)
        if not (len(before) == 1 and ast.unparse(before[0]) == 'work_data = bytearray()' and len(body) == 1
                and ast.unparse(body[0]) == f'work_data += {v}.pack()' and len(after) == 1 and ast.unparse(after[0]) == 'return work_data'):
            fail(fn, 'Fields.pack is not the loop this translator knows')
        return ('def Fields.pack (items : List Py.ItemObj) : Except Ubx.Exc (List Nat × List Py.ItemObj) :=\n'
                '  let work_data := ([] : List Nat)\n'
                '  Py.forItems items work_data (fun v work_data =>\n'
                '    Gen.Src.Types.dispatch_pack v >>= fun (r, v) =>\n'
                '      let work_data := work_data ++ r\n'
                '      .ok (work_data, v))\n')


HEADER = '''import UbxModel.Model.PyTypes
/-! GENERATED by tools/pysrc2lean_types.py from `ubxlib/types.py` of the working tree of /repo - do not edit.
    `Item` / `Padding` / `CH` `.pack()` / `.unpack()` and `Fields.pack()` / `Fields.unpack()`, statement by statement.
    `Proofs/SrcEquiv/Types.lean` proves these definitions equal to the hand-written model (Model/Fields.lean). -/
set_option linter.unusedVariables false

namespace Gen.Src.Types

'''

DISPATCH = '''/-- `v.pack()` / `v.unpack(data)`: Python dispatches on the class of the item -/
def dispatch_pack (v : Py.ItemObj) : Except Ubx.Exc (List Nat × Py.ItemObj) :=
  match v.cls with
  | .item => Item.pack v
  | .padding => Padding.pack v
  | .ch => CH.pack v

def dispatch_unpack (v : Py.ItemObj) (data : List Nat) : Except Ubx.Exc (Nat × Py.ItemObj) :=
  match v.cls with
  | .item => Item.unpack v data
  | .padding => Padding.unpack v data
  | .ch => CH.unpack v data

'''


def translate_types(repo):
    tree = ast.parse(open(os.path.join(repo, 'ubxlib', 'types.py')).read())
    cls_nodes = {n.name: n for n in tree.body if isinstance(n, ast.ClassDef)}
    for c in list(CLASSES) + ['Fields']:
        if c not in cls_nodes:
            fail(tree, f'class {c} not found')
    # the subclasses with a format of their own must not override pack / unpack
    for name, n in cls_nodes.items():
        bases = [ast.unparse(b) for b in n.bases]
        if 'Item' in bases and name not in ('Padding', 'CH'):
            if any(isinstance(m, ast.FunctionDef) and m.name in ('pack', 'unpack') for m in n.body):
                fail(n, f'{name} overrides pack/unpack')
    t = T(tree)
    defs = []
    for c in CLASSES:
        for m in CLASSES[c]:
            defs.append(t.method(cls_nodes[c], c, m))
    defs.append(DISPATCH)
    defs.append(t.fields_unpack(cls_nodes['Fields']))
    defs.append(t.fields_pack(cls_nodes['Fields']))
    return HEADER + '\n'.join(defs) + '\nend Gen.Src.Types\n'


if __name__ == '__main__':
    repo, outfile = sys.argv[1], sys.argv[2]
    try:
        text, status = translate_types(repo), 'ok'
    except (Untranslatable, StopIteration, SyntaxError, OSError) as e:
        text, status = f'/-! types.py: outside the translatable subset - {str(e).replace("-/", "- /")} -/\n', 'untranslatable: ' + str(e)
    if not os.path.exists(outfile) or open(outfile).read() != text:
        open(outfile, 'w').write(text)
    print(status)

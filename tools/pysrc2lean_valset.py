#!/usr/bin/env python3
"""Source-level translation of the constructors of the two configuration requests - `UbxCfgValSetAction.__init__` (`ubx_cfg_valset.py`)
and `UbxCfgValGetPoll.__init__` (`ubx_cfg_valget.py`) - and of the container's `Fields.pack` over what they build, from the Python AST of
the working tree into Lean definitions in `Except Ubx.Exc` -> lean/UbxModel/Gen/SrcValset.lean.

The container under construction is `Py.Valget.Container` (the names `Fields.add` has seen, and the fields in the order added: item
objects of `types.py` and key/value items of `cfgkeys.py`).  `self.f.<name> = v` is `Fields.__setattr__` (`Container.assign`),
`for i, x in enumerate(xs)` is `Py.Valget.forEnum`, `assert` raises `AssertionError`, class constants are resolved on the class's AST.
`if type(x) is not list: x = [x]` is recognised and dropped (the parameter is a list here; a single item is the list of it).
`Fields.pack` is the loop `tools/pysrc2lean_types.py` recognises, instantiated for a container that holds both kinds of item
(`v.pack()` dispatches on the class of `v`).  Anything outside the subset raises `Untranslatable`."""
import ast
import os
import sys

from pysrc2lean import Untranslatable, fail
import pysrc2lean_types as TY

FMT = {'U1': 'uint 1', 'U2': 'uint 2', 'U4': 'uint 4', 'U8': 'uint 8', 'I1': 'sint 1', 'I2': 'sint 2', 'I4': 'sint 4', 'I8': 'sint 8',
       'X1': 'uint 1', 'X2': 'uint 2', 'X4': 'uint 4'}


def strip(body):
    return [s for s in body if not (isinstance(s, ast.Expr) and isinstance(s.value, ast.Constant))]


class C:
    def __init__(self, cls_node, elem):
        self.cls = cls_node
        self.elem = elem            # 'cfgitem' | 'int': what the list parameter holds
        self.consts = {}
        for s in cls_node.body:
            if isinstance(s, ast.Assign) and len(s.targets) == 1 and isinstance(s.targets[0], ast.Name) and isinstance(s.value, ast.Constant) \
                    and isinstance(s.value.value, int) and not isinstance(s.value.value, bool):
                self.consts[s.targets[0].id] = s.value.value

    def fname(self, n, env):
        if isinstance(n, ast.Constant) and isinstance(n.value, str) and n.value.isidentifier():
            return f'("{n.value}", none)'
        if isinstance(n, ast.JoinedStr) and len(n.values) == 2 and isinstance(n.values[0], ast.Constant) and isinstance(n.values[1], ast.FormattedValue) \
                and isinstance(n.values[1].value, ast.Name) and env.get(n.values[1].value.id) == 'index' \
                and n.values[1].conversion == -1 and n.values[1].format_spec is None and str(n.values[0].value).isidentifier():
            return f'("{n.values[0].value}", some {n.values[1].value.id})'
        if isinstance(n, ast.Name) and env.get(n.id) == 'fname':
            return env[n.id + '.expr']
        fail(n, 'item name')

    def const(self, n):
        if isinstance(n, ast.Constant) and isinstance(n.value, int) and not isinstance(n.value, bool) and n.value >= 0:
            return n.value
        if isinstance(n, ast.Attribute) and isinstance(n.value, ast.Name) and n.value.id == self.cls.name and n.attr in self.consts and self.consts[n.attr] >= 0:
            return self.consts[n.attr]
        fail(n, 'constant')

    def block(self, stmts, env, ind):
        pad = ' ' * ind
        stmts = strip(stmts)
        if not stmts:
            return '.ok st'
        s, rest = stmts[0], stmts[1:]
        u = ast.unparse(s)
        nxt = lambda e=env, i=ind: self.block(rest, e, i)
        P = env['_param']
        if u == 'super().__init__()':
            return f'let st : Py.Valget.Container := {{}}\n{pad}{nxt()}'
        if isinstance(s, ast.If) and u.startswith(f'if type({P}) is not list:') and [ast.unparse(x) for x in s.body] == [f'{P} = [{P}]'] and not s.orelse:
            return f'-- `if type({P}) is not list: {P} = [{P}]`: the parameter is a list here\n{pad}{nxt()}'
        if isinstance(s, ast.Assert) and isinstance(s.test, ast.Compare) and len(s.test.ops) == 1 and ast.unparse(s.test.left) == f'len({P})' \
                and type(s.test.ops[0]) in (ast.GtE, ast.LtE, ast.Gt, ast.Lt) and s.msg is None:
            op = {ast.GtE: '≥', ast.LtE: '≤', ast.Gt: '>', ast.Lt: '<'}[type(s.test.ops[0])]
            k = self.const(s.test.comparators[0])
            return f'if !(decide ({P}.length {op} {k})) then .error .assertionError else\n{pad}{nxt()}'
        # self.f.add(U1('version')) / self.f.add(<local item>)
        if isinstance(s, ast.Expr) and isinstance(s.value, ast.Call) and ast.unparse(s.value.func) == 'self.f.add' and len(s.value.args) == 1 and not s.value.keywords:
            a = s.value.args[0]
            if isinstance(a, ast.Call) and isinstance(a.func, ast.Name) and a.func.id in FMT and len(a.args) == 1 and not a.keywords:
                return (f'(Py.Valget.Container.add st {self.fname(a.args[0], env)} (.item (Py.ItemObj.ofKind (.{FMT[a.func.id]}) (.int 0)))) >>= fun st =>\n'
                        f'{pad}{nxt()}')
            if isinstance(a, ast.Name) and env.get(a.id) == 'cfgitem':
                if a.id + '.name' not in env:
                    fail(s, 'a key/value item added under whatever name it came with')
                return f'(Py.Valget.Container.add st {env[a.id + ".name"]} (.cfg {a.id})) >>= fun st =>\n{pad}{nxt()}'
            if isinstance(a, ast.Name) and env.get(a.id) == 'itemobj':
                return f'(Py.Valget.Container.add st {env[a.id + ".name"]} (.item {a.id})) >>= fun st =>\n{pad}{nxt()}'
            fail(s, 'what is added to the container')
        if isinstance(s, ast.Assign) and len(s.targets) == 1:
            t, v = s.targets[0], s.value
            # self.f.<name> = const
            if isinstance(t, ast.Attribute) and ast.unparse(t.value) == 'self.f' and t.attr.isidentifier():
                return f'let st := Py.Valget.Container.assign st ("{t.attr}", none) {self.const(v)}\n{pad}{nxt()}'
            # name = f'data{item}'
            if isinstance(t, ast.Name) and isinstance(v, ast.JoinedStr):
                return nxt({**env, t.id: 'fname', t.id + '.expr': self.fname(v, env)})
            # cfgkey.name = name
            if isinstance(t, ast.Attribute) and t.attr == 'name' and isinstance(t.value, ast.Name) and env.get(t.value.id) == 'cfgitem':
                return nxt({**env, t.value.id + '.name': self.fname(v, env)})
            # key = U4(f'key{item}')
            if isinstance(t, ast.Name) and isinstance(v, ast.Call) and isinstance(v.func, ast.Name) and v.func.id in FMT and len(v.args) == 1 and not v.keywords:
                return (f'let {t.id} : Py.ItemObj := Py.ItemObj.ofKind (.{FMT[v.func.id]}) (.int 0)\n{pad}'
                        + nxt({**env, t.id: 'itemobj', t.id + '.name': self.fname(v.args[0], env)}))
            # key.value = cfgkey
            if isinstance(t, ast.Attribute) and t.attr == 'value' and isinstance(t.value, ast.Name) and env.get(t.value.id) == 'itemobj' \
                    and isinstance(v, ast.Name) and env.get(v.id) == 'int':
                return f'let {t.value.id} := {{ {t.value.id} with value := .int {v.id} }}\n{pad}{nxt()}'
            fail(s, 'assignment')
        # for item, cfgkey in enumerate(key_values):
        if isinstance(s, ast.For) and not s.orelse and isinstance(s.target, ast.Tuple) and len(s.target.elts) == 2 and all(isinstance(e, ast.Name) for e in s.target.elts) \
                and ast.unparse(s.iter) == f'enumerate({P})':
            i, x = s.target.elts[0].id, s.target.elts[1].id
            body = self.block(s.body, {**env, i: 'index', x: self.elem}, ind + 4)
            return f'(Py.Valget.forEnum {P} st (fun {i} {x} st =>\n{pad}    {body})) >>= fun st =>\n{pad}{nxt()}'
        fail(s, 'statement')


HEADER = '''import UbxModel.Model.PyValget
/-! GENERATED by tools/pysrc2lean_valset.py from `ubxlib/ubx_cfg_valset.py`, `ubxlib/ubx_cfg_valget.py` and (`Fields.pack`) `ubxlib/types.py`
    of the working tree of /repo - do not edit.  The constructors of UBX-CFG-VALSET and UBX-CFG-VALGET (poll), statement by statement,
    and `Fields.pack` over the container they build.  `Proofs/SrcEquiv/Valset.lean` relates them to the hand-written model
    (`Ubx.valsetPayload`, `Ubx.valgetPollPayload`, Model/ValSetGet.lean). -/
set_option linter.unusedVariables false

namespace Gen.Src.Valset
variable [Ubx.KeyTable]

/-- `v.pack()`: Python dispatches on the class of the item -/
def dispatch_pack (v : Py.Valget.Field) : Except Ubx.Exc (List Nat × Py.Valget.Field) :=
  match v with
  | .item o => Gen.Src.Types.dispatch_pack o >>= fun (r, o) => .ok (r, .item o)
  | .cfg c => Gen.Src.CfgItem.pack c >>= fun (r, c) => .ok (r, .cfg c)

'''


def translate(repo):
    out = HEADER
    # Fields.pack: the loop the types translator recognises, over a container with both kinds of item
    tree = ast.parse(open(os.path.join(repo, 'ubxlib', 'types.py')).read())
    fields = next(n for n in ast.walk(tree) if isinstance(n, ast.ClassDef) and n.name == 'Fields')
    text = TY.T(fields).fields_pack(fields)
    text = text.replace('List Py.ItemObj', 'List Py.Valget.Field').replace('Py.forItems', 'Py.Valget.forFields').replace('Gen.Src.Types.dispatch_pack', 'Gen.Src.Valset.dispatch_pack')
    out += text + '\n'
    for fname_, cname, param, elem, lt in (('ubx_cfg_valset.py', 'UbxCfgValSetAction', None, 'cfgitem', 'Ubx.CfgItem'),
                                           ('ubx_cfg_valget.py', 'UbxCfgValGetPoll', None, 'int', 'Int')):
        tree = ast.parse(open(os.path.join(repo, 'ubxlib', fname_)).read())
        cls = next(n for n in ast.walk(tree) if isinstance(n, ast.ClassDef) and n.name == cname)
        m = next(n for n in cls.body if isinstance(n, ast.FunctionDef) and n.name == '__init__')
        args = [a.arg for a in m.args.args]
        if len(args) != 2 or m.args.defaults or m.args.kwonlyargs or m.args.vararg or m.args.kwarg:
            fail(m, f'signature of {cname}.__init__')
        P = args[1]
        c = C(cls, elem)
        body = c.block(m.body, {'_param': P}, 2)
        out += f'def {cname}.init ({P} : List {lt}) : Except Ubx.Exc Py.Valget.Container :=\n  {body}\n\n'
    return out + 'end Gen.Src.Valset\n'


if __name__ == '__main__':
    repo, outfile = sys.argv[1], sys.argv[2]
    try:
        text, status = translate(repo), 'ok'
    except (Untranslatable, StopIteration, SyntaxError, OSError, AttributeError, KeyError) as e:
        text, status = f'/-! VALSET / VALGET constructors: outside the translatable subset - {str(e).replace("-/", "- /")} -/\n', 'untranslatable: ' + str(e)[:300]
    if not os.path.exists(outfile) or open(outfile).read() != text:
        open(outfile, 'w').write(text)
    print(status)

#!/usr/bin/env python3
"""Source-level translation of the request loop: `ubxlib/server_base.py`, class `UbxServerBase_`
(`_check_poll`, `_check_ack_nak`, `_check_mga`, `_send`, `_wait`, `set`, `set_mga`, `poll`, `fire_and_forget`,
`set_retries`, `set_retry_delay`), from the Python AST of the working tree into Lean definitions over
`Py.Server` / `Py.Ctl` (lean/UbxModel/Model/PyServer.lean) -> lean/UbxModel/Gen/SrcServer.lean.

Statement by statement: every method becomes `def m (env) (self) (args…) : Py.Res ρ`; its locals live in a generated
structure `m.St` next to `self`; a block of statements is an expression of type `Py.Ctl m.St ρ` (fell through /
break / return / abort); `while` is `Py.whileFuel` with a bound on the number of iterations taken from the loop's own
test (`time.time() < t`: `t - now` iterations; the queue-draining `while True`: the queue's length + 1; the state
loop of `poll`: both deadlines), `for … in range(n)` is `Py.forRange`; `try/except` around `build_with_data` is a
match on its outcome with one branch per handler and a re-raise for whatever no handler names; `assert x` is a branch
that aborts; tests of an optional value (`if packet:`, `if not cid: break`, `assert response`,
`if time_end is None:`) become a `match` that binds the value.  Logging is dropped (C19's business), and so are
statements that only compute what is logged.

What is *modelled* (not translated) is listed at the top of Model/PyServer.lean.  Anything outside the subset raises
`Untranslatable`: the source-level tie is then unavailable for this tree, and says so."""
import ast
import os
import sys

from pysrc2lean import Untranslatable, fail, lname

DEFAULTS = {'nat': ('Nat', '0'), 'bool': ('Bool', 'false'), 'str': ('String', '""'), 'optstr': ('Option String', 'none'),
            'optframe': ('Option Ubx.RFrame', 'none'), 'bytes': ('List Nat', '[]'), 'cidlist': ('List Ubx.Cid', '[]'),
            'optpacket': ('Option Ubx.Packet', 'none'), 'optnat': ('Option Nat', 'none')}
VARTYPE = {'frame': 'Ubx.RFrame', 'packet': 'Ubx.Packet', 'cid': 'Ubx.Cid', 'bytes': 'List Nat', 'nat': 'Nat', 'req': 'Ubx.Req',
           'fieldcid': 'Option Int × Option Int', 'optint': 'Option Int', 'optnat': 'Option Nat'}
LEANTYPE = dict({k: v[0] for k, v in DEFAULTS.items()}, frame='Ubx.RFrame', req='Ubx.Req', cid='Ubx.Cid', unit='Unit', int='Int')

METHODS = {   # name -> (parameters with types, result type)
    '_check_poll': ([('request', 'req'), ('res', 'frame')], 'bool'),
    '_check_ack_nak': ([('request', 'req'), ('res', 'frame')], 'optstr'),
    '_check_mga': ([('request', 'req'), ('res', 'frame')], 'bool'),
    '_send': ([('ubx_message', 'req')], 'bool'),
    '_wait': ([('time_end', 'optnat')], 'optframe'),
    'set': ([('frame_set', 'req')], 'optframe'),
    'set_mga': ([('frame_set_mga', 'req')], 'optframe'),
    'poll': ([('frame_poll', 'req')], 'optframe'),
    'fire_and_forget': ([('frame_set', 'req')], 'unit'),
    'set_retries': ([('retries', 'nat')], 'nat'),
    'set_retry_delay': ([('delay', 'nat')], 'nat'),
}
ORDER = ['_check_poll', '_check_ack_nak', '_check_mga', '_send', '_wait', 'set', 'set_mga', 'poll', 'fire_and_forget',
         'set_retries', 'set_retry_delay']
SELF_ATTRS = {'max_retries': ('retries', 'nat'), 'retry_delay_in_ms': ('delay', 'nat')}
PARSER_METHODS = {'set_filters': 'cidlist', 'set_filter': 'cid', 'empty_queue': None, 'restart': None, 'process': 'bytes'}
BACKEND_VOID = {'_flush_input': 'Py.flushInput', '_recover': 'Py.recover'}
NONE_FIRST = {'response': 'optframe', 'packet': 'optframe', 'frame': 'optframe'}
FIELD_TABLES = {}
DIALECT = {'ns': 'Gen.Src.Server', 'self': 'Py.Server', 'env': 'Ubx.Env', 'timeNow': 'Py.timeNow', 'receive': 'Py.receive', 'transmit': 'Py.transmit',
           'res': 'Py.Res', 'finish': 'Py.finish', 'methods': None, 'void': None}     # frame class name -> Lean table, filled from the class constants


class Env:
    """names in scope: St fields (name -> type) and Lean-bound values (name -> (lean expr, type))"""

    def __init__(self, fields, bound, alias=None, vars=None):
        self.fields, self.bound, self.alias = fields, dict(bound), (alias if alias is not None else {})
        self.vars = dict(vars or {})          # genuine Lean variables in scope: name -> Lean type

    def with_bound(self, name, expr, typ, var=None):
        e = Env(self.fields, self.bound, self.alias, self.vars)
        e.bound[name] = (expr, typ)
        if var:
            e.vars[var] = VARTYPE[typ]
        return e


class ServerTranslator:
    def __init__(self, node, consts, dialect=None):
        self.node, self.consts = node, consts
        self.fresh = 0
        self.D = dict(DIALECT, methods=METHODS, void=BACKEND_VOID)
        self.D.update(dialect or {})

    # ---- helpers ----------------------------------------------------------------------------------
    def is_logging(self, s):
        src = ast.unparse(s)
        if isinstance(s, ast.Expr) and isinstance(s.value, ast.Call) and src.startswith('logger.'):
            return True
        if isinstance(s, ast.Expr) and isinstance(s.value, ast.Constant) and isinstance(s.value.value, str):
            return True
        if isinstance(s, ast.Pass):
            return True
        if isinstance(s, ast.Assert) and ast.unparse(s.test).startswith('isinstance('):
            return True
        if isinstance(s, ast.If) and self.pure_test(s.test) and all(self.is_logging(x) for x in s.body + s.orelse):
            return True
        return False

    def pure_test(self, t):
        """a test whose evaluation has no effect the model sees (so an `if` with nothing but logging inside may go)"""
        for n in ast.walk(t):
            if isinstance(n, ast.Call) and not ast.unparse(n.func).startswith(('logger.', 'time.time')):
                return False
        return True

    def cid_const(self, src):
        if src in self.consts['cids']:
            c = self.consts['cids'][src]
            return f'(⟨{c[0]}, {c[1]}⟩ : Ubx.Cid)'
        return None

    # ---- expressions: (lean, type) ----------------------------------------------------------------
    def expr(self, n, env):
        src = ast.unparse(n)
        if isinstance(n, ast.Constant):
            v = n.value
            if isinstance(v, bool):
                return ('true' if v else 'false'), 'bool'
            if isinstance(v, int) and v >= 0:
                return str(v), 'nat'
            if isinstance(v, str):
                if '"' in v or '\\' in v:
                    fail(n, 'string constant')
                return f'"{v}"', 'str'
            if v is None:
                return 'none', 'none'
            fail(n, 'constant')
        if isinstance(n, ast.Name):
            if n.id in env.bound:
                return env.bound[n.id]
            if n.id in env.alias:
                return f'st.{env.alias[n.id]}', env.fields[env.alias[n.id]]
            if n.id in env.fields:
                return f'st.{lname(n.id)}', env.fields[n.id]
            fail(n, 'unknown name')
        c = self.cid_const(src)
        if c:
            return c, 'cid'
        if src in self.consts['ints']:
            return str(self.consts['ints'][src]), 'nat'
        if isinstance(n, ast.Attribute):
            if isinstance(n.value, ast.Name) and n.value.id == 'self' and n.attr in SELF_ATTRS:
                f, t = SELF_ATTRS[n.attr]
                return f'st.self.{f}', t
            # request.CID, request.CID.cls / .id, res.CID
            if n.attr == 'CID' and isinstance(n.value, ast.Name):
                base, t = self.expr(n.value, env)
                if t in ('req', 'frame'):
                    return f'{base}.cid', 'cid'
            if n.attr in ('cls', 'id'):
                base, t = self.expr(n.value, env)
                if t == 'cid':
                    return f'{base}.{n.attr}', 'nat'
            # res.f.<field>: a field of a decoded frame; which table depends on the class/id tested just before
            if isinstance(n.value, ast.Attribute) and n.value.attr == 'f' and isinstance(n.value.value, ast.Name):
                base, t = self.expr(n.value.value, env)
                tbl = env.bound.get('@table:' + n.value.value.id)
                if t == 'frame' and tbl:
                    return f'(Py.field {tbl[0]} {base} "{n.attr}")', 'optint'
            fail(n, 'attribute')
        if isinstance(n, ast.BinOp):
            if isinstance(n.op, ast.Div) and isinstance(n.right, ast.Constant) and n.right.value == 1000.0:
                a, t = self.expr(n.left, env)           # milliseconds -> seconds: the clock of the model ticks in ms
                if t != 'nat':
                    fail(n, 'division')
                return a, 'nat'
            ops = {ast.Add: '+', ast.Sub: '-'}
            if type(n.op) in ops:
                (a, ta), (b, tb) = self.expr(n.left, env), self.expr(n.right, env)
                if ta == tb == 'nat':
                    return f'({a} {ops[type(n.op)]} {b})', 'nat'
            fail(n, 'arithmetic')
        if isinstance(n, ast.List):
            elts = [self.expr(e, env) for e in n.elts]
            if elts and all(t == 'cid' for _, t in elts):
                return '[' + ', '.join(a for a, _ in elts) + ']', 'cidlist'
            fail(n, 'list')
        if isinstance(n, ast.Call):
            f = ast.unparse(n.func)
            if f == 'time.time' and not n.args:
                return f'{self.D["timeNow"]} st.self', 'nat'
            if f == 'UbxCID' and len(n.args) == 2:
                (a, ta), (b, tb) = self.expr(n.args[0], env), self.expr(n.args[1], env)
                if ta == tb == 'optint':
                    return f'({a}, {b})', 'fieldcid'
            if isinstance(n.func, ast.Attribute) and n.func.attr == 'to_bytes' and not n.args:
                base, t = self.expr(n.func.value, env)
                if t == 'req':
                    return f'(Py.toBytes {base})', 'bytes'
            if isinstance(n.func, ast.Attribute) and n.func.attr == '_cls_response' and not n.args:
                base, t = self.expr(n.func.value, env)
                if t == 'req':
                    return base, 'respcls'
            fail(n, 'call in an expression')
        fail(n, 'expression')

    def coerce(self, code, t, want, node):
        if t == want:
            return code
        if (t, want) in (('frame', 'optframe'), ('str', 'optstr'), ('nat', 'optnat')):
            return f'(some {code})'
        if t == 'none' and want.startswith('opt'):
            return 'none'
        fail(node, f'type {t} where {want} is expected')

    def cond(self, n, env):
        """a test as a Lean Bool (no binding)"""
        if isinstance(n, ast.BoolOp):
            op = ' && ' if isinstance(n.op, ast.And) else ' || '
            return '(' + op.join(self.cond(v, env) for v in n.values) + ')'
        if isinstance(n, ast.UnaryOp) and isinstance(n.op, ast.Not):
            return f'(!{self.cond(n.operand, env)})'
        if isinstance(n, ast.Compare) and len(n.ops) == 1:
            op = n.ops[0]
            (a, ta), (b, tb) = self.expr(n.left, env), self.expr(n.comparators[0], env)
            if isinstance(op, (ast.Eq, ast.NotEq)):
                neg = isinstance(op, ast.NotEq)
                if ta == 'fieldcid' and tb == 'cid':
                    r = f'(Py.cidOfFieldsEq {a}.1 {a}.2 {b})'
                elif ta == 'optint' and tb == 'nat':
                    r = f'({a} == some ({b} : Int))'
                elif ta == 'optstr' and tb == 'str':
                    r = f'({a} == some {b})'
                elif ta == tb and ta in ('nat', 'str', 'cid', 'bool'):
                    r = f'({a} == {b})'
                else:
                    fail(n, f'comparison of {ta} with {tb}')
                return f'(!{r})' if neg else r
            cmp = {ast.Lt: '<', ast.LtE: '≤', ast.Gt: '>', ast.GtE: '≥'}
            if type(op) in cmp and ta == tb == 'nat':
                return f'(decide ({a} {cmp[type(op)]} {b}))'
            fail(n, 'comparison')
        if isinstance(n, ast.Compare) and len(n.ops) == 2 and all(isinstance(o, ast.LtE) for o in n.ops):
            xs = [self.expr(x, env) for x in [n.left] + n.comparators]
            if all(t == 'nat' for _, t in xs):
                return f'(decide ({xs[0][0]} ≤ {xs[1][0]}) && decide ({xs[1][0]} ≤ {xs[2][0]}))'
            fail(n, 'comparison')
        a, t = self.expr(n, env)
        if t == 'bool':
            return a
        if t == 'bytes':
            return f'(!({a}).isEmpty)'
        if t in ('optframe', 'optstr'):
            return f'({a}).isSome'
        fail(n, f'truth value of {t}')

    # ---- statements -------------------------------------------------------------------------------
    def always_exits(self, stmts):
        stmts = [s for s in stmts if not self.is_logging(s)]
        return bool(stmts) and isinstance(stmts[-1], (ast.Break, ast.Return, ast.Raise))

    def seq(self, compound, rest, env, ind):
        """a compound statement followed by the rest of the block"""
        if not [s for s in rest if not self.is_logging(s)]:
            return compound
        pad = ' ' * ind
        return f'Py.Ctl.bind ({compound}) (fun st =>\n{pad}  {self.block(rest, env, ind + 2)})'

    def assign_field(self, name, code, t, env, node):
        if name in env.bound:
            fail(node, 'assignment to a name that is bound to a value')
        if name not in env.fields:
            if t == 'none' and name in NONE_FIRST:
                t = NONE_FIRST[name]            # `x = None` first: what x holds later
                code = 'none'
            if t not in DEFAULTS:
                fail(node, f'local of type {t}')
            env.fields[name] = t
        env.alias.pop(name, None)
        have = env.fields[name]
        if t != have and not (t in ('frame', 'str', 'nat', 'none') and have.startswith('opt')):
            # the name holds a value of another type from here on (Python does not mind): a field of its own
            alt = f'{name}_{t}'
            if t not in DEFAULTS or env.fields.get(alt, t) != t:
                fail(node, f'local of type {t}')
            env.fields[alt] = t
            env.alias[name] = alt
            return f'let st := {{ st with {alt} := {code} }}'
        return f'let st := {{ st with {lname(name)} := {self.coerce(code, t, have, node)} }}'

    def call_method(self, call, env, ind, k):
        """self.<translated method>(args): k(value expr, type) gives the continuation; returns Lean"""
        m = call.func.attr
        params, rt = self.D['methods'][m]
        args = []
        for i, (pn, pt) in enumerate(params):
            if i < len(call.args):
                a, t = self.expr(call.args[i], env)
                args.append(self.coerce(a, t, pt, call))
            elif pt.startswith('opt'):
                args.append('none')
            else:
                fail(call, 'missing argument')
        pad = ' ' * ind
        self.fresh += 1
        v, s = f'v{self.fresh}', f's{self.fresh}'
        return (f'match {self.D["ns"]}.{lname(m)} env st.self {" ".join(args)} with\n'
                f'{pad}| (.error a, {s}) => .abort a {{ st with self := {s} }}\n'
                f'{pad}| (.ok {v}, {s}) =>\n{pad}  let st := {{ st with self := {s} }}\n{pad}  {k(v, rt, ind + 2)}')

    def block(self, stmts, env, ind):
        """Lean expression of type `Py.Ctl St ρ` over `st`"""
        stmts = list(stmts)
        while stmts and self.is_logging(stmts[0]):
            stmts.pop(0)
        if not stmts:
            return '.next st'
        s, rest = stmts[0], stmts[1:]
        pad = ' ' * ind
        nxt = lambda e=env: self.block(rest, e, ind)
        is_self_call = lambda c, names: (isinstance(c, ast.Call) and isinstance(c.func, ast.Attribute) and isinstance(c.func.value, ast.Name)
                                         and c.func.value.id == 'self' and c.func.attr in names)
        if isinstance(s, ast.Return):
            if s.value is None:
                return f'.ret {self.none_of(self.rtype, s)} st'
            if self.rtype == 'bool' and isinstance(s.value, (ast.Compare, ast.BoolOp)):
                return f'.ret {self.cond(s.value, env)} st'
            a, t = self.expr(s.value, env)
            return f'.ret {self.coerce(a, t, self.rtype, s)} st'
        if isinstance(s, ast.Break):
            return '.brk st'
        if isinstance(s, ast.Assert):
            # assert <optional>: binds the value for the rest of the block
            if isinstance(s.test, ast.Name) and self.type_of(s.test, env) == 'optframe':
                a, _ = self.expr(s.test, env)
                v = s.test.id + '_v'
                return (f'match {a} with\n{pad}| none => .abort (.exc .assertionError) st\n'
                        f'{pad}| some {v} =>\n{pad}  {self.block(rest, env.with_bound(s.test.id, v, "frame", var=v), ind + 2)}')
            return f'if {self.cond(s.test, env)} then\n{pad}  {self.block(rest, env, ind + 2)}\n{pad}else .abort (.exc .assertionError) st'
        if isinstance(s, ast.Expr) and isinstance(s.value, ast.Call):
            c = s.value
            f = ast.unparse(c.func)
            if is_self_call(c, self.D['void']) and not c.args:
                return f'let st := {{ st with self := {self.D["void"][c.func.attr]} st.self }}\n{pad}{nxt()}'
            if is_self_call(c, self.D['methods']):
                return self.call_method(c, env, ind, lambda v, t, i: self.block(rest, env, i))
            if is_self_call(c, {'_register_response'}) and len(c.args) == 1:
                a, t = self.expr(c.args[0], env)
                if t != 'respcls':
                    fail(s, 'registration of something that is not the response class of the request')
                return f'let st := {{ st with self := Py.register st.self {a} }}\n{pad}{nxt()}'
            if f.startswith('self.parser.') and c.func.attr in PARSER_METHODS:
                want = PARSER_METHODS[c.func.attr]
                args = ''
                if want:
                    a, t = self.expr(c.args[0], env)
                    args = ' ' + self.coerce(a, t, want, s)
                return (f'let st := {{ st with self := {{ st.self with parser := Gen.Src.UbxParser.{lname(c.func.attr)} st.self.parser{args} }} }}\n'
                        f'{pad}{nxt()}')
            if isinstance(c.func, ast.Attribute) and c.func.attr == 'pack' and not c.args:
                a, t = self.expr(c.func.value, env)
                if t == 'req':
                    return nxt()          # modelled: the request carries what pack() produced
            fail(s, 'call statement')
        if isinstance(s, ast.Assign) and len(s.targets) == 1:
            t0, v = s.targets[0], s.value
            # cid, data = self.parser.packet()
            if isinstance(t0, ast.Tuple) and ast.unparse(v) == 'self.parser.packet()' and all(isinstance(e, ast.Name) for e in t0.elts) and len(t0.elts) == 2:
                a, b = (e.id for e in t0.elts)
                env.fields['pkt'] = 'optpacket'
                e2 = env.with_bound('@pkt:' + a, 'st.pkt', 'optpacket').with_bound('@pktdata:' + b, 'st.pkt', 'optpacket')
                return (f'let st := {{ st with pkt := (Py.packet st.self).1, self := (Py.packet st.self).2 }}\n{pad}{self.block(rest, e2, ind)}')
            if isinstance(t0, ast.Name):
                name = t0.id
                if is_self_call(v, self.D['methods']):
                    return self.call_method(v, env, ind, lambda x, t, i: self.assign_field(name, x, t, env, s) + '\n' + ' ' * i + self.block(rest, env, i))
                if is_self_call(v, {'_transmit'}) and len(v.args) == 1:
                    a, t = self.expr(v.args[0], env)
                    up = self.assign_field(name, f'({self.D["transmit"]} env st.self ' + self.coerce(a, t, 'bytes', s) + ').1', 'bool', env, s)
                    return up.replace(' }', f', self := ({self.D["transmit"]} env st.self {a}).2 }}', 1) + f'\n{pad}{nxt()}'
                if is_self_call(v, {'_receive'}) and not v.args:
                    up = self.assign_field(name, f'({self.D["receive"]} env st.self).1', 'bytes', env, s)
                    return up.replace(' }', f', self := ({self.D["receive"]} env st.self).2 }}', 1) + f'\n{pad}{nxt()}'
                if ast.unparse(v) == 'FrameFactory.getInstance()':
                    return self.block(rest, env.with_bound(name, 'st.self.reg', 'factory'), ind)
                a, t = self.expr(v, env)
                if t in ('respcls',):
                    return self.block(rest, env.with_bound(name, a, t), ind)
                if t in ('fieldcid', 'optint', 'cid', 'frame') and name not in env.fields and name not in env.bound:
                    return f'let {name} := {a}\n{pad}{self.block(rest, env.with_bound(name, name, t, var=name), ind)}'
                return self.assign_field(name, a, t, env, s) + f'\n{pad}{nxt()}'
            if isinstance(t0, ast.Attribute) and isinstance(t0.value, ast.Name) and t0.value.id == 'self' and t0.attr in SELF_ATTRS:
                a, t = self.expr(v, env)
                return f'let st := {{ st with self := {{ st.self with {SELF_ATTRS[t0.attr][0]} := {self.coerce(a, t, "nat", s)} }} }}\n{pad}{nxt()}'
            fail(s, 'assignment')
        if isinstance(s, ast.If):
            return self.if_stmt(s, rest, env, ind)
        if isinstance(s, ast.While):
            if s.orelse:
                fail(s, 'while/else')
            test = ast.unparse(s.test)
            if test == 'True':
                fuel, c = '(st.self.parser.queue.length + 1)', 'true'
            else:
                c = self.cond(s.test, env)
                fuel = self.fuel_of(s.test, env)
            args = self.aux_def('loop', s.body, env, c)
            loop = f'Py.whileFuel {fuel} ({args[1]}) ({args[0]}) st'
            return self.seq(loop, rest, env, ind)
        if isinstance(s, ast.For):
            if not (isinstance(s.target, ast.Name) and not s.orelse and isinstance(s.iter, ast.Call) and ast.unparse(s.iter.func) == 'range'
                    and len(s.iter.args) == 1):
                fail(s, 'for loop')
            n, t = self.expr(s.iter.args[0], env)
            if t != 'nat':
                fail(s, 'range')
            i = s.target.id
            args = self.aux_def('for', s.body, env, None, index=i)
            loop = f'Py.forRange {n} ({args[0]}) st'
            return self.seq(loop, rest, env, ind)
        if isinstance(s, ast.Try):
            return self.try_stmt(s, rest, env, ind)
        fail(s, 'statement')

    def aux_def(self, kind, body, env, cond, index=None, index_type='nat'):
        """the body (and test) of a loop as definitions of their own, so that the proofs can name them"""
        self.nloops += 1
        k = self.nloops
        e2 = env.with_bound(index, index, index_type) if index else env
        text = self.block(body, e2, 4)
        params = ''.join(f' ({v} : {t})' for v, t in env.vars.items())
        call = ''.join(f' {v}' for v in env.vars)
        st = f'{lname(self.cur)}.St'
        rl = LEANTYPE[self.rtype]
        name = f'{self.cur}.body{k}'
        idx = f' ({index} : {VARTYPE[index_type]})' if index else ''
        self.aux.append(f'def {name} (env : {self.D["env"]}){params}{idx} (st : {st}) : Py.Ctl {st} ({rl}) :=\n    {text}\n')
        cname = None
        if cond is not None:
            cname = f'{self.cur}.test{k}'
            self.aux.append(f'def {cname} (env : {self.D["env"]}){params} (st : {st}) : Bool :=\n    {cond}\n')
        return f'{self.D["ns"]}.{name} env{call}', (f'{self.D["ns"]}.{cname} env{call}' if cname else None)

    def none_of(self, rt, node):
        if rt.startswith('opt'):
            return 'none'
        if rt == 'bool':
            return 'false'
        if rt == 'unit':
            return '()'
        if rt == 'bytes':
            return '[]'             # None and an empty read are both falsy
        fail(node, 'return without a value')

    def type_of(self, n, env):
        try:
            return self.expr(n, env)[1]
        except Untranslatable:
            return None

    def fuel_of(self, test, env):
        """how many iterations the loop can make at most, read off its test"""
        # time.time() < X
        if isinstance(test, ast.Compare) and ast.unparse(test.left) == 'time.time()' and isinstance(test.ops[0], ast.Lt):
            x, t = self.expr(test.comparators[0], env)
            return f'({x} - {self.D["timeNow"]} st.self)'
        # the state loop of poll(): two wait states, each with a deadline of its own
        names = {n.id for n in ast.walk(test) if isinstance(n, ast.Name)}
        if names == {'state'} and 'time_end' in env.fields:
            return '((st.time_end - Py.timeNow st.self) + st.self.delay + 2)'
        fail(test, 'no iteration bound known for this loop')

    def if_stmt(self, s, rest, env, ind):
        pad = ' ' * ind
        t = s.test
        # -- tests that bind an optional value ------------------------------------------------------
        # if time_end is None: time_end = <expr>      (default argument)
        if (isinstance(t, ast.Compare) and isinstance(t.ops[0], ast.Is) and ast.unparse(t.comparators[0]) == 'None' and isinstance(t.left, ast.Name)
                and self.type_of(t.left, env) == 'optnat' and len(s.body) == 1 and not s.orelse and isinstance(s.body[0], ast.Assign)
                and ast.unparse(s.body[0].targets[0]) == t.left.id):
            name = t.left.id
            a, _ = self.expr(t.left, env)
            v, tv = self.expr(s.body[0].value, env)
            if tv != 'nat':
                fail(s, 'default value')
            env.fields[name + '_set'] = 'nat'
            e2 = env.with_bound(name, f'st.{name}_set', 'nat')
            return (f'let st := {{ st with {name}_set := match {a} with | none => {v} | some v => v }}\n{pad}{self.block(rest, e2, ind)}')
        # if not cid: <exits>       (cid of `cid, data = self.parser.packet()`)
        if (isinstance(t, ast.UnaryOp) and isinstance(t.op, ast.Not) and isinstance(t.operand, ast.Name) and '@pkt:' + t.operand.id in env.bound
                and not s.orelse and self.always_exits(s.body)):
            e2 = env.with_bound('@somepkt:' + t.operand.id, 'pkt_v', 'packet', var='pkt_v')
            return (f'match st.pkt with\n{pad}| none =>\n{pad}    {self.block(s.body, env, ind + 4)}\n'
                    f'{pad}| some pkt_v =>\n{pad}    {self.block(rest, e2, ind + 4)}')
        # if cid != self.cid_crc_error: A else: B
        if (isinstance(t, ast.Compare) and isinstance(t.ops[0], ast.NotEq) and isinstance(t.left, ast.Name) and '@somepkt:' + t.left.id in env.bound
                and ast.unparse(t.comparators[0]) == 'self.cid_crc_error'):
            cidn = t.left.id
            datan = next(k.split(':', 1)[1] for k in env.bound if k.startswith('@pktdata:'))
            e2 = env.with_bound(cidn, 'cid_v', 'cid', var='cid_v').with_bound(datan, 'data_v', 'bytes', var='data_v')
            m = (f'match pkt_v with\n{pad}| .data cid_v data_v =>\n{pad}    {self.block(s.body, e2, ind + 4)}\n'
                 f'{pad}| .crcError =>\n{pad}    {self.block(s.orelse, env, ind + 4)}')
            return self.seq(m, rest, env, ind)
        # if packet: A else: B      (an optional frame)
        if isinstance(t, ast.Name) and self.type_of(t, env) == 'optframe':
            a, _ = self.expr(t, env)
            v = t.id + '_v'
            e2 = env.with_bound(t.id, v, 'frame', var=v)
            m = (f'match {a} with\n{pad}| some {v} =>\n{pad}    {self.block(s.body, e2, ind + 4)}\n'
                 f'{pad}| none =>\n{pad}    {self.block(s.orelse, env, ind + 4)}')
            return self.seq(m, rest, env, ind)
        # if res.CID == <Class>.CID: the fields of `res` are those of that class
        e_then = env
        if (isinstance(t, ast.Compare) and isinstance(t.ops[0], ast.Eq) and ast.unparse(t.left).endswith('.CID')
                and ast.unparse(t.comparators[0]).endswith('.CID') and ast.unparse(t.comparators[0])[:-4] in FIELD_TABLES
                and isinstance(t.left, ast.Attribute) and isinstance(t.left.value, ast.Name)):
            e_then = env.with_bound('@table:' + t.left.value.id, FIELD_TABLES[ast.unparse(t.comparators[0])[:-4]], 'table')
        c = self.cond(t, env)
        m = f'if {c} then\n{pad}    {self.block(s.body, e_then, ind + 4)}\n{pad}  else\n{pad}    {self.block(s.orelse, env, ind + 4)}'
        return self.seq(m, rest, env, ind)

    def try_stmt(self, s, rest, env, ind):
        """try: x = ff.build_with_data(cid, data); <rest of body>  except A: …  except (B, C, D): …"""
        pad = ' ' * ind
        if s.orelse or s.finalbody or not s.body:
            fail(s, 'try statement')
        first = s.body[0]
        if not (isinstance(first, ast.Assign) and isinstance(first.targets[0], ast.Name) and isinstance(first.value, ast.Call)
                and isinstance(first.value.func, ast.Attribute) and first.value.func.attr == 'build_with_data' and len(first.value.args) == 2):
            fail(s, 'try body')
        ff, tf = self.expr(first.value.func.value, env)
        (c, tc), (d, td) = self.expr(first.value.args[0], env), self.expr(first.value.args[1], env)
        if (tf, tc, td) != ('factory', 'cid', 'bytes'):
            fail(first, 'build_with_data arguments')
        name = first.targets[0].id
        body = self.block(s.body[1:], env.with_bound(name, name + '_v', 'frame', var=name + '_v'), ind + 4)
        chain = '.abort (.exc e) st'
        for h in reversed(s.handlers):
            if h.type is None:
                names = None
            elif isinstance(h.type, ast.Tuple):
                names = [ast.unparse(e) for e in h.type.elts]
            else:
                names = [ast.unparse(h.type)]
            hb = self.block(h.body, env, ind + 6)
            if names is None or 'Exception' in names or 'BaseException' in names:
                chain = hb
            else:
                lst = '[' + ', '.join(f'"{x}"' for x in names) + ']'
                chain = f'if Py.excIn e {lst} then\n{pad}      {hb}\n{pad}    else {chain}'
        m = (f'match Py.buildWithData {ff} {c} {d} with\n{pad}| .ok {name}_v =>\n{pad}    {body}\n'
             f'{pad}| .error e =>\n{pad}    {chain}')
        return self.seq(m, rest, env, ind)

    # ---- methods ----------------------------------------------------------------------------------
    def method(self, name):
        fn = next((n for n in self.node.body if isinstance(n, ast.FunctionDef) and n.name == name), None)
        if fn is None:
            fail(self.node, f'method {name} not found')
        params, rt = self.D['methods'][name]
        got = [a.arg for a in fn.args.args if a.arg != 'self']
        if len(got) != len(params) or fn.args.vararg or fn.args.kwarg or fn.args.kwonlyargs:
            fail(fn, 'signature')
        for d, (pn, pt) in zip(reversed(fn.args.defaults), reversed(list(zip(got, [p[1] for p in params])))):
            if pt == 'nat' and isinstance(d, ast.Constant) and isinstance(d.value, (int, float)) and not isinstance(d.value, bool):
                continue            # a number of seconds: the translated method takes the interval as an argument (in clock ticks)
            if not (pt.startswith('opt') and ast.unparse(d) == 'None'):
                fail(fn, 'default argument')
        self.rtype = rt
        self.cur, self.aux, self.nloops = name, [], 0
        fields = {}
        bound = {}
        vars = {}
        for g, (_, pt) in zip(got, params):
            bound[g] = (g, pt)
            vars[g] = LEANTYPE[pt]
        env = Env(fields, bound, vars=vars)
        body = self.block(fn.body, env, 4)
        st = f'{lname(name)}.St'
        decl = f'structure {st} where\n  self : {self.D["self"]}\n' + ''.join(
            f'  {lname(f)} : {DEFAULTS[t][0]} := {DEFAULTS[t][1]}\n' for f, t in fields.items())
        sig = ' '.join(f'({g} : {LEANTYPE[pt]})' for g, (_, pt) in zip(got, params))
        rl = LEANTYPE[rt]
        return (f'{decl}\n' + '\n'.join(self.aux) + f'\ndef {lname(name)} (env : {self.D["env"]}) (self : {self.D["self"]}) {sig} : {self.D["res"]} ({rl}) :=\n'
                f'  {self.D["finish"]} (fun st : {st} => st.self) {self.none_of(rt, fn) if rt != "nat" else "0"} (\n'
                f'    let st : {st} := {{ self := self }}\n    {body})\n')


HEADER = '''import UbxModel.Model.PyServer
import UbxModel.Gen.Src
import UbxModel.Gen.Layouts
/-! GENERATED by tools/pysrc2lean_server.py from `ubxlib/server_base.py` of the working tree of /repo - do not edit.
    The request loop, statement by statement, over `Py.Server` / `Py.Ctl` (Model/PyServer.lean).
    `Proofs/SrcEquiv/Server*.lean` prove these definitions equal to the hand-written model (Model/Server.lean). -/
set_option linter.unusedVariables false
'''


def server_consts(repo):
    if repo not in sys.path:
        sys.path.insert(0, repo)
    from ubxlib.cid import UbxCID
    from ubxlib.ubx_ack import UbxAckAck, UbxAckNak
    from ubxlib.ubx_mga_ack_data0 import UbxMgaAckData0
    cids = {c.__name__ + '.CID': (c.CID.cls, c.CID.id) for c in (UbxAckAck, UbxAckNak, UbxMgaAckData0)}
    for c in (UbxAckAck, UbxAckNak, UbxMgaAckData0):
        FIELD_TABLES[c.__name__] = 'Gen.' + c.__name__
    return {'cids': cids, 'ints': {'UbxCID.CLASS_CFG': UbxCID.CLASS_CFG}}


def translate_server(repo):
    tree = ast.parse(open(os.path.join(repo, 'ubxlib', 'server_base.py')).read())
    node = next(n for n in ast.walk(tree) if isinstance(n, ast.ClassDef) and n.name == 'UbxServerBase_')
    t = ServerTranslator(node, server_consts(repo))
    defs = [t.method(m) for m in ORDER]
    return HEADER + '\nnamespace Gen.Src.Server\n\n' + '\n'.join(defs) + '\nend Gen.Src.Server\n'


if __name__ == '__main__':
    repo, outfile = sys.argv[1], sys.argv[2]
    try:
        text, status = translate_server(repo), 'ok'
    except (Untranslatable, StopIteration, SyntaxError, OSError) as e:
        text, status = f'/-! server_base.py: outside the translatable subset - {str(e).replace("-/", "- /")} -/\n', 'untranslatable: ' + str(e)
    if not os.path.exists(outfile) or open(outfile).read() != text:
        open(outfile, 'w').write(text)
    print(status)

#!/usr/bin/env python3
"""Source-level translation of the convenience setters and queries of the message classes (property C17):
`UbxCfgGnss.enable_gnss / disable_gnss / _find_entry / gps_glonass / gps_galileo_beidou`, `X4_Flags.enable / disable`,
`UbxCfgRate.set_rate_in_hz`, `UbxCfgCfgAction.save / reset`, `UbxCfgRstAction.warm_start / cold_start / start / stop`,
`UbxCfgEsflaSet.set`, `UbxCfgEsfla.lever_arm`, `UbxMgaIniTimeUtc.set_datetime`, `UbxUpdSosAction.backup / clear`
-> lean/UbxModel/Gen/SrcHelpers.lean.

A frame's field container is `Py.Store` (names to integer values; a name is a text and, for the fields of repeated blocks, an index:
`f'flags_{pos}'` is `("flags_", some pos)`).  A method is `def m (st : Py.Store) (args : Int…) : Except Ubx.Exc (ρ × Py.Store)`.
`self.f.X = e` is `Store.assign` (what `Fields.__setattr__` does: nothing for a name that is no field), `self.f.X` is `Store.attr`
(`AttributeError`), `self.f.get(n)` / `self.f._fields[n]` is `Store.item` (`KeyError`), `assert` is a branch that raises, a loop over
`range(n)` that returns or breaks at the first hit is `Py.firstIndex`, `x |= 1` / `x &= ~1` are `Py.setBit0` / `Py.clearBit0`,
`int(1000 / rate)` is integer division (the float quotient truncated: the same for the rates the method's `assert` lets through).
Class constants are resolved by importing the class.  Anything else raises `Untranslatable`."""
import ast
import importlib
import os
import sys

from pysrc2lean import Untranslatable, fail, lname

# (module, class, method, parameters, result): parameters are Int; `dt` stands for six of them
TARGETS = [
    ('ubx_cfg_gnss', 'X4_Flags', 'enable', [], 'value'),
    ('ubx_cfg_gnss', 'X4_Flags', 'disable', [], 'value'),
    ('ubx_cfg_gnss', 'UbxCfgGnss', '_find_entry', ['system'], 'optnat'),
    ('ubx_cfg_gnss', 'UbxCfgGnss', 'enable_gnss', ['system'], 'unit'),
    ('ubx_cfg_gnss', 'UbxCfgGnss', 'disable_gnss', ['system'], 'unit'),
    ('ubx_cfg_gnss', 'UbxCfgGnss', 'gps_glonass', [], 'unit'),
    ('ubx_cfg_gnss', 'UbxCfgGnss', 'gps_galileo_beidou', [], 'unit'),
    ('ubx_cfg_rate', 'UbxCfgRate', 'set_rate_in_hz', ['rate'], 'unit'),
    ('ubx_cfg_cfg', 'UbxCfgCfgAction', 'save', ['settings'], 'unit'),
    ('ubx_cfg_cfg', 'UbxCfgCfgAction', 'reset', ['settings'], 'unit'),
    ('ubx_cfg_rst', 'UbxCfgRstAction', 'warm_start', [], 'unit'),
    ('ubx_cfg_rst', 'UbxCfgRstAction', 'cold_start', [], 'unit'),
    ('ubx_cfg_rst', 'UbxCfgRstAction', 'start', [], 'unit'),
    ('ubx_cfg_rst', 'UbxCfgRstAction', 'stop', [], 'unit'),
    ('ubx_cfg_esfla', 'UbxCfgEsflaSet', 'set', ['lever_arm_type', 'x', 'y', 'z'], 'unit'),
    ('ubx_cfg_esfla', 'UbxCfgEsfla', 'lever_arm', ['armType'], 'opttriple'),
    ('ubx_mga_ini_time_utc', 'UbxMgaIniTimeUtc', 'set_datetime', ['dt'], 'unit'),
    ('ubx_upd_sos', 'UbxUpdSosAction', 'backup', [], 'unit'),
    ('ubx_upd_sos', 'UbxUpdSosAction', 'clear', [], 'unit'),
]
DT = ['year', 'month', 'day', 'hour', 'minute', 'second']
RESULT = {'unit': ('Unit', '()'), 'optnat': ('Option Nat', 'none'), 'opttriple': ('Option (Int × Int × Int)', 'none'), 'value': ('Unit', '()')}


class H:
    def __init__(self, repo, mod, cls, node):
        self.mod, self.cls, self.node = mod, cls, node
        self.pyclass = getattr(importlib.import_module('ubxlib.' + mod), cls)
        self.known = {(m, c, f): (p, r) for m, c, f, p, r in TARGETS}

    def const(self, src):
        """`<Class>.<NAME>` -> the integer the class attribute holds"""
        parts = src.split('.')
        if len(parts) == 2:
            mod = sys.modules[self.pyclass.__module__]
            c = getattr(mod, parts[0], None)
            v = getattr(c, parts[1], None) if c is not None else None
            if isinstance(v, int) and not isinstance(v, bool):
                return v
        return None

    def fname(self, n, env):
        """a field name: a text constant, an f-string of a text and one index, or a local that holds such a name"""
        if isinstance(n, ast.Constant) and isinstance(n.value, str):
            return f'("{n.value}", none)'
        if isinstance(n, ast.JoinedStr) and len(n.values) == 2 and isinstance(n.values[0], ast.Constant) and isinstance(n.values[1], ast.FormattedValue) \
                and n.values[1].format_spec is None and n.values[1].conversion == -1:
            a, t = self.expr(n.values[1].value, env)
            if t == 'nat':
                return f'("{n.values[0].value}", some {a})'
        if isinstance(n, ast.Name) and env.get(n.id, (None, None))[1] == 'fname':
            return env[n.id][0]
        fail(n, 'field name')

    def expr(self, n, env):
        src = ast.unparse(n)
        if isinstance(n, ast.Constant) and isinstance(n.value, int) and not isinstance(n.value, bool):
            return (f'({n.value} : Int)' if n.value >= 0 else f'(-{-n.value} : Int)'), 'int'
        if isinstance(n, ast.UnaryOp) and isinstance(n.op, ast.USub) and isinstance(n.operand, ast.Constant) and isinstance(n.operand.value, int):
            return f'(-{n.operand.value} : Int)', 'int'
        if isinstance(n, ast.Name) and n.id in env:
            return env[n.id]
        c = self.const(src)
        if c is not None:
            return f'({c} : Int)', 'int'
        if isinstance(n, ast.Attribute) and isinstance(n.value, ast.Name) and n.value.id == 'dt' and 'dt' in env and n.attr in DT:
            return f'dt_{n.attr}', 'int'
        # int(1000 / rate)
        if isinstance(n, ast.Call) and ast.unparse(n.func) == 'int' and len(n.args) == 1 and isinstance(n.args[0], ast.BinOp) and isinstance(n.args[0].op, ast.Div):
            (a, ta), (b, tb) = self.expr(n.args[0].left, env), self.expr(n.args[0].right, env)
            if ta == tb == 'int':
                return f'(Int.tdiv {a} {b})', 'int'
        # <item>.value of a local bound to an item
        if isinstance(n, ast.Attribute) and n.attr == 'value' and isinstance(n.value, ast.Name) and env.get(n.value.id, (None, None))[1] == 'item':
            return env[n.value.id][0], 'int'
        fail(n, 'expression')

    def raising(self, n, env):
        """(Lean of type Except Exc <t>, t) for the reads that can raise"""
        src = ast.unparse(n)
        if isinstance(n, ast.Attribute) and src.startswith('self.f.') and src.count('.') == 2:
            return f'(Py.Store.attr st ("{n.attr}", none))', 'int'
        if isinstance(n, ast.Call) and ast.unparse(n.func) == 'self.f.get' and len(n.args) == 1:
            return f'(Py.Store.item st {self.fname(n.args[0], env)})', 'item'
        if isinstance(n, ast.Attribute) and n.attr == 'value' and isinstance(n.value, ast.Call) and ast.unparse(n.value.func) == 'self.f.get' \
                and len(n.value.args) == 1:
            return f'(Py.Store.item st {self.fname(n.value.args[0], env)})', 'int'
        return None

    def cond(self, n, env):
        if isinstance(n, ast.Compare):
            xs = [self.expr(x, env) for x in [n.left] + n.comparators]
            ops = {ast.LtE: '≤', ast.Lt: '<', ast.Eq: '=', ast.GtE: '≥', ast.Gt: '>'}
            if all(t == 'int' for _, t in xs) and all(type(o) in ops for o in n.ops):
                return '(' + ' && '.join(f'decide ({xs[i][0]} {ops[type(o)]} {xs[i + 1][0]})' for i, o in enumerate(n.ops)) + ')'
        fail(n, 'condition')

    def first_hit_loop(self, s, rest, env, ind, after):
        """for i in range(<n>): <reads>; if <item>.value == <x>: return i | data = {...}; break"""
        pad = ' ' * ind
        if not (isinstance(s.target, ast.Name) and isinstance(s.iter, ast.Call) and ast.unparse(s.iter.func) == 'range' and len(s.iter.args) == 1 and not s.orelse):
            fail(s, 'loop')
        r = self.raising(s.iter.args[0], env)
        if not r or r[1] != 'int':
            fail(s, 'range')
        i = s.target.id
        e2 = dict(env)
        e2[i] = (i, 'nat')
        body = [x for x in s.body if not (isinstance(x, ast.Expr) and isinstance(x.value, ast.Constant))]
        binds, test, hit = [], None, None
        for st_ in body:
            if isinstance(st_, ast.Assign) and isinstance(st_.targets[0], ast.Name):
                v = st_.value
                if isinstance(v, ast.JoinedStr):
                    e2[st_.targets[0].id] = (self.fname(v, e2), 'fname')
                    continue
                rr = self.raising(v, e2)
                if rr and rr[1] == 'item':
                    binds.append((st_.targets[0].id, rr[0]))
                    e2[st_.targets[0].id] = (st_.targets[0].id + '_v', 'item')
                    continue
                fail(st_, 'loop body')
            if isinstance(st_, ast.If) and not st_.orelse:
                test, hit = st_.test, st_.body
                continue
            fail(st_, 'loop body')
        if test is None or not (isinstance(test, ast.Compare) and isinstance(test.ops[0], ast.Eq)):
            fail(s, 'loop without a test')
        (a, ta), (b, tb) = self.expr(test.left, e2), self.expr(test.comparators[0], e2)
        reads = ''.join(f'{call} >>= fun {name}_v => ' for name, call in binds)
        pred = f'(fun {i} => {reads}.ok (decide ({a} = {b})))'
        n_expr = f'{r[0]} >>= fun n_blocks =>\n{pad}  Py.firstIndex n_blocks.toNat {pred} >>= fun hit =>'
        # what happens at the hit
        if len(hit) == 1 and isinstance(hit[0], ast.Return) and ast.unparse(hit[0].value) == i:
            if [x for x in rest if not isinstance(x, ast.Expr)]:
                fail(s, 'code after the search loop')
            return f'{n_expr}\n{pad}  .ok (hit, st)'
        if len(hit) == 2 and isinstance(hit[1], ast.Break) and isinstance(hit[0], ast.Assign) and isinstance(hit[0].value, ast.Dict):
            d = hit[0].value
            name = ast.unparse(hit[0].targets[0])
            if [ast.unparse(k) for k in d.keys] != ["'x'", "'y'", "'z'"] or len(rest) != 1 or ast.unparse(rest[0]) != f'return {name}' \
                    or env.get(name, (None, None))[1] != 'none':
                fail(s, 'query loop')
            e3 = dict(e2)
            e3[i] = ('k', 'nat')
            vals = []
            for v in d.values:
                rr = self.raising(v, e3)
                if not rr or rr[1] != 'int':
                    fail(v, 'dict value')
                vals.append(rr[0])
            return (f'{n_expr}\n{pad}  match hit with\n{pad}  | none => .ok (none, st)\n{pad}  | some k =>\n{pad}    {vals[0]} >>= fun x =>\n'
                    f'{pad}    {vals[1]} >>= fun y =>\n{pad}    {vals[2]} >>= fun z =>\n{pad}    .ok (some (x, y, z), st)')
        fail(s, 'what the loop does at a hit')

    def block(self, stmts, env, ind, end):
        stmts = [s for s in stmts if not (isinstance(s, ast.Expr) and isinstance(s.value, ast.Constant))]
        pad = ' ' * ind
        if not stmts:
            return end
        s, rest = stmts[0], stmts[1:]
        nxt = lambda e=env: self.block(rest, e, ind, end)
        src = ast.unparse(s)
        if isinstance(s, ast.Assert):
            return f'if {self.cond(s.test, env)} then\n{pad}  {self.block(rest, env, ind + 2, end)}\n{pad}else .error .assertionError'
        if isinstance(s, ast.AugAssign) and src in ('self.value |= 1', 'self.value &= ~1'):
            f = 'Py.setBit0' if isinstance(s.op, ast.BitOr) else 'Py.clearBit0'
            return f'let value := {f} value\n{pad}{nxt()}'
        if isinstance(s, ast.Assign) and len(s.targets) == 1:
            t0, v = s.targets[0], s.value
            if isinstance(t0, ast.Attribute) and ast.unparse(t0.value) == 'self.f':
                a, t = self.expr(v, env)
                if t != 'int':
                    fail(s, 'value assigned to a field')
                return f'let st := Py.Store.assign st ("{t0.attr}", none) {a}\n{pad}{nxt()}'
            if isinstance(t0, ast.Name):
                if isinstance(v, ast.Constant) and v.value is None:
                    e2 = dict(env)
                    e2[t0.id] = ('none', 'none')
                    return nxt(e2)
                if isinstance(v, ast.JoinedStr):
                    e2 = dict(env)
                    e2[t0.id] = (self.fname(v, env), 'fname')
                    return nxt(e2)
                if isinstance(v, ast.Call) and ast.unparse(v.func) == 'self._find_entry' and len(v.args) == 1:
                    a, t = self.expr(v.args[0], env)
                    e2 = dict(env)
                    e2[t0.id] = (t0.id, 'optnat')
                    return f'Gen.Src.Helpers.UbxCfgGnss._find_entry st {a} >>= fun ({t0.id}, st) =>\n{pad}  {self.block(rest, e2, ind + 2, end)}'
            fail(s, 'assignment')
        if isinstance(s, ast.If):
            t = s.test
            # if pos is not None: <body>
            if isinstance(t, ast.Compare) and isinstance(t.ops[0], ast.IsNot) and ast.unparse(t.comparators[0]) == 'None' and isinstance(t.left, ast.Name) \
                    and env.get(t.left.id, (None, None))[1] == 'optnat' and not s.orelse:
                e2 = dict(env)
                e2[t.left.id] = (t.left.id + '_v', 'nat')
                return (f'match {t.left.id} with\n{pad}| some {t.left.id}_v =>\n{pad}    {self.block(s.body + rest, e2, ind + 4, end)}\n'
                        f'{pad}| none =>\n{pad}    {self.block(rest, env, ind + 4, end)}')
            fail(s, 'if statement')
        if isinstance(s, ast.Expr) and isinstance(s.value, ast.Call):
            c = s.value
            f = ast.unparse(c.func)
            # self.<method>(args) of the same class
            if isinstance(c.func, ast.Attribute) and isinstance(c.func.value, ast.Name) and c.func.value.id == 'self' \
                    and (self.mod, self.cls, c.func.attr) in self.known:
                args = ' '.join(self.expr(a, env)[0] for a in c.args)
                return f'Gen.Src.Helpers.{self.cls}.{lname(c.func.attr)} st {args} >>= fun (_, st) =>\n{pad}  {self.block(rest, env, ind + 2, end)}'
            # self.f._fields[field].enable() / .disable()
            if isinstance(c.func, ast.Attribute) and c.func.attr in ('enable', 'disable') and isinstance(c.func.value, ast.Subscript) \
                    and ast.unparse(c.func.value.value) == 'self.f._fields' and not c.args:
                name = self.fname(c.func.value.slice, env)
                return (f'Py.Store.item st {name} >>= fun v =>\n{pad}  Gen.Src.Helpers.X4_Flags.{c.func.attr} v >>= fun (_, v) =>\n'
                        f'{pad}  let st := Py.Store.assign st {name} v\n{pad}  {self.block(rest, env, ind + 2, end)}')
        if isinstance(s, ast.For):
            return self.first_hit_loop(s, rest, env, ind, end)
        if isinstance(s, ast.Return) and s.value is None:
            return end
        fail(s, 'statement')

    def method(self, name, params, result):
        fn = next((n for n in self.node.body if isinstance(n, ast.FunctionDef) and n.name == name), None)
        if fn is None:
            fail(self.node, f'method {self.cls}.{name} not found')
        got = [a.arg for a in fn.args.args if a.arg != 'self']
        if got != params or fn.args.defaults:
            fail(fn, 'signature')
        env = {}
        sig = []
        for p in params:
            if p == 'dt':
                env['dt'] = ('dt', 'datetime')
                sig += [f'(dt_{a} : Int)' for a in DT]
            else:
                env[p] = (p, 'int')
                sig.append(f'({p} : Int)')
        rl, dflt = RESULT[result]
        if result == 'value':      # a method of an item: the object is its value
            body = self.block(fn.body, env, 2, '.ok ((), value)')
            return f'def {self.cls}.{lname(name)} (value : Int) : Except Ubx.Exc (Unit × Int) :=\n  {body}\n'
        body = self.block(fn.body, env, 2, f'.ok ({dflt}, st)')
        return f'def {self.cls}.{lname(name)} (st : Py.Store) {" ".join(sig)} : Except Ubx.Exc ({rl} × Py.Store) :=\n  {body}\n'


HEADER = '''import UbxModel.Model.PyHelpers
/-! GENERATED by tools/pysrc2lean_helpers.py from the message classes of the working tree of /repo - do not edit.
    The convenience setters and queries of C17, statement by statement, over `Py.Store` in `Except Ubx.Exc`.
    `Proofs/SrcEquiv/Helpers.lean` relates these definitions to the hand-written model (Model/Helpers.lean). -/
set_option linter.unusedVariables false

namespace Gen.Src.Helpers

'''


def translate_helpers(repo):
    if repo not in sys.path:
        sys.path.insert(0, repo)
    defs = []
    trees = {}
    for mod, cls, name, params, result in TARGETS:
        if mod not in trees:
            trees[mod] = ast.parse(open(os.path.join(repo, 'ubxlib', mod + '.py')).read())
        node = next((n for n in trees[mod].body if isinstance(n, ast.ClassDef) and n.name == cls), None)
        if node is None:
            fail(trees[mod], f'class {cls} not found in {mod}.py')
        defs.append(H(repo, mod, cls, node).method(name, params, result))
    return HEADER + '\n'.join(defs) + '\nend Gen.Src.Helpers\n'


if __name__ == '__main__':
    repo, outfile = sys.argv[1], sys.argv[2]
    try:
        text, status = translate_helpers(repo), 'ok'
    except (Untranslatable, StopIteration, SyntaxError, OSError, ImportError, AttributeError) as e:
        text, status = f'/-! helper setters: outside the translatable subset - {str(e).replace("-/", "- /")} -/\n', 'untranslatable: ' + str(e)
    if not os.path.exists(outfile) or open(outfile).read() != text:
        open(outfile, 'w').write(text)
    print(status)

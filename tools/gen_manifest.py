#!/usr/bin/env python3
"""Writes /verif/MANIFEST.json from the per-property notes below (kept in one place so that the manifest,
the plan of harness/plan.py and DESIGN.md §7 do not drift apart)."""
import json, os
ROOT = os.path.dirname(os.path.dirname(os.path.abspath(__file__)))
BASELINE = "cd /repo && /venv/bin/python -m pytest -ra -q -p no:cacheprovider --timeout=900 --continue-on-collection-errors"

COMMON_NOTE = ("Trusted: Lean 4.33 kernel; axioms propext, Classical.choice, Quot.sound only (audited per theorem on every run; no sorry, "
               "native_decide, bv_decide or own axioms); the translators tools/extract.py (tables) and tools/pysrc2lean*.py (control logic of the parsers, the checksum, to_bytes(), the request loop, the configuration-item codec, the field codec, the serial back end, the helper setters, the renderers); the correspondence check (differential, sizes in the "
               "evidence); the hand-written Spec/ transcription of the u-blox interface description. ")

P = {
 'C01': ("Theorems C01.toBytes_eq_wire / toBytes_twice / toBytes_keeps / wire_injective: the model of to_bytes() equals the closed-form wire format Spec.wire for every class/id, every payload length 0..65535 and content. Tie: to_bytes() of real frame objects against the model (quick: every length 0..1100 + bands; thorough: all 65536 lengths).",
         "CPython bytearray/int semantics; frames are ad-hoc UbxFrame subclasses with `data` assigned directly.",
         "Lean 4 proof (closed-form Fletcher + bit arithmetic) + differential correspondence of to_bytes()", "§7 C01"),
 'C02': ("Theorems C02.complete (grammar streams, every chunking and filter) and C02.refines_reference_scanner (parser = whole-stream reference scanner Spec.scan for EVERY byte string). Tie: exhaustive black-box transition correspondence (each state x 256 bytes x filters x continuations) + generated grammar streams.",
         "The parser is driven through its public API only; R1: corrupted sync bytes are filler.",
         "Lean 4 proof (refinement of the byte-wise parser to a whole-stream scanner, induction over the stream) + exhaustive transition correspondence", "§7 C02, §13"),
 'C03': ("Theorems C03.sound (accounting invariant: consumed bytes = well-formed segments ++ pending prefix, queue = packets of the segments), data_packet_is_wire, bad_checksum_one_marker, long_header_yields_nothing, long_does_not_hide - for every byte string, chunking and filter. Tie as C02 with malformed streams weighted up.",
         "As C02.", "Lean 4 proof (invariant by induction over the byte stream) + exhaustive transition correspondence", "§7 C03"),
 'C04': ("Theorems C04.poll_returns / set_returns / setMga_returns / poll_ack_after_response over an environment oracle that ranges over every receiver behaviour: a returned frame is an accepted answer built by the registered class from a Spec.wire occurrence in bytes received after a transmission; for CFG polls the ACK-ACK occurs later in the byte stream than the response. Tie: real UbxServerBase_ over scripted and buffered stubs on a virtual clock, trace validation.",
         "Partial: the transports are stubs (oracle per call / buffered with arrival time-lines); a blocking receive advances the clock by >= 1 tick.",
         "Lean 4 proof (provenance invariant over the request loop, well-founded recursion on the deadline) + trace-validated correspondence", "§7 C04, §13"),
 'C05': ("Theorems C05.set_bounded / setMga_bounded / poll_bounded / fireAndForget_once: at most retries+1 transmissions and (retries+1)(D+T) ticks (2 periods for CFG polls) for every environment whose receives take 1..T ticks; the loops are total Lean functions (termination by deadline - now). Tie: real request loop on the virtual clock with cyclic receiver tails.",
         "Partial: real time is replaced by the virtual clock ticks/1024 s (exact in binary floating point); transmit/flush/recover take no time.",
         "Lean 4 proof (termination + arithmetic bounds by induction on attempts) + correspondence on a virtual clock", "§7 C05"),
 'C06': ("Theorems C06.set / setMga / poll and their _env forms: if the k-th transmission succeeds and the receive calls starting before its deadline deliver benign traffic followed by the answer (CFG: response then ACK), and attempts 1..k-1 fail (transmission failed or a window without awaited frame), the result is that answer after exactly k sends - every chunking. Tie: buffered-stub scenarios built to satisfy the premise (re-checked with the reference scanner), trace validation.",
         "Partial: as C04; 'in time' = delivered by receive calls that start before the deadline.",
         "Lean 4 proof (induction over 'arrives in time' + parser completeness C02/C03 + restart equivalence) + trace-validated correspondence", "§7 C06, §13"),
 'C07': ("Theorems C07.<class> (21 fixed layouts: generated field table = prescribed offsets/widths/signedness, by decide over the table regenerated from /repo on this run), cfgGnss / cfgEsfla / esfStatus / monVer for ALL block counts, decoded_as_prescribed (generic, by induction over the table), valget_entries. Tie: translator + construct() of every class against the model; oracle: Spec.read at the prescribed place.",
         "R5: text fields ASCII; R6: well-formed = exactly the prescribed length; struct little-endian formats modelled, not verified.",
         "Lean 4 proof over translator-generated tables (decide + generic induction) + differential correspondence", "§7 C07"),
 'C08': ("Theorems C08.encode_after_decode / decode_after_encode / edit_is_local (generic over well-formed tables) instantiated on every generated table and every block count; valget_encode_after_decode (VALGET responses: every pair comes back as the key id with reserved bits cleared + the original value bytes). Tie: construct/pack and construct/assign/pack of every class at type boundaries; oracle: Spec.zeroReserved / Spec.rmw over the prescribed layouts.",
         "As C07; count fields are ordinary fields (editing a count does not rebuild the block list - modelled as the code does it).",
         "Lean 4 proof (round-trip laws by induction over the field table) + differential correspondence", "§7 C08"),
 'C09': ("Theorems C09.ubx_chunking / nmea_chunking (folding process over any partition = process of the concatenation, whole state) and ubx_restart / ubx_restart_keeps / nmea_restart (simulation relation: after restart() the parser is indistinguishable from a new one with the same filter, queue and counter offset). Tie: streams x chunkings x restart positions on both real parsers.",
         "As C02.", "Lean 4 proof (foldl over append; simulation relation preserved by every operation) + differential correspondence", "§7 C09"),
 'C10': ("Theorems C10.sequence_like_new (every request of every sequence of the four request kinds = the same request on a newly set-up server, for every environment), set/setMga/poll_like_new, poll_keeps_setUp, calls_protocol (a flush immediately before every transmission). Tie: request sequences on ONE real server over the buffered stub, trace validation incl. the exact call sequence; oracle: each request re-run alone on a fresh server.",
         "Partial: leakage through the transport's own buffer is excluded by the contract of _flush_input(), which the buffered stub implements (serial back end); gpsd inherits the no-op.",
         "Lean 4 proof (two-run simulation by strong induction on deadline - now, registry agreement) + trace-validated correspondence", "§7 C10, §13"),
 'C11': ("Theorems C11.queued_iff, byte_queues, recognition_ignores_history, packet_fifo / packet_sentinel / empty_queue, heap_refines, handed_out_never_changes, queued_unchanged_by_parsing over the explicit heap model (HeapParser refines Parser; buffers referenced by the queue or handed out never change). Tie: operation schedules between chunks; every payload object handed out is re-read at the end.",
         "Python object identity of bytearrays is modelled explicitly (Model/HeapParser); R11: the caller does not mutate the filter list.",
         "Lean 4 proof (invariant over operation histories + heap refinement) + differential correspondence", "§7 C11"),
 'C12': ("Theorems C12.wire_is_canonical, set/setMga/poll_all_same, fireAndForget_same (every entry of sent = Spec.wire of the request, <= retries+1 times, no environment assumption), tty_transmit, tty_recover, gpsd_command, unhexlify_hexlify, gpsd_success_only_if. Tie: transmitted bytes of scripted requests; server_tty/server.GnssUBlox over stub serial.Serial / stub sockets.",
         "Partial: OS serial driver and gpsd themselves; R8: success => reply contains OK or ACK; gpsd replies ASCII.",
         "Lean 4 proof + differential correspondence over stub back ends", "§7 C12"),
 'C13': ("Theorems C13.key_id_fields, roundtrip, key_exact (every key id with zero reserved bits), published_keys (decide over the key table regenerated from /repo). Tie: translator + pack/unpack/from_key over sizes x signedness x boundary values x every published key.",
         "R2: in-range relative to the key table's signedness; R12: size codes 1..5.",
         "Lean 4 proof (bit-field algebra, decide over generated key table) + differential correspondence", "§7 C13"),
 'C14': ("Theorems C14.unpack_dichotomy (ValueError or a prefix that re-encodes to the same bytes, reserved bits cleared), too_short, pack_rejects_group/item/size/value, valset_payload, valget_poll_payload, valget_dichotomy. Tie: exhaustive size code x available bytes x patterns, random byte strings, VALSET/VALGET payloads with each corruption kind.",
         "R3: 1-bit items by truthiness; R4: 1-3 trailing bytes are not a pair.",
         "Lean 4 proof (case analysis with exception kinds in Except) + differential correspondence", "§7 C14"),
 'C15': ("Theorems C15.value_is_fletcher (closed form for every byte list), add_stays_in_range, reachable_in_range, matches_iff, depends_only_on_bytes, reset_then_value. Tie: exhaustive over the full state space in the thorough tier (65536 states x 256 bytes), the 256x8 plane in quick.",
         "Residue: add() is a function of (cka, ckb, byte).", "Lean 4 proof (induction with generalised accumulator) + exhaustive correspondence", "§7 C15"),
 'C16': ("Theorems C16.counts_exactly / counts_from / count_additive: frames_rx = Spec.Nmea.count (positional predicate) for every byte string and chunking. Tie: exhaustive transitions (5 states x 256 bytes) + generated streams.",
         "As C02.", "Lean 4 proof (induction over the stream, one case per state x character class) + exhaustive transition correspondence", "§7 C16"),
 'C17': ("Theorems C17.enable_spec / disable_spec (every block list and system), gps_glonass_spec / gps_galileo_beidou_spec, rate_spec, cfg_save_spec, cfg_reset_spec, rst_spec, sos_spec, lever_arm_spec, utc_values, esfla_set_spec against Spec.Helpers. Tie: real helpers on block lists of all orders and subsets, boundary arguments; oracle: the post-conditions on the re-encoded payload.",
         "int(1000/rate) (float) tied exhaustively for 1..10.", "Lean 4 proof + differential correspondence", "§7 C17"),
 'C18': ("Theorems C18.verdict / scan_correct / verdict_spec (true <=> a count reached 2 on the received bytes, counts by Spec.scan / Spec.Nmea.count), yes_if_two_ubx_frames, yes_if_two_nmea_sentences, time (<= interval + T). Tie: real server_tty.scan() over a stub serial port with timed byte scripts.",
         "Partial: real serial timing; virtual clock.", "Lean 4 proof (well-founded loop over the deadline + parser refinement) + differential correspondence", "§7 C18"),
 'C19': ("Theorems C19.render_total (every renderer, every value, fresh/decoded/edited, over generated string tables), frame_text_total, level_irrelevant, level_irrelevant_any, cfgitem_text_total. Tie: exhaustive over the rendered byte of every renderer; str() of every class; requests with real frame classes at DEBUG vs disabled.",
         "R7: stale derived text is not a violation; f-string formatting trusted.", "Lean 4 proof (bounds of masked table indices over generated tables) + exhaustive renderer correspondence", "§7 C19"),
 'C20': ("Theorems C20.devices_go (= decision table for every list), line/chunk_never_raises, decision_table, enabled_iff_selected, only_requested, and over the handshake loop: ready_chunk (ready <=> a device is selected, for every input), enable_ready (setup() does not return before that), addressed_to_selected (a command after setup() is '&' + the selected device + '=' + hex). Tie: _parse_gpsd_msg on JSON of every shape through the real json/str machinery; setup()/_transmit over stub sockets.",
         "Partial: gpsd itself; json.loads/splitlines/decode trusted (the model is handed their per-line outcome); termination of _enable() not claimed.",
         "Lean 4 proof (decision table + invariants over chunk histories) + differential correspondence", "§7 C20"),
}

# where the control logic itself is regenerated from the Python source on every run and proved equal to the model (§14.4)
SRV = (" Source-level tie: poll / set / set_mga / fire_and_forget / _send / _wait / _check_* of server_base.py are translated from the Python AST on every run "
       "(tools/pysrc2lean_server.py -> Gen/SrcServer.lean) and proved equal to the model (Proofs/SrcEquiv/Server*, 12 theorems), the headline theorems are restated "
       "for the generated definitions (TransferServer); unavailable / in doubt on a tree outside the translatable subset - then said in the evidence, never a verdict.")
CFG = (" Source-level tie: CfgKeyData.from_key / pack / unpack and their helpers are translated from the Python AST on every run (tools/pysrc2lean.py, "
       "tools/pysrc2lean_cfg.py -> Gen/Src.lean, Gen/SrcCfg.lean) and proved equal to the model (Proofs/SrcEquiv/CfgKeyData, CfgItem; TransferCfg).")
PARSE = (" Source-level tie: the parser / checksum / to_bytes() control logic is translated from the Python AST on every run (tools/pysrc2lean.py -> Gen/Src.lean) "
         "and proved equal to the model (Proofs/SrcEquiv, Transfer*).")
TYP = (" Source-level tie: Item / Padding / CH pack and unpack and the Fields.pack / Fields.unpack loops of types.py are translated from the Python AST on every run "
       "(tools/pysrc2lean_types.py -> Gen/SrcTypes.lean) and proved equal to the model's Kind.pack/unpack and Table.encode/decode (Proofs/SrcEquiv/Types; TransferTypes); "
       "the field tables themselves are regenerated by tools/extract.py.")
TTY = (" Source-level tie: scan / _receive / _transmit / _flush_input / _recover of server_tty.py are translated from the Python AST on every run "
       "(tools/pysrc2lean_tty.py -> Gen/SrcTty.lean) and proved equal to the model (Proofs/SrcEquiv/Tty; TransferTty), on top of the parser translation.")
HLP = (" Source-level tie: every helper the property names (enable_gnss / disable_gnss / _find_entry / the two presets, X4_Flags.enable / disable, set_rate_in_hz, save / reset, "
       "warm_start / cold_start / start / stop, UbxCfgEsflaSet.set, lever_arm, set_datetime, backup / clear) is translated from the Python AST on every run "
       "(tools/pysrc2lean_helpers.py -> Gen/SrcHelpers.lean) and proved equal to the model on the field container of a decoded frame (Proofs/SrcEquiv/Helpers*; TransferHelpers).")
RND = (" Source-level tie: the thirteen table-driven __str__ methods, with the attributes their unpack derives from the value, are translated from the Python AST on every run "
       "(tools/pysrc2lean_render.py -> Gen/SrcRender.lean) and proved equal to the model's render (Proofs/SrcEquiv/Render; TransferRender: every generated renderer is total).")
VGT = (" The decoding loop of a VALGET response (UbxCfgValGet.unpack) is translated too (tools/pysrc2lean_valget.py -> Gen/SrcValget.lean, calling the generated CfgKeyData.unpack and Fields.unpack) "
       "and proved equal to the model's valgetDecode - same items in payload order, same exception, never out of iterations (Proofs/SrcEquiv/Valget; TransferValget).")
VST = (" The constructors of UBX-CFG-VALSET and UBX-CFG-VALGET (poll) and Fields.pack over the container they build are translated too (tools/pysrc2lean_valset.py -> Gen/SrcValset.lean) "
       "and proved equal to the model's valsetPayload / valgetPollPayload: AssertionError outside 1..64 entries, otherwise the header and one field per entry in order (Proofs/SrcEquiv/Valset; TransferValset).")
BLK = (" The unpack methods of the messages whose field table depends on the payload (UBX-CFG-GNSS, UBX-CFG-ESFLA, UBX-ESF-STATUS, UBX-MON-VER) are translated too "
       "(tools/pysrc2lean_blocks.py -> Gen/SrcBlocks.lean, calling the generated Fields.unpack) and proved equal to the model's decodeCounted / decodeMonVer: the count read from the first pass, "
       "the assert of ESFLA, one block of fields per count with no name ever twice, the second pass over everything (Proofs/SrcEquiv/Blocks; TransferBlocks).")
FLD = (" The bookkeeping of the field container (Fields.__init__ / next_ord / add / get) is translated too (tools/pysrc2lean_fields.py -> Gen/SrcFields.lean) and what the other translations take "
       "as primitives is proved of it: the items sorted by their ordinal are the items in the order added, for every history of add calls; add refuses exactly the names already there (Proofs/SrcEquiv/Fields).")
STR = (" The base renderers (Item.__str__, Fields.__str__, UbxFrame.__str__) are translated too (tools/pysrc2lean_str.py -> Gen/SrcStr.lean) and the first clause is proved of them for every frame: "
       "whenever str(frame) returns, the text holds the message name and the name of every field that is no padding, and it returns whenever every item's own text does (Proofs/SrcEquiv/Str); CfgKeyData.__str__ likewise (tools/pysrc2lean_keystr.py), proved equal to the model's text of an item (Proofs/SrcEquiv/KeyStr), with C19's statements about an item's text restated for the generated definition (TransferKeyStr).")
FAC = (" The frame registry (frame_factory.py register / build / build_with_data, UbxFrame.construct) is translated too (tools/pysrc2lean_factory.py -> Gen/SrcFactory.lean, over a model of dict) "
       "and proved to answer like the model's registry after any history of registrations; build_with_data is the primitive the request loop's translation uses (Proofs/SrcEquiv/Factory; TransferFactory).")
GPS = (" Source-level tie: _parse_gpsd_msg / _parse_version / _parse_devices of server.py are translated from the Python AST on every run "
       "(tools/pysrc2lean_gpsd.py -> Gen/SrcGpsd.lean; subscript / iteration / membership / comparison on a decoded JSON value of any shape are primitives of Model/PyGpsd.lean) "
       "and proved equal to the model's parseChunk on well-formed chunks; 'enabled exactly when a device is selected' is proved on the generated definitions for every chunk, "
       "ill-formed ones and calls that end in an exception included (Proofs/SrcEquiv/Gpsd; TransferGpsd). The command framing (the header built in setup(), header + hexlify(data) in _transmit(), success exactly on OK / ACK) is read off the source as well (tools/pysrc2lean_gpsdtx.py) and proved equal to the model's (Proofs/SrcEquiv/GpsdTx); TransferGpsdTx restates for the generated definitions that the frame bytes are recovered from what follows the header, the command's length, and that success is reported exactly on OK / ACK.")
SRC = {'C20': GPS, 'C19': RND + STR, 'C17': HLP + BLK, 'C07': TYP + BLK + FLD, 'C08': TYP + VGT + BLK + FLD, 'C04': SRV + FAC, 'C05': SRV, 'C06': SRV + FAC, 'C10': SRV + FAC, 'C12': SRV + TTY, 'C13': CFG, 'C14': CFG + VGT + VST,
       'C01': PARSE, 'C02': PARSE, 'C03': PARSE, 'C09': PARSE, 'C11': PARSE, 'C15': PARSE, 'C16': PARSE, 'C18': PARSE + TTY}
SRCTECH = ' + source-level translation (Python AST -> Lean) proved equal to the model'

checks = []
for pid in sorted(P):
    text, note, tech, ref = P[pid]
    if pid in SRC:
        text, tech = text + SRC[pid], tech + SRCTECH
    checks.append({
        'property_id': pid,
        'quick_cmd': f'./check {pid} --tier quick',
        'thorough_cmd': f'./check {pid} --tier thorough',
        'evidence_file': f'evidence/{pid}.json',
        'replay_cmd_template': f'./check {pid} --replay {{path}}',
        'engine': 'lean4-model',
        'level_claimed': {'category': 'proof', 'text': text, 'design_ref': 'DESIGN.md ' + ref},
        'level_note': COMMON_NOTE + note,
        'technique': tech,
    })
m = {
 'version': 1,
 'setup_cmd': './check --setup',
 'hooks': {'guard': 'UBXLIB_VERIF',
           'enable': 'none needed: time, serial and socket are substituted from outside the package by harness/realenv.py; /repo carries no hook commits',
           'baseline_off_cmd': BASELINE, 'source_commits': [], 'add_only': True},
 'engines': [{'name': 'lean4-model', 'path': 'lean/', 'serves_properties': sorted(P),
              'kind_free_text': 'Lean 4 model (Model/), translator-generated tables (Gen/), independent specification (Spec/), theorems per property (Props/Cxx.lean), '
                                'line-protocol drivers Driver.lean / SpecDriver.lean; harness/ runs the real ubxlib next to the model'}],
 'checks': checks,
 'not_applicable': [],
 'notes': 'Every check: translator (Gen/ regenerated from /repo) -> lake build of the property theorems -> #print axioms audit -> correspondence model vs code '
          '-> property oracles on the real code (Spec evaluated by SpecDriver). known_findings.json lists the twelve defects found (ten of the pinned tree, two later), all repaired by fix: commits in /repo. '
          'Exit 2 = the check itself could not run.',
}
json.dump(m, open(os.path.join(ROOT, 'MANIFEST.json'), 'w'), indent=1)
print('checks', len(checks))

#!/usr/bin/env python3
"""regress_seeds.py [--root <copy of /verif>] [--only <substring>]    (development aid)
Every kept seeded change once more: scratch clone of /repo, patch applied, the quick check of its property (seed 0) run
from the given copy of this directory (default: this one).  Prints one line per seed and writes the failing inputs found
to <root>/.scratch/regress.json (what a corpus is harvested from).  Nothing in /repo is touched."""
import json, os, shutil, subprocess, sys, glob
HERE = os.path.dirname(os.path.dirname(os.path.abspath(__file__)))
args = sys.argv[1:]
root = args[args.index('--root') + 1] if '--root' in args else HERE
only = args[args.index('--only') + 1] if '--only' in args else ''
out = {}
for d in sorted(glob.glob(os.path.join(HERE, 'seeded', '*'))):
    sid = os.path.basename(d)
    if only not in sid:
        continue
    prop = json.load(open(os.path.join(d, 'meta.json')))['property']
    W = '/root/work/reg-%d' % os.getpid()
    shutil.rmtree(W, ignore_errors=True)
    subprocess.run(['git', 'clone', '-q', '/repo', W], check=True)
    try:
        a = subprocess.run(['git', 'apply', '--3way', os.path.join(d, 'patch.diff')], cwd=W, capture_output=True, text=True)
        if a.returncode:
            print(sid, 'PATCH-DOES-NOT-APPLY', flush=True)
            continue
        r = subprocess.run([os.path.join(root, 'check'), prop, '--tier', 'quick'], capture_output=True, text=True,
                           env=dict(os.environ, VERIF_REPO=W, VERIF_SEED='0'))
        lines = [l for l in r.stdout.splitlines() if l.startswith(('OK', 'VIOLATION'))]
        found = []
        for l in lines:
            if 'replay=' in l:
                rp = json.load(open(os.path.join(root, l.split('replay=')[1].split()[0])))
                found.append({k: rp.get(k) for k in ('kind', 'component', 'input', 'what', 'interpreter_flags', 'hashseed')})
        out[sid] = {'property': prop, 'exit': r.returncode, 'found': found}
        print(sid, r.returncode, 'failing-input' if any(f['kind'] == 'failing-input' for f in found) else (lines[:1] or ['?'])[0][:60], flush=True)
    finally:
        shutil.rmtree(W, ignore_errors=True)
os.makedirs(os.path.join(root, '.scratch'), exist_ok=True)
json.dump(out, open(os.path.join(root, '.scratch', 'regress.json'), 'w'), indent=1)
missed = [k for k, v in out.items() if v['exit'] != 1 or not any(f['kind'] == 'failing-input' for f in v['found'])]
print(f'{len(out)} seeds, {len(out) - len(missed)} flagged with a failing input; not flagged: {missed}')

#!/usr/bin/env python3
"""Source-level translation of the gpsd handshake: `ubxlib/server.py`, class `GnssUBlox` (`_parse_gpsd_msg`, `_parse_version`,
`_parse_devices`), from the Python AST of the working tree into Lean definitions over `Py.Gpsd.Server` / `Py.Ctl`
(lean/UbxModel/Model/PyGpsd.lean) -> lean/UbxModel/Gen/SrcGpsd.lean.  Same translation scheme as tools/pysrc2lean_server.py (which it
extends), with the dynamic typing the handshake relies on made explicit: `j[key]`, `for x in j`, `key in j`, `j == 'text'`,
`isinstance(j, dict)` on a decoded JSON value of any shape are the primitives of Model/PyGpsd.lean, each with the exception CPython
raises for the shapes it does not fit; `try … except (A, B): pass` keeps what the body changed before it raised.
`data.decode().splitlines()` and `json.loads(entry)` are modelled: a chunk is presented as what they made of it."""
import ast
import os
import sys

import pysrc2lean_server as S
from pysrc2lean import Untranslatable, fail, lname

METHODS = {
    '_parse_version': ([('data', 'json')], 'unit'),
    '_parse_devices': ([('data', 'json')], 'unit'),
    '_parse_gpsd_msg': ([('data', 'chunk')], 'unit'),
}
ORDER = ['_parse_version', '_parse_devices', '_parse_gpsd_msg']
S.LEANTYPE.update({'json': 'Ubx.Gpsd.Json', 'chunk': 'Ubx.Gpsd.Chunk', 'line': 'Ubx.Gpsd.Line', 'lines': 'List Ubx.Gpsd.Line'})
S.VARTYPE.update({'json': 'Ubx.Gpsd.Json', 'chunk': 'Ubx.Gpsd.Chunk', 'line': 'Ubx.Gpsd.Line', 'lines': 'List Ubx.Gpsd.Line'})
DIALECT = {'ns': 'Gen.Src.Gpsd', 'self': 'Py.Gpsd.Server', 'env': 'Unit', 'timeNow': 'Py.timeNow', 'res': 'Py.Gpsd.Res', 'finish': 'Py.Gpsd.finish',
           'methods': METHODS, 'void': {}}
EXC = {'ValueError': '.valueError', 'RecursionError': '.recursionError', 'KeyError': '.keyError', 'TypeError': '.typeError', 'IndexError': '.indexError'}
SELF_ATTRS = {'device_name': 'optstr', 'enabled': 'bool', 'selected_device': 'optjson', 'release': 'optjson'}


class GpsdTranslator(S.ServerTranslator):
    def expr(self, n, env):
        if isinstance(n, ast.Attribute) and isinstance(n.value, ast.Name) and n.value.id == 'self' and n.attr in SELF_ATTRS:
            return f'st.self.{n.attr}', SELF_ATTRS[n.attr]
        return super().expr(n, env)

    def subscript(self, n, env):
        """<json>['key'] -> (Lean of type Except Exc Json)"""
        if isinstance(n, ast.Subscript) and isinstance(n.slice, ast.Constant) and isinstance(n.slice.value, str):
            a, t = self.expr(n.value, env)
            if t == 'json':
                return f'Py.Gpsd.subscript {a} "{n.slice.value}"'
        return None

    def cond(self, n, env):
        if isinstance(n, ast.Call) and ast.unparse(n.func) == 'isinstance' and len(n.args) == 2 and ast.unparse(n.args[1]) == 'dict':
            a, t = self.expr(n.args[0], env)
            if t == 'json':
                return f'(Py.Gpsd.isDict {a})'
        if isinstance(n, ast.Compare) and len(n.ops) == 1:
            op, l, r = n.ops[0], n.left, n.comparators[0]
            if isinstance(op, ast.In) and isinstance(l, ast.Constant) and isinstance(l.value, str):
                a, t = self.expr(r, env)
                if t == 'json':
                    return f'(Py.Gpsd.hasKey {a} "{l.value}")'
            if isinstance(op, ast.Eq):
                (a, ta), (b, tb) = self.expr(l, env), self.expr(r, env)
                if ta == 'json' and tb == 'str':
                    return f'(Py.Gpsd.eqStr {a} {b})'
                if ta == 'optstr' and tb == 'json':      # self.device_name == <json>: a str against a value of any type
                    return f'(match {a} with | some s => Py.Gpsd.eqStr {b} s | none => false)'
        if isinstance(n, ast.UnaryOp) and isinstance(n.op, ast.Not):
            return f'(!{self.cond(n.operand, env)})'
        if isinstance(n, ast.Attribute) and ast.unparse(n) == 'self.device_name':
            return '(Py.Gpsd.truthyStr st.self.device_name)'
        if isinstance(n, ast.Attribute) and ast.unparse(n) == 'self.enabled':
            return 'st.self.enabled'
        return super().cond(n, env)

    def block(self, stmts, env, ind):
        stmts = list(stmts)
        while stmts and self.is_logging(stmts[0]):
            stmts.pop(0)
        if stmts:
            s, rest = stmts[0], stmts[1:]
            pad = ' ' * ind
            # x = <json>['key']
            if isinstance(s, ast.Assign) and len(s.targets) == 1 and isinstance(s.targets[0], ast.Name):
                sub = self.subscript(s.value, env)
                if sub:
                    name = s.targets[0].id
                    e2 = env.with_bound(name, name, 'json', var=name)
                    return (f'match {sub} with\n{pad}| .error e => .abort (.exc e) st\n{pad}| .ok {name} =>\n{pad}  {self.block(rest, e2, ind + 2)}')
                if ast.unparse(s.value) == 'json.loads(entry)' or (isinstance(s.value, ast.Call) and ast.unparse(s.value.func) == 'json.loads' and len(s.value.args) == 1):
                    a, t = self.expr(s.value.args[0], env)
                    if t != 'line':
                        fail(s, 'json.loads of something that is no line of the chunk')
                    name = s.targets[0].id
                    e2 = env.with_bound(name, name, 'json', var=name)
                    return (f'match Py.Gpsd.loads {a} with\n{pad}| .error e => .abort (.exc e) st\n{pad}| .ok {name} =>\n{pad}  {self.block(rest, e2, ind + 2)}')
            # self.<attr> = …
            if isinstance(s, ast.Assign) and len(s.targets) == 1 and isinstance(s.targets[0], ast.Attribute) and ast.unparse(s.targets[0].value) == 'self' \
                    and s.targets[0].attr in SELF_ATTRS:
                attr, want = s.targets[0].attr, SELF_ATTRS[s.targets[0].attr]
                sub = self.subscript(s.value, env)
                if sub and want == 'optjson':
                    return (f'match {sub} with\n{pad}| .error e => .abort (.exc e) st\n{pad}| .ok x =>\n'
                            f'{pad}  let st := {{ st with self := {{ st.self with {attr} := some x }} }}\n{pad}  {self.block(rest, env, ind + 2)}')
                a, t = self.expr(s.value, env)
                conv = {('bool', 'bool'): a, ('optjson', 'json'): f'some {a}', ('optjson', 'optstr'): f'({a}).map Ubx.Gpsd.Json.str'}.get((want, t))
                if conv is None:
                    fail(s, f'{t} assigned to {attr}')
                return f'let st := {{ st with self := {{ st.self with {attr} := {conv} }} }}\n{pad}{self.block(rest, env, ind)}'
            # for x in <json>['key']: … / for entry in <lines>: …
            if isinstance(s, ast.For) and isinstance(s.target, ast.Name) and not s.orelse:
                sub = self.subscript(s.iter, env)
                if sub:
                    call = self.aux_def('for', s.body, env, None, index=s.target.id, index_type='json')
                    loop = (f'match {sub} with\n{pad}| .error e => .abort (.exc e) st\n{pad}| .ok it =>\n{pad}  match Py.Gpsd.iter it with\n'
                            f'{pad}  | .error e => .abort (.exc e) st\n{pad}  | .ok xs => Py.Gpsd.forList ({call[0]}) xs st')
                    return self.seq(loop, rest, env, ind)
                a, t = self.expr(s.iter, env)
                if t == 'lines':
                    call = self.aux_def('for', s.body, env, None, index=s.target.id, index_type='line')
                    return self.seq(f'Py.Gpsd.forList ({call[0]}) {a} st', rest, env, ind)
                fail(s, 'for loop')
            if isinstance(s, ast.Try):
                return self.try_stmt(s, rest, env, ind)
        return super().block(stmts, env, ind)

    def try_stmt(self, s, rest, env, ind):
        pad = ' ' * ind
        if s.orelse or s.finalbody or len(s.handlers) != 1:
            fail(s, 'try statement')
        h = s.handlers[0]
        names = [ast.unparse(e) for e in h.type.elts] if isinstance(h.type, ast.Tuple) else [ast.unparse(h.type)]
        # try: data_json = data.decode().splitlines(); …  except UnicodeDecodeError: pass     - the chunk as the model presents it
        if names == ['UnicodeDecodeError'] and isinstance(s.body[0], ast.Assign) and ast.unparse(s.body[0].value).endswith('.decode().splitlines()'):
            src, t = self.expr(s.body[0].value.func.value.func.value, env)
            if t != 'chunk' or not all(self.is_logging(x) for x in h.body):
                fail(s, 'decoding of the chunk')
            name = s.body[0].targets[0].id
            e2 = env.with_bound(name, name, 'lines', var=name)
            m = (f'match {src} with\n{pad}| .undecodable => .next st\n{pad}| .lines {name} =>\n{pad}    {self.block(s.body[1:], e2, ind + 4)}')
            return self.seq(m, rest, env, ind)
        if not all(x in EXC for x in names):
            fail(s, 'exception names')
        handles = ' || '.join(f'e == {EXC[x]}' for x in names)
        body = self.block(s.body, env, ind + 4)
        handler = self.block(h.body, env, ind + 4)
        m = f'Py.Gpsd.tryExcept (\n{pad}    {body}) (fun e => {handles}) (fun st =>\n{pad}    {handler})'
        return self.seq(m, rest, env, ind)


HEADER = '''import UbxModel.Model.PyGpsd
/-! GENERATED by tools/pysrc2lean_gpsd.py from `ubxlib/server.py` of the working tree of /repo - do not edit.
    The gpsd handshake (`_parse_gpsd_msg`, `_parse_version`, `_parse_devices`), statement by statement, over `Py.Gpsd.Server` /
    `Py.Ctl`.  `Proofs/SrcEquiv/Gpsd.lean` relates these definitions to the hand-written model (Model/Gpsd.lean). -/
set_option linter.unusedVariables false
'''


def translate_gpsd(repo):
    tree = ast.parse(open(os.path.join(repo, 'ubxlib', 'server.py')).read())
    node = next(n for n in ast.walk(tree) if isinstance(n, ast.ClassDef) and n.name == 'GnssUBlox')
    t = GpsdTranslator(node, {'cids': {}, 'ints': {}}, DIALECT)
    defs = [t.method(m) for m in ORDER]
    return HEADER + '\nnamespace Gen.Src.Gpsd\n\n' + '\n'.join(defs) + '\nend Gen.Src.Gpsd\n'


if __name__ == '__main__':
    repo, outfile = sys.argv[1], sys.argv[2]
    try:
        text, status = translate_gpsd(repo), 'ok'
    except (Untranslatable, StopIteration, SyntaxError, OSError, AttributeError) as e:
        text, status = f'/-! server.py: outside the translatable subset - {str(e).replace("-/", "- /")} -/\n', 'untranslatable: ' + str(e)[:300]
    if not os.path.exists(outfile) or open(outfile).read() != text:
        open(outfile, 'w').write(text)
    print(status)

#!/usr/bin/env python3
"""Source-level translation of the bookkeeping of the field container: `Fields.__init__`, `next_ord`, `add`, `get` of `ubxlib/types.py`
(and the initial `order` of an item, `Item.__init__`), from the Python AST of the working tree into Lean definitions ->
lean/UbxModel/Gen/SrcFields.lean.

A `Fields` object is its two attributes (`_fields`: a Python dict from names to items, `Py.Dict`; `_next`: an integer); an item is
`Py.Fields.Item` (its `name`, its `order`, and a tag standing for everything else about it).  A method that may raise returns
`Except Exc ρ × (what it left behind)`: `add` assigns the ordinal to the item and advances the counter *before* it looks the name up,
and both stay that way when it raises `KeyError`.  `Proofs/SrcEquiv/Fields.lean` proves what the other translators take as primitives:
the items of the dict, in the order added, carry strictly increasing ordinals - so `sorted(self._fields.items(), key=lambda item:
item[1].order)` *is* the order added - and `add` refuses exactly the names already there.
Anything outside the subset raises `Untranslatable`."""
import ast
import os
import sys

from pysrc2lean import Untranslatable, fail


def strip(body):
    return [s for s in body if not (isinstance(s, ast.Expr) and isinstance(s.value, ast.Constant))]


def intlit(n):
    if isinstance(n, ast.Constant) and isinstance(n.value, int) and not isinstance(n.value, bool):
        return f'({n.value} : Int)'
    if isinstance(n, ast.UnaryOp) and isinstance(n.op, ast.USub) and isinstance(n.operand, ast.Constant) and isinstance(n.operand.value, int):
        return f'(-{n.operand.value} : Int)'
    fail(n, 'integer literal')


class F:
    def block(self, stmts, env, ind, ret):
        """ret: how the method ends ('unit' | 'int' | 'item'); env: names -> kinds; returns Lean of the method's result type"""
        pad = ' ' * ind
        stmts = strip(stmts)
        if not stmts:
            if ret == 'add':
                return '(.ok (), field, self)'
            fail(ast.Pass(), 'falls off the end')
        s, rest = stmts[0], stmts[1:]
        u = ast.unparse(s)
        nxt = lambda e=env: self.block(rest, e, ind, ret)
        if u == 'ret = self._next' and ret == 'next_ord':
            return f'let ret := self._next\n{pad}{nxt({**env, "ret": "int"})}'
        if isinstance(s, ast.AugAssign) and ast.unparse(s.target) == 'self._next' and isinstance(s.op, ast.Add):
            return f'let self := {{ self with _next := self._next + {intlit(s.value)} }}\n{pad}{nxt()}'
        if isinstance(s, ast.Return) and isinstance(s.value, ast.Name) and env.get(s.value.id) == 'int' and ret == 'next_ord' and not rest:
            return f'({s.value.id}, self)'
        if u == 'field.order = self.next_ord()' and ret == 'add':
            return (f'let (r, self) := Gen.Src.Fields.next_ord self\n{pad}let field := {{ field with order := r }}\n{pad}{nxt()}')
        if isinstance(s, ast.If) and ret == 'add' and ast.unparse(s.test) == 'field.name not in self._fields' and not rest:
            th, el = strip(s.body), strip(s.orelse)
            if [ast.unparse(x) for x in th] != ['self._fields[field.name] = field'] or len(el) != 1 or not isinstance(el[0], ast.Raise) \
                    or ast.unparse(el[0].exc) not in ('KeyError', 'KeyError()'):
                fail(s, 'the duplicate check of add')
            return (f'if !(Py.Dict.contains self._fields field.name) then\n{pad}  let self := {{ self with _fields := Py.Dict.setitem self._fields field.name field }}\n'
                    f'{pad}  (.ok (), field, self)\n{pad}else\n{pad}  (.error .keyError, field, self)')
        if isinstance(s, ast.Return) and ret == 'get' and ast.unparse(s.value) == 'self._fields[field]' and not rest:
            return 'Py.Dict.getitem self._fields field'
        fail(s, 'statement')


def magic(ms):
    """`Fields.__setattr__` / `__getattribute__`: the instance dict (`self.__dict__`, `Py.Fields.ObjDict`) holds the dict of fields under
    '_fields' and ordinary attributes under their names; `super().__setattr__` / `super().__getattribute__` are `object`'s (instance
    attributes only).  The statements are matched one by one; anything else is refused."""
    sa, ga = ms['__setattr__'], ms['__getattribute__']
    if [a.arg for a in sa.args.args] != ['self', 'name', 'value'] or [a.arg for a in ga.args.args] != ['self', 'name']:
        fail(sa, 'signatures of __setattr__ / __getattribute__')
    b = strip(sa.body)
    if len(b) != 1 or not isinstance(b[0], ast.If):
        fail(sa, '__setattr__')
    i = b[0]
    if ast.unparse(i.test) != "'_fields' in self.__dict__ and name in self.__dict__['_fields']" \
            or [ast.unparse(x) for x in strip(i.body)] != ["self.__dict__['_fields'][name].value = value"] \
            or [ast.unparse(x) for x in strip(i.orelse)] != ['return super().__setattr__(name, value)']:
        fail(i, '__setattr__ is not: field of that name -> its value, otherwise object.__setattr__')
    out = ('def __setattr__ (self : Py.Fields.ObjDict) (name : String) (value : Int) : Except Ubx.Exc Py.Fields.ObjDict :=\n'
           '  (if Py.Dict.contains self "_fields" then\n'
           '     (Py.Dict.getitem self "_fields") >>= fun x1 => (Py.Fields.asFields x1) >>= fun x2 => .ok (Py.Dict.contains x2 name)\n'
           '   else .ok false) >>= fun c =>\n'
           '  if c then\n'
           '    (Py.Dict.getitem self "_fields") >>= fun x1 => (Py.Fields.asFields x1) >>= fun x2 =>\n'
           '    (Py.Dict.getitem x2 name) >>= fun x3 =>\n'
           '    let x3 := { x3 with value := value }\n'
           '    let x2 := Py.Dict.setitem x2 name x3\n'
           '    let self := Py.Dict.setitem self "_fields" (.fields x2)\n'
           '    .ok self\n'
           '  else\n'
           '    .ok (Py.Fields.objectSetattr self name value)\n\n')
    g = strip(ga.body)
    want = ["obj_dict = object.__getattribute__(self, '__dict__')", None, 'return super().__getattribute__(name)']
    if len(g) != 3 or ast.unparse(g[0]) != want[0] or ast.unparse(g[2]) != want[2] or not isinstance(g[1], ast.If) or g[1].orelse \
            or ast.unparse(g[1].test) != "'_fields' in obj_dict":
        fail(ga, '__getattribute__')
    inner = strip(g[1].body)
    if len(inner) != 2 or ast.unparse(inner[0]) != "_fields = object.__getattribute__(self, '_fields')" or not isinstance(inner[1], ast.If) \
            or inner[1].orelse or ast.unparse(inner[1].test) != 'name in _fields' \
            or [ast.unparse(x) for x in strip(inner[1].body)] != ['value = _fields[name].value', 'return value']:
        fail(ga, '__getattribute__ is not: field of that name -> its value, otherwise object.__getattribute__')
    out += ('def __getattribute__ (self : Py.Fields.ObjDict) (name : String) : Except Ubx.Exc Py.Fields.Attr :=\n'
            '  let obj_dict := self\n'
            '  (if Py.Dict.contains obj_dict "_fields" then\n'
            '     (Py.Fields.objectGetattr self "_fields") >>= fun _fields => (Py.Fields.asFields _fields) >>= fun _fields =>\n'
            '     if Py.Dict.contains _fields name then\n'
            '       (Py.Dict.getitem _fields name) >>= fun x1 =>\n'
            '       let value := x1.value\n'
            '       .ok (some (Py.Fields.Attr.val value))\n'
            '     else .ok none\n'
            '   else .ok none) >>= fun r =>\n'
            '  match r with\n'
            '  | some v => .ok v\n'
            '  | none => Py.Fields.objectGetattr self name\n\n')
    return out


HEADER = '''import UbxModel.Model.PyFields
/-! GENERATED by tools/pysrc2lean_fields.py from `ubxlib/types.py` (`Fields.__init__ / next_ord / add / get`, `Item.__init__`) of the working
    tree of /repo - do not edit.  `Proofs/SrcEquiv/Fields.lean` proves of these definitions what the other translations take as
    primitives: sorting the items by their ordinal gives the order they were added in; `add` refuses exactly the names already there. -/
set_option linter.unusedVariables false

namespace Gen.Src.Fields

'''


def translate(repo):
    tree = ast.parse(open(os.path.join(repo, 'ubxlib', 'types.py')).read())
    item = next(n for n in ast.walk(tree) if isinstance(n, ast.ClassDef) and n.name == 'Item')
    init = next(n for n in item.body if isinstance(n, ast.FunctionDef) and n.name == '__init__')
    order0 = None
    for s in strip(init.body):
        if isinstance(s, ast.Assign) and ast.unparse(s.targets[0]) == 'self.order':
            order0 = intlit(s.value)
    if order0 is None:
        fail(init, 'Item.__init__ does not set order')
    fields = next(n for n in ast.walk(tree) if isinstance(n, ast.ClassDef) and n.name == 'Fields')
    ms = {n.name: n for n in fields.body if isinstance(n, ast.FunctionDef)}
    b = strip(ms['__init__'].body)
    lines = [ast.unparse(x) for x in b]
    if lines[:1] != ['super().__init__()'] or sorted(lines[1:]) not in (['self._fields = dict()', 'self._next = 0'], ['self._fields = {}', 'self._next = 0']):
        fail(ms['__init__'], 'Fields.__init__')
    for name, args in (('next_ord', ['self']), ('add', ['self', 'field']), ('get', ['self', 'field'])):
        if [a.arg for a in ms[name].args.args] != args or ms[name].decorator_list:
            fail(ms[name], f'signature of {name}')
    f = F()
    out = HEADER
    out += f'/-- `Item.__init__`: the ordinal an item has before it is added to a container -/\ndef Item.order0 : Int := {order0}\n\n'
    out += 'def init : Py.Fields.St :=\n  { _fields := [], _next := 0 }\n\n'
    out += 'def next_ord (self : Py.Fields.St) : Int × Py.Fields.St :=\n  ' + f.block(ms['next_ord'].body, {}, 2, 'next_ord') + '\n\n'
    out += ('def add (self : Py.Fields.St) (field : Py.Fields.Item) : Except Ubx.Exc Unit × Py.Fields.Item × Py.Fields.St :=\n  '
            + f.block(ms['add'].body, {}, 2, 'add') + '\n\n')
    out += 'def get (self : Py.Fields.St) (field : String) : Except Ubx.Exc Py.Fields.Item :=\n  ' + f.block(ms['get'].body, {}, 2, 'get') + '\n\n'
    out += magic(ms)
    # the loops of pack / unpack / __str__ iterate over the same expression
    want = 'sorted(self._fields.items(),key=lambdaitem:item[1].order)'
    for name in ('pack', 'unpack'):
        loops = [s for s in ast.walk(ms[name]) if isinstance(s, ast.For)]
        if len(loops) != 1 or ast.unparse(loops[0].iter).replace(' ', '') != want:
            fail(ms[name], f'{name} does not iterate over the items sorted by their ordinal')
    out += ('/-- `sorted(self._fields.items(), key=lambda item: item[1].order)`: a stable sort of the items, in the order the dict holds them, by\n'
            '    their ordinal -/\ndef sortedItems (self : Py.Fields.St) : List (String × Py.Fields.Item) :=\n'
            '  self._fields.mergeSort (fun a b => decide (a.2.order ≤ b.2.order))\n\n')
    return out + 'end Gen.Src.Fields\n'


if __name__ == '__main__':
    repo, outfile = sys.argv[1], sys.argv[2]
    try:
        text, status = translate(repo), 'ok'
    except (Untranslatable, StopIteration, SyntaxError, OSError, AttributeError, KeyError, IndexError) as e:
        text, status = f'/-! Fields bookkeeping: outside the translatable subset - {str(e).replace("-/", "- /")} -/\n', 'untranslatable: ' + str(e)[:300]
    if not os.path.exists(outfile) or open(outfile).read() != text:
        open(outfile, 'w').write(text)
    print(status)

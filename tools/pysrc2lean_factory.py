#!/usr/bin/env python3
"""Source-level translation of the frame registry: `ubxlib/frame_factory.py` (`FrameFactory.register / build / build_with_data`) and
`UbxFrame.construct` (`ubxlib/frame.py`), from the Python AST of the working tree into Lean definitions in `Except Ubx.Exc` ->
lean/UbxModel/Gen/SrcFactory.lean.

`self.__frames` is a Python dict (`Py.Dict`: insertion-ordered association list; `d[k] = v` replaces in place or appends, `d[k]` raises
`KeyError`), keyed by `UbxCID` objects whose `__eq__` / `__hash__` are by (class, id) - checked on `cid.py`'s AST - so a key is a
`Ubx.Cid`.  A frame class is `Py.Factory.Class` (its `CID`, its name, which payloads its `unpack` accepts); `cls()` and `obj.unpack()`
are modelled (Model/PyFactory.lean), everything else is translated statement by statement.  The guard
`if not isinstance(frame_class, type): raise Exception(…)` is recognised and dropped: every value of `Py.Factory.Class` is a class.
Anything outside the subset raises `Untranslatable`."""
import ast
import os
import sys

from pysrc2lean import Untranslatable, fail


def strip(body):
    return [s for s in body if not (isinstance(s, ast.Expr) and isinstance(s.value, ast.Constant))]


def check_cid(repo):
    """UbxCID: equality and hash are by the pair (cls, id), which are what the constructor was given"""
    tree = ast.parse(open(os.path.join(repo, 'ubxlib', 'cid.py')).read())
    cls = next(n for n in ast.walk(tree) if isinstance(n, ast.ClassDef) and n.name == 'UbxCID')
    m = {n.name: n for n in cls.body if isinstance(n, ast.FunctionDef)}
    want = {'__init__': ['super().__init__()', 'self.__cls = cls', 'self.__id = id'],
            '__eq__': ['return self.__cls == other.__cls and self.__id == other.__id'],
            '__hash__': ['return hash((self.__cls, self.__id))']}
    for name, lines in want.items():
        if name not in m or [ast.unparse(s) for s in strip(m[name].body)] != lines:
            fail(m.get(name, cls), f'UbxCID.{name} is not by the pair (cls, id)')
    if [a.arg for a in m['__init__'].args.args] != ['self', 'cls', 'id'] or [a.arg for a in m['__eq__'].args.args] != ['self', 'other']:
        fail(cls, 'UbxCID signatures')


class F:
    def __init__(self):
        self.kinds = {}

    def block(self, stmts, env, ind):
        pad = ' ' * ind
        stmts = strip(stmts)
        if not stmts:
            return '.ok ((), self)' if env['_ret'] == 'unit' else fail(ast.Pass(), 'falls off the end')
        s, rest = stmts[0], stmts[1:]
        u = ast.unparse(s)
        nxt = lambda e=env: self.block(rest, e, ind)
        if u.startswith('if not isinstance(frame_class, type):') and len(s.body) == 1 and isinstance(s.body[0], ast.Raise) and not s.orelse \
                and env.get('frame_class') == 'class':
            return f'-- the guard `isinstance(frame_class, type)`: every `Py.Factory.Class` is a class\n{pad}{nxt()}'
        if isinstance(s, ast.Assign) and len(s.targets) == 1:
            t, v = s.targets[0], s.value
            tu, vu = ast.unparse(t), ast.unparse(v)
            # self.__frames[frame_class.CID] = frame_class
            if isinstance(t, ast.Subscript) and ast.unparse(t.value) == 'self.__frames' and isinstance(t.slice, ast.Attribute) and t.slice.attr == 'CID' \
                    and isinstance(t.slice.value, ast.Name) and env.get(t.slice.value.id) == 'class' and isinstance(v, ast.Name) and env.get(v.id) == 'class':
                return f'let self := Py.Dict.setitem self {t.slice.value.id}.cid {v.id}\n{pad}{nxt()}'
            if isinstance(t, ast.Name):
                # x = self.__frames[cid]
                if isinstance(v, ast.Subscript) and ast.unparse(v.value) == 'self.__frames' and isinstance(v.slice, ast.Name) and env.get(v.slice.id) == 'cid':
                    return f'(Py.Dict.getitem self {v.slice.id}) >>= fun {t.id} =>\n{pad}  {self.block(rest, {**env, t.id: "class"}, ind + 2)}'
                # x = c()
                if isinstance(v, ast.Call) and isinstance(v.func, ast.Name) and env.get(v.func.id) == 'class' and not v.args and not v.keywords:
                    return f'let {t.id} := Py.Factory.instantiate {v.func.id}\n{pad}{nxt({**env, t.id: "frame", t.id + ".cls": v.func.id})}'
                # x = c.construct(data)
                if isinstance(v, ast.Call) and isinstance(v.func, ast.Attribute) and v.func.attr == 'construct' and isinstance(v.func.value, ast.Name) \
                        and env.get(v.func.value.id) == 'class' and len(v.args) == 1 and isinstance(v.args[0], ast.Name) and env.get(v.args[0].id) == 'bytes':
                    return f'(Gen.Src.Factory.construct {v.func.value.id} {v.args[0].id}) >>= fun {t.id} =>\n{pad}  {self.block(rest, {**env, t.id: "frame"}, ind + 2)}'
            # obj.data = data
            if isinstance(t, ast.Attribute) and t.attr == 'data' and isinstance(t.value, ast.Name) and env.get(t.value.id) == 'frame' \
                    and isinstance(v, ast.Name) and env.get(v.id) == 'bytes':
                return f'let {t.value.id} := {{ {t.value.id} with payload := {v.id} }}\n{pad}{nxt()}'
            fail(s, 'assignment')
        # obj.unpack()
        if isinstance(s, ast.Expr) and isinstance(s.value, ast.Call) and isinstance(s.value.func, ast.Attribute) and s.value.func.attr == 'unpack' \
                and isinstance(s.value.func.value, ast.Name) and env.get(s.value.func.value.id) == 'frame' and not s.value.args:
            o = s.value.func.value.id
            c = env.get(o + '.cls')
            if not c:
                fail(s, 'unpack of a frame whose class is not known here')
            return f'(Py.Factory.unpack {c} {o}) >>= fun _ =>\n{pad}  {self.block(rest, env, ind + 2)}'
        if isinstance(s, ast.Return) and isinstance(s.value, ast.Name) and env.get(s.value.id) == 'frame' and env['_ret'] == 'frame':
            if rest:
                fail(s, 'code after return')
            return f'.ok {s.value.id}'
        fail(s, 'statement')


HEADER = '''import UbxModel.Model.PyFactory
/-! GENERATED by tools/pysrc2lean_factory.py from `ubxlib/frame_factory.py` and `ubxlib/frame.py` (`UbxFrame.construct`) of the working
    tree of /repo - do not edit.  `Proofs/SrcEquiv/Factory.lean` relates these definitions to the registry of the hand-written model
    (`Ubx.Registry`, Model/Server.lean) and to the primitives the translation of the request loop uses (`Py.register`, `Py.buildWithData`). -/
set_option linter.unusedVariables false

namespace Gen.Src.Factory

'''


def translate(repo):
    check_cid(repo)
    f = F()
    # UbxFrame.construct(cls, data)
    tree = ast.parse(open(os.path.join(repo, 'ubxlib', 'frame.py')).read())
    cls = next(n for n in ast.walk(tree) if isinstance(n, ast.ClassDef) and n.name == 'UbxFrame')
    m = next(n for n in cls.body if isinstance(n, ast.FunctionDef) and n.name == 'construct')
    if [ast.unparse(d) for d in m.decorator_list] != ['classmethod'] or [a.arg for a in m.args.args] != ['cls', 'data']:
        fail(m, 'signature of construct')
    out = HEADER
    out += ('def construct (cls : Py.Factory.Class) (data : List Nat) : Except Ubx.Exc Ubx.RFrame :=\n  '
            + f.block(m.body, {'cls': 'class', 'data': 'bytes', '_ret': 'frame'}, 2) + '\n\n')
    tree = ast.parse(open(os.path.join(repo, 'ubxlib', 'frame_factory.py')).read())
    cls = next(n for n in ast.walk(tree) if isinstance(n, ast.ClassDef) and n.name == 'FrameFactory')
    ms = {n.name: n for n in cls.body if isinstance(n, ast.FunctionDef)}
    init = [ast.unparse(s) for s in strip(ms['__init__'].body)]
    if 'self.__frames = dict()' not in init and 'self.__frames = {}' not in init:
        fail(ms['__init__'], 'the registry is not created as an empty dict')
    for name, params, ret in (('register', [('frame_class', 'class')], 'unit'), ('build', [('cid', 'cid')], 'frame'),
                              ('build_with_data', [('cid', 'cid'), ('data', 'bytes')], 'frame')):
        m = ms[name]
        if m.decorator_list or [a.arg for a in m.args.args] != ['self'] + [p for p, _ in params]:
            fail(m, f'signature of {name}')
        lt = {'class': 'Py.Factory.Class', 'cid': 'Ubx.Cid', 'bytes': 'List Nat'}
        sig = ' '.join(f'({p} : {lt[t]})' for p, t in params)
        rt = 'Except Ubx.Exc (Unit × Py.Factory.Frames)' if ret == 'unit' else 'Except Ubx.Exc Ubx.RFrame'
        out += f'def {name} (self : Py.Factory.Frames) {sig} : {rt} :=\n  ' + f.block(m.body, {**dict(params), '_ret': ret}, 2) + '\n\n'
    return out + 'end Gen.Src.Factory\n'


if __name__ == '__main__':
    repo, outfile = sys.argv[1], sys.argv[2]
    try:
        text, status = translate(repo), 'ok'
    except (Untranslatable, StopIteration, SyntaxError, OSError, AttributeError, KeyError) as e:
        text, status = f'/-! frame_factory.py: outside the translatable subset - {str(e).replace("-/", "- /")} -/\n', 'untranslatable: ' + str(e)[:300]
    if not os.path.exists(outfile) or open(outfile).read() != text:
        open(outfile, 'w').write(text)
    print(status)

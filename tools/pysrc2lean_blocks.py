#!/usr/bin/env python3
"""Source-level translation of the `unpack` methods of the message classes whose field table depends on the payload -
`UbxCfgGnss`, `UbxCfgEsfla`, `UbxEsfStatus`, `UbxMonVer` - from the Python AST of the working tree into Lean definitions in
`Except Ubx.Exc` -> lean/UbxModel/Gen/SrcBlocks.lean.

The container being filled is `Py.Blocks.Container` (the names `Fields.add` has seen and the item objects in the order added).
`self.f.add(U1('n'))` / `Padding(k, 'n')` / `CH(k, 'n')` / a subclass of a numeric item class defined in the same module (its kind is
its base's; an `unpack` override is accepted only in the shape `x = super().unpack(data); self.<attr> = …; return x`, which leaves value
and length alone; any other override is refused) is `Container.add`; `super().unpack()` - checked to be `UbxFrame.unpack`, i.e.
`self.f.unpack(self.data)` - is the generated `Fields.unpack` of tools/pysrc2lean_types.py over the items; `self.f.<name>` reads a
field's value (`AttributeError` for none), `range(v)` of it is `Py.Blocks.rangeOf` (`TypeError` for a text value), `for i in range(…)`
is `Py.Blocks.forRangeE`, `assert self.f.<name> <= k` raises `AssertionError`, `len(self.data) - k` and `int(x / k)` are integer
arithmetic (`Py.Blocks.intQuot`: truncation toward zero; exact for every payload length a frame can have).

A field name is `("text", none)` or, for `f'text{i}'`, `("text", some i)`; the translator checks that this is injective for the names
of the method (no constant name is a template's prefix followed by digits, no template's prefix is another's followed by a digit), so that
names are equal exactly when the Python strings are.  Anything outside the subset raises `Untranslatable`."""
import ast
import os
import re
import sys

from pysrc2lean import Untranslatable, fail

FMT = {'U1': 'uint 1', 'U2': 'uint 2', 'U4': 'uint 4', 'U8': 'uint 8', 'I1': 'sint 1', 'I2': 'sint 2', 'I4': 'sint 4', 'I8': 'sint 8',
       'X1': 'uint 1', 'X2': 'uint 2', 'X4': 'uint 4'}
TARGETS = [('ubx_cfg_gnss.py', 'UbxCfgGnss'), ('ubx_cfg_esfla.py', 'UbxCfgEsfla'), ('ubx_esf_status.py', 'UbxEsfStatus'), ('ubx_mon_ver.py', 'UbxMonVer')]


def strip(body):
    return [s for s in body if not (isinstance(s, ast.Expr) and isinstance(s.value, ast.Constant))]


def check_frame_unpack(repo):
    tree = ast.parse(open(os.path.join(repo, 'ubxlib', 'frame.py')).read())
    cls = next(n for n in ast.walk(tree) if isinstance(n, ast.ClassDef) and n.name == 'UbxFrame')
    m = next(n for n in cls.body if isinstance(n, ast.FunctionDef) and n.name == 'unpack')
    body = strip(m.body)
    if len(body) != 1 or not isinstance(body[0], ast.Return) or ast.unparse(body[0].value) != 'self.f.unpack(self.data)':
        fail(m, 'UbxFrame.unpack is not `return self.f.unpack(self.data)`')


class B:
    def __init__(self, module, cls):
        self.module, self.cls = module, cls
        self.local = {n.name: n for n in module.body if isinstance(n, ast.ClassDef)}
        self.consts, self.templates = set(), set()
        self.tmp = 0

    def kind_of(self, name, node):
        """the kind of an item class: a numeric class of types.py, or a subclass of one defined in this module"""
        seen = set()
        while name not in FMT:
            c = self.local.get(name)
            if c is None or name in seen or len(c.bases) != 1 or not isinstance(c.bases[0], ast.Name):
                fail(node, f'item class {name}')
            seen.add(name)
            for m in c.body:
                if isinstance(m, ast.FunctionDef) and m.name == 'pack':
                    fail(m, f'{name} overrides pack')
                if isinstance(m, ast.FunctionDef) and m.name == 'unpack':
                    b = strip(m.body)
                    ok = (len(b) >= 2 and isinstance(b[0], ast.Assign) and len(b[0].targets) == 1 and isinstance(b[0].targets[0], ast.Name)
                          and ast.unparse(b[0].value) == f'super().unpack({m.args.args[1].arg})' and isinstance(b[-1], ast.Return)
                          and ast.unparse(b[-1].value) == b[0].targets[0].id
                          and all(isinstance(s, ast.Assign) and len(s.targets) == 1 and isinstance(s.targets[0], ast.Attribute)
                                  and ast.unparse(s.targets[0].value) == 'self' and s.targets[0].attr not in ('value', 'length', 'fmt', 'name', 'order')
                                  for s in b[1:-1]))
                    if not ok:
                        fail(m, f'{name}.unpack is not base unpack plus derived attributes')
            name = c.bases[0].id
        return FMT[name]

    def fname(self, n, env):
        if isinstance(n, ast.Constant) and isinstance(n.value, str) and re.fullmatch(r'[A-Za-z_][A-Za-z0-9_]*', n.value):
            self.consts.add(n.value)
            return f'("{n.value}", none)'
        if isinstance(n, ast.JoinedStr) and len(n.values) == 2 and isinstance(n.values[0], ast.Constant) and isinstance(n.values[1], ast.FormattedValue) \
                and isinstance(n.values[1].value, ast.Name) and env.get(n.values[1].value.id) == 'index' \
                and n.values[1].conversion == -1 and n.values[1].format_spec is None and re.fullmatch(r'[A-Za-z_][A-Za-z0-9_]*', str(n.values[0].value)):
            self.templates.add(n.values[0].value)
            return f'("{n.values[0].value}", some {n.values[1].value.id})'
        fail(n, 'item name')

    def names_apart(self, node):
        for c in self.consts:
            for t in self.templates:
                if re.fullmatch(re.escape(t) + r'\d+', c):
                    fail(node, f'field name {c!r} could be an instance of the template {t!r}')
        for t in self.templates:
            for u in self.templates:
                if t != u and re.match(re.escape(u) + r'\d', t):
                    fail(node, f'templates {t!r} and {u!r} could give the same name')

    def item(self, a, env):
        """an item constructor call -> (Lean FName, Lean ItemObj)"""
        if not (isinstance(a, ast.Call) and isinstance(a.func, ast.Name) and not a.keywords):
            fail(a, 'what is added to the container')
        c = a.func.id
        if c in ('Padding', 'CH') and len(a.args) == 2 and isinstance(a.args[0], ast.Constant) and isinstance(a.args[0].value, int) \
                and not isinstance(a.args[0].value, bool) and a.args[0].value >= 0:
            k = a.args[0].value
            if c == 'Padding':
                return self.fname(a.args[1], env), f'Py.ItemObj.ofKind (.pad {k}) (.int 0)'
            return self.fname(a.args[1], env), f'Py.ItemObj.ofKind (.text {k}) (.str [])'
        if len(a.args) == 1:
            return self.fname(a.args[0], env), f'Py.ItemObj.ofKind (.{self.kind_of(c, a)}) (.int 0)'
        fail(a, 'item constructor')

    def intexpr(self, n, env):
        """integer expressions over locals: len(self.data), - k, int(x / k)"""
        if isinstance(n, ast.Name) and env.get(n.id) == 'int':
            return n.id
        if ast.unparse(n) == 'len(self.data)':
            return '((data.length : Nat) : Int)'
        if isinstance(n, ast.Constant) and isinstance(n.value, int) and not isinstance(n.value, bool) and n.value >= 0:
            return f'(({n.value} : Nat) : Int)'
        if isinstance(n, ast.BinOp) and isinstance(n.op, ast.Sub):
            return f'({self.intexpr(n.left, env)} - {self.intexpr(n.right, env)})'
        if isinstance(n, ast.Call) and isinstance(n.func, ast.Name) and n.func.id == 'int' and len(n.args) == 1 and isinstance(n.args[0], ast.BinOp) \
                and isinstance(n.args[0].op, ast.Div) and isinstance(n.args[0].right, ast.Constant) and isinstance(n.args[0].right.value, int) \
                and not isinstance(n.args[0].right.value, bool) and n.args[0].right.value > 0:
            return f'(Py.Blocks.intQuot {self.intexpr(n.args[0].left, env)} {n.args[0].right.value})'
        fail(n, 'integer expression')

    def block(self, stmts, env, ind):
        pad = ' ' * ind
        stmts = strip(stmts)
        if not stmts:
            return '.ok st'
        s, rest = stmts[0], stmts[1:]
        u = ast.unparse(s)
        nxt = lambda e=env: self.block(rest, e, ind)
        if u == 'self.f = Fields()':
            if env.get('_loop'):
                fail(s, 'container replaced inside a loop')
            return f'let st : Py.Blocks.Container := {{}}\n{pad}{nxt()}'
        if isinstance(s, ast.Expr) and isinstance(s.value, ast.Call) and ast.unparse(s.value.func) == 'self.f.add' and len(s.value.args) == 1 and not s.value.keywords:
            nm, obj = self.item(s.value.args[0], env)
            return f'(Py.Blocks.Container.add st {nm} ({obj})) >>= fun st =>\n{pad}{nxt()}'
        if u == 'super().unpack()':
            return f'(Py.Blocks.Container.unpack st data) >>= fun st =>\n{pad}{nxt()}'
        if isinstance(s, ast.Assert) and s.msg is None and isinstance(s.test, ast.Compare) and len(s.test.ops) == 1 and isinstance(s.test.ops[0], ast.LtE) \
                and isinstance(s.test.left, ast.Attribute) and ast.unparse(s.test.left.value) == 'self.f' and isinstance(s.test.comparators[0], ast.Constant) \
                and isinstance(s.test.comparators[0].value, int) and not isinstance(s.test.comparators[0].value, bool) and s.test.comparators[0].value >= 0:
            self.consts.add(s.test.left.attr)
            return (f'(Py.Blocks.Container.attr st ("{s.test.left.attr}", none)) >>= fun v =>\n{pad}(Py.Blocks.valLe v {s.test.comparators[0].value}) >>= fun ok =>\n'
                    f'{pad}if !ok then .error .assertionError else\n{pad}{nxt()}')
        if isinstance(s, ast.Assign) and len(s.targets) == 1 and isinstance(s.targets[0], ast.Name):
            return f'let {s.targets[0].id} : Int := {self.intexpr(s.value, env)}\n{pad}{nxt({**env, s.targets[0].id: "int"})}'
        if isinstance(s, ast.For) and not s.orelse and isinstance(s.target, ast.Name) and isinstance(s.iter, ast.Call) and ast.unparse(s.iter.func) == 'range' \
                and len(s.iter.args) == 1 and not env.get('_loop'):
            a = s.iter.args[0]
            i = s.target.id
            body = self.block(s.body, {**env, i: 'index', '_loop': True}, ind + 4)
            if isinstance(a, ast.Attribute) and ast.unparse(a.value) == 'self.f':
                self.consts.add(a.attr)
                return (f'(Py.Blocks.Container.attr st ("{a.attr}", none)) >>= fun v =>\n{pad}(Py.Blocks.rangeOf v) >>= fun n =>\n'
                        f'{pad}(Py.Blocks.forRangeE n st (fun {i} st =>\n{pad}    {body})) >>= fun st =>\n{pad}{nxt()}')
            if isinstance(a, ast.Name) and env.get(a.id) == 'int':
                return f'(Py.Blocks.forRangeE ({a.id}).toNat st (fun {i} st =>\n{pad}    {body})) >>= fun st =>\n{pad}{nxt()}'
        fail(s, 'statement')


HEADER = '''import UbxModel.Model.PyBlocks
/-! GENERATED by tools/pysrc2lean_blocks.py from `ubxlib/ubx_cfg_gnss.py`, `ubx_cfg_esfla.py`, `ubx_esf_status.py`, `ubx_mon_ver.py` of the
    working tree of /repo - do not edit.  The `unpack` methods of the messages whose field table depends on the payload, statement by
    statement; `super().unpack()` is the `Fields.unpack` that tools/pysrc2lean_types.py generates.  `Proofs/SrcEquiv/Blocks.lean` relates
    them to the hand-written model (`Ubx.decodeCounted`, `Ubx.decodeMonVer`, Model/Messages.lean). -/
set_option linter.unusedVariables false

namespace Gen.Src.Blocks

'''


def translate(repo):
    check_frame_unpack(repo)
    out = HEADER
    for fname_, cname in TARGETS:
        module = ast.parse(open(os.path.join(repo, 'ubxlib', fname_)).read())
        cls = next(n for n in module.body if isinstance(n, ast.ClassDef) and n.name == cname)
        m = next(n for n in cls.body if isinstance(n, ast.FunctionDef) and n.name == 'unpack')
        if [a.arg for a in m.args.args] != ['self'] or m.decorator_list:
            fail(m, f'signature of {cname}.unpack')
        # the class must not redefine what `super().unpack()` is
        if any(isinstance(b, ast.Name) and b.id not in ([c.name for c in module.body if isinstance(c, ast.ClassDef)] + ['UbxFrame']) for b in cls.bases):
            fail(cls, 'base class')
        b = B(module, cls)
        body = b.block(m.body, {}, 2)
        b.names_apart(m)
        out += f'def {cname}.unpack (data : List Nat) : Except Ubx.Exc Py.Blocks.Container :=\n  {body}\n\n'
    return out + 'end Gen.Src.Blocks\n'


if __name__ == '__main__':
    repo, outfile = sys.argv[1], sys.argv[2]
    try:
        text, status = translate(repo), 'ok'
    except (Untranslatable, StopIteration, SyntaxError, OSError, AttributeError, KeyError, IndexError) as e:
        text, status = f'/-! block-structured unpack methods: outside the translatable subset - {str(e).replace("-/", "- /")} -/\n', 'untranslatable: ' + str(e)[:300]
    if not os.path.exists(outfile) or open(outfile).read() != text:
        open(outfile, 'w').write(text)
    print(status)

#!/usr/bin/env python3
"""try_patch.py <patch.diff | sed:<file>:<expr>> [--tier t] [--seeds a,b] <Cxx>...   (development aid)

Applies a change to a scratch copy of /repo (outside /repo and /verif), runs the repository's tests there and the
given checks against it (VERIF_REPO), then removes the copy.  Nothing in /repo is touched."""
import os, shutil, subprocess, sys
ROOT = os.path.dirname(os.path.dirname(os.path.abspath(__file__)))
args = sys.argv[1:]
change = args.pop(0)
tier, seeds = 'quick', ['0']
while args and args[0].startswith('--'):
    k = args.pop(0)
    if k == '--tier': tier = args.pop(0)
    if k == '--seeds': seeds = args.pop(0).split(',')
props = args
W = '/root/work/mut-%d' % os.getpid()
shutil.rmtree(W, ignore_errors=True)
subprocess.run(['git', 'clone', '-q', '/repo', W], check=True)
try:
    if change.startswith('sed:'):
        _, f, expr = change.split(':', 2)
        subprocess.run(['sed', '-i', expr, os.path.join(W, f)], check=True)
    elif change != 'none':
        r = subprocess.run(['git', 'apply', os.path.abspath(change)], cwd=W)
        if r.returncode: sys.exit('patch does not apply')
    d = subprocess.run(['git', 'diff', '--stat'], cwd=W, capture_output=True, text=True).stdout.strip().splitlines()
    print('change:', d[-1] if d else 'NONE')
    t = subprocess.run(['/venv/bin/python', '-m', 'pytest', '-q', '-p', 'no:cacheprovider'], cwd=W, capture_output=True, text=True)
    print('tests:', t.stdout.strip().splitlines()[-1])
    for p in props:
        for s in seeds:
            r = subprocess.run([os.path.join(ROOT, 'check'), p, '--tier', tier], capture_output=True, text=True,
                               env=dict(os.environ, VERIF_REPO=W, VERIF_SEED=s))
            lines = [l for l in r.stdout.splitlines() if l.startswith(('OK', 'VIOLATION', 'KNOWN'))]
            print(f'  {p} seed={s} exit={r.returncode}: ' + ' | '.join(l[:110] for l in lines[:3]) + (r.stderr.strip()[-200:] if r.returncode == 2 else ''))
finally:
    shutil.rmtree(W, ignore_errors=True)
    # put the generated tables back to what /repo says
    subprocess.run(['/venv/bin/python', os.path.join(ROOT, 'tools', 'extract.py'), '/repo', os.path.join(ROOT, 'lean', 'UbxModel', 'Gen')], capture_output=True)
    subprocess.run(['/venv/bin/python', os.path.join(ROOT, 'tools', 'pysrc2lean.py'), '/repo', os.path.join(ROOT, 'lean', 'UbxModel', 'Gen', 'Src.lean')], capture_output=True)
    subprocess.run(['/venv/bin/python', os.path.join(ROOT, 'tools', 'pysrc2lean_server.py'), '/repo', os.path.join(ROOT, 'lean', 'UbxModel', 'Gen', 'SrcServer.lean')], capture_output=True)
    subprocess.run(['/venv/bin/python', os.path.join(ROOT, 'tools', 'pysrc2lean_cfg.py'), '/repo', os.path.join(ROOT, 'lean', 'UbxModel', 'Gen', 'SrcCfg.lean')], capture_output=True)
    subprocess.run(['/venv/bin/python', os.path.join(ROOT, 'tools', 'pysrc2lean_types.py'), '/repo', os.path.join(ROOT, 'lean', 'UbxModel', 'Gen', 'SrcTypes.lean')], capture_output=True)
    subprocess.run(['/venv/bin/python', os.path.join(ROOT, 'tools', 'pysrc2lean_tty.py'), '/repo', os.path.join(ROOT, 'lean', 'UbxModel', 'Gen', 'SrcTty.lean')], capture_output=True)
    subprocess.run(['/venv/bin/python', os.path.join(ROOT, 'tools', 'pysrc2lean_helpers.py'), '/repo', os.path.join(ROOT, 'lean', 'UbxModel', 'Gen', 'SrcHelpers.lean')], capture_output=True)
    subprocess.run(['/venv/bin/python', os.path.join(ROOT, 'tools', 'pysrc2lean_render.py'), '/repo', os.path.join(ROOT, 'lean', 'UbxModel', 'Gen', 'SrcRender.lean')], capture_output=True)
    subprocess.run(['/venv/bin/python', os.path.join(ROOT, 'tools', 'pysrc2lean_gpsd.py'), '/repo', os.path.join(ROOT, 'lean', 'UbxModel', 'Gen', 'SrcGpsd.lean')], capture_output=True)
    subprocess.run(['/venv/bin/python', os.path.join(ROOT, 'tools', 'pysrc2lean_gpsdtx.py'), '/repo', os.path.join(ROOT, 'lean', 'UbxModel', 'Gen', 'SrcGpsdTx.lean')], capture_output=True)
    subprocess.run(['/venv/bin/python', os.path.join(ROOT, 'tools', 'pysrc2lean_keystr.py'), '/repo', os.path.join(ROOT, 'lean', 'UbxModel', 'Gen', 'SrcKeyStr.lean')], capture_output=True)
    subprocess.run(['/venv/bin/python', os.path.join(ROOT, 'tools', 'pysrc2lean_str.py'), '/repo', os.path.join(ROOT, 'lean', 'UbxModel', 'Gen', 'SrcStr.lean')], capture_output=True)
    subprocess.run(['/venv/bin/python', os.path.join(ROOT, 'tools', 'pysrc2lean_fields.py'), '/repo', os.path.join(ROOT, 'lean', 'UbxModel', 'Gen', 'SrcFields.lean')], capture_output=True)
    subprocess.run(['/venv/bin/python', os.path.join(ROOT, 'tools', 'pysrc2lean_blocks.py'), '/repo', os.path.join(ROOT, 'lean', 'UbxModel', 'Gen', 'SrcBlocks.lean')], capture_output=True)
    subprocess.run(['/venv/bin/python', os.path.join(ROOT, 'tools', 'pysrc2lean_valset.py'), '/repo', os.path.join(ROOT, 'lean', 'UbxModel', 'Gen', 'SrcValset.lean')], capture_output=True)
    subprocess.run(['/venv/bin/python', os.path.join(ROOT, 'tools', 'pysrc2lean_factory.py'), '/repo', os.path.join(ROOT, 'lean', 'UbxModel', 'Gen', 'SrcFactory.lean')], capture_output=True)
    subprocess.run(['/venv/bin/python', os.path.join(ROOT, 'tools', 'pysrc2lean_valget.py'), '/repo', os.path.join(ROOT, 'lean', 'UbxModel', 'Gen', 'SrcValget.lean')], capture_output=True)

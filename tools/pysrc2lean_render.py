#!/usr/bin/env python3
"""Source-level translation of the table-driven renderers (property C19): the `__str__` methods of the item classes the message
files define, together with the attributes their `unpack` derives from the value -> lean/UbxModel/Gen/SrcRender.lean.

For a class `C`: `def C.str (name : String) (v d : Nat) : Except Ubx.Exc String` - the text `str(item)` returns for an item holding
`v` whose derived attributes were computed from `d` (the value at the last `unpack`; 0 for an item that was never decoded: the
translator checks on the real class that a fresh object holds what `unpack` derives from 0).  A read of a derived attribute is
replaced by the expression `unpack` assigns to it; `Table[i]` is `Render.idx` (`IndexError`), class-level tables are the ones
`tools/extract.py` regenerates (`Gen.<Class>_<table>`), tables local to a method are list literals; `res += …` is string
concatenation; an f-string is the concatenation of its parts (`{int}` as decimal, `{bool}` as `True` / `False`).
Anything outside the subset raises `Untranslatable`."""
import ast
import importlib
import os
import sys

from pysrc2lean import Untranslatable, fail, lname

CLASSES = [('ubx_cfg_esfla', 'U1_LeverArmType'), ('ubx_cfg_gnss', 'U1_GnssId'), ('ubx_cfg_gnss', 'X4_Flags'), ('ubx_cfg_prt', 'X2_Proto'),
           ('ubx_cfg_prt', 'X4_Mode'), ('ubx_esf_alg', 'U1_Flags'), ('ubx_esf_status', 'X1_InitStatus1'), ('ubx_esf_status', 'X1_InitStatus2'),
           ('ubx_esf_status', 'U1_FusionMode'), ('ubx_esf_status', 'X1_SensStatus1'), ('ubx_esf_status', 'X1_SensStatus2'),
           ('ubx_nav_status', 'U1_GpsFix'), ('ubx_nav_status', 'X1_Flags')]


def lean_str(s):
    if '"' in s or '\\' in s or not s.isprintable():
        fail(None, f'string constant {s!r}')
    return f'"{s}"'


class R:
    def __init__(self, mod, cls, node, pyclass):
        self.mod, self.cls, self.node, self.pyclass = mod, cls, node, pyclass
        self.derived = {}
        self.binds = []

    # ---- derived attributes: unpack() -------------------------------------------------------------
    def read_unpack(self):
        fn = next((n for n in self.node.body if isinstance(n, ast.FunctionDef) and n.name == 'unpack'), None)
        if fn is None:
            return
        body = [s for s in fn.body if not (isinstance(s, ast.Expr) and isinstance(s.value, ast.Constant))]
        if not (len(body) >= 2 and ast.unparse(body[0]).endswith('= super().unpack(data)') and isinstance(body[-1], ast.Return)):
            fail(fn, 'unpack override')
        for s in body[1:-1]:
            if not (isinstance(s, ast.Assign) and isinstance(s.targets[0], ast.Attribute) and ast.unparse(s.targets[0].value) == 'self'):
                fail(s, 'statement in unpack')
            if isinstance(s.value, ast.Call):          # e.g. self.protocols = self._protocols(): kept by the object, not read by __str__
                self.derived[s.targets[0].attr] = None
                continue
            self.derived[s.targets[0].attr] = self.expr(s.value, {'@value': 'd'})
        # a fresh object holds what unpack derives from 0
        fresh = self.pyclass('x')
        dec = self.pyclass('x')
        size = __import__('struct').calcsize('<' + dec.fmt)
        dec.unpack(bytearray(size))
        for a, e in self.derived.items():
            if e is not None and getattr(fresh, a) != getattr(dec, a):
                fail(fn, f'a fresh object holds {a}={getattr(fresh, a)!r}, decoding 0 gives {getattr(dec, a)!r}')

    # ---- expressions: (lean, type) with type in nat / bool / str ------------------------------------
    def table(self, n, env):
        """a list of strings: `<Class>.<name>` (class attribute) or a local list literal"""
        src = ast.unparse(n)
        if isinstance(n, ast.Name) and env.get(n.id, (None, None))[1] == 'table':
            return env[n.id][0]
        if isinstance(n, ast.Attribute) and isinstance(n.value, ast.Name) and n.value.id in (self.cls, '__class__', 'self'):
            t = getattr(self.pyclass, n.attr, None)
            if isinstance(t, list) and all(isinstance(x, str) for x in t):
                return f'Gen.{self.cls}_{n.attr}'
        return None

    def expr(self, n, env):
        if isinstance(n, ast.Constant):
            if isinstance(n.value, bool):
                return ('true' if n.value else 'false'), 'bool'
            if isinstance(n.value, int) and n.value >= 0:
                return str(n.value), 'nat'
            if isinstance(n.value, str):
                return lean_str(n.value), 'str'
            fail(n, 'constant')
        if isinstance(n, ast.Name) and n.id in env:
            return env[n.id]
        if isinstance(n, ast.Attribute) and ast.unparse(n.value) == 'self':
            if n.attr == 'value':
                return env.get('@value', 'v'), 'nat'
            if n.attr == 'name':
                return 'name', 'str'
            if n.attr in self.derived and self.derived[n.attr] is not None:
                return self.derived[n.attr]
            fail(n, 'attribute')
        if isinstance(n, ast.BinOp):
            ops = {ast.RShift: '>>>', ast.BitAnd: '&&&', ast.BitOr: '|||'}
            (a, ta), (b, tb) = self.expr(n.left, env), self.expr(n.right, env)
            if type(n.op) in ops and ta == tb == 'nat':
                return f'({a} {ops[type(n.op)]} {b})', 'nat'
            if isinstance(n.op, ast.Add) and ta == tb == 'str':
                return f'({a} ++ {b})', 'str'
            fail(n, 'operator')
        if isinstance(n, ast.Compare) and len(n.ops) == 1:
            (a, ta), (b, tb) = self.expr(n.left, env), self.expr(n.comparators[0], env)
            ops = {ast.Eq: '=', ast.Lt: '<', ast.NotEq: '≠'}
            if type(n.ops[0]) in ops and ta == tb == 'nat':
                return f'(decide ({a} {ops[type(n.ops[0])]} {b}))', 'bool'
            fail(n, 'comparison')
        if isinstance(n, ast.Call) and ast.unparse(n.func) == 'len' and len(n.args) == 1:
            t = self.table(n.args[0], env)
            if t:
                return f'{t}.length', 'nat'
            a, ta = self.expr(n.args[0], env)
            if ta == 'str':
                return f'{a}.length', 'nat'
        if isinstance(n, ast.Subscript):
            t = self.table(n.value, env)
            if t:
                i, ti = self.expr(n.slice, env)
                if ti != 'nat':
                    fail(n, 'index')
                name = f't{len(self.binds) + 1}'
                self.binds.append((name, f'Ubx.Render.idx {t} {i}'))
                return name, 'str'
        if isinstance(n, ast.IfExp):
            c = self.cond(n.test, env)
            nb = len(self.binds)
            (a, ta), (b, tb) = self.expr(n.body, env), self.expr(n.orelse, env)
            if len(self.binds) != nb:
                fail(n, 'a table look-up inside a conditional expression')
            if ta == tb:
                return f'(if {c} then {a} else {b})', ta
        if isinstance(n, ast.JoinedStr):
            parts = []
            for p in n.values:
                if isinstance(p, ast.Constant):
                    parts.append(lean_str(p.value))
                elif isinstance(p, ast.FormattedValue) and p.format_spec is None and p.conversion == -1:
                    a, t = self.expr(p.value, env)
                    parts.append({'str': a, 'nat': f'toString {a}', 'bool': f'Ubx.Render.boolText {a}'}[t])
                else:
                    fail(p, 'format specification')
            return '(' + ' ++ '.join(parts) + ')', 'str'
        if isinstance(n, ast.Call) and ast.unparse(n.func) == 'self._protocols' and not n.args and self.cls == 'X2_Proto':
            return f'(Gen.Src.Render.X2_Proto._protocols {env.get("@value", "v")})', 'str'
        if isinstance(n, ast.Call) and ast.unparse(n.func) == 'self.concat' and len(n.args) == 2:
            (a, ta), (b, tb) = self.expr(n.args[0], env), self.expr(n.args[1], env)
            if ta == tb == 'str':
                return f'(Gen.Src.Render.X2_Proto.concat {a} {b})', 'str'
        fail(n, 'expression')

    def cond(self, n, env):
        a, t = self.expr(n, env)
        if t == 'bool':
            return a
        if t == 'nat':
            return f'(decide ({a} ≠ 0))'              # truthiness of a number
        fail(n, 'condition')

    # ---- statements: a pure block over `res` and the locals; look-ups are hoisted in evaluation order --
    def flush(self, ind):
        out = ''.join(f'{call} >>= fun {name} =>\n{" " * ind}' for name, call in self.binds)
        self.binds = []
        return out

    def block(self, stmts, env, ind, after=None):
        stmts = [s for s in stmts if not (isinstance(s, ast.Expr) and isinstance(s.value, ast.Constant))]
        pad = ' ' * ind
        if not stmts:
            if after is None:
                fail(self.node, 'a path ends without return')
            return after(env, ind)
        s, rest = stmts[0], stmts[1:]
        nxt = lambda e=env, i=ind: self.block(rest, e, i, after)
        if isinstance(s, ast.Return):
            a, t = self.expr(s.value, env)
            if t != 'str':
                fail(s, 'return value')
            return self.flush(ind) + f'.ok {a}'
        if isinstance(s, ast.Assign) and isinstance(s.targets[0], ast.Name):
            name, v = s.targets[0].id, s.value
            if isinstance(v, ast.List) and all(isinstance(e, ast.Constant) and isinstance(e.value, str) for e in v.elts):
                e2 = dict(env)
                e2[name] = ('[' + ', '.join(lean_str(e.value) for e in v.elts) + ']', 'table')
                return nxt(e2)
            a, t = self.expr(v, env)
            e2 = dict(env)
            e2[name] = (name, t)
            return self.flush(ind) + f'let {name} := {a}\n{pad}{nxt(e2)}'
        if isinstance(s, ast.AugAssign) and isinstance(s.target, ast.Name) and isinstance(s.op, ast.Add) and env.get(s.target.id, (None, None))[1] == 'str':
            a, t = self.expr(s.value, env)
            if t != 'str':
                fail(s, 'augmented assignment')
            return self.flush(ind) + f'let {s.target.id} := {s.target.id} ++ {a}\n{pad}{nxt()}'
        if isinstance(s, ast.If):
            c = self.cond(s.test, env)
            pre = self.flush(ind)
            a = self.block(s.body, env, ind + 2, lambda e, i: self.block(rest, e, i, after))
            b = self.block(s.orelse, env, ind + 2, lambda e, i: self.block(rest, e, i, after))
            return pre + f'if {c} then\n{pad}  {a}\n{pad}else\n{pad}  {b}'
        fail(s, 'statement')

    def str_method(self):
        fn = next((n for n in self.node.body if isinstance(n, ast.FunctionDef) and n.name == '__str__'), None)
        if fn is None:
            fail(self.node, '__str__ not found')
        body = self.block(fn.body, {}, 2)
        return f'def {self.cls}.str (name : String) (v d : Nat) : Except Ubx.Exc String :=\n  {body}\n'

    def extra(self):
        """X2_Proto: the static `concat` and `_protocols`"""
        out = []
        if self.cls == 'X2_Proto':
            for name, params in (('concat', ['text', 'add']), ('_protocols', [])):
                fn = next((n for n in self.node.body if isinstance(n, ast.FunctionDef) and n.name == name), None)
                if fn is None:
                    fail(self.node, f'{name} not found')
                got = [a.arg for a in fn.args.args if a.arg != 'self']
                if got != params:
                    fail(fn, 'signature')
                env = {p: (p, 'str') for p in params}
                if name == '_protocols':
                    env['@value'] = 'v'
                    sig = '(v : Nat)'
                else:
                    sig = '(text add : String)'
                body = self.block(fn.body, env, 2).replace('.ok ', '', 1) if False else self.pure_block(fn.body, env, 2)
                out.append(f'def X2_Proto.{name} {sig} : String :=\n  {body}\n')
        return out

    def pure_block(self, stmts, env, ind):
        """a block without look-ups: the value returned"""
        pad = ' ' * ind
        stmts = [s for s in stmts if not (isinstance(s, ast.Expr) and isinstance(s.value, ast.Constant))]
        s, rest = stmts[0], stmts[1:]
        if isinstance(s, ast.Return):
            a, t = self.expr(s.value, env)
            if self.binds or t != 'str':
                fail(s, 'return value')
            return a
        if isinstance(s, ast.Assign) and isinstance(s.targets[0], ast.Name):
            a, t = self.expr(s.value, env)
            e2 = dict(env)
            e2[s.targets[0].id] = (s.targets[0].id, t)
            return f'let {s.targets[0].id} := {a}\n{pad}{self.pure_block(rest, e2, ind)}'
        if isinstance(s, ast.If) and all(len(b) == 1 and isinstance(b[0], (ast.Assign, ast.AugAssign)) for b in (s.body, s.orelse or [ast.Pass()]) if b and not isinstance(b[0], ast.Pass)):
            # if c: x = e   [else: x += e']     - a conditional update of one local
            def upd(b):
                if not b:
                    return None
                st = b[0]
                tgt = st.targets[0] if isinstance(st, ast.Assign) else st.target
                a, t = self.expr(st.value, env)
                return tgt.id, (a if isinstance(st, ast.Assign) else f'({tgt.id} ++ {a})')
            u1, u2 = upd(s.body), upd(s.orelse)
            name = u1[0]
            if u2 is not None and u2[0] != name:
                fail(s, 'branches update different names')
            c = self.cond(s.test, env)
            return f'let {name} := if {c} then {u1[1]} else {u2[1] if u2 else name}\n{pad}{self.pure_block(rest, env, ind)}'
        fail(s, 'statement')


HEADER = '''import UbxModel.Model.Render
/-! GENERATED by tools/pysrc2lean_render.py from the message classes of the working tree of /repo - do not edit.
    The table-driven `__str__` methods of C19 with the attributes `unpack` derives, statement by statement.
    `Proofs/SrcEquiv/Render.lean` proves these definitions equal to the hand-written model (Model/Render.lean). -/
set_option linter.unusedVariables false

namespace Gen.Src.Render

'''


def translate_render(repo):
    if repo not in sys.path:
        sys.path.insert(0, repo)
    defs = []
    trees = {}
    for mod, cls in CLASSES:
        if mod not in trees:
            trees[mod] = ast.parse(open(os.path.join(repo, 'ubxlib', mod + '.py')).read())
        node = next((n for n in trees[mod].body if isinstance(n, ast.ClassDef) and n.name == cls), None)
        if node is None:
            fail(trees[mod], f'class {cls} not found in {mod}.py')
        r = R(mod, cls, node, getattr(importlib.import_module('ubxlib.' + mod), cls))
        r.read_unpack()
        defs += r.extra()
        defs.append(r.str_method())
    return HEADER + '\n'.join(defs) + '\nend Gen.Src.Render\n'


if __name__ == '__main__':
    repo, outfile = sys.argv[1], sys.argv[2]
    try:
        text, status = translate_render(repo), 'ok'
    except (Untranslatable, StopIteration, SyntaxError, OSError, ImportError, AttributeError, TypeError, ValueError) as e:
        text, status = f'/-! renderers: outside the translatable subset - {str(e).replace("-/", "- /")} -/\n', 'untranslatable: ' + str(e)[:300]
    if not os.path.exists(outfile) or open(outfile).read() != text:
        open(outfile, 'w').write(text)
    print(status)

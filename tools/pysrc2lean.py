#!/usr/bin/env python3
"""Source-level translator: the *control logic* of the small pure classes of ubxlib, from the Python AST of the
working tree into Lean definitions over the model's state types (lean/UbxModel/Gen/Src.lean).

    pysrc2lean.py <repo> <outfile>

Covered: static helpers of `CfgKeyData` (key-id bit fields, size tables; in the Except monad), `Checksum` (add / reset / value / matches), `UbxParser` (_process_byte and the nine _state_* methods,
_reset, process, restart, set_filter, set_filters, empty_queue), `NmeaParser` (_process_byte, the five _state_*
methods, _reset, _to_bin, process, restart), `UbxFrame` (_calc_checksum, to_bytes).  `Proofs/SrcEquiv.lean` proves
each generated definition equal to the hand-written model; so, as long as those proofs check, the theorems about the
model are theorems about what the source says now.

The translation is syntax-directed over a small subset of Python (assignments to attributes and locals, augmented
assignments, if/elif/else, for over a byte sequence, calls of own methods and of the methods of the checksum
sub-object, list append, tuples put on the queue, integer / bit arithmetic, comparisons, `and`, `in`).  Logging
calls are dropped (what they evaluate is the business of C19).  Anything outside the subset raises
`Untranslatable`: the source-level tie is then *unavailable* for this tree - not broken - and the tie rests on the
correspondence check alone (the check says so in its evidence).
"""
import ast
import os
import sys
import textwrap


class Untranslatable(Exception):
    pass


def fail(node, why):
    raise Untranslatable(f'line {getattr(node, "lineno", "?")}: {why}: {ast.unparse(node)[:80] if isinstance(node, ast.AST) else node}')


# per class: attribute -> Lean field (None: not modelled, may be written but never read), sub-objects, enum, methods
SCHEMA = {
    'Checksum': {
        'type': 'Ubx.Ck', 'attrs': {'_cka': 'a', '_ckb': 'b'}, 'subs': {},
        'methods': {'reset': 'void', 'add': 'void', 'value': 'Nat × Nat', 'matches': 'Bool'},
    },
    'UbxParser': {
        'type': 'Ubx.Parser',
        'attrs': {'state': 'st', 'msg_class': 'msgClass', 'msg_id': 'msgId', 'msg_len': 'msgLen', 'ofs': 'ofs', 'msg_data': 'msgData',
                  'cka': 'cka', 'ckb': 'ckb', 'rx_queue': 'queue', 'wait_cids': 'filter', 'frames_rx': 'framesRx', 'crc_error_cid': None},
        'subs': {'checksum': ('ck', 'Checksum')},
        'enum': {'INIT': '.init', 'SYNC': '.sync', 'CLASS': '.cls', 'ID': '.id', 'LEN1': '.len1', 'LEN2': '.len2', 'DATA': '.data',
                 'CRC1': '.crc1', 'CRC2': '.crc2'},
        'methods': {m: 'void' for m in ['_reset', '_state_init', '_state_sync', '_state_class', '_state_id', '_state_len1', '_state_len2',
                                        '_state_data', '_state_crc1', '_state_crc2', '_process_byte', 'process', 'restart', 'empty_queue',
                                        'set_filter', 'set_filters']},
        'argtypes': {'process': {'data': 'List Nat'}, 'set_filter': {'cid': 'Ubx.Cid'}, 'set_filters': {'cids': 'List Ubx.Cid'}},
        'optlist': {'wait_cids'},
    },
    'NmeaParser': {
        'type': 'Nmea.P',
        'attrs': {'state': 'st', 'checksum': 'cs', 'checksum_data': 'acc', 'frames_rx': 'framesRx', 'msg_data': None},
        'subs': {},
        'enum': {'WAIT_SYNC': '.waitSync', 'DATA': '.data', 'CHKSUM1': '.chk1', 'CHKSUM2': '.chk2', 'LINEEND': '.lineEnd'},
        'methods': dict({m: 'void' for m in ['_reset', '_state_wait_sync', '_state_data', '_state_checksum1', '_state_checksum2',
                                             '_state_lineend', '_process_byte', 'process', 'restart']}, _to_bin='Option Nat'),
        'argtypes': {'process': {'data': 'List Nat'}},
        'static': {'_to_bin'}, 'sentinel': {'_to_bin': -1}, 'chars': True,
    },
    'UbxFrame': {
        'type': 'Ubx.Frame',
        'attrs': {'data': 'data', 'cka': 'cka', 'ckb': 'ckb'},
        'subs': {'checksum': ('ck', 'Checksum')},
        'methods': {'_calc_checksum': 'void', 'to_bytes': 'Ubx.Frame × List Nat'},
        'cid': True,
    },
}
# static pure helpers of CfgKeyData: translated in the Except monad (KeyError / IndexError / ValueError as values)
PURE = {
    'CfgKeyData': {
        'file': 'cfgkeys.py',
        'methods': ['_bits_from_key', '_bytes_for_size', '_group_from_key', '_item_from_key', '_build_header'],
        'tables': {'CfgKeyData.BITS_FROM_SIZE': ('list', 'Gen.bitsFromSize'), 'CfgKeyData.SIZE_FROM_BITS': ('dict', 'Gen.sizeFromBits'),
                   'CfgKeyData.BYTES_FROM_BITS': ('dict', 'Gen.bytesFromBits')},
    },
}


class PureTranslator:
    """`@staticmethod` helpers that compute with integers and class-level tables; result type `Except Ubx.Exc Nat`"""

    def __init__(self, cls, node):
        self.cls, self.node, self.P = cls, node, PURE[cls]
        self.locals = set()

    def table(self, n):
        src = ast.unparse(n).replace('__class__', self.cls).replace('cls.', self.cls + '.')
        return self.P['tables'].get(src)

    def expr(self, n):
        if isinstance(n, ast.Constant) and isinstance(n.value, int) and not isinstance(n.value, bool) and n.value >= 0:
            return str(n.value)
        if isinstance(n, ast.Name) and n.id in self.locals:
            return n.id
        if isinstance(n, ast.BinOp) and type(n.op) in BINOPS:
            return f'({self.expr(n.left)} {BINOPS[type(n.op)]} {self.expr(n.right)})'
        fail(n, 'expression')

    def lookup(self, n, on_key_error):
        """TABLE[key] -> an Except value; on_key_error: the exception a missing key ends in"""
        if isinstance(n, ast.Subscript):
            t = self.table(n.value)
            if t:
                kind, lean = t
                key = self.expr(n.slice)
                if kind == 'list':
                    return f'(Py.listIndex {lean} {key})'
                return f'(Py.dictGet {lean} {key} {on_key_error})'
        return None

    def block(self, stmts, ind):
        if not stmts:
            fail(self.node, 'function may end without return')
        s, rest = stmts[0], stmts[1:]
        pad = ' ' * ind
        if isinstance(s, ast.Expr) and isinstance(s.value, ast.Constant):
            return self.block(rest, ind)
        if isinstance(s, ast.Return):
            lk = self.lookup(s.value, '.keyError')
            return lk if lk else f'pure {self.expr(s.value)}'
        if isinstance(s, ast.Raise):
            name = ast.unparse(s.exc) if s.exc else ''
            if name.startswith('ValueError'):
                return '.error .valueError'
            fail(s, 'raise')
        if isinstance(s, ast.Assign) and len(s.targets) == 1 and isinstance(s.targets[0], ast.Name):
            name = s.targets[0].id
            lk = self.lookup(s.value, '.keyError')
            self.locals.add(name)
            if lk:
                return f'do\n{pad}  let {name} ← {lk}\n{pad}  {self.block(rest, ind + 2)}'
            return f'let {name} := {self.expr(s.value)}\n{pad}{self.block(rest, ind)}'
        if isinstance(s, ast.AugAssign) and isinstance(s.target, ast.Name) and s.target.id in self.locals and type(s.op) in BINOPS:
            return f'let {s.target.id} := {s.target.id} {BINOPS[type(s.op)]} {self.expr(s.value)}\n{pad}{self.block(rest, ind)}'
        if isinstance(s, ast.Try) and len(s.body) == 1 and len(s.handlers) == 1 and not s.orelse and not s.finalbody:
            h = s.handlers[0]
            a = s.body[0]
            if (h.type is not None and ast.unparse(h.type) == 'KeyError' and len(h.body) == 1 and isinstance(h.body[0], ast.Raise)
                    and ast.unparse(h.body[0].exc).startswith('ValueError') and isinstance(a, ast.Assign)
                    and len(a.targets) == 1 and isinstance(a.targets[0], ast.Name)):
                lk = self.lookup(a.value, '.valueError')
                if lk:
                    name = a.targets[0].id
                    self.locals.add(name)
                    return f'do\n{pad}  let {name} ← {lk}\n{pad}  {self.block(rest, ind + 2)}'
            fail(s, 'try/except of unknown shape')
        if isinstance(s, ast.If) and not rest:
            t = s.test
            if isinstance(t, ast.Compare) and len(t.ops) == 1 and isinstance(t.ops[0], ast.In) and self.table(t.comparators[0]):
                kind, lean = self.table(t.comparators[0])
                cond = f'(Py.dictHas {lean} {self.expr(t.left)})'
                return f'if {cond} then\n{pad}    {self.block(s.body, ind + 4)}\n{pad}  else\n{pad}    {self.block(s.orelse, ind + 4)}'
            fail(s, 'condition')
        fail(s, 'statement')

    def method(self, name):
        fn = next((n for n in self.node.body if isinstance(n, ast.FunctionDef) and n.name == name), None)
        if fn is None:
            fail(self.node, f'method {name} not found')
        if not any(ast.unparse(d) == 'staticmethod' for d in fn.decorator_list):
            fail(fn, 'not a staticmethod')
        args = [a.arg for a in fn.args.args]
        self.locals = set(args)
        sig = ' '.join(f'({a} : Nat)' for a in args)
        return f'def {lname(name)} {sig} : Except Ubx.Exc Nat :=\n  {self.block(fn.body, 2)}\n'


ORDER = {  # emission order (callees first)
    'Checksum': ['reset', 'add', 'value', 'matches'],
    'UbxParser': ['_reset', '_state_init', '_state_sync', '_state_class', '_state_id', '_state_len1', '_state_len2', '_state_data',
                  '_state_crc1', '_state_crc2', '_process_byte', 'process', 'restart', 'empty_queue', 'set_filter', 'set_filters'],
    'NmeaParser': ['_to_bin', '_reset', '_state_wait_sync', '_state_data', '_state_checksum1', '_state_checksum2', '_state_lineend',
                   '_process_byte', 'process', 'restart'],
    'UbxFrame': ['_calc_checksum', 'to_bytes'],
}
BINOPS = {ast.Add: '+', ast.Mult: '*', ast.RShift: '>>>', ast.LShift: '<<<', ast.BitAnd: '&&&', ast.BitOr: '|||', ast.BitXor: '^^^', ast.Sub: '-'}
CMPOPS = {ast.Eq: '=', ast.NotEq: '≠', ast.Gt: '>', ast.Lt: '<', ast.GtE: '≥', ast.LtE: '≤'}


LEAN_KEYWORDS = {'matches', 'end', 'open', 'at', 'from', 'to', 'show', 'have', 'then', 'else', 'if', 'fun', 'do', 'in', 'with', 'match', 'def', 'set',
                 'export', 'local', 'prefix', 'where', 'by', 'section', 'namespace', 'instance', 'class', 'structure', 'import', 'using'}


def lname(m):
    return f'«{m}»' if m in LEAN_KEYWORDS else m


class Translator:
    def __init__(self, cls_name, cls_node, consts):
        self.cls, self.node, self.S, self.consts = cls_name, cls_node, SCHEMA[cls_name], consts
        self.locals = {}        # name -> kind ('nat', 'cid', 'list', 'opt', 'tuple')

    # ---- expressions ------------------------------------------------------------------------------
    def attr(self, node, write=False):
        """self.<attr> -> Lean field"""
        name = node.attr
        if name in self.S['subs']:
            return 'self.' + self.S['subs'][name][0]
        if name not in self.S['attrs']:
            fail(node, 'attribute outside the modelled state')
        f = self.S['attrs'][name]
        if f is None and not write:
            fail(node, 'an attribute that is not modelled is read')
        return None if f is None else 'self.' + f

    def is_self_attr(self, n):
        return isinstance(n, ast.Attribute) and isinstance(n.value, ast.Name) and n.value.id == 'self'

    def const_of(self, n):
        """resolve class-level constants (UbxFrame.SYNC_1, __class__.MAX_MESSAGE_LENGTH, __class__.State.X) by name"""
        src = ast.unparse(n)
        if src.startswith('__class__.State.') or src.startswith(self.cls + '.State.'):
            return self.S['enum'][src.split('.')[-1]]
        key = src.replace('__class__', self.cls)
        if key in self.consts:
            return str(self.consts[key])
        return None

    def expr(self, n):
        if isinstance(n, ast.Constant):
            if isinstance(n.value, bool) or n.value is None:
                fail(n, 'constant')
            if isinstance(n.value, int):
                if n.value < 0:
                    fail(n, 'negative literal')
                return str(n.value)
            if isinstance(n.value, str) and len(n.value) == 1 and self.S.get('chars'):
                return str(ord(n.value))
            fail(n, 'constant')
        if isinstance(n, ast.Name):
            if n.id in self.locals:
                return n.id
            fail(n, 'unknown name')
        if isinstance(n, ast.Attribute):
            c = self.const_of(n)
            if c is not None:
                return c
            if self.is_self_attr(n):
                return self.attr(n)
            if self.S.get('cid') and ast.unparse(n) in ('self.CID.cls', 'self.CID.id'):
                return 'self.' + n.attr
            fail(n, 'attribute')
        if isinstance(n, ast.BinOp):
            if type(n.op) not in BINOPS:
                fail(n, 'operator')
            return f'({self.expr(n.left)} {BINOPS[type(n.op)]} {self.expr(n.right)})'
        if isinstance(n, ast.Call):
            f = ast.unparse(n.func)
            if f == 'len' and len(n.args) == 1:
                return f'({self.expr(n.args[0])}).length'
            if f in ('chr', 'ord') and self.S.get('chars') and len(n.args) == 1:
                return self.expr(n.args[0])            # characters are their codes
            if f == 'int' and self.S.get('chars') and len(n.args) == 2 and ast.unparse(n.args[1]) == '16':
                return f'(Py.hexDigitValue {self.expr(n.args[0])})'
            if f == 'UbxCID' and len(n.args) == 2:
                return f'(⟨{self.expr(n.args[0])}, {self.expr(n.args[1])}⟩ : Ubx.Cid)'
            if f == 'bytearray' and not n.args:
                return '([] : List Nat)'
            if f == 'bytearray' and len(n.args) == 1 and isinstance(n.args[0], ast.List):
                return '[' + ', '.join(self.expr(e) for e in n.args[0].elts) + ']'
            # value-returning method of the checksum sub-object or of self
            if isinstance(n.func, ast.Attribute):
                tgt = n.func.value
                args = ' '.join(self.expr(a) for a in n.args)
                if self.is_self_attr(tgt) and tgt.attr in self.S['subs']:
                    fld, sub = self.S['subs'][tgt.attr]
                    if SCHEMA[sub]['methods'].get(n.func.attr, 'void') == 'void':
                        fail(n, 'void method used as a value')
                    return f'(Gen.Src.{sub}.{lname(n.func.attr)} self.{fld} {args})'.replace('  ', ' ')
                if isinstance(tgt, ast.Name) and tgt.id in ('self', '__class__', self.cls) and n.func.attr in self.S['methods']:
                    if self.S['methods'][n.func.attr] == 'void':
                        fail(n, 'void method used as a value')
                    owner = '' if n.func.attr in self.S.get('static', ()) else 'self '
                    return f'(Gen.Src.{self.cls}.{lname(n.func.attr)} {owner}{args})'
            fail(n, 'call')
        if isinstance(n, ast.List):
            return '[' + ', '.join(self.expr(e) for e in n.elts) + ']'
        fail(n, 'expression')

    def cond(self, n):
        """a Python condition as a Lean Bool"""
        if isinstance(n, ast.Compare) and len(n.ops) == 1:
            op, a, b = n.ops[0], n.left, n.comparators[0]
            if isinstance(op, ast.In):
                if self.is_self_attr(b) and b.attr in self.S.get('optlist', ()):
                    return f'(Py.inOptList {self.expr(a)} {self.attr(b)})'
                if isinstance(b, ast.Constant) and isinstance(b.value, str) and self.S.get('chars'):
                    return f'(Py.inChars {self.expr(a)} [{", ".join(str(ord(c)) for c in b.value)}])'
                fail(n, 'membership')
            if type(op) in CMPOPS:
                return f'(decide ({self.expr(a)} {CMPOPS[type(op)]} {self.expr(b)}))'
            fail(n, 'comparison')
        if isinstance(n, ast.BoolOp) and isinstance(n.op, ast.And):
            return '(' + ' && '.join(self.cond(v) for v in n.values) + ')'
        if isinstance(n, ast.Call):
            t = SCHEMA
            v = self.expr(n)          # a Bool-valued method (matches)
            return v
        if self.is_self_attr(n) and n.attr in self.S.get('optlist', ()):
            return f'(Py.truthyOptList {self.attr(n)})'
        fail(n, 'condition')

    # ---- statements -------------------------------------------------------------------------------
    def is_logging(self, s):
        src = ast.unparse(s)
        if isinstance(s, ast.Expr) and isinstance(s.value, ast.Call) and src.startswith('logger.'):
            return True
        if isinstance(s, ast.If) and ast.unparse(s.test).startswith('logger.isEnabledFor') and not s.orelse \
                and all(self.is_logging(x) for x in s.body):
            return True
        if isinstance(s, ast.Expr) and isinstance(s.value, ast.Constant) and isinstance(s.value.value, str):
            return True               # docstring
        if isinstance(s, ast.Assert) and ast.unparse(s.test).startswith('isinstance('):
            return True               # argument type assertions: the model is typed
        return False

    def block(self, stmts, k, ind):
        """Lean expression for: run stmts, then continue with k (an expression over `self` and the locals)"""
        if not stmts:
            return k
        s, rest = stmts[0], stmts[1:]
        pad = ' ' * ind
        nxt = lambda: self.block(rest, k, ind)
        if self.is_logging(s) or isinstance(s, ast.Pass):
            return nxt()
        if isinstance(s, ast.Assign) and len(s.targets) > 1:
            # a = b = e: the targets are assigned from left to right with the one value
            if not isinstance(s.value, ast.Constant):
                fail(s, 'chained assignment of a non-constant')
            split = [ast.Assign(targets=[t], value=s.value, lineno=s.lineno) for t in s.targets]
            return self.block(split + rest, k, ind)
        if isinstance(s, ast.Assign) and len(s.targets) == 1:
            t = s.targets[0]
            if self.is_self_attr(t):
                f = self.attr(t, write=True)
                if f is None:
                    return nxt()        # a write to an attribute that is not modelled (and provably never read)
                return f'let self := {{ self with {f[5:]} := {self.value(s.value, t.attr)} }}\n{pad}{nxt()}'
            if isinstance(t, ast.Name):
                return self.local_assign(t.id, s.value, rest, k, ind)
            if isinstance(t, ast.Tuple) and all(self.is_self_attr(e) for e in t.elts) and len(t.elts) == 2:
                a, b = (self.attr(e, write=True)[5:] for e in t.elts)
                return f'let pyPair := {self.expr(s.value)}\n{pad}let self := {{ self with {a} := pyPair.1, {b} := pyPair.2 }}\n{pad}{nxt()}'
            fail(s, 'assignment target')
        if isinstance(s, ast.AugAssign):
            t = s.target
            if self.is_self_attr(t):
                f = self.attr(t, write=True)
                if f is None:
                    return nxt()
                if type(s.op) not in BINOPS:
                    fail(s, 'operator')
                return f'let self := {{ self with {f[5:]} := {f} {BINOPS[type(s.op)]} {self.expr(s.value)} }}\n{pad}{nxt()}'
            if isinstance(t, ast.Name) and t.id in self.locals and isinstance(s.op, ast.Add):
                return f'let {t.id} := {t.id} ++ {self.expr(s.value)}\n{pad}{nxt()}'
            fail(s, 'augmented assignment')
        if isinstance(s, ast.Expr) and isinstance(s.value, ast.Call):
            return self.call_stmt(s.value, rest, k, ind)
        if isinstance(s, ast.If):
            return self.if_stmt(s, rest, k, ind)
        if isinstance(s, ast.For):
            if not (isinstance(s.target, ast.Name) and not s.orelse):
                fail(s, 'for loop')
            it = self.expr(s.iter)
            self.locals[s.target.id] = 'nat'
            body = self.block(s.body, 'self', ind + 4)
            return f'let self := ({it}).foldl (fun self {s.target.id} =>\n{pad}    {body}) self\n{pad}{nxt()}'
        if isinstance(s, ast.Return):
            if rest:
                fail(s, 'code after return')
            return self.ret(s.value)
        fail(s, 'statement')

    def value(self, v, attr_name):
        if isinstance(v, ast.List) and attr_name in self.S.get('optlist', ()):
            return 'some ' + self.expr(v)              # set_filter: a one-element list
        if isinstance(v, ast.Name) and attr_name in self.S.get('optlist', ()):
            return 'some ' + self.expr(v)
        return self.expr(v)

    def local_assign(self, name, v, rest, k, ind):
        pad = ' ' * ind
        # val = self._to_bin(d): a sentinel-valued helper becomes an Option, tests `val != -1` become matches
        if isinstance(v, ast.Call) and isinstance(v.func, ast.Attribute) and v.func.attr in self.S.get('sentinel', {}):
            self.locals[name] = ('sentinel', self.S['sentinel'][v.func.attr], self.expr(v))
            return self.block(rest, k, ind)
        if isinstance(v, ast.Tuple) and len(v.elts) == 2:
            self.locals[name] = ('tuple', v)
            return self.block(rest, k, ind)
        self.locals[name] = 'val'
        return f'let {name} := {self.expr(v)}\n{pad}{self.block(rest, k, ind)}'

    def queue_item(self, n):
        """what is put on rx_queue: (cid, payload) or the checksum-error marker (crc_error_cid, None)"""
        if isinstance(n, ast.Name) and isinstance(self.locals.get(n.id), tuple) and self.locals[n.id][0] == 'tuple':
            n = self.locals[n.id][1]
        if isinstance(n, ast.Tuple) and len(n.elts) == 2:
            a, b = n.elts
            if isinstance(b, ast.Constant) and b.value is None and ast.unparse(a) == 'self.crc_error_cid':
                return 'Ubx.Packet.crcError'
            return f'Ubx.Packet.data {self.expr(a)} {self.expr(b)}'
        fail(n, 'queue element')

    def call_stmt(self, c, rest, k, ind):
        pad = ' ' * ind
        nxt = lambda: self.block(rest, k, ind)
        if not isinstance(c.func, ast.Attribute):
            fail(c, 'call statement')
        tgt, m = c.func.value, c.func.attr
        args = ' '.join(self.expr(a) for a in c.args)
        if isinstance(tgt, ast.Name) and tgt.id == 'self' and m in self.S['methods']:
            return f'let self := Gen.Src.{self.cls}.{lname(m)} self {args}\n{pad}{nxt()}'
        if self.is_self_attr(tgt) and tgt.attr in self.S['subs']:
            fld, sub = self.S['subs'][tgt.attr]
            return f'let self := {{ self with {fld} := Gen.Src.{sub}.{lname(m)} self.{fld} {args} }}\n{pad}{nxt()}'
        if self.is_self_attr(tgt) and m == 'append' and len(c.args) == 1:
            f = self.attr(tgt, write=True)
            if f is None:
                return nxt()
            item = self.queue_item(c.args[0]) if tgt.attr == 'rx_queue' else self.expr(c.args[0])
            return f'let self := {{ self with {f[5:]} := {f} ++ [{item}] }}\n{pad}{nxt()}'
        if self.is_self_attr(tgt) and m == 'clear' and not c.args:
            f = self.attr(tgt, write=True)
            return f'let self := {{ self with {f[5:]} := [] }}\n{pad}{nxt()}'
        if isinstance(tgt, ast.Name) and tgt.id in self.locals and m == 'append' and len(c.args) == 1:
            return f'let {tgt.id} := {tgt.id} ++ [{self.expr(c.args[0])}]\n{pad}{nxt()}'
        fail(c, 'call statement')

    def if_stmt(self, s, rest, k, ind):
        pad = ' ' * ind
        # `if val != -1:` on a sentinel-valued local
        t = s.test
        if isinstance(t, ast.Compare) and isinstance(t.left, ast.Name) and isinstance(self.locals.get(t.left.id), tuple) \
                and self.locals[t.left.id][0] == 'sentinel' and len(t.ops) == 1 and isinstance(t.ops[0], ast.NotEq) \
                and ast.unparse(t.comparators[0]) == str(self.locals[t.left.id][1]):
            name = t.left.id
            _, _, call = self.locals[name]
            saved = self.locals[name]
            self.locals[name] = 'val'
            a = self.block(s.body, 'self', ind + 6)
            self.locals[name] = saved
            b = self.block(s.orelse, 'self', ind + 6)
            return (f'let self := match {call} with\n{pad}  | some {name} =>\n{pad}      {a}\n{pad}  | none =>\n{pad}      {b}\n'
                    f'{pad}{self.block(rest, k, ind)}')
        a = self.block(s.body, 'self', ind + 4)
        b = self.block(s.orelse, 'self', ind + 4)
        return f'let self := if {self.cond(t)} then\n{pad}    {a}\n{pad}  else\n{pad}    {b}\n{pad}{self.block(rest, k, ind)}'

    def ret(self, v):
        kind = self.S['methods'][self.cur]
        if kind == 'Bool':
            return self.cond(v)
        if kind == 'Nat × Nat' and isinstance(v, ast.Tuple):
            return '(' + ', '.join(self.expr(e) for e in v.elts) + ')'
        if kind.startswith('Ubx.Frame ×'):
            return f'(self, {self.expr(v)})'
        fail(v, 'return value')

    # ---- methods ----------------------------------------------------------------------------------
    def method(self, name):
        fn = next((n for n in self.node.body if isinstance(n, ast.FunctionDef) and n.name == name), None)
        if fn is None:
            fail(self.node, f'method {name} not found')
        self.cur = name
        self.locals = {}
        static = name in self.S.get('static', ())
        args = [a.arg for a in fn.args.args if a.arg != 'self']
        argt = self.S.get('argtypes', {}).get(name, {})
        for a in args:
            self.locals[a] = 'nat'
        sig = ('' if static else f'(self : {self.S["type"]}) ') + ' '.join(f'({a} : {argt.get(a, "Nat")})' for a in args)
        kind = self.S['methods'][name]
        if kind == 'Option Nat':            # sentinel-valued static helper: if C: return X else: return -1
            body = self.sentinel_body(fn.body, self.S['sentinel'][name])
            return f'def {lname(name)} {sig} : Option Nat :=\n  {body}\n'
        ret = self.S['type'] if kind == 'void' else kind
        body = self.block(fn.body, 'self', 2)
        return f'def {lname(name)} {sig} : {ret} :=\n  {body}\n'

    def sentinel_body(self, stmts, sentinel):
        stmts = [s for s in stmts if not self.is_logging(s)]
        if len(stmts) == 1 and isinstance(stmts[0], ast.If):
            s = stmts[0]
            a = [x for x in s.body if not self.is_logging(x)]
            b = [x for x in s.orelse if not self.is_logging(x)]
            if len(a) == 1 and len(b) == 1 and isinstance(a[0], ast.Return) and isinstance(b[0], ast.Return) \
                    and ast.unparse(b[0].value) == str(sentinel):
                return f'if {self.cond(s.test)} then some {self.expr(a[0].value)} else none'
        fail(stmts[0] if stmts else self.node, 'sentinel-valued helper of unknown shape')


def class_consts(repo):
    sys.path.insert(0, repo)
    from ubxlib.frame import UbxFrame
    from ubxlib.parser_ubx import UbxParser
    return {'UbxFrame.SYNC_1': UbxFrame.SYNC_1, 'UbxFrame.SYNC_2': UbxFrame.SYNC_2, 'UbxParser.MAX_MESSAGE_LENGTH': UbxParser.MAX_MESSAGE_LENGTH}


FILES = {'Checksum': 'checksum.py', 'UbxParser': 'parser_ubx.py', 'NmeaParser': 'parser_nmea.py', 'UbxFrame': 'frame.py'}

HEADER = '''import UbxModel.Model.ParserUbx
import UbxModel.Model.ParserNmea
import UbxModel.Model.Frame
import UbxModel.Model.PyPrims
import UbxModel.Model.Codec
import UbxModel.Gen.Keys
/-! GENERATED by tools/pysrc2lean.py from the Python source of the working tree of /repo - do not edit.
    Control logic of the small pure classes, statement by statement, over the model's state types.
    `Proofs/SrcEquiv.lean` proves these definitions equal to the hand-written model. -/
set_option linter.unusedVariables false
'''


def translate(repo):
    consts = class_consts(repo)
    out = [HEADER]
    status = {}
    for cls in ['Checksum', 'UbxParser', 'NmeaParser', 'UbxFrame']:
        try:
            tree = ast.parse(open(os.path.join(repo, 'ubxlib', FILES[cls])).read())
            node = next(n for n in ast.walk(tree) if isinstance(n, ast.ClassDef) and n.name == cls)
            t = Translator(cls, node, consts)
            defs = [t.method(m) for m in ORDER[cls]]
            out.append(f'namespace Gen.Src.{cls}\n\n' + '\n'.join(defs) + f'\nend Gen.Src.{cls}\n')
            status[cls] = 'ok'
        except (Untranslatable, StopIteration, SyntaxError, OSError) as e:
            status[cls] = 'untranslatable: ' + str(e)
            out.append(f'/- {cls}: outside the translatable subset - {str(e).replace("-/", "- /")} -/\n')
    for cls, P in PURE.items():
        try:
            tree = ast.parse(open(os.path.join(repo, 'ubxlib', P['file'])).read())
            node = next(n for n in ast.walk(tree) if isinstance(n, ast.ClassDef) and n.name == cls)
            t = PureTranslator(cls, node)
            defs = [t.method(m) for m in P['methods']]
            out.append(f'namespace Gen.Src.{cls}\n\n' + '\n'.join(defs) + f'\nend Gen.Src.{cls}\n')
            status[cls] = 'ok'
        except (Untranslatable, StopIteration, SyntaxError, OSError) as e:
            status[cls] = 'untranslatable: ' + str(e)
            out.append(f'/- {cls}: outside the translatable subset - {str(e).replace("-/", "- /")} -/\n')
    out.append('namespace Gen.Src\n/-- which classes were translated on this run -/\ndef translated : List (String × Bool) := ['
               + ', '.join(f'("{c}", {"true" if s == "ok" else "false"})' for c, s in status.items()) + ']\nend Gen.Src\n')
    return '\n'.join(out), status


if __name__ == '__main__':
    repo, outfile = sys.argv[1], sys.argv[2]
    text, status = translate(repo)
    if not os.path.exists(outfile) or open(outfile).read() != text:
        open(outfile, 'w').write(text)
    import json
    print(json.dumps(status))

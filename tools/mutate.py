#!/usr/bin/env python3
"""mutate.py [--root <copy of /verif>] [--sample N] [--seed S] [--out file.json]      (development aid)

Mechanical mutation of ubxlib/*.py (one small syntactic change at a time: a comparison or arithmetic operator swapped, and/or
swapped, a condition negated, a constant moved by one, a statement replaced by `pass`, a return value dropped), each in a scratch
clone of /repo.  A mutant that the repository's own tests kill is of no interest; of those that SURVIVE the tests a sample is run
through the quick checks of the properties anchored in the mutated file (stopping at the first that reports a violation).
Prints one line per mutant and a summary; writes the details to --out.  Nothing in /repo is touched."""
import ast
import copy
import json
import os
import random
import shutil
import subprocess
import sys

HERE = os.path.dirname(os.path.dirname(os.path.abspath(__file__)))
args = sys.argv[1:]


def opt(name, default):
    return args[args.index(name) + 1] if name in args else default


ROOT = opt('--root', HERE)
SAMPLE = int(opt('--sample', '200'))
SEED = int(opt('--seed', '1'))
OUT = opt('--out', os.path.join(ROOT, '.scratch', 'mutants.json'))
REPO = '/repo'

CMP = {ast.Lt: ast.LtE, ast.LtE: ast.Lt, ast.Gt: ast.GtE, ast.GtE: ast.Gt, ast.Eq: ast.NotEq, ast.NotEq: ast.Eq, ast.In: ast.NotIn, ast.NotIn: ast.In,
       ast.Is: ast.IsNot, ast.IsNot: ast.Is}
BIN = {ast.Add: ast.Sub, ast.Sub: ast.Add, ast.Mult: ast.FloorDiv, ast.FloorDiv: ast.Mult, ast.Div: ast.Mult, ast.LShift: ast.RShift, ast.RShift: ast.LShift,
       ast.BitAnd: ast.BitOr, ast.BitOr: ast.BitAnd, ast.Mod: ast.FloorDiv}


def is_logging(node):
    """calls of logger.* / print: what they say is not behaviour"""
    return isinstance(node, ast.Expr) and isinstance(node.value, ast.Call) and (
        (isinstance(node.value.func, ast.Attribute) and isinstance(node.value.func.value, ast.Name) and node.value.func.value.id == 'logger')
        or (isinstance(node.value.func, ast.Name) and node.value.func.id == 'print'))


def sites(tree):
    """(kind, path) for every place a mutation applies; path = indices from the module down"""
    out = []

    def walk(node, path, in_log):
        if is_logging(node):
            return
        if isinstance(node, ast.Compare):
            for k, op in enumerate(node.ops):
                if type(op) in CMP:
                    out.append(('cmp', path, k))
        if isinstance(node, ast.BinOp) and type(node.op) in BIN and not isinstance(node.left, (ast.JoinedStr,)) \
                and not (isinstance(node.left, ast.Constant) and isinstance(node.left.value, str)):
            out.append(('bin', path, 0))
        if isinstance(node, ast.AugAssign) and type(node.op) in BIN:
            out.append(('aug', path, 0))
        if isinstance(node, ast.BoolOp):
            out.append(('bool', path, 0))
        if isinstance(node, (ast.If, ast.While)) :
            out.append(('negate', path, 0))
        if isinstance(node, ast.UnaryOp) and isinstance(node.op, ast.Not):
            out.append(('unnot', path, 0))
        if isinstance(node, ast.Constant) and isinstance(node.value, bool):
            out.append(('flipbool', path, 0))
        elif isinstance(node, ast.Constant) and isinstance(node.value, int):
            out.append(('plus1', path, 0))
            if node.value > 0:
                out.append(('minus1', path, 0))
        if isinstance(node, (ast.Assign, ast.AugAssign, ast.Expr)) and not (isinstance(node, ast.Expr) and isinstance(node.value, ast.Constant)):
            out.append(('delete', path, 0))
        if isinstance(node, ast.Return) and node.value is not None and not (isinstance(node.value, ast.Constant) and node.value.value is None):
            out.append(('noreturn', path, 0))
        for field, value in ast.iter_fields(node):
            if isinstance(value, list):
                for k, v in enumerate(value):
                    if isinstance(v, ast.AST):
                        walk(v, path + [(field, k)], in_log)
            elif isinstance(value, ast.AST):
                walk(value, path + [(field, None)], in_log)
    walk(tree, [], False)
    return out


def get(node, path):
    for field, k in path:
        node = getattr(node, field)
        if k is not None:
            node = node[k]
    return node


def put(tree, path, new):
    parent = get(tree, path[:-1])
    field, k = path[-1]
    if k is None:
        setattr(parent, field, new)
    else:
        getattr(parent, field)[k] = new


def apply(tree, site):
    kind, path, k = site
    t = copy.deepcopy(tree)
    node = get(t, path)
    if kind == 'cmp':
        node.ops[k] = CMP[type(node.ops[k])]()
    elif kind in ('bin', 'aug'):
        node.op = BIN[type(node.op)]()
    elif kind == 'bool':
        node.op = ast.Or() if isinstance(node.op, ast.And) else ast.And()
    elif kind == 'negate':
        node.test = ast.UnaryOp(op=ast.Not(), operand=node.test)
    elif kind == 'unnot':
        put(t, path, node.operand)
    elif kind == 'flipbool':
        node.value = not node.value
    elif kind == 'plus1':
        node.value = node.value + 1
    elif kind == 'minus1':
        node.value = node.value - 1
    elif kind == 'delete':
        put(t, path, ast.Pass())
    elif kind == 'noreturn':
        node.value = ast.Constant(value=None)
    ast.fix_missing_locations(t)
    return t


def anchors():
    """file -> properties anchored there (properties.jsonl); renderers also answer to C19, field tables to C07/C08"""
    m = {}
    for l in open(os.path.join(HERE, 'properties.jsonl')):
        d = json.loads(l)
        a = d.get('anchors') or {}
        names = list(a.get('files', [])) + [x.get('where', '') for x in a.get('state', []) + a.get('mechanism', [])]
        for f in names:
            f = os.path.basename(f.split(':')[0])
            if f.endswith('.py'):
                m.setdefault(f, [])
                if d['id'] not in m[f]:
                    m[f].append(d['id'])
    for f in os.listdir(os.path.join(REPO, 'ubxlib')):
        if f.startswith('ubx_') and f.endswith('.py'):
            for p in ('C07', 'C08', 'C19', 'C17'):
                if p not in m.setdefault(f, []):
                    m[f].append(p)
    return m


def main():
    rng = random.Random(SEED)
    amap = anchors()
    pool = []
    for f in sorted(os.listdir(os.path.join(REPO, 'ubxlib'))):
        if not f.endswith('.py') or f in ('_version.py', '__init__.py'):
            continue
        src = open(os.path.join(REPO, 'ubxlib', f)).read()
        tree = ast.parse(src)
        for s in sites(tree):
            pool.append((f, s))
    rng.shuffle(pool)
    print(f'{len(pool)} mutation sites in {len({f for f, _ in pool})} files', flush=True)
    results, survivors_tests, tried = [], 0, 0
    W = '/root/work/mut-%d' % os.getpid()
    for f, s in pool:
        if survivors_tests >= SAMPLE:
            break
        tried += 1
        src = open(os.path.join(REPO, 'ubxlib', f)).read()
        tree = ast.parse(src)
        try:
            new = ast.unparse(apply(tree, s))
        except Exception:
            continue
        if new == ast.unparse(tree):
            continue
        shutil.rmtree(W, ignore_errors=True)
        subprocess.run(['git', 'clone', '-q', REPO, W], check=True)
        try:
            open(os.path.join(W, 'ubxlib', f), 'w').write(new + '\n')
            node = get(tree, s[1])
            where = f'{f}:{getattr(node, "lineno", "?")} {s[0]}'
            try:
                t = subprocess.run(['/venv/bin/python', '-m', 'pytest', '-q', '-x', '-p', 'no:cacheprovider'], cwd=W, capture_output=True, text=True, timeout=120)
            except subprocess.TimeoutExpired:
                continue
            if t.returncode != 0:
                continue                                  # killed by the repository's own tests
            try:
                imp = subprocess.run(['/venv/bin/python', '-c', 'import ubxlib, ubxlib.server_base, ubxlib.parser_ubx, ubxlib.parser_nmea, ubxlib.cfgkeys'], cwd=W,
                                     capture_output=True, text=True, timeout=60)
            except subprocess.TimeoutExpired:
                continue
            if imp.returncode != 0:
                continue
            survivors_tests += 1
            props = amap.get(f, []) or ['C04', 'C07', 'C12']
            verdict, by = 'SURVIVED', None
            rest = [f'C{k:02d}' for k in range(1, 21) if f'C{k:02d}' not in props]       # a survivor of its own properties faces all the others
            for p in props + rest:
                try:
                    r = subprocess.run([os.path.join(ROOT, 'check'), p, '--tier', 'quick'], capture_output=True, text=True, timeout=1800,
                                       env=dict(os.environ, VERIF_REPO=W, VERIF_SEED='0', VERIF_NO_SHRINK='1'))
                except subprocess.TimeoutExpired:
                    verdict, by = 'flagged', p + ' (timeout)'
                    break
                lines = [l for l in r.stdout.splitlines() if l.startswith('VIOLATION')]
                if r.returncode == 1 and lines:
                    verdict, by = ('flagged' if 'no-failing-input-found' not in lines[0] else 'flagged-no-input'), p
                    break
                if r.returncode not in (0, 1):
                    verdict, by = 'check-error', p
                    break
            import difflib
            changed = [l for l in difflib.unified_diff(ast.unparse(tree).splitlines(), new.splitlines(), lineterm='', n=0)
                       if l.startswith(('+', '-')) and not l.startswith(('+++', '---'))][:4]
            results.append({'where': where, 'props_tried': props, 'verdict': verdict, 'by': by, 'diff': changed})
            print(f'{where:45s} {verdict:18s} {by or ""}   {" / ".join(c[:70] for c in changed[:2])}', flush=True)
        finally:
            shutil.rmtree(W, ignore_errors=True)
    os.makedirs(os.path.dirname(OUT), exist_ok=True)
    json.dump({'sites': len(pool), 'tried': tried, 'survived_tests': survivors_tests, 'results': results}, open(OUT, 'w'), indent=1)
    n = len(results)
    fl = sum(r['verdict'].startswith('flagged') for r in results)
    print(f'{tried} mutants made, {n} survived the repository tests; of those {fl} flagged by the checks, {n - fl} not')


main()

#!/usr/bin/env python3
"""Source-level translation of `CfgKeyData.__str__` (`ubxlib/cfgkeys.py`) from the Python AST of the working tree into a Lean
definition in `Except Ubx.Exc` -> lean/UbxModel/Gen/SrcKeyStr.lean.

`res = …`, `res += f'…'`, the `if key_name: … else: …` and the `if self.bits == 1: … elif …: … else: raise ValueError` ladder are translated
statement by statement; an f-string is the concatenation of its parts, with `{x:d}` / `{x}` of an integer attribute `toString x`, `{x:0Nx}`
`Ubx.hexInt N x` (Python's zero-padded hexadecimal of an `int`: the sign counts towards the width; modelled), `"True" if self.value else
"False"` the truth value of the integer.  `CfgKeyData._build_header(…)` is the definition tools/pysrc2lean.py generates; it only looks
at the low 8 / 12 bits of its first two arguments (`& 0xff`, `& 0xfff`), so an `int` attribute is passed by its low 16 bits
(`Py.KeyStr.lowBits`: two's complement for a negative one).  `UbxKeyId.to_str(header)` - checked to be the lookup in `KEY_INFO` - is
the regenerated table of key names (`Ubx.keyName`).  Anything outside the subset raises `Untranslatable`."""
import ast
import os
import re
import sys

from pysrc2lean import Untranslatable, fail

INTATTR = {'self.group_id': 'self.group', 'self.item_id': 'self.item', 'self.value': 'self.value'}


def strip(body):
    return [s for s in body if not (isinstance(s, ast.Expr) and isinstance(s.value, ast.Constant))]


def lit(s):
    if '"' in s or '\\' in s or '\n' in s:
        fail(ast.Constant(s), 'text literal')
    return '"' + s + '"'


def fstr(n, env):
    """an f-string / constant / name as a Lean String expression"""
    if isinstance(n, ast.Constant) and isinstance(n.value, str):
        return lit(n.value)
    if isinstance(n, ast.Name) and env.get(n.id) == 'str':
        return n.id
    if isinstance(n, ast.BinOp) and isinstance(n.op, ast.Add):
        return f'({fstr(n.left, env)} ++ {fstr(n.right, env)})'
    if ast.unparse(n) == 'self.name':
        return 'name'
    if not isinstance(n, ast.JoinedStr):
        fail(n, 'text expression')
    parts = []
    for v in n.values:
        if isinstance(v, ast.Constant):
            if v.value != '':
                parts.append(lit(v.value))
            continue
        if not isinstance(v, ast.FormattedValue) or v.conversion != -1:
            fail(v, 'f-string part')
        e = ast.unparse(v.value)
        spec = None
        if v.format_spec is not None:
            sv = [x for x in v.format_spec.values if not (isinstance(x, ast.Constant) and x.value == '')]
            if len(sv) != 1 or not isinstance(sv[0], ast.Constant):
                fail(v, 'format specification')
            spec = sv[0].value
        if isinstance(v.value, ast.Name) and env.get(v.value.id) == 'str' and spec is None:
            parts.append(v.value.id)
        elif e == 'self.bits' and spec in (None, 'd'):
            parts.append('toString self.bits')
        elif e in INTATTR and spec in (None, 'd'):
            parts.append(f'toString {INTATTR[e]}')
        elif e in INTATTR and spec and re.fullmatch(r'0(\d+)x', spec):
            parts.append(f'Ubx.hexInt {int(spec[1:-1])} {INTATTR[e]}')
        else:
            fail(v, f'formatted value {e}:{spec}')
    return '(' + ' ++ '.join(parts) + ')' if parts else '""'


def cond(n):
    if isinstance(n, ast.Compare) and len(n.ops) == 1 and isinstance(n.ops[0], ast.Eq) and ast.unparse(n.left) == 'self.bits' \
            and isinstance(n.comparators[0], ast.Constant) and isinstance(n.comparators[0].value, int):
        return f'self.bits == {n.comparators[0].value}'
    if ast.unparse(n) == 'self.signed':
        return 'self.signed'
    fail(n, 'condition')


def block(stmts, env, ind):
    pad = ' ' * ind
    stmts = strip(stmts)
    if not stmts:
        fail(ast.Pass(), 'falls off the end')
    s, rest = stmts[0], stmts[1:]
    u = ast.unparse(s)
    if u == 'header = CfgKeyData._build_header(self.group_id, self.item_id, self.bits)':
        return (f'(Gen.Src.CfgKeyData._build_header (Py.KeyStr.lowBits self.group) (Py.KeyStr.lowBits self.item) self.bits) >>= fun header =>\n'
                f'{pad}{block(rest, {**env, "header": "nat"}, ind)}')
    if u == 'key_name = UbxKeyId.to_str(header)' and env.get('header') == 'nat':
        return f'let key_name := Ubx.keyName header\n{pad}{block(rest, {**env, "key_name": "optstr"}, ind)}'
    if isinstance(s, ast.Assign) and len(s.targets) == 1 and isinstance(s.targets[0], ast.Name):
        t = s.targets[0].id
        if isinstance(s.value, ast.IfExp) and ast.unparse(s.value.test) == 'self.value':
            return (f'let {t} := if self.value != 0 then {fstr(s.value.body, env)} else {fstr(s.value.orelse, env)}\n'
                    f'{pad}{block(rest, {**env, t: "str"}, ind)}')
        return f'let {t} := {fstr(s.value, env)}\n{pad}{block(rest, {**env, t: "str"}, ind)}'
    if isinstance(s, ast.AugAssign) and isinstance(s.target, ast.Name) and env.get(s.target.id) == 'str' and isinstance(s.op, ast.Add):
        t = s.target.id
        return f'let {t} := {t} ++ {fstr(s.value, env)}\n{pad}{block(rest, env, ind)}'
    if isinstance(s, ast.If):
        if ast.unparse(s.test) == 'key_name' and env.get('key_name') == 'optstr':
            # truthiness of what to_str returned: a name (the table holds no empty ones - checked by extract.py's table) or None
            th = block(s.body + rest, {**env, 'key_name': 'str'}, ind + 4)
            el = block(s.orelse + rest, env, ind + 4)
            return f'match key_name with\n{pad}| some key_name =>\n{pad}    {th}\n{pad}| none =>\n{pad}    {el}'
        th = block(s.body + rest, env, ind + 2)
        el = block((s.orelse or []) + rest, env, ind + 2)
        return f'if {cond(s.test)} then\n{pad}  {th}\n{pad}else\n{pad}  {el}'
    if isinstance(s, ast.Raise) and ast.unparse(s.exc) in ('ValueError', 'ValueError()'):
        return '.error .valueError'
    if isinstance(s, ast.Return) and isinstance(s.value, ast.Name) and env.get(s.value.id) == 'str':
        return f'.ok {s.value.id}'
    fail(s, 'statement')


HEADER = '''import UbxModel.Model.PyKeyStr
/-! GENERATED by tools/pysrc2lean_keystr.py from `ubxlib/cfgkeys.py` (`CfgKeyData.__str__`) of the working tree of /repo - do not edit.
    `Proofs/SrcEquiv/KeyStr.lean` proves it equal to the hand-written model (`Ubx.CfgItem.text`, Model/RenderKeys.lean). -/
set_option linter.unusedVariables false

namespace Gen.Src.KeyStr
variable [Ubx.KeyTable]

'''


def translate(repo):
    tree = ast.parse(open(os.path.join(repo, 'ubxlib', 'cfgkeys.py')).read())
    kid = next(n for n in ast.walk(tree) if isinstance(n, ast.ClassDef) and n.name == 'UbxKeyId')
    ts = next(n for n in kid.body if isinstance(n, ast.FunctionDef) and n.name == 'to_str')
    b = strip(ts.body)
    if len(b) != 1 or not isinstance(b[0], ast.If) or ast.unparse(b[0].test) != 'key in UbxKeyId.KEY_INFO' \
            or [ast.unparse(x) for x in strip(b[0].body)] != ['return UbxKeyId.KEY_INFO[key].name'] or [ast.unparse(x) for x in strip(b[0].orelse)] != ['return None']:
        fail(ts, 'UbxKeyId.to_str is not the lookup in KEY_INFO')
    cls = next(n for n in ast.walk(tree) if isinstance(n, ast.ClassDef) and n.name == 'CfgKeyData')
    m = next(n for n in cls.body if isinstance(n, ast.FunctionDef) and n.name == '__str__')
    if [a.arg for a in m.args.args] != ['self']:
        fail(m, 'signature')
    body = block(m.body, {}, 2)
    return HEADER + f'def CfgKeyData.__str__ (name : String) (self : Ubx.CfgItem) : Except Ubx.Exc String :=\n  {body}\n\nend Gen.Src.KeyStr\n'


if __name__ == '__main__':
    repo, outfile = sys.argv[1], sys.argv[2]
    try:
        text, status = translate(repo), 'ok'
    except (Untranslatable, StopIteration, SyntaxError, OSError, AttributeError, KeyError, IndexError) as e:
        text, status = f'/-! CfgKeyData.__str__: outside the translatable subset - {str(e).replace("-/", "- /")} -/\n', 'untranslatable: ' + str(e)[:300]
    if not os.path.exists(outfile) or open(outfile).read() != text:
        open(outfile, 'w').write(text)
    print(status)

#!/usr/bin/env python3
"""Source-level translation of the configuration-item codec: `ubxlib/cfgkeys.py`, class `CfgKeyData`
(`from_key`, `pack`, `_pack_keyid`, `_pack_value`, `unpack`, `_unpack_value`), from the Python AST of the working tree
into Lean definitions over `Ubx.CfgItem` in the `Except Ubx.Exc` monad -> lean/UbxModel/Gen/SrcCfg.lean.

Every method becomes `def m [Ubx.KeyTable] (self : Ubx.CfgItem) (args…) : Except Ubx.Exc (ρ × Ubx.CfgItem)`: what it
returns and the object afterwards; `raise X` is `.error`, a call that may raise is a bind (`>>=`), `try: … except struct.error:
raise ValueError` is `Py.reraise`, an `if`/`elif` ladder is a ladder of `if … then … else`, with the statements after
it carried into every branch (so there are no join points to reason about).

Modelled, not translated: `struct.pack` / `struct.unpack` for the one-value little-endian formats (`Py.structPack`,
`Py.structUnpack`: the model's `packU`/`packI`/`unpackU`/`unpackI` by format string), slicing, `UbxKeyId.sign`
(`Ubx.keySigned`, the key table in force), the static helpers come from `Gen/Src.lean` (translated there).
Anything outside the subset raises `Untranslatable`."""
import ast
import os
import sys

from pysrc2lean import Untranslatable, fail, lname

METHODS = {   # name -> (params [(name, type)], result type)
    '_pack_keyid': ([], 'bytes'),
    '_pack_value': ([], 'bytes'),
    'pack': ([], 'bytes'),
    '_unpack_value': ([('data', 'bytes')], 'nat'),
    'unpack': ([('data', 'bytes')], 'nat'),
}
ORDER = ['_pack_keyid', '_pack_value', 'pack', '_unpack_value', 'unpack']
LEANTYPE = {'bytes': 'List Nat', 'nat': 'Nat', 'int': 'Int', 'bool': 'Bool'}
ATTRS = {'group_id': ('group', 'int'), 'item_id': ('item', 'int'), 'bits': ('bits', 'nat'), 'signed': ('signed', 'bool'), 'value': ('value', 'int')}
STATIC = {'_bits_from_key': 1, '_bytes_for_size': 1, '_group_from_key': 1, '_item_from_key': 1, '_build_header': 3}
FORMATS = {'<B', '<b', '<H', '<h', '<I', '<i', '<Q', '<q'}


class CfgTranslator:
    def __init__(self, node):
        self.node = node
        self.fresh = 0

    # expressions -> (lean, type); pure ones only
    def expr(self, n, env):
        if isinstance(n, ast.Constant):
            v = n.value
            if isinstance(v, bool):
                return ('1' if v else '0'), 'int'          # True / False stored in `value`: the integers 1 / 0
            if isinstance(v, int) and v >= 0:
                return str(v), 'lit'
            fail(n, 'constant')
        if isinstance(n, ast.Name):
            if n.id in env:
                return env[n.id]
            fail(n, 'unknown name')
        if isinstance(n, ast.Attribute) and isinstance(n.value, ast.Name) and n.value.id == 'self' and n.attr in ATTRS:
            f, t = ATTRS[n.attr]
            return f'self.{f}', t
        if isinstance(n, ast.Subscript) and isinstance(n.value, ast.Name) and n.value.id in env:
            base, t = env[n.value.id]
            s = n.slice
            if t == 'unpacked' and isinstance(s, ast.Constant) and s.value == 0:
                return base, 'int'                         # results[0] of a one-value format
            if t == 'bytes' and isinstance(s, ast.Slice) and s.step is None:
                if s.lower is None and s.upper is not None:
                    u, tu = self.expr(s.upper, env)
                    if tu in ('nat', 'lit'):
                        return f'({base}.take {u})', 'bytes'
                if s.upper is None and s.lower is not None:
                    l, tl = self.expr(s.lower, env)
                    if tl in ('nat', 'lit'):
                        return f'({base}.drop {l})', 'bytes'
            fail(n, 'subscript')
        if isinstance(n, ast.BinOp) and isinstance(n.op, ast.Add):
            (a, ta), (b, tb) = self.expr(n.left, env), self.expr(n.right, env)
            if ta == tb == 'bytes':
                return f'({a} ++ {b})', 'bytes'
            if {ta, tb} <= {'nat', 'lit'}:
                return f'({a} + {b})', 'nat'
            fail(n, 'addition')
        if isinstance(n, ast.IfExp):
            c = self.cond(n.test, env)
            (a, ta), (b, tb) = self.expr(n.body, env), self.expr(n.orelse, env)
            if {ta, tb} <= {'lit', 'int'}:
                return f'(if {c} then ({a} : Int) else ({b} : Int))', 'int'
            fail(n, 'conditional expression')
        if isinstance(n, ast.Call) and ast.unparse(n.func) == 'len' and len(n.args) == 1:
            a, t = self.expr(n.args[0], env)
            if t == 'bytes':
                return f'{a}.length', 'nat'
        if isinstance(n, ast.Call) and ast.unparse(n.func) == 'UbxKeyId.sign' and len(n.args) == 1:
            a, t = self.expr(n.args[0], env)
            return f'(Ubx.keySigned {self.as_nat(a, t, n)})', 'bool'
        fail(n, 'expression')

    def as_nat(self, a, t, node):
        if t in ('nat', 'lit'):
            return a
        if t == 'int':
            return f'({a}).toNat'
        fail(node, f'{t} where a number is expected')

    def as_int(self, a, t, node):
        if t == 'int':
            return a
        if t in ('nat', 'lit'):
            return f'(({a} : Nat) : Int)'
        fail(node, f'{t} where an integer is expected')

    def cond(self, n, env):
        if isinstance(n, ast.BoolOp):
            op = ' && ' if isinstance(n.op, ast.And) else ' || '
            return '(' + op.join(self.cond(v, env) for v in n.values) + ')'
        if isinstance(n, ast.Compare) and len(n.ops) == 1:
            (a, ta), (b, tb) = self.expr(n.left, env), self.expr(n.comparators[0], env)
            ops = {ast.Eq: '==', ast.Lt: '<', ast.Gt: '>', ast.LtE: '≤', ast.GtE: '≥', ast.NotEq: '!='}
            op = ops.get(type(n.ops[0]))
            if not op:
                fail(n, 'comparison')
            if 'int' in (ta, tb):
                a, b = self.as_int(a, ta, n), self.as_int(b, tb, n)
            elif not {ta, tb} <= {'nat', 'lit'}:
                fail(n, f'comparison of {ta} with {tb}')
            return f'({a} {op} {b})' if op in ('==', '!=') else f'(decide ({a} {op} {b}))'
        a, t = self.expr(n, env)
        if t == 'bool':
            return a
        if t == 'int':
            return f'({a} != 0)'                          # truthiness of a number
        fail(n, 'condition')

    # a call that may raise -> lean expression of type Except Exc <t>, and t
    def raising(self, n, env):
        if not isinstance(n, ast.Call):
            return None
        f = ast.unparse(n.func)
        if f in ('struct.pack', 'struct.unpack') and len(n.args) == 2 and isinstance(n.args[0], ast.Constant) and n.args[0].value in FORMATS:
            a, t = self.expr(n.args[1], env)
            if f == 'struct.pack':
                return f'(Py.structPack "{n.args[0].value}" {self.as_int(a, t, n)})', 'bytes'
            if t != 'bytes':
                fail(n, 'struct.unpack of something that is no byte string')
            return f'(Py.structUnpack "{n.args[0].value}" {a})', 'unpacked'
        if f.startswith('CfgKeyData.') and f.split('.')[1] in STATIC and len(n.args) == STATIC[f.split('.')[1]]:
            args = [self.as_nat(*self.expr(a, env), n) for a in n.args]
            return f'(Gen.Src.CfgKeyData.{f.split(".")[1]} {" ".join(args)})', 'nat'
        if isinstance(n.func, ast.Attribute) and isinstance(n.func.value, ast.Name) and n.func.value.id == 'self' and n.func.attr in METHODS:
            params, rt = METHODS[n.func.attr]
            if len(n.args) != len(params):
                fail(n, 'arguments')
            args = [self.expr(a, env)[0] for a in n.args]
            return f'(Gen.Src.CfgItem.{lname(n.func.attr)} self {" ".join(args)})'.replace(' )', ')'), ('method', rt)
        return None

    def bind(self, call, t, name, rest_fn, env, ind, op=None):
        """let name ← call (a method call also yields the object afterwards)"""
        pad = ' ' * ind
        e2 = dict(env)
        if isinstance(t, tuple):            # own method: (value, self)
            rt = t[1]
            self.fresh += 1
            v = name or f'v{self.fresh}'
            if op == '+=':
                tmp = f'r{self.fresh}'
                e2[name] = (name, 'nat')
                return f'{call} >>= fun ({tmp}, self) =>\n{pad}  let {name} := {name} + {tmp}\n{pad}  {rest_fn(e2, ind + 2)}'
            e2[v] = (v, rt)
            return f'{call} >>= fun ({v}, self) =>\n{pad}  {rest_fn(e2, ind + 2)}'
        e2[name] = (name, t)
        return f'{call} >>= fun {name} =>\n{pad}  {rest_fn(e2, ind + 2)}'

    def block(self, stmts, env, ind, after=None):
        """Lean expression of type Except Exc (ρ × CfgItem); `after(env, ind)` continues after the block (None: the function ends)"""
        stmts = [s for s in stmts if not (isinstance(s, ast.Expr) and isinstance(s.value, ast.Constant))]
        pad = ' ' * ind
        if not stmts:
            if after is None:
                fail(self.node, 'a path through the function ends without return')
            return after(env, ind)
        s, rest = stmts[0], stmts[1:]
        rest_fn = lambda e, i: self.block(rest, e, i, after)
        if isinstance(s, ast.Return):
            a, t = self.expr(s.value, env)
            want = self.rtype
            if want == 'nat':
                a = self.as_nat(a, t, s)
            elif t != want:
                fail(s, f'returns {t}, not {want}')
            return f'.ok ({a}, self)'
        if isinstance(s, ast.Raise):
            name = ast.unparse(s.exc) if s.exc else ''
            if name.startswith('ValueError'):
                return '.error .valueError'
            fail(s, 'raise')
        if isinstance(s, ast.Assign) and len(s.targets) == 1:
            t0, v = s.targets[0], s.value
            r = self.raising(v, env)
            if isinstance(t0, ast.Name):
                if r:
                    return self.bind(r[0], r[1], t0.id, rest_fn, env, ind)
                a, t = self.expr(v, env)
                e2 = dict(env)
                e2[t0.id] = (t0.id, 'nat' if t == 'lit' else t)
                ann = ' : Nat' if t == 'lit' else ''
                return f'let {t0.id}{ann} := {a}\n{pad}{rest_fn(e2, ind)}'
            if isinstance(t0, ast.Attribute) and isinstance(t0.value, ast.Name) and t0.value.id == 'self' and t0.attr in ATTRS:
                f, ft = ATTRS[t0.attr]
                if r:
                    self.fresh += 1
                    tmp = f'x{self.fresh}'
                    conv = (lambda x: f'(({x} : Nat) : Int)') if ft == 'int' and r[1] == 'nat' else (lambda x: x)
                    return self.bind(r[0], r[1], tmp, lambda e, i: f'let self := {{ self with {f} := {conv(tmp)} }}\n{" " * i}{rest_fn(e, i)}', env, ind)
                a, t = self.expr(v, env)
                if ft == 'int':
                    a = self.as_int(a, t, s)
                elif ft == 'nat':
                    a = self.as_nat(a, t, s)
                elif t != ft:
                    fail(s, f'{t} assigned to {t0.attr}')
                return f'let self := {{ self with {f} := {a} }}\n{pad}{rest_fn(env, ind)}'
            fail(s, 'assignment')
        if isinstance(s, ast.AugAssign) and isinstance(s.target, ast.Name) and isinstance(s.op, ast.Add) and s.target.id in env:
            r = self.raising(s.value, env)
            if r and isinstance(r[1], tuple):
                return self.bind(r[0], r[1], s.target.id, rest_fn, env, ind, op='+=')
            a, t = self.expr(s.value, env)
            return f'let {s.target.id} := {s.target.id} + {self.as_nat(a, t, s)}\n{pad}{rest_fn(env, ind)}'
        if isinstance(s, ast.If):
            c = self.cond(s.test, env)
            a = self.block(s.body, env, ind + 2, rest_fn)
            b = self.block(s.orelse, env, ind + 2, rest_fn) if s.orelse else rest_fn(env, ind + 2)
            return f'if {c} then\n{pad}  {a}\n{pad}else\n{pad}  {b}'
        if isinstance(s, ast.Try):
            # try: <body> except struct.error: raise ValueError      - the body's locals are visible afterwards
            if not (len(s.handlers) == 1 and not s.orelse and not s.finalbody and ast.unparse(s.handlers[0].type) == 'struct.error'
                    and len(s.handlers[0].body) == 1 and isinstance(s.handlers[0].body[0], ast.Raise)
                    and ast.unparse(s.handlers[0].body[0].exc).startswith('ValueError')):
                fail(s, 'try statement')
            # the rest of the function runs outside the try: the body yields the locals the rest needs (and self)
            names = sorted({n.id for st in s.body for n in ast.walk(st) if isinstance(n, ast.Name) and isinstance(n.ctx, ast.Store)})
            used = [n for n in names if any(isinstance(x, ast.Name) and x.id == n for r_ in rest for x in ast.walk(r_))]
            if len(used) != 1:
                fail(s, 'try body must hand exactly one local to the code after it')
            u = used[0]
            inner_rt, self.rtype = self.rtype, '@local'
            body = self.block(s.body, env, ind + 4, lambda e, i: f'.ok ({e[u][0]}, self)')
            self.rtype = inner_rt
            ut = 'nat' if u in env and env[u][1] == 'nat' else self.local_type(s.body, u, env)
            e2 = dict(env)
            e2[u] = (u, ut)
            return (f'Py.reraise .structError .valueError (\n{pad}    {body}) >>= fun ({u}, self) =>\n{pad}  {rest_fn(e2, ind + 2)}')
        fail(s, 'statement')

    def local_type(self, body, name, env):
        for st in body:
            if isinstance(st, ast.Assign) and isinstance(st.targets[0], ast.Name) and st.targets[0].id == name:
                v = st.value
                if isinstance(v, ast.BinOp):
                    return 'bytes'
                r = self.raising(v, env)
                if r:
                    return r[1][1] if isinstance(r[1], tuple) else r[1]
        return 'nat'

    def method(self, name):
        fn = next((n for n in self.node.body if isinstance(n, ast.FunctionDef) and n.name == name), None)
        if fn is None:
            fail(self.node, f'method {name} not found')
        params, rt = METHODS[name]
        got = [a.arg for a in fn.args.args if a.arg != 'self']
        if len(got) != len(params) or fn.args.defaults:
            fail(fn, 'signature')
        self.rtype = rt
        env = {g: (g, pt) for g, (_, pt) in zip(got, params)}
        body = self.block(fn.body, env, 2)
        sig = ' '.join(f'({g} : {LEANTYPE[pt]})' for g, (_, pt) in zip(got, params))
        return f'def {lname(name)} (self : Ubx.CfgItem) {sig} : Except Ubx.Exc ({LEANTYPE[rt]} × Ubx.CfgItem) :=\n  {body}\n'

    def from_key(self):
        """classmethod from_key(cls, key, value=None): the static helpers, then the constructor"""
        fn = next((n for n in self.node.body if isinstance(n, ast.FunctionDef) and n.name == 'from_key'), None)
        if fn is None or [a.arg for a in fn.args.args] != ['cls', 'key', 'value']:
            fail(self.node, 'from_key')
        env = {'key': ('key', 'nat'), 'value': ('value', 'int')}
        stmts = [s for s in fn.body if not (isinstance(s, ast.Expr) and isinstance(s.value, ast.Constant))]
        ret = stmts[-1]
        if not (isinstance(ret, ast.Return) and isinstance(ret.value, ast.Call) and ast.unparse(ret.value.func) == 'cls' and len(ret.value.args) == 6):
            fail(fn, 'from_key does not end in the constructor call')

        def ctor(e, i):
            a = [self.expr(x, e) for x in ret.value.args[1:]]
            return (f'.ok {{ group := {self.as_int(*a[0], ret)}, item := {self.as_int(*a[1], ret)}, bits := {self.as_nat(*a[2], ret)}, '
                    f'signed := {a[4][0]}, value := {a[3][0]} }}')
        self.rtype = '@ctor'
        body = self.block(stmts[:-1], env, 2, ctor)
        return f'def from_key (key : Nat) (value : Int) : Except Ubx.Exc Ubx.CfgItem :=\n  {body}\n'


HEADER = '''import UbxModel.Model.CfgKeys
import UbxModel.Model.PyCfg
import UbxModel.Gen.Src
/-! GENERATED by tools/pysrc2lean_cfg.py from `ubxlib/cfgkeys.py` of the working tree of /repo - do not edit.
    `CfgKeyData.from_key / pack / unpack` and their helpers, statement by statement, over `Ubx.CfgItem` in `Except Ubx.Exc`.
    `Proofs/SrcEquiv/CfgItem.lean` proves these definitions equal to the hand-written model (Model/CfgKeys.lean). -/
set_option linter.unusedVariables false

namespace Gen.Src.CfgItem
variable [Ubx.KeyTable]

'''


def translate_cfg(repo):
    tree = ast.parse(open(os.path.join(repo, 'ubxlib', 'cfgkeys.py')).read())
    node = next(n for n in ast.walk(tree) if isinstance(n, ast.ClassDef) and n.name == 'CfgKeyData')
    t = CfgTranslator(node)
    defs = [t.method(m) for m in ORDER] + [t.from_key()]
    return HEADER + '\n'.join(defs) + '\nend Gen.Src.CfgItem\n'


if __name__ == '__main__':
    repo, outfile = sys.argv[1], sys.argv[2]
    try:
        text, status = translate_cfg(repo), 'ok'
    except (Untranslatable, StopIteration, SyntaxError, OSError) as e:
        text, status = f'/-! cfgkeys.py (CfgKeyData methods): outside the translatable subset - {str(e).replace("-/", "- /")} -/\n', 'untranslatable: ' + str(e)
    if not os.path.exists(outfile) or open(outfile).read() != text:
        open(outfile, 'w').write(text)
    print(status)

#!/usr/bin/env python3
"""keep_seed.py <worktree> <seed-id> <property> [--all]     (development aid)

Confirms a seeded change independently in a scratch clone of /repo (outside /repo and /verif): the patch applies,
the repository's tests pass with it, the demonstration exits 1 with it and 0 without; then runs the checks against
the changed clone and stores patch, demonstration and meta.json under /verif/seeded/<seed-id>/."""
import json, os, shutil, subprocess, sys, time
ROOT = os.path.dirname(os.path.dirname(os.path.abspath(__file__)))
wt, sid, prop = sys.argv[1:4]
allprops = '--all' in sys.argv
src = os.path.join(wt, '_mutant')
W = '/root/work/seed-%d' % os.getpid()
shutil.rmtree(W, ignore_errors=True)
subprocess.run(['git', 'clone', '-q', '/repo', W], check=True)
meta = {'id': sid, 'property': prop, 'base_commit': subprocess.run(['git', '-C', '/repo', 'rev-parse', '--short', 'HEAD'], capture_output=True, text=True).stdout.strip()}
try:
    os.makedirs(os.path.join(W, '_mutant'))
    shutil.copy(os.path.join(src, 'demo.py'), os.path.join(W, '_mutant', 'demo.py'))
    run = lambda: subprocess.run(['/venv/bin/python', '_mutant/demo.py'], cwd=W, capture_output=True, text=True, timeout=600)
    r0 = run()
    a = subprocess.run(['git', 'apply', os.path.join(src, 'patch.diff')], cwd=W, capture_output=True, text=True)
    if a.returncode:
        sys.exit('patch does not apply: ' + a.stderr)
    t = subprocess.run(['/venv/bin/python', '-m', 'pytest', '-q', '-p', 'no:cacheprovider'], cwd=W, capture_output=True, text=True)
    r1 = run()
    meta['confirmed'] = {'demo_exit_without_change': r0.returncode, 'demo_exit_with_change': r1.returncode,
                         'tests_with_change': t.stdout.strip().splitlines()[-1], 'demo_output_with_change': (r1.stdout + r1.stderr)[-600:]}
    print(json.dumps(meta['confirmed'], indent=1))
    ok = r0.returncode == 0 and r1.returncode == 1 and ' passed' in meta['confirmed']['tests_with_change'] and 'failed' not in meta['confirmed']['tests_with_change']
    if not ok:
        sys.exit('NOT CONFIRMED')
    props = [f'C{i:02d}' for i in range(1, 21)] if allprops else [prop]
    res = {}
    for p in props:
        t0 = time.time()
        r = subprocess.run([os.path.join(ROOT, 'check'), p, '--tier', 'quick'], capture_output=True, text=True, env=dict(os.environ, VERIF_REPO=W, VERIF_SEED='0'))
        lines = [l for l in r.stdout.splitlines() if l.startswith(('OK', 'VIOLATION', 'KNOWN'))]
        res[p] = {'exit': r.returncode, 'lines': [l[:160] for l in lines[:4]], 'wall_s': round(time.time() - t0, 1)}
        rp = [l.split('replay=')[1].split()[0] for l in lines if 'replay=' in l]
        if rp and p == prop:
            d = json.load(open(os.path.join(ROOT, rp[0])))
            res[p]['replay'] = {k: (str(d.get(k))[:400] if d.get(k) is not None else None) for k in ('kind', 'component', 'input', 'expected', 'observed', 'what')}
        print(p, res[p]['exit'], res[p]['lines'][:2])
    meta['checks_quick_seed0'] = res
    meta['caught_by'] = sorted(p for p, v in res.items() if v['exit'] == 1)
    out = os.path.join(ROOT, 'seeded', sid)
    os.makedirs(out, exist_ok=True)
    shutil.copy(os.path.join(src, 'patch.diff'), out)
    shutil.copy(os.path.join(src, 'demo.py'), out)
    if os.path.exists(os.path.join(src, 'notes.md')):
        shutil.copy(os.path.join(src, 'notes.md'), out)
    meta['ran'] = ['git clone /repo <scratch>; git apply patch.diff; /venv/bin/python -m pytest -q -p no:cacheprovider; /venv/bin/python _mutant/demo.py (with and without the change)',
                   'VERIF_REPO=<scratch> ./check <Cxx> --tier quick']
    json.dump(meta, open(os.path.join(out, 'meta.json'), 'w'), indent=1)
finally:
    shutil.rmtree(W, ignore_errors=True)
    subprocess.run(['/venv/bin/python', os.path.join(ROOT, 'tools', 'extract.py'), '/repo', os.path.join(ROOT, 'lean', 'UbxModel', 'Gen')], capture_output=True)
    subprocess.run(['/venv/bin/python', os.path.join(ROOT, 'tools', 'pysrc2lean.py'), '/repo', os.path.join(ROOT, 'lean', 'UbxModel', 'Gen', 'Src.lean')], capture_output=True)
    subprocess.run(['/venv/bin/python', os.path.join(ROOT, 'tools', 'pysrc2lean_server.py'), '/repo', os.path.join(ROOT, 'lean', 'UbxModel', 'Gen', 'SrcServer.lean')], capture_output=True)
    subprocess.run(['/venv/bin/python', os.path.join(ROOT, 'tools', 'pysrc2lean_cfg.py'), '/repo', os.path.join(ROOT, 'lean', 'UbxModel', 'Gen', 'SrcCfg.lean')], capture_output=True)
    subprocess.run(['/venv/bin/python', os.path.join(ROOT, 'tools', 'pysrc2lean_types.py'), '/repo', os.path.join(ROOT, 'lean', 'UbxModel', 'Gen', 'SrcTypes.lean')], capture_output=True)
    subprocess.run(['/venv/bin/python', os.path.join(ROOT, 'tools', 'pysrc2lean_tty.py'), '/repo', os.path.join(ROOT, 'lean', 'UbxModel', 'Gen', 'SrcTty.lean')], capture_output=True)
    subprocess.run(['/venv/bin/python', os.path.join(ROOT, 'tools', 'pysrc2lean_helpers.py'), '/repo', os.path.join(ROOT, 'lean', 'UbxModel', 'Gen', 'SrcHelpers.lean')], capture_output=True)
    subprocess.run(['/venv/bin/python', os.path.join(ROOT, 'tools', 'pysrc2lean_render.py'), '/repo', os.path.join(ROOT, 'lean', 'UbxModel', 'Gen', 'SrcRender.lean')], capture_output=True)
    subprocess.run(['/venv/bin/python', os.path.join(ROOT, 'tools', 'pysrc2lean_gpsd.py'), '/repo', os.path.join(ROOT, 'lean', 'UbxModel', 'Gen', 'SrcGpsd.lean')], capture_output=True)
    subprocess.run(['/venv/bin/python', os.path.join(ROOT, 'tools', 'pysrc2lean_gpsdtx.py'), '/repo', os.path.join(ROOT, 'lean', 'UbxModel', 'Gen', 'SrcGpsdTx.lean')], capture_output=True)
    subprocess.run(['/venv/bin/python', os.path.join(ROOT, 'tools', 'pysrc2lean_keystr.py'), '/repo', os.path.join(ROOT, 'lean', 'UbxModel', 'Gen', 'SrcKeyStr.lean')], capture_output=True)
    subprocess.run(['/venv/bin/python', os.path.join(ROOT, 'tools', 'pysrc2lean_str.py'), '/repo', os.path.join(ROOT, 'lean', 'UbxModel', 'Gen', 'SrcStr.lean')], capture_output=True)
    subprocess.run(['/venv/bin/python', os.path.join(ROOT, 'tools', 'pysrc2lean_fields.py'), '/repo', os.path.join(ROOT, 'lean', 'UbxModel', 'Gen', 'SrcFields.lean')], capture_output=True)
    subprocess.run(['/venv/bin/python', os.path.join(ROOT, 'tools', 'pysrc2lean_blocks.py'), '/repo', os.path.join(ROOT, 'lean', 'UbxModel', 'Gen', 'SrcBlocks.lean')], capture_output=True)
    subprocess.run(['/venv/bin/python', os.path.join(ROOT, 'tools', 'pysrc2lean_valset.py'), '/repo', os.path.join(ROOT, 'lean', 'UbxModel', 'Gen', 'SrcValset.lean')], capture_output=True)
    subprocess.run(['/venv/bin/python', os.path.join(ROOT, 'tools', 'pysrc2lean_factory.py'), '/repo', os.path.join(ROOT, 'lean', 'UbxModel', 'Gen', 'SrcFactory.lean')], capture_output=True)
    subprocess.run(['/venv/bin/python', os.path.join(ROOT, 'tools', 'pysrc2lean_valget.py'), '/repo', os.path.join(ROOT, 'lean', 'UbxModel', 'Gen', 'SrcValget.lean')], capture_output=True)

#!/usr/bin/env python3
"""Source-level translation of the decoding loop of a UBX-CFG-VALGET response: `ubxlib/ubx_cfg_valget.py`, `UbxCfgValGet.unpack`,
from the Python AST of the working tree into a Lean definition over `Py.Ctl` (the calculus of tools/pysrc2lean_server.py) ->
lean/UbxModel/Gen/SrcValget.lean.  What the method calls is what the other translators generate: `CfgKeyData.unpack`
(`Gen.Src.CfgItem.unpack`, tools/pysrc2lean_cfg.py) and, through `super().unpack()` = `self.f.unpack(self.data)`, the container's
`Fields.unpack` over the fixed header items (`Gen.Src.Types.Fields.unpack`, tools/pysrc2lean_types.py).

The state of the method: the container being filled (the names `Fields.add` has seen - it raises `KeyError` for one it has seen
before -, the fixed items, the key/value items in the order added) and the locals `work_data`, `item`.  `while len(work_data) >= n`
gets `len(work_data)` iterations of fuel (running out of it is an abort of its own, which the equivalence proof shows cannot happen:
every pass drops at least one byte).  `CfgKeyData(f'data{item}')` is the object `CfgKeyData.__init__` leaves (read off the real class;
`None` attributes are written 0 - `unpack` assigns all five attributes before it reads any, which `cfg_unpack` proves for every
prior object).

Anything outside this subset raises `Untranslatable`: the tie is then reported unavailable, never as a verdict."""
import ast
import os
import sys

from pysrc2lean import Untranslatable, fail

FMT = {'U1': 'uint 1', 'U2': 'uint 2', 'U4': 'uint 4', 'U8': 'uint 8', 'I1': 'sint 1', 'I2': 'sint 2', 'I4': 'sint 4', 'I8': 'sint 8',
       'X1': 'uint 1', 'X2': 'uint 2', 'X4': 'uint 4'}


def fname(n, env):
    """the name an item is constructed with: 'text' or f'text{local}' -> Lean Py.FName"""
    if isinstance(n, ast.Constant) and isinstance(n.value, str) and n.value.isidentifier():
        return f'("{n.value}", none)'
    if isinstance(n, ast.JoinedStr) and len(n.values) == 2 and isinstance(n.values[0], ast.Constant) and isinstance(n.values[1], ast.FormattedValue) \
            and isinstance(n.values[1].value, ast.Name) and n.values[1].value.id in env and env[n.values[1].value.id] == 'nat' \
            and n.values[1].conversion == -1 and n.values[1].format_spec is None and str(n.values[0].value).isidentifier():
        return f'("{n.values[0].value}", some st.{n.values[1].value.id})'
    fail(n, 'item name')


class V:
    def __init__(self, repo):
        self.repo = repo
        self.defs = []

    def check_frame_unpack(self):
        """`super().unpack()` must be `UbxFrame.unpack`: `return self.f.unpack(self.data)`"""
        tree = ast.parse(open(os.path.join(self.repo, 'ubxlib', 'frame.py')).read())
        cls = next(n for n in ast.walk(tree) if isinstance(n, ast.ClassDef) and n.name == 'UbxFrame')
        m = next(n for n in cls.body if isinstance(n, ast.FunctionDef) and n.name == 'unpack')
        body = [s for s in m.body if not (isinstance(s, ast.Expr) and isinstance(s.value, ast.Constant))]
        if len(body) != 1 or not isinstance(body[0], ast.Return) or ast.unparse(body[0].value) != 'self.f.unpack(self.data)':
            fail(m, 'UbxFrame.unpack is not `return self.f.unpack(self.data)`')

    def fresh_item(self):
        """what `CfgKeyData(name)` holds, from the defaults of `__init__` in the source"""
        tree = ast.parse(open(os.path.join(self.repo, 'ubxlib', 'cfgkeys.py')).read())
        cls = next(n for n in ast.walk(tree) if isinstance(n, ast.ClassDef) and n.name == 'CfgKeyData')
        m = next(n for n in cls.body if isinstance(n, ast.FunctionDef) and n.name == '__init__')
        names = [a.arg for a in m.args.args][1:]
        dflt = dict(zip(names[len(names) - len(m.args.defaults):], m.args.defaults))
        if names[0] != 'name' or 'name' in dflt:
            fail(m, 'CfgKeyData.__init__ signature')
        assigned = {}
        for s in m.body:
            if isinstance(s, ast.Assign) and len(s.targets) == 1 and isinstance(s.targets[0], ast.Attribute) and ast.unparse(s.targets[0].value) == 'self' \
                    and isinstance(s.value, ast.Name):
                assigned[s.targets[0].attr] = s.value.id
            elif isinstance(s, ast.Expr) and ast.unparse(s.value) == 'super().__init__(name)':
                continue
            else:
                fail(s, 'statement of CfgKeyData.__init__')
        out = {}
        for attr, lean in (('group_id', 'group'), ('item_id', 'item'), ('bits', 'bits'), ('signed', 'signed'), ('value', 'value')):
            if attr not in assigned or assigned[attr] not in dflt:
                fail(m, f'CfgKeyData.__init__ does not set {attr} from a defaulted parameter')
            d = dflt[assigned[attr]]
            if not isinstance(d, ast.Constant):
                fail(d, 'default')
            v = d.value
            if lean == 'signed':
                if not isinstance(v, bool):
                    fail(d, 'default of signed')
                out[lean] = 'true' if v else 'false'
            elif v is None:
                out[lean] = '0'
            elif isinstance(v, int) and not isinstance(v, bool) and v >= 0:
                out[lean] = str(v)
            else:
                fail(d, 'default')
        return '{ ' + ', '.join(f'{k} := {v}' for k, v in out.items()) + ' }'

    # ---- statements of `unpack` ---------------------------------------------------------------------------------
    def block(self, stmts, env, ind, in_loop):
        pad = ' ' * ind
        stmts = [s for s in stmts if not (isinstance(s, ast.Expr) and isinstance(s.value, ast.Constant))]
        if not stmts:
            return '.next st'
        s, rest = stmts[0], stmts[1:]
        cont = lambda e=env: self.block(rest, e, ind, in_loop)
        u = ast.unparse(s)
        # self.f = Fields()
        if u == 'self.f = Fields()':
            return f'let st := {{ st with names := [], fixed := [], pairs := [] }}\n{pad}{cont()}'
        # self.f.add(U1('version'))  /  self.f.add(cfgkey)
        if isinstance(s, ast.Expr) and isinstance(s.value, ast.Call) and ast.unparse(s.value.func) == 'self.f.add' and len(s.value.args) == 1 and not s.value.keywords:
            a = s.value.args[0]
            if isinstance(a, ast.Call) and isinstance(a.func, ast.Name) and a.func.id in FMT and len(a.args) == 1 and not a.keywords:
                if in_loop:
                    fail(s, 'fixed item added inside the loop')
                nm = fname(a.args[0], env)
                return (f'match Py.Valget.add st.names {nm} with\n{pad}| .error e => .abort (.exc e) st\n{pad}| .ok names =>\n'
                        f'{pad}  let st := {{ st with names := names, fixed := st.fixed ++ [Py.ItemObj.ofKind (.{FMT[a.func.id]}) (.int 0)] }}\n{pad}  {self.block(rest, env, ind + 2, in_loop)}')
            if isinstance(a, ast.Name) and env.get(a.id) == 'cfgitem':
                return (f'match Py.Valget.add st.names {env[a.id + ".name"]} with\n{pad}| .error e => .abort (.exc e) st\n{pad}| .ok names =>\n'
                        f'{pad}  let st := {{ st with names := names, pairs := st.pairs ++ [{a.id}] }}\n{pad}  {self.block(rest, env, ind + 2, in_loop)}')
            fail(s, 'what is added to the container')
        if isinstance(s, ast.Assign) and len(s.targets) == 1 and isinstance(s.targets[0], ast.Name):
            name, v = s.targets[0].id, s.value
            # work_data = super().unpack()
            if ast.unparse(v) == 'super().unpack()' and name == 'work_data' and not in_loop:
                self.check_frame_unpack()
                return (f'match Gen.Src.Types.Fields.unpack st.fixed data with\n{pad}| .error e => .abort (.exc e) st\n{pad}| .ok (rest, objs) =>\n'
                        f'{pad}  let st := {{ st with fixed := objs, work_data := rest }}\n{pad}  {self.block(rest, dict(env, work_data="bytes"), ind + 2, in_loop)}')
            # item = 0
            if name == 'item' and isinstance(v, ast.Constant) and isinstance(v.value, int) and not isinstance(v.value, bool) and v.value >= 0:
                return f'let st := {{ st with item := {v.value} }}\n{pad}{cont(dict(env, item="nat"))}'
            # cfgkey = CfgKeyData(f'data{item}')
            if isinstance(v, ast.Call) and isinstance(v.func, ast.Name) and v.func.id == 'CfgKeyData' and len(v.args) == 1 and not v.keywords:
                nm = fname(v.args[0], env)
                return f'let {name} : Ubx.CfgItem := Gen.Src.Valget.fresh\n{pad}{cont({**env, name: "cfgitem", name + ".name": nm})}'
            # consumed_bytes = cfgkey.unpack(work_data)
            if isinstance(v, ast.Call) and isinstance(v.func, ast.Attribute) and v.func.attr == 'unpack' and isinstance(v.func.value, ast.Name) \
                    and env.get(v.func.value.id) == 'cfgitem' and len(v.args) == 1 and ast.unparse(v.args[0]) == 'work_data' and env.get('work_data') == 'bytes':
                obj = v.func.value.id
                return (f'match Gen.Src.CfgItem.unpack {obj} st.work_data with\n{pad}| .error e => .abort (.exc e) st\n{pad}| .ok ({name}, {obj}) =>\n'
                        f'{pad}  {self.block(rest, {**env, name: "natlocal"}, ind + 2, in_loop)}')
            # work_data = work_data[consumed_bytes:]
            if name == 'work_data' and isinstance(v, ast.Subscript) and ast.unparse(v.value) == 'work_data' and isinstance(v.slice, ast.Slice) \
                    and v.slice.upper is None and v.slice.step is None and isinstance(v.slice.lower, ast.Name) and env.get(v.slice.lower.id) == 'natlocal':
                return f'let st := {{ st with work_data := st.work_data.drop {v.slice.lower.id} }}\n{pad}{cont()}'
            fail(s, 'assignment')
        # item += 1
        if isinstance(s, ast.AugAssign) and isinstance(s.target, ast.Name) and s.target.id == 'item' and env.get('item') == 'nat' and isinstance(s.op, ast.Add) \
                and isinstance(s.value, ast.Constant) and isinstance(s.value.value, int) and not isinstance(s.value.value, bool) and s.value.value >= 0:
            return f'let st := {{ st with item := st.item + {s.value.value} }}\n{pad}{cont()}'
        # while len(work_data) >= 4:
        if isinstance(s, ast.While) and not s.orelse and not in_loop:
            t = s.test
            if not (isinstance(t, ast.Compare) and len(t.ops) == 1 and ast.unparse(t.left) == 'len(work_data)' and isinstance(t.comparators[0], ast.Constant)
                    and isinstance(t.comparators[0].value, int) and not isinstance(t.comparators[0].value, bool) and t.comparators[0].value >= 0
                    and type(t.ops[0]) in (ast.GtE, ast.Gt) and env.get('work_data') == 'bytes'):
                fail(s, 'loop test')
            op = '≥' if isinstance(t.ops[0], ast.GtE) else '>'
            body = self.block(s.body, env, 4, True)
            self.defs.append(f'def unpack.test1 (st : unpack.St) : Bool :=\n  decide (st.work_data.length {op} {t.comparators[0].value})\n')
            self.defs.append(f'def unpack.body1 (st : unpack.St) : Py.Ctl unpack.St Unit :=\n    {body}\n')
            loop = 'Py.whileFuel st.work_data.length Gen.Src.Valget.unpack.test1 Gen.Src.Valget.unpack.body1 st'
            if not rest:
                return loop
            return f'({loop}).bind fun st =>\n{pad}  {self.block(rest, env, ind + 2, in_loop)}'
        fail(s, 'statement')


HEADER = '''import UbxModel.Model.PyValget
/-! GENERATED by tools/pysrc2lean_valget.py from `ubxlib/ubx_cfg_valget.py` (and, for what it calls, `frame.py` / `cfgkeys.py`) of the
    working tree of /repo - do not edit.  `UbxCfgValGet.unpack`, statement by statement, over `Py.Ctl`; `CfgKeyData.unpack` and
    `Fields.unpack` are the definitions the other translators generate.  `Proofs/SrcEquiv/Valget.lean` relates it to the hand-written
    model (`Ubx.valgetDecode`, Model/ValSetGet.lean). -/
set_option linter.unusedVariables false

namespace Gen.Src.Valget
variable [Ubx.KeyTable]

/-- the container being filled and the locals of `unpack` -/
structure unpack.St where
  names : List Py.FName := []          -- what `Fields.add` has seen
  fixed : List Py.ItemObj := []        -- the header items, in the order added
  pairs : List Ubx.CfgItem := []       -- the key/value items, in the order added
  work_data : List Nat := []
  item : Nat := 0

'''


def translate(repo):
    tree = ast.parse(open(os.path.join(repo, 'ubxlib', 'ubx_cfg_valget.py')).read())
    cls = next(n for n in ast.walk(tree) if isinstance(n, ast.ClassDef) and n.name == 'UbxCfgValGet')
    if [ast.unparse(b) for b in cls.bases] != ['UbxCfgValGet_']:
        fail(cls, 'base class of UbxCfgValGet')
    m = next(n for n in cls.body if isinstance(n, ast.FunctionDef) and n.name == 'unpack')
    if [a.arg for a in m.args.args] != ['self']:
        fail(m, 'signature of unpack')
    v = V(repo)
    fresh = v.fresh_item()
    body = v.block(m.body, {}, 4, False)
    out = HEADER + f'/-- `CfgKeyData(name)`: what `__init__` leaves (`None` written 0) -/\ndef fresh : Ubx.CfgItem := {fresh}\n\n' + '\n'.join(v.defs)
    out += ('\n/-- `UbxCfgValGet.unpack()` on an object whose `data` is the payload: the container afterwards, or the exception -/\n'
            'def unpack (data : List Nat) : Except Py.Abort unpack.St :=\n  Py.Valget.finish (\n    let st : unpack.St := {}\n    ' + body + ')\n')
    return out + '\nend Gen.Src.Valget\n'


if __name__ == '__main__':
    repo, outfile = sys.argv[1], sys.argv[2]
    try:
        text, status = translate(repo), 'ok'
    except (Untranslatable, StopIteration, SyntaxError, OSError, AttributeError, KeyError) as e:
        text, status = f'/-! ubx_cfg_valget.py: outside the translatable subset - {str(e).replace("-/", "- /")} -/\n', 'untranslatable: ' + str(e)[:300]
    if not os.path.exists(outfile) or open(outfile).read() != text:
        open(outfile, 'w').write(text)
    print(status)

#!/usr/bin/env python3
"""keep_refactor.py <worktree> <id>    (development aid)
Runs all twenty quick checks against a scratch clone of /repo with a behaviour-preserving rewrite applied
(<worktree>/_refactor/patch.diff) and stores patch, notes and the outcome under /verif/harmless/<id>/."""
import json, os, shutil, subprocess, sys, time
ROOT = os.path.dirname(os.path.dirname(os.path.abspath(__file__)))
wt, rid = sys.argv[1:3]
src = os.path.join(wt, '_refactor')
W = '/root/work/rf-%d' % os.getpid()
shutil.rmtree(W, ignore_errors=True)
subprocess.run(['git', 'clone', '-q', '/repo', W], check=True)
meta = {'id': rid, 'base_commit': subprocess.run(['git', '-C', '/repo', 'rev-parse', '--short', 'HEAD'], capture_output=True, text=True).stdout.strip()}
try:
    a = subprocess.run(['git', 'apply', '--3way', os.path.join(src, 'patch.diff')], cwd=W, capture_output=True, text=True)
    if a.returncode:
        sys.exit('patch does not apply: ' + a.stderr)
    st = subprocess.run(['git', 'diff', 'HEAD', '--stat'], cwd=W, capture_output=True, text=True).stdout.strip().splitlines()
    meta['diffstat'] = st[-1] if st else ''
    t = subprocess.run(['/venv/bin/python', '-m', 'pytest', '-q', '-p', 'no:cacheprovider'], cwd=W, capture_output=True, text=True)
    meta['tests'] = t.stdout.strip().splitlines()[-1]
    res = {}
    for i in range(1, 21):
        p = f'C{i:02d}'
        r = subprocess.run([os.path.join(ROOT, 'check'), p, '--tier', 'quick'], capture_output=True, text=True, env=dict(os.environ, VERIF_REPO=W, VERIF_SEED='0'))
        lines = [l for l in r.stdout.splitlines() if l.startswith(('OK', 'VIOLATION', 'KNOWN'))]
        res[p] = {'exit': r.returncode, 'lines': [l[:200] for l in lines[:3]]}
        if r.returncode:
            rp = [l.split('replay=')[1].split()[0] for l in lines if 'replay=' in l]
            if rp:
                d = json.load(open(os.path.join(ROOT, rp[0])))
                res[p]['replay'] = {k: (str(d.get(k))[:500] if d.get(k) is not None else None) for k in ('kind', 'component', 'input', 'expected', 'observed', 'what', 'broken')}
            print(p, r.returncode, lines[:2], json.dumps(res[p].get('replay'))[:700])
    meta['checks_quick_seed0'] = res
    meta['alarms'] = sorted(p for p, v in res.items() if v['exit'] != 0)
    print('tests:', meta['tests'], '| alarms:', meta['alarms'])
    out = os.path.join(ROOT, 'harmless', rid)
    os.makedirs(out, exist_ok=True)
    shutil.copy(os.path.join(src, 'patch.diff'), out)
    if os.path.exists(os.path.join(src, 'notes.md')):
        shutil.copy(os.path.join(src, 'notes.md'), out)
    json.dump(meta, open(os.path.join(out, 'meta.json'), 'w'), indent=1)
finally:
    shutil.rmtree(W, ignore_errors=True)
    subprocess.run(['/venv/bin/python', os.path.join(ROOT, 'tools', 'extract.py'), '/repo', os.path.join(ROOT, 'lean', 'UbxModel', 'Gen')], capture_output=True)
    subprocess.run(['/venv/bin/python', os.path.join(ROOT, 'tools', 'pysrc2lean.py'), '/repo', os.path.join(ROOT, 'lean', 'UbxModel', 'Gen', 'Src.lean')], capture_output=True)
    subprocess.run(['/venv/bin/python', os.path.join(ROOT, 'tools', 'pysrc2lean_server.py'), '/repo', os.path.join(ROOT, 'lean', 'UbxModel', 'Gen', 'SrcServer.lean')], capture_output=True)
    subprocess.run(['/venv/bin/python', os.path.join(ROOT, 'tools', 'pysrc2lean_cfg.py'), '/repo', os.path.join(ROOT, 'lean', 'UbxModel', 'Gen', 'SrcCfg.lean')], capture_output=True)
    subprocess.run(['/venv/bin/python', os.path.join(ROOT, 'tools', 'pysrc2lean_types.py'), '/repo', os.path.join(ROOT, 'lean', 'UbxModel', 'Gen', 'SrcTypes.lean')], capture_output=True)
    subprocess.run(['/venv/bin/python', os.path.join(ROOT, 'tools', 'pysrc2lean_tty.py'), '/repo', os.path.join(ROOT, 'lean', 'UbxModel', 'Gen', 'SrcTty.lean')], capture_output=True)
    subprocess.run(['/venv/bin/python', os.path.join(ROOT, 'tools', 'pysrc2lean_helpers.py'), '/repo', os.path.join(ROOT, 'lean', 'UbxModel', 'Gen', 'SrcHelpers.lean')], capture_output=True)
    subprocess.run(['/venv/bin/python', os.path.join(ROOT, 'tools', 'pysrc2lean_render.py'), '/repo', os.path.join(ROOT, 'lean', 'UbxModel', 'Gen', 'SrcRender.lean')], capture_output=True)
    subprocess.run(['/venv/bin/python', os.path.join(ROOT, 'tools', 'pysrc2lean_gpsd.py'), '/repo', os.path.join(ROOT, 'lean', 'UbxModel', 'Gen', 'SrcGpsd.lean')], capture_output=True)
    subprocess.run(['/venv/bin/python', os.path.join(ROOT, 'tools', 'pysrc2lean_gpsdtx.py'), '/repo', os.path.join(ROOT, 'lean', 'UbxModel', 'Gen', 'SrcGpsdTx.lean')], capture_output=True)
    subprocess.run(['/venv/bin/python', os.path.join(ROOT, 'tools', 'pysrc2lean_keystr.py'), '/repo', os.path.join(ROOT, 'lean', 'UbxModel', 'Gen', 'SrcKeyStr.lean')], capture_output=True)
    subprocess.run(['/venv/bin/python', os.path.join(ROOT, 'tools', 'pysrc2lean_str.py'), '/repo', os.path.join(ROOT, 'lean', 'UbxModel', 'Gen', 'SrcStr.lean')], capture_output=True)
    subprocess.run(['/venv/bin/python', os.path.join(ROOT, 'tools', 'pysrc2lean_fields.py'), '/repo', os.path.join(ROOT, 'lean', 'UbxModel', 'Gen', 'SrcFields.lean')], capture_output=True)
    subprocess.run(['/venv/bin/python', os.path.join(ROOT, 'tools', 'pysrc2lean_blocks.py'), '/repo', os.path.join(ROOT, 'lean', 'UbxModel', 'Gen', 'SrcBlocks.lean')], capture_output=True)
    subprocess.run(['/venv/bin/python', os.path.join(ROOT, 'tools', 'pysrc2lean_valset.py'), '/repo', os.path.join(ROOT, 'lean', 'UbxModel', 'Gen', 'SrcValset.lean')], capture_output=True)
    subprocess.run(['/venv/bin/python', os.path.join(ROOT, 'tools', 'pysrc2lean_factory.py'), '/repo', os.path.join(ROOT, 'lean', 'UbxModel', 'Gen', 'SrcFactory.lean')], capture_output=True)
    subprocess.run(['/venv/bin/python', os.path.join(ROOT, 'tools', 'pysrc2lean_valget.py'), '/repo', os.path.join(ROOT, 'lean', 'UbxModel', 'Gen', 'SrcValget.lean')], capture_output=True)

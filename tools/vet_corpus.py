#!/usr/bin/env python3
"""vet_corpus.py    (development aid)
Every line of harness/corpus/*.txt through every property that has a job of that component, on /repo as it stands:
a line on which an oracle fails or model and code differ is dropped from the corpus (it is not a line the generators
could have produced, or it is a finding - printed either way)."""
import os, sys
ROOT = os.path.dirname(os.path.dirname(os.path.abspath(__file__)))
sys.path.insert(0, os.path.join(ROOT, 'harness'))
import check, plan
check.lake_build(['driver', 'specdriver'])
cdir = os.path.join(ROOT, 'harness', 'corpus')
for fn in sorted(os.listdir(cdir)):
    comp = fn[:-4]
    raw = open(os.path.join(cdir, fn)).read().split('\n')
    lines = [l for l in raw if l.strip() and not l.startswith('#')]
    bad = set()
    for prop, spec in plan.PROPS.items():
        for j in spec['jobs']:
            if j['component'] != comp:
                continue
            for flags in (None, ['-O']):
                try:
                    cases = check.evaluate(prop, comp, lines, have_driver=True, proj=j.get('project'), strict=False, pyflags=flags)
                except RuntimeError as e:
                    print('cannot evaluate', comp, prop, e)
                    continue
                d, f, u = check.analyse(prop, cases)
                for c in d:
                    bad.add(c['line'])
                for c, r in f:
                    bad.add(c['line'])
                for c in cases:
                    if c.get('invalid'):
                        bad.add(c['line'])
            break
    out, skip = [], False
    kept = 0
    for k, l in enumerate(raw):
        if l.startswith('#') and k + 1 < len(raw) and raw[k + 1] in bad:
            continue
        if l in bad:
            print('dropped from', fn, ':', l[:100])
            continue
        if l.strip() and not l.startswith('#'):
            kept += 1
        out.append(l)
    open(os.path.join(cdir, fn), 'w').write('\n'.join(out).rstrip('\n') + '\n')
    print(fn, 'kept', kept, 'dropped', len(bad))

#!/usr/bin/env python3
"""Correspondence prototype, part 3: renderers (exhaustive over the rendered byte), scan(), gpsd handshake."""
import json as _json, sys, os, random, subprocess, logging, json, types, importlib
REPO = sys.argv[1] if len(sys.argv) > 1 else '/root/work/repo-fixed'
SEED = int(os.environ.get('VERIF_SEED', '0'))
sys.path.insert(0, REPO)
logging.getLogger('ubxlib').setLevel(logging.CRITICAL)
rng = random.Random(SEED)

# ---- stub pyserial -----------------------------------------------------------------------------
serial = types.ModuleType('serial'); su = types.ModuleType('serial.serialutil')
class SerialException(Exception): pass
class Serial:
    def __init__(self): self.is_open = True; self.baudrate = 115200; self.script = []; self.j = 0
    def reset_input_buffer(self): pass
    def read(self, n):
        dt, b = self.script[self.j] if self.j < len(self.script) else (100, None); self.j += 1
        CLK.ticks += max(1, dt)
        return bytes([b]) if b is not None else b''
serial.Serial = Serial; su.SerialException = SerialException; serial.serialutil = su
sys.modules['serial'] = serial; sys.modules['serial.serialutil'] = su
import ubxlib.server_tty as tty
class Clock:
    def __init__(self): self.ticks = 0
    def time(self): return self.ticks / 1024.0
CLK = Clock(); tty.time = CLK

def frame(cls, id, pl):
    b = bytearray([0xb5, 0x62, cls, id, len(pl) & 0xff, len(pl) >> 8]) + bytearray(pl)
    a = c = 0
    for x in b[2:]:
        a = (a + x) & 0xff; c = (c + a) & 0xff
    return bytes(b + bytes([a, c]))

def render_cases():
    from ubxlib import ubx_cfg_esfla, ubx_cfg_gnss, ubx_cfg_prt, ubx_esf_alg, ubx_esf_status, ubx_nav_status, types as T
    items = {'U1_LeverArmType': ubx_cfg_esfla.U1_LeverArmType, 'U1_GnssId': ubx_cfg_gnss.U1_GnssId, 'X4_Flags': ubx_cfg_gnss.X4_Flags,
             'X2_Proto': ubx_cfg_prt.X2_Proto, 'X4_Mode': ubx_cfg_prt.X4_Mode, 'U1_Flags': ubx_esf_alg.U1_Flags,
             'X1_InitStatus1': ubx_esf_status.X1_InitStatus1, 'X1_InitStatus2': ubx_esf_status.X1_InitStatus2,
             'U1_FusionMode': ubx_esf_status.U1_FusionMode, 'X1_SensStatus1': ubx_esf_status.X1_SensStatus1,
             'X1_SensStatus2': ubx_esf_status.X1_SensStatus2, 'U1_GpsFix': ubx_nav_status.U1_GpsFix, 'X1_Flags': ubx_nav_status.X1_Flags,
             'X1': T.X1, 'X2': T.X2, 'X4': T.X4, 'U1': T.U1}
    out = []
    for name, cls in items.items():
        width = {'B': 1, 'H': 2, 'I': 4}[cls.fmt]
        values = list(range(256)) if width == 1 else [((v & 3) << 6) | (((v >> 2) & 7) << 9) | (((v >> 5) & 3) << 12) | (v >> 7) * 0x00010001 for v in range(256)] if name == 'X4_Mode' else list(range(16)) + [rng.randrange(1 << (8 * width)) for _ in range(40)]
        for v in values:
            v &= (1 << (8 * width)) - 1
            for mode in ('decoded', 'fresh', 'edited'):
                it = cls('f')
                if mode == 'decoded': it.unpack(v.to_bytes(width, 'little')); d = v
                elif mode == 'fresh':
                    if v: continue
                    d = 0
                else: it.unpack((0x55).to_bytes(width, 'little')); it.value = v; d = 0x55
                try: r = str(it)[len('f: '):]
                except Exception as e: r = 'EXC:' + type(e).__name__
                out.append((f'render|{name}|{v}|{d}', r))
    return out

def scan_cases():
    out = []
    nm = b'$GP*17\r\n'
    for _ in range(300):
        stream = bytearray()
        for _ in range(rng.randrange(0, 5)):
            k = rng.random()
            if k < .35: stream += frame(rng.choice([1, 5, 6]), rng.randrange(4), bytes(rng.randrange(256) for _ in range(rng.choice([0, 2, 8]))))
            elif k < .6: stream += nm if rng.random() < .8 else b'$GP*18\r\n'
            elif k < .8: stream += bytes(rng.randrange(256) for _ in range(rng.randrange(1, 12)))
            else:
                f = bytearray(frame(5, 1, [6, 1])); f[rng.randrange(2, len(f))] ^= 4; stream += f
        script = []
        for b in stream:
            if rng.random() < .1: script.append((rng.choice([100, 100, 30]), None))
            script.append((rng.choice([1, 1, 1, 2, 7, 40]), b))
        interval = rng.choice([0, 10, 50, 100, 200, 1536])
        line = f'scan|{interval}|' + ','.join(f'{dt}:{"-" if b is None else b}' for dt, b in script)
        s = tty.GnssUBlox('/dev/x'); s.serial_port.script = script; CLK.ticks = 0
        r = s.scan(interval / 1024.0)
        out.append((line, f'{"true" if r else "false"} t={CLK.ticks} reads={s.serial_port.j}'))
    return out

# ---- gpsd --------------------------------------------------------------------------------------
import ubxlib.server as srv
class FakeSock:
    def __init__(self, *a, **k): pass
    def settimeout(self, t): pass
srv.socket.socket = FakeSock

def rand_json(depth=0):
    k = rng.random()
    if depth > 2 or k < .35: return rng.choice([None, True, False, 5, 1.5, 'class', 'abc', 'VERSION', '/dev/a'])
    if k < .55: return [rand_json(depth + 1) for _ in range(rng.randrange(0, 3))]
    d = {}
    for _ in range(rng.randrange(0, 3)): d[rng.choice(['class', 'x', 'path', 'devices', 'release'])] = rand_json(depth + 1)
    return d

def tok(v):
    if v is None: return 'n'
    if v is True: return 't'
    if v is False: return 'f'
    if isinstance(v, (int, float)): return '0'
    if isinstance(v, str): return 's' + v.encode().hex()
    if isinstance(v, list): return 'a( ' + ' '.join(tok(x) for x in v) + (' ' if v else '') + ')'
    return 'o( ' + ' '.join(k.encode().hex() + ' ' + tok(x) for k, x in v.items()) + (' ' if v else '') + ')'

def wellformed(v):
    if isinstance(v, dict) and v.get('class') == 'VERSION': return 'release' in v
    if isinstance(v, dict) and v.get('class') == 'DEVICES':
        return isinstance(v.get('devices'), list) and all(isinstance(d, dict) and isinstance(d.get('path'), str) for d in v['devices'])
    return True

def gpsd_cases():
    out = []
    devs = ['/dev/a', '/dev/b', '/dev/gnss0']
    for _ in range(500):
        want = rng.choice([None, None, '', '/dev/b', '/dev/zz'])
        g = srv.GnssUBlox(want); chunks, real = [], []
        for _ in range(rng.randrange(1, 4)):
            if rng.random() < .1:
                data = b'\xff\xfe\xb5b'; chunks.append('U')
            else:
                lines, toks = [], []
                for _ in range(rng.randrange(0, 4)):
                    k = rng.random()
                    if k < .3:
                        v = {'class': 'DEVICES', 'devices': [{'path': p, 'x': 1} for p in rng.sample(devs, rng.randrange(0, 4))]}
                    elif k < .4: v = {'class': 'VERSION', 'release': '3.2' + str(rng.randrange(9)), 'rev': 'x'}
                    elif k < .5: lines.append('$GPRMC,1*2C'); toks.append('X'); continue
                    elif k < .55: lines.append('[' * 3000); toks.append('D'); continue
                    else:
                        v = rand_json()
                        if not wellformed(v): v = 'abc'
                    lines.append(json.dumps(v)); toks.append(tok(v))
                data = '\n'.join(lines).encode(); chunks.append(';'.join(toks))
            try:
                g._parse_gpsd_msg(data); real.append(f'{g.selected_device},{"true" if g.enabled else "false"},{g.release}')
            except Exception as e:
                real.append('EXC:' + type(e).__name__); break
        req = '-' if want is None else want.encode().hex() if want else ''
        if want == '': req = '-'      # an empty name is "not given"; the driver cannot carry an empty hex token
        out.append((f'gpsd|{req}|' + '/'.join(chunks), ' '.join(real)))
    return out

def main():
    cases = render_cases() + scan_cases() + gpsd_cases()
    model = subprocess.run(['/root/work/lean/.lake/build/bin/driver'], input='\n'.join(c[0] for c in cases) + '\n',
                           capture_output=True, text=True).stdout.splitlines()
    bad = 0; kinds = {}; mism = []
    for (l, r), m in zip(cases, model):
        k = '|'.join(l.split('|')[:2]) if l.startswith('render') else l.split('|')[0]
        kinds.setdefault(k, [0, 0]); kinds[k][0] += 1
        if r != m:
            kinds[k][1] += 1; bad += 1
            if kinds[k][1] <= 3: mism.append({'in': l, 'real': r, 'model': m})
            if bad <= 8: print('MISMATCH\n  in   ', l[:220], '\n  real ', r[:200], '\n  model', m[:200])
    print('cases', len(cases), 'model lines', len(model), 'mismatches', bad)
    if os.environ.get('OUT'):
        _json.dump({'cases': len(model), 'kinds': kinds, 'mismatches': mism[:200], 'samples': [x[:200] for x in (lines if 'lines' in dir() else [c[0] for c in cases])[:3]]}, open(os.environ['OUT'], 'w'))
    print({k: v for k, v in kinds.items() if v[1]} or 'all agree', {k: v[0] for k, v in kinds.items() if not k.startswith('render')})
main()

"""Components over the request layer and the back ends.

  srv|<kind>|<cls>:<id>|<payload hex>|<resp>|<retries>|<delay ms>|<tx results>|<rx script>
        one request against an oracle-style scripted back end (the j-th receive takes dt ticks and returns a chunk);
        <resp>: a number n = synthetic response class that decodes payloads of >= n bytes, or the name of a real class
        output: <result> sent=… nrx=… t=<ticks> calls=<f t r v …> same=<all transmissions canonical>
  seqs|<json scenario>
        a sequence of requests on ONE server over a buffered, timed back-end stub; what the back end returned is
        recorded and handed to the model as its environment (`seq|…`, the derived model line)
  level|<kind>|<Class>|<payload hex or ->|<edits>|<retries>|<delay>|<tx results>|<rx script>
        a request with a real frame class, run with logging disabled and at DEBUG
  tty|transmit|<write result or ->|<hex>      tty|recover|<baud>
  scan|<interval ticks>|<dt:byte or dt:-,…>
  gpsd|<requested hex or ->|<chunk>/<chunk>…   gpsdtx|<device hex>|<data hex>|<reply hex or E>
"""
import importlib
import inspect
import json
import os
import pkgutil
import socket as real_socket
import types
import zlib
from fractions import Fraction

from lib import frame, fletcher
import realenv
from realenv import CLK, exc_name, log_level
from comp_parsers import scan_pos, nmea_count

realenv.install_clock()
import ubxlib
import ubxlib.server_base as sb
from ubxlib.cid import UbxCID
from ubxlib.frame import UbxFrame
from ubxlib.frame_factory import FrameFactory

T0 = 1024 * 1024
ACK, NAK, MGA = (5, 1), (5, 0), (0x13, 0x60)


# =====================================================================================================
# request frames
# =====================================================================================================
def poll_classes():
    out = {}
    for m in pkgutil.iter_modules(ubxlib.__path__):
        if m.name.startswith('ubx_'):
            mod = importlib.import_module('ubxlib.' + m.name)
            for n, c in inspect.getmembers(mod, inspect.isclass):
                if issubclass(c, UbxFrame) and c.__module__ == mod.__name__ and hasattr(c, '_cls_response'):
                    inst = c([0]) if n == 'UbxCfgValGetPoll' else c()
                    out[inst._cls_response().__name__] = c
    return out


def find_class(name):
    from comp_codec import find_class as fc
    return fc(name)


RESP_CLASSES = {}


REQ_CLASSES = {}


class GenericReq(UbxFrame):
    NAME = 'req'

    def __init__(self, cls_=0, id_=0, payload=b'', resp=None):
        super().__init__()
        self.CID = UbxCID(cls_, id_)
        self._payload = bytes(payload)
        self._resp = resp

    def pack(self):
        self.data = bytearray(self._payload)

    def _cls_response(self):
        return self._resp


def make_req(cls_, id_, payload, resp):
    """synthetic request/response pair (resp = minimum decodable length) or a real poll class (resp = class name)"""
    if resp.isdigit():
        minlen = int(resp)
        if (cls_, id_, minlen) in RESP_CLASSES:
            # the same response class object whenever the same kind of request comes again (as an application's frame classes
            # are), another class for another layout of the same class/id
            Resp = RESP_CLASSES[(cls_, id_, minlen)]
        else:
            Resp = None
    if resp.isdigit() and Resp is None:

        class Resp(UbxFrame):
            CID = UbxCID(cls_, id_)
            NAME = 'resp'
            TAG = f'resp{minlen}'          # which of the synthetic response classes built the frame

            def unpack(self):
                if len(self.data) < minlen:
                    raise ValueError

        RESP_CLASSES[(cls_, id_, minlen)] = Resp
    if resp.isdigit() and zlib.crc32(bytes([cls_, id_]) + bytes(payload)) % 4 == 0:
        return GenericReq(cls_, id_, payload, Resp)        # one generic request class: class/id, payload, response class on the instance
    if resp.isdigit():
        # the same request class object whenever the same kind of request comes again (an application's frame classes are module-level)
        key = (cls_, id_, bytes(payload), resp)
        if key not in REQ_CLASSES:

            class R(UbxFrame):
                CID = UbxCID(cls_, id_)
                NAME = 'req'

                def pack(self):
                    self.data = bytearray(payload)

                def _cls_response(self):
                    return Resp
            REQ_CLASSES[key] = R
        return REQ_CLASSES[key]()
    pc = poll_classes()[resp]
    if pc.__name__ == 'UbxCfgValGetPoll':
        keys = [int.from_bytes(payload[k:k + 4], 'little') for k in range(4, len(payload), 4)] or [0]
        return pc(keys)
    return pc.construct(bytearray(payload))


def show_result(r):
    if r is None:
        return 'none'
    tag = r.TAG if type(r).__name__ == 'Resp' else type(r).__name__
    return f'{r.CID.cls}/{r.CID.id}:{tag}:{bytes(r.data).hex()}'


RETURNED = []      # what earlier requests of the scenario returned, kept alive


def call(s, kind, req):
    """one request; what it returns is kept, marked and scribbled on, as a caller may: a later result that is one of these
    objects (or carries the mark) was not decoded after the later request's transmission"""
    try:
        r = realenv.in_thread({'set': s.set, 'mga': s.set_mga, 'poll': s.poll, 'faf': s.fire_and_forget}[kind], req)
        out = show_result(r)
        if r is not None:
            if any(r is q for q in RETURNED) or getattr(r, 'seen_by_caller', False):
                out += ':AN-EARLIER-RESULT-OBJECT'
            RETURNED.append(r)
            try:
                r.seen_by_caller = True
                for it in list(getattr(r.f, '_fields', {}).values())[:3]:
                    if isinstance(it.value, int):
                        it.value ^= 1
            except Exception:
                pass
        return out
    except realenv.CaseTimeout:
        raise
    except Runaway:
        return 'TIMEOUT'
    except RecursionError:
        return 'EXC:RecursionError'
    except KeyboardInterrupt:
        return 'EXC:KeyboardInterrupt'
    except Exception as e:
        return 'EXC:' + exc_name(e)


class Runaway(Exception):
    """virtual time ran far beyond every bound: reported as a request that does not return"""


# =====================================================================================================
# srv: oracle-style scripted back end
# =====================================================================================================
class ScriptSrv(sb.UbxServerBase_):
    def __init__(self, txl, rxl, limit):
        super().__init__()
        self.txl, self.rxl, self.limit = txl, rxl, limit
        self.sent, self.nrx, self.calls = [], 0, ''

    def _recover(self):
        self.calls += 'v'

    def _flush_input(self):
        self.calls += 'f'

    def _transmit(self, data):
        k = len(self.sent)
        self.sent.append(bytes(data))
        self.calls += 't'
        if len(self.sent) > 64:
            raise Runaway()
        return self.txl[k] if k < len(self.txl) else True

    def _receive(self):
        j = self.nrx
        self.nrx += 1
        self.calls += 'r'
        dt, data = self.rxl[j] if j < len(self.rxl) else (100, b'')
        CLK.ticks += max(1, dt)
        if CLK.ticks - T0 > self.limit:
            raise Runaway()
        return data or None


class EditingSrv(ScriptSrv):
    """a back end whose first receive call edits the request frame (another thread preparing the next command)"""

    def _receive(self):
        if self.nrx == 0 and self.edit:
            from comp_codec import parse_value
            k, v = self.edit
            setattr(self.frame.f, k, parse_value(v))
        return super()._receive()


def run_srvedit(line):
    p = line.split('|')
    kind, name, h, edit, retries, delay, txs, rxs = p[1:9]
    txl = [t == '1' for t in txs.split(',')] if txs else []
    rx = [(int(e.split(':')[0]), bytes.fromhex(e.split(':')[1])) for e in rxs.split(',')] if rxs else []
    FrameFactory.destroy()
    CLK.ticks = T0
    s = EditingSrv(txl, rx, 4000000)
    s.setup()
    s.set_retries(int(retries))
    s.set_retry_delay(int(delay))
    f = build_frame(name, h, '')
    f.pack()
    at_call = bytes(f.data)
    s.frame, s.edit = f, (edit.split('=') if edit else None)
    rs = call(s, kind, f)
    canon = frame(f.CID.cls, f.CID.id, at_call)
    same = all(x == canon for x in s.sent)
    return (f'{rs} sent={len(s.sent)} nrx={s.nrx} t={CLK.ticks - T0} calls={s.calls} same={"true" if same else "false"}',
            '|'.join(['srv', kind, f'{f.CID.cls}:{f.CID.id}', at_call.hex(), '0', retries, delay, txs, rxs]))


def run_srvreuse(line):
    """srvreuse|<Class>|<payload hex>|<field>|<a>|<b>…: ONE request object sent again and again (each time acknowledged at once),
    one field given the next value in between - every transmission is the encoding of the field values at the time of ITS call"""
    p = line.split('|')
    name, h, field, values = p[1], p[2], p[3], [int(v) for v in p[4:]]
    cls = find_class(name)
    ack = frame(5, 1, [cls.CID.cls, cls.CID.id])
    FrameFactory.destroy()
    CLK.ticks = T0
    s = ScriptSrv([True] * len(values), [(1, ack)] * len(values), 4000000)
    s.setup()
    s.set_retries(0)
    s.set_retry_delay(125)
    f = build_frame(name, h, '')
    out = []
    for v in values:
        setattr(f.f, field, v)
        n0 = len(s.sent)
        rs = call(s, 'set', f)
        fresh = build_frame(name, h, '')
        setattr(fresh.f, field, v)
        fresh.pack()
        canon = frame(cls.CID.cls, cls.CID.id, bytes(fresh.data))
        out.append(('ok' if s.sent[n0:] == [canon] else 'NOT-THE-ENCODING-OF-THE-VALUES-AT-THE-CALL:' + b''.join(s.sent[n0:]).hex()) +
                   ('' if rs.startswith('5/1:') else '!' + rs[:30]))
    return ' '.join(out)


def parse_srv(line):
    p = line.split('|')
    kind, cid, pl, resp, retries, delay, txs, rxs = p[1:9]
    cls_, id_ = map(int, cid.split(':'))
    txl = [t == '1' for t in txs.split(',')] if txs else []
    rx = []
    for e in (rxs.split(',') if rxs else []):
        d, h = e.split(':')
        rx.append((int(d), bytes.fromhex(h)))
    return kind, cls_, id_, bytes.fromhex(pl), resp, int(retries), int(delay), txl, rx


def time_bound_ticks(kind, cls_, retries, delay, tmax):
    """(retries+1) waiting periods of delay + one receive time-out, two per attempt for configuration polls; in ticks"""
    periods = 2 if (kind == 'poll' and cls_ == 6) else 1
    return (retries + 1) * periods * (Fraction(delay * 1024, 1000) + tmax)


def real_srv(line):
    if line.startswith('srvreuse|'):
        return run_srvreuse(line)
    if line.startswith('srvedit|'):
        return run_srvedit(line)[0]
    kind, cls_, id_, payload, resp, retries, delay, txl, rx = parse_srv(line)
    FrameFactory.destroy()
    CLK.ticks = T0
    tmax = max([100] + [d for d, _ in rx])
    s = ScriptSrv(txl, rx, 10 * int(time_bound_ticks(kind, cls_, retries, delay, tmax)) + 10000)
    s.setup()
    s.set_retries(retries)
    s.set_retry_delay(delay)
    req = make_req(cls_, id_, payload, resp)
    rs = call(s, kind, req)
    canon = frame(cls_, id_, payload)
    same = all(x == canon for x in s.sent)
    return f'{rs} sent={len(s.sent)} nrx={s.nrx} t={CLK.ticks - T0} calls={s.calls} same={"true" if same else "false"}'


def tok(out, key):
    for t in out.split(' '):
        if t.startswith(key + '='):
            return t[len(key) + 1:]
    return None


def after_last_tx(calls, chunks):
    """the bytes the receive calls after the most recent transmission returned"""
    j, got = 0, bytearray()
    for c in calls:
        if c == 't':
            got = bytearray()
        elif c == 'r':
            if j < len(chunks):
                got += chunks[j]
            j += 1
    return bytes(got)


def check_result(kind, cls_, id_, resp_tag, result, stream):
    """C04 on one returned result against the bytes received after the most recent transmission"""
    if result == 'none':
        return None
    if result.startswith('EXC') or result == 'TIMEOUT':
        return 'the request did not return a result or nothing: ' + result
    if result.endswith(':AN-EARLIER-RESULT-OBJECT'):
        return 'the returned object is one that an earlier request had already returned: it was decoded before this transmission'
    cid, tag, h = result.split(':')
    rc, ri = map(int, cid.split('/'))
    pl = bytes.fromhex(h)
    evs = [e for e in scan_pos(stream) if e[0] == 'frame']
    at = next((k for k, e in enumerate(evs) if (e[1], e[2]) == (rc, ri) and e[3] == pl), None)
    if at is None:
        return 'the returned frame is not a checksum-valid frame read after the most recent transmission'
    if kind == 'poll':
        if (rc, ri) != (cls_, id_):
            return f'poll returned class/id {rc}/{ri}, not the request\'s'
        if tag != resp_tag:
            return f'poll result decoded as {tag}, declared response type is {resp_tag}'
        if cls_ == 6 and not any(e[1:3] == ACK and e[3][:2] == bytes([cls_, id_]) for e in evs[at + 1:]):
            return 'configuration poll returned without an ACK-ACK naming the request after the response'
    elif kind == 'set':
        if (rc, ri) == ACK:
            if pl[:2] != bytes([cls_, id_]) or tag != 'UbxAckAck':
                return 'set returned an ACK-ACK that names a different request'
        elif (rc, ri) == NAK:
            if tag != 'UbxAckNak':
                return 'NAK decoded as ' + tag
        else:
            return f'set returned {rc}/{ri}'
    elif kind == 'mga':
        if (rc, ri) != MGA or not pl or pl[0] != 1 or tag != 'UbxMgaAckData0':
            return 'set_mga returned something other than an accepting MGA-ACK'
    elif kind == 'faf':
        return 'fire_and_forget returned something'
    return None


def oracles_srv(line, real_out):
    if line.startswith('srvreuse|'):
        ok = all(t == 'ok' for t in real_out.split(' '))
        return [{'prop': q, 'ok': ok, 'expected': 'ok ' * (line.count('|') - 3), 'observed': real_out[:300],
                 'what': 'a request object that is sent again after one field was changed is transmitted as the encoding of its field values at the time '
                         'of that call'} for q in ('C12', 'C08')], []
    if line.startswith('srvedit|'):
        retries = int(line.split('|')[5])
        ok = tok(real_out, 'same') == 'true' and int(tok(real_out, 'sent') or 99) <= retries + 1
        return [{'prop': 'C12', 'ok': ok, 'expected': 'every transmission = the encoding of the field values at the time of the call',
                 'observed': real_out[-80:], 'what': 'all (re)transmissions carry the same canonical bytes: the field values at the time of the call, '
                                                     'also when the frame object is edited while the request is under way'}], []
    kind, cls_, id_, payload, resp, retries, delay, txl, rx = parse_srv(line)
    result = real_out.split(' ')[0]
    recs = []
    calls = tok(real_out, 'calls') or ''
    sent = int(tok(real_out, 'sent') or 0)
    t = int(tok(real_out, 't') or 0)
    resp_tag = ('resp' + resp) if resp.isdigit() else resp
    # C04
    why = check_result(kind, cls_, id_, resp_tag, result, after_last_tx(calls, [c for _, c in rx]))
    recs.append({'prop': 'C04', 'ok': why is None, 'expected': 'nothing, or a fresh, matching (and for CFG acknowledged) answer',
                 'observed': (why or result)[:300], 'what': 'requests return only fresh, matching and (for CFG) acknowledged answers'})
    # C05
    tmax = max([100] + [d for d, _ in rx])
    bound = time_bound_ticks(kind, cls_, retries, delay, tmax)
    if kind == 'faf':
        ok = sent == 1 and 'r' not in calls and not result.startswith('TIMEOUT')
        exp = 'exactly one transmission, no reading'
    else:
        ok = result != 'TIMEOUT' and sent <= retries + 1 and t <= bound
        exp = f'returns; at most {retries + 1} transmissions; at most {float(bound):.1f} ticks'
    recs.append({'prop': 'C05', 'ok': ok, 'expected': exp, 'observed': f'{result[:40]} sent={sent} t={t}',
                 'what': 'every request terminates: bounded retransmissions and bounded time'})
    # C12 (first sentence)
    ok = tok(real_out, 'same') == 'true' and (kind == 'faf' or sent <= retries + 1)
    recs.append({'prop': 'C12', 'ok': ok, 'expected': 'every transmission = canonical wire encoding of the request', 'observed': real_out[-60:],
                 'what': 'all (re)transmissions carry the same canonical bytes'})
    return recs, []


REQ_CIDS = [(6, 8), (6, 0x3e), (1, 3), (0x0a, 4), (6, 0x8b), (0x10, 0x10)]


def pick_req_cid(rng, pool=None):
    """class/id of a request: the usual ones, or one that contains the protocol's special bytes, or any other - never an
    answer class/id (ACK-ACK, ACK-NAK, MGA-ACK) and never 00/02, which the library reserves for its checksum-error marker (R13)"""
    k = rng.random()
    if k < 0.7:
        return rng.choice(pool or REQ_CIDS)
    if k < 0.9:
        return rng.choice([(6, 0x62), (6, 0xb5), (0x62, 0xb5), (0xb5, 0x62), (0x24, 0x2a), (6, 0x24), (0x0a, 0x00), (0xff, 0xff), (1, 0x00)])
    while True:
        c = (rng.randrange(256), rng.randrange(256))
        if c not in (ACK, NAK, MGA, (0, 2)) and c[0] != 0x13:
            return c


def rand_payload(rng, n):
    return bytes(rng.choice([0xb5, 0x62, 0, 0xff]) if rng.random() < .2 else rng.randrange(256) for _ in range(n))


def answer_frames(rng, kind, cls_, id_, minlen, echo=None):
    """one frame of the kind the request waits for, right or wrong in one of the ways that matter; `echo`: what an MGA-ACK may
    carry as the start of the acknowledged message's payload - this request's, or an EARLIER MGA message's (a late ACK)"""
    t = rng.random()
    if kind == 'mga':
        ty = rng.choice([1, 1, 1, 0, 2, 255])
        start = list(rng.choice(echo)) if echo and rng.random() < 0.7 else [1, 2, 3, 4]
        return frame(0x13, 0x60, ([ty, 0, rng.randrange(256), id_] + start)[:rng.choice([8, 8, 8, 3, 0])])
    if kind == 'set' or (kind == 'poll' and cls_ == 6 and t < 0.5):
        u = rng.random()
        if u < 0.55:
            return frame(5, 1, [cls_, id_])
        if u < 0.65:
            return frame(5, 1, [cls_, id_ ^ 1])
        if u < 0.72:
            return frame(5, 1, [cls_ ^ 1, id_])
        if u < 0.85:
            return frame(5, 0, [cls_, id_])
        if u < 0.93:
            return frame(5, 1, [cls_][:rng.randrange(0, 2)])
        return frame(5, 1, [cls_, id_, 9])
    return frame(cls_, id_, rand_payload(rng, rng.choice([minlen, minlen, max(0, minlen - 1), 0, 2, 6, 8, 40])))


def noise(rng):
    k = rng.random()
    if k < 0.3:
        return frame(1, 7, rand_payload(rng, 4))
    if k < 0.42:
        return b'$GPTXT,01,01,02,hello*00\r\n'
    if k < 0.5:
        return rng.choice([b'{"class":"TPV","device":"/dev/ttyS3","mode":3}\r\n', b'{"class":"SKY","satellites":[]}\r\n'])
    if k < 0.7:
        return bytes(rng.randrange(256) for _ in range(rng.randrange(1, 6)))
    if k < 0.85:
        return b'\xb5'
    # a run of frames that arrive damaged (what a line with a fault does for a while): acknowledgements, navigation data, anything
    out = b''
    for _ in range(rng.choice([1, 1, 2, 3, 4, 6])):
        f = bytearray(rng.choice([frame(5, 1, [6, 8]), frame(5, 0, [6, 1]), frame(1, 7, rand_payload(rng, 6)), frame(0x13, 0x60, [1, 0, 0, 0x40, 0, 0, 0, 0])]))
        f[-1] ^= 0x10
        out += bytes(f)
    return out


def gen_srvedit(rng, n):
    from comp_codec import payload_for, wellformed, field_kinds
    for _ in range(n):
        name = rng.choice(['UbxCfgRate', 'UbxCfgNav5', 'UbxCfgPrtUart', 'UbxMgaIniTimeUtc', 'UbxCfgTp5', 'UbxCfgCfgAction', 'UbxCfgRstAction'])
        pl = payload_for(rng, name)
        while not wellformed(name, pl):
            pl = payload_for(rng, name)
        kinds = [k for k in field_kinds(name, pl) if k[1] != 'text']
        fname, k, w = rng.choice(kinds)
        kind = 'mga' if name == 'UbxMgaIniTimeUtc' else 'set'
        retries = rng.randrange(1, 4)
        delay = rng.choice([1, 125])
        # the first attempts time out, a later one is acknowledged
        cls = find_class(name)
        ans = frame(0x13, 0x60, [1, 0, 0, cls.CID.id, 0, 0, 0, 0]) if kind == 'mga' else frame(5, 1, [cls.CID.cls, cls.CID.id])
        silent = rng.randrange(1, retries + 1)
        rx = [(delay * 2 + 5, b'')] * silent + [(1, ans)]
        yield '|'.join(['srvedit', kind, name, pl.hex(), f'{fname}={rng.choice([0, 1, 2, 7])}', str(retries), str(delay),
                        ','.join('1' for _ in range(retries + 1)), ','.join(f'{dt}:{d.hex()}' for dt, d in rx)])


def gen_srv(rng, n, profile):
    """profile 'mixed' (C04/C12), 'bounds' (C05: cyclic tails, boundary delays)"""
    if profile == 'mixed':
        for ln in gen_srvedit(rng, max(20, n // 10)):
            yield ln
        # one request object re-used; the values a field takes in between include pairs with the same hash() (-1 / -2, n / n + 2**61 - 1)
        from comp_codec import CLASSES, field_kinds
        M = (1 << 61) - 1
        for name in ('UbxCfgEsflaSet', 'UbxCfgNav5', 'UbxCfgRate', 'UbxCfgTp5', 'UbxEsfMeas', 'UbxMgaIniTimeUtc'):
            size = CLASSES.get(name)
            if not size:
                continue
            try:
                kinds = [k for k in field_kinds(name, bytes(size)) if k[1] != 'text']
            except Exception:
                continue
            for fname, k, w in rng.sample(kinds, min(len(kinds), 3)):
                vals = [-1, -2, -3, -2, -1] if k.islower() else [1, 2, 1, 0, 255, 0]
                yield f'srvreuse|{name}|{"00" * size}|{fname}|' + '|'.join(map(str, vals))
                yield f'srvreuse|{name}|{"ff" * size if k.islower() else "00" * size}|{fname}|' + '|'.join(map(str, vals[1:]))
    real_polls = sorted(poll_classes().items())
    for _ in range(n):
        kind = rng.choice(['set', 'set', 'mga', 'poll', 'poll', 'poll', 'faf'])
        cls_, id_ = (0x13, 0x40) if kind == 'mga' else pick_req_cid(rng)
        payload = rand_payload(rng, rng.choice([0, 1, 6]))
        resp = str(rng.choice([0, 2, 6]))
        if kind == 'poll' and rng.random() < 0.35:
            name, pc = rng.choice(real_polls)
            inst = pc([rng.randrange(1 << 32)]) if pc.__name__ == 'UbxCfgValGetPoll' else pc()
            for it in inst.f._fields.values():
                if it.name.startswith(('PortId', 'tpIdx')):
                    it.value = rng.randrange(256)
            inst.pack()
            cls_, id_, payload, resp = pc.CID.cls, pc.CID.id, bytes(inst.data), name
        minlen = int(resp) if resp.isdigit() else 0
        retries = rng.randrange(0, 4) if profile != 'bounds' else rng.choice([0, 1, 2, 3, 5, 10])
        delay = rng.choice([0, 1, 125, 500, 1000, 1800]) if profile != 'bounds' else rng.choice([0, 1, 125, 500, 1800, 5000])
        txl = [rng.random() < 0.85 for _ in range(retries + 1)]
        rx = []
        nev = rng.randrange(0, 9)
        if profile == 'bounds' and rng.random() < 0.6:
            # an endless supply of one thing (as long as the bound could possibly need)
            unit_dt = rng.choice([1, 5, 50, 100, 250])
            tail = rng.choice(['silence', 'garbage', 'foreign-ack', 'nak', 'mga-reject', 'response', 'corrupt', 'unrelated'])
            dticks = delay * 1024 // 1000 + 1
            reps = min(400, (2 * (retries + 1) * (dticks + unit_dt)) // unit_dt + 4)
            unit = {'silence': b'', 'garbage': b'\x00\xb5\x17', 'foreign-ack': frame(5, 1, [cls_, id_ ^ 1]), 'nak': frame(5, 0, [cls_, id_]),
                    'mga-reject': frame(0x13, 0x60, [0, 0, 1, id_, 0, 0, 0, 0]), 'response': frame(cls_, id_, bytes(minlen)),
                    'corrupt': frame(5, 1, [cls_, id_])[:-1] + b'\x00', 'unrelated': frame(1, 7, b'\x01\x02\x03\x04')}[tail]
            first = [] if rng.random() < 0.5 or kind != 'poll' else [(unit_dt, frame(cls_, id_, bytes(minlen)))]
            rx = first + [(unit_dt, unit)] * reps
        else:
            for _ in range(nev):
                dt = rng.choice([1, 1, 5, 50, 100, 128, 512, 1024])
                k = rng.random()
                if k < 0.12:
                    data = b''
                elif k < 0.25:
                    data = noise(rng)
                else:
                    data = b''.join(answer_frames(rng, kind, cls_, id_, minlen) if rng.random() < 0.75 else noise(rng)
                                    for _ in range(rng.choice([1, 1, 1, 2, 3])))
                    if rng.random() < 0.1:
                        data = data[:-1] + bytes([data[-1] ^ 0x10])
                    if rng.random() < 0.3 and len(data) > 1:
                        cut = rng.randrange(1, len(data))
                        rx.append((dt, data[:cut]))
                        data = data[cut:]
                rx.append((dt, data))
        yield '|'.join(['srv', kind, f'{cls_}:{id_}', payload.hex(), resp, str(retries), str(delay),
                        ','.join('1' if t else '0' for t in txl), ','.join(f'{dt}:{d.hex()}' for dt, d in rx)])


# =====================================================================================================
# seqs: buffered, timed back-end stub; sequences of requests; trace validation
# =====================================================================================================
class Link:
    """the receiver's end of a scenario: an input buffer that fills along arrival time-lines whether or not anybody reads;
    what a transmission does (accepted or not, what it makes arrive when) follows the scenario's script"""

    def __init__(self, sc, req_index=None, pending=(), buffered=b''):
        self.sc = sc
        self.pending = sorted(pending, key=lambda e: e[0])      # stable: arrivals of one instant keep their order
        self.buf = bytearray(buffered)
        self.sent, self.tx_trace = [], []
        self.rates = []                 # tty: the bit rate the port was at for each transmission
        self.data_reads, self.eof_seen = 0, False          # gpsd: reads of the data socket so far; whether the connection was closed
        self.nested = False             # a transmission made from inside a back-end hook (see Traced): not an attempt of the request
        self.nested_sent = []
        self.cur = req_index
        self.attempt = 0

    def begin(self, i):
        self.cur, self.attempt = i, 0

    def arrive(self):
        while self.pending and self.pending[0][0] <= CLK.ticks:
            self.buf += self.pending.pop(0)[1]

    def drop(self):
        self.arrive()
        self.buf.clear()

    def on_tx(self, data):
        if self.nested:
            self.nested_sent.append(bytes(data))
            return True
        self.sent.append(bytes(data))
        if len(self.sent) > 200:
            raise Runaway()
        # a transmission that takes time on the clock the library reads (a blocking write at a low bit rate, a slow control
        # socket): what the receiver does is timed from the END of the transmission
        CLK.ticks += self.sc.get('txtime', 0)
        r = self.sc['reqs'][self.cur]
        a = self.attempt
        self.attempt += 1
        ok = r['tx'][a] if a < len(r['tx']) else True
        self.tx_trace.append(ok)
        if ok and a < len(r['timelines']):
            for off, h in r['timelines'][a]:
                self.pending.append((CLK.ticks + off, bytes.fromhex(h)))
            self.pending.sort(key=lambda e: e[0])
        return ok

    def read(self, chunk, timeout):
        """at most `chunk` bytes, as soon as there are any; None after `timeout` ticks without; takes at least one tick"""
        t0 = CLK.ticks
        self.arrive()
        if not self.buf:
            nxt = self.pending[0][0] if self.pending else None
            if nxt is not None and nxt <= t0 + timeout:
                CLK.ticks = max(nxt, t0)
                self.arrive()
            else:
                CLK.ticks = t0 + timeout
                return None
        if CLK.ticks == t0:
            CLK.ticks += 1
        data = bytes(self.buf[:chunk])
        del self.buf[:chunk]
        return data


class Traced:
    """mixed in FRONT of a server class: records the calls the request layer makes on its back end and what they return"""

    def trace_init(self, link):
        self.link = link
        self.rx_trace, self.calls = [], ''
        self.nested_count = {}
        self.boom_count = 0
        self.limit = 400000

    sent = property(lambda self: self.link.sent)
    tx_trace = property(lambda self: self.link.tx_trace)

    def nested_activity(self, where):
        """a second control flow enters the object while it is inside a back-end hook of a request (a back end that pokes the
        receiver, a timer, a signal handler, another thread between two reads): fire_and_forget() of another frame, once, at
        the scripted point.  It is no attempt of the request and nothing of it may show in what the request does."""
        n = self.link.sc.get('nested')
        if not n or self.link.nested or n['where'] != where or self.link.cur != n['req']:
            return
        self.nested_count[where] = self.nested_count.get(where, 0) + 1
        if self.nested_count[where] != n['at']:
            return
        self.link.nested = True
        try:
            self.fire_and_forget(make_req(6, 0x31, bytes.fromhex('00010000'), '0'))
        finally:
            self.link.nested = False

    def _recover(self):
        self.calls += 'v'
        self.nested_activity('recover')
        if self.link.sc.get('backoff'):
            # a back end that backs off: every recovery doubles the retry delay of the server it belongs to (up to the setter's limit)
            self.set_retry_delay(min(5000, self.retry_delay_in_ms * 2))
        return super()._recover()

    def _flush_input(self):
        self.calls += 'f'
        return super()._flush_input()

    def _transmit(self, data):
        if not self.link.nested:
            self.calls += 't'
        return super()._transmit(data)

    def _receive(self):
        self.nested_activity('receive')
        boom = self.link.sc.get('boom')
        if boom and self.link.cur == boom['req']:
            self.boom_count += 1
            if self.boom_count == boom['at']:
                # the transport gives up in the middle of a request (a USB receiver unplugged, Ctrl-C): the request ends with the
                # exception; whatever is asked of the same server afterwards must not care
                raise {'KeyboardInterrupt': KeyboardInterrupt, 'OSError': OSError, 'SerialException': realenv.SerialException,
                       'timeout': real_socket.timeout}[boom['exc']]('scripted')
        self.calls += 'r'
        t0 = CLK.ticks
        if t0 - T0 > self.limit:
            raise Runaway()
        data = super()._receive()
        self.rx_trace.append((CLK.ticks - t0, bytes(data) if data else b''))
        return data


class LinkSrv(sb.UbxServerBase_):
    """the plainest back end over a Link: `_flush_input()` really drops what has arrived; reads return at most `chunk` bytes"""

    def _recover(self):
        pass

    def _flush_input(self):
        if self.link.sc.get('drainflush'):
            # a back end that "flushes" by reading what is waiting and handing it to the parser (a bridge transport, a reader thread
            # that got there first): whatever that queues was decoded BEFORE the transmission that follows
            self.link.arrive()
            data = bytes(self.link.buf)
            self.link.buf.clear()
            if data:
                self.parser.process(data)
            return
        self.link.drop()

    def _transmit(self, data):
        return self.link.on_tx(data)

    def _receive(self):
        return self.link.read(self.link.sc['chunk'], self.link.sc['timeout'])


class BufSrv(Traced, LinkSrv):
    def __init__(self, link):
        super().__init__()
        self.trace_init(link)


# ---- the library's own back ends over the same Link: tty over a serial stub, gpsd over socket stubs ----------
class LinkSerial(realenv.Serial):
    link = None

    def read(self, n=1):
        t = self.timeout if self.timeout is not None else 1000
        return self.link.read(n, max(1, int(t * 1024))) or b''

    def write(self, data):
        self.log.append(('write', bytes(data)))
        if not self.link.nested:
            self.link.rates.append(self._baud)
        return len(data) if self.link.on_tx(data) else max(0, len(data) - 1)

    def reset_input_buffer(self):
        self.link.drop()


def make_tty(link):
    import ubxlib.server_tty as tty
    realenv.patch_time(tty)

    class TtySrv(Traced, tty.GnssUBlox):
        pass
    s = TtySrv(*ctor_args(json.dumps(link.sc['reqs'][:1])))
    port = LinkSerial()
    port.link = link
    s.serial_port = port
    s.trace_init(link)
    return s


GPSD_DEVICE = '/dev/ttyS3'


class LinkSockets:
    """stands in for the `socket` module inside ubxlib.server: the data socket reads from the Link, the control socket
    hands the hex-encoded command to it and answers as gpsd does"""
    AF_INET, AF_UNIX, SOCK_STREAM, SHUT_RDWR = real_socket.AF_INET, real_socket.AF_UNIX, real_socket.SOCK_STREAM, real_socket.SHUT_RDWR
    timeout, error = real_socket.timeout, real_socket.error
    link = None

    class socket:
        def __init__(self, family=None, kind=None):
            self.family = family
            self.t = None
            self.hello = []
            self.reply = b''

        def connect(self, addr):
            pass

        def settimeout(self, t):
            self.t = t

        def send(self, data):
            if bytes(data).startswith(b'?WATCH'):
                self.hello.append(('{"class":"VERSION","release":"3.22","rev":"3.22","proto_major":3,"proto_minor":14}\r\n'
                                   '{"class":"DEVICES","devices":[{"class":"DEVICE","path":"' + GPSD_DEVICE + '","driver":"u-blox"}]}\r\n').encode())
            return len(data)

        def sendall(self, data):
            data = bytes(data)
            head = ('&' + GPSD_DEVICE + '=').encode()
            try:
                if not data.startswith(head):
                    raise ValueError
                raw = bytes.fromhex(data[len(head):].decode())
            except ValueError:
                raw = b'not-a-command:' + data          # recorded as sent, and never equal to the canonical frame
            self.reply = b'OK' if LinkSockets.link.on_tx(raw) else b'ERROR'

        def recv(self, n):
            if self.family == real_socket.AF_UNIX:
                r, self.reply = self.reply, b''
                return r
            if self.hello:
                return self.hello.pop(0)
            link = LinkSockets.link
            if getattr(self, 'eof', False) or (link.sc.get('eof') is not None and link.data_reads >= link.sc['eof'] and not link.eof_seen):
                # gpsd closed THIS connection (the daemon was restarted): every read of it returns nothing at once, for good; a socket
                # opened afterwards is a new connection
                self.eof = link.eof_seen = True
                CLK.ticks += 1
                return b''
            link.data_reads += 1
            t = self.t if self.t is not None else 1000
            data = LinkSockets.link.read(n, max(1, int(t * 1024)))
            if data is None:
                raise real_socket.timeout()
            return data

        def shutdown(self, how):
            pass

        def close(self):
            pass


_SOCK_NAMES = None


def point_sockets(srv, mod):
    """whatever way ubxlib.server reaches the socket API - `import socket` or names imported from it - goes to `mod`"""
    global _SOCK_NAMES
    if _SOCK_NAMES is None:
        _SOCK_NAMES = {}
        for name, val in list(vars(srv).items()):
            if val is real_socket:
                _SOCK_NAMES[name] = 'module'
            elif val is real_socket.socket:
                _SOCK_NAMES[name] = 'class'
        _SOCK_NAMES.setdefault('socket', 'module')
    for name, k in _SOCK_NAMES.items():
        setattr(srv, name, mod if k == 'module' else mod.socket)


def make_gpsd(link):
    import ubxlib.server as srv
    point_sockets(srv, LinkSockets)
    realenv.patch_time(srv)
    LinkSockets.link = link

    class GpsdSrv(Traced, srv.GnssUBlox):
        pass
    s = GpsdSrv(GPSD_DEVICE)
    s.trace_init(link)
    return s


def new_server(sc, fresh_factory=True, **kw):
    if fresh_factory:
        FrameFactory.destroy()
    if sc.get('background') and 'pending' not in kw:
        # a receiver that talks all the time, asked or not: a periodic message (5 to 20 Hz) from the start of the scenario on
        period, h = sc['background']
        kw['pending'] = [(T0 + k * period, bytes.fromhex(h)) for k in range(1, 40000 // period)]
    link = Link(sc, **kw)
    backend = sc.get('backend', 'base')
    t = CLK.ticks
    s = {'base': BufSrv, 'tty': make_tty, 'gpsd': make_gpsd}[backend](link)
    s.setup()
    if sc.get('baud') and backend == 'tty':
        s.set_baudrate(sc['baud'])      # the application switched the line speed after opening the port
    CLK.ticks = t                       # opening the port / the gpsd handshake is not part of the scenario
    s.set_retries(sc['retries'])
    s.set_retry_delay(sc['delay'])
    return s


def peer_comes_and_goes():
    """another server object of the application is set up and cleaned up: cleanup() takes the frame registry both share down with it"""
    t = CLK.ticks
    peer = new_server({'retries': 0, 'delay': 125, 'chunk': 128, 'timeout': 256, 'backend': 'base', 'reqs': []}, fresh_factory=False)
    peer.cleanup()
    CLK.ticks = t


def settings_at(sc, i):
    """(retries, delay) in force for request i: the scenario's, or what the application set between two requests"""
    retries, delay = sc['retries'], sc['delay']
    for r in sc['reqs'][:i + 1]:
        if r.get('set'):
            retries, delay = r['set'].get('retries', retries), r['set'].get('delay', delay)
    return retries, delay


def req_of(r):
    cls_, id_ = r['cid']
    return make_req(cls_, id_, bytes.fromhex(r['payload']), r['resp'])


def run_sequence(sc):
    CLK.ticks = T0
    RETURNED.clear()
    s = new_server(sc)
    other = None
    if sc.get('bystander'):
        # a second server object in the same process (another receiver), busy between the requests of the first: one request
        # answered at once, the next not at all, and so on.  Nothing of it may show in what the first server does.
        osc = {'retries': 0, 'delay': 125, 'chunk': 128, 'timeout': 256, 'backend': 'tty' if sc.get('backend') == 'tty' else 'base',
               'reqs': [{'kind': 'set', 'cid': [6, 1], 'payload': '0102', 'resp': '0', 'tx': [True], 'timelines': [[(1, frame(5, 1, [6, 1]).hex())]]},
                        {'kind': 'set', 'cid': [6, 0x24], 'payload': '', 'resp': '0', 'tx': [True], 'timelines': [[(3, b'\xb5\x62\x05\x01\x02'.hex())]]},
                        {'kind': 'poll', 'cid': [10, 9], 'payload': '', 'resp': '0', 'tx': [True], 'timelines': [[(2, frame(10, 9, b'\x01\x02\x03').hex())]]}]}
        other = new_server(osc, fresh_factory=False)
    outs, starts, per_req, ends = [], [], [], []
    prev_obj = None
    keeps = sc.get('backend') == 'gpsd'     # the gpsd back end has no way to drop what its socket has buffered (R-gpsd-flush)
    for i, r in enumerate(sc['reqs']):
        if other is not None:
            k = i % len(other.link.sc['reqs'])
            other.link.begin(k)
            call(other, other.link.sc['reqs'][k]['kind'], req_of(other.link.sc['reqs'][k]))
        if sc.get('peergone') == i:
            peer_comes_and_goes()
        s.link.arrive()
        starts.append((CLK.ticks, list(s.link.pending), len(s.sent), len(s.rx_trace), len(s.calls), bytes(s.link.buf) if keeps else b'',
                       s.link.data_reads))
        s.link.begin(i)
        if r.get('set'):
            # the application changes the retry settings between two requests (as a bit-rate search does)
            if 'retries' in r['set']:
                s.set_retries(r['set']['retries'])
            if 'delay' in r['set']:
                s.set_retry_delay(r['set']['delay'])
        if r.get('retarget') and prev_obj is not None:
            # ONE scratch frame object re-pointed at another message between two requests (frame.CID = …), payload as it was
            req = prev_obj
            req.CID = UbxCID(*r['cid'])
        else:
            req = req_of(r)
        prev_obj = req
        outs.append(call(s, r['kind'], req))
        ends.append(CLK.ticks)
    s.ends = ends
    for i in range(len(sc['reqs'])):
        a = starts[i][2]
        b = starts[i + 1][2] if i + 1 < len(starts) else len(s.sent)
        per_req.append(s.sent[a:b])
    return s, outs, starts, per_req


def run_alone(sc, i, start):
    """request i alone on a newly created and set-up server facing the same arrivals, nothing buffered (over gpsd: the same
    bytes waiting in the socket, which no server can drop)"""
    tick, pending = start[0], start[1]
    CLK.ticks = tick
    s = new_server(sc, req_index=i, pending=pending, buffered=start[5])
    if sc.get('peergone') is not None and i >= sc['peergone']:
        peer_comes_and_goes()               # (what another object of the application did to the shared registry is no earlier request)
        CLK.ticks = tick
    rt, dl = settings_at(sc, i)
    s.set_retries(rt)
    s.set_retry_delay(dl)
    s.link.data_reads = start[6]            # (a connection that gpsd has closed, or is about to close, is the transport's state, not the server's)
    s.link.begin(i)
    out = call(s, sc['reqs'][i]['kind'], req_of(sc['reqs'][i]))
    return out, list(s.sent), list(s.link.rates)


def real_seqs(line):
    sc = json.loads(line.split('|', 1)[1])
    s, outs, starts, per_req = run_sequence(sc)
    ok_bytes = all(x == frame(*r['cid'], bytes.fromhex(r['payload'])) for r, sent in zip(sc['reqs'], per_req) for x in sent)
    return (f'{";".join(outs)} sent={len(s.sent)} per={",".join(str(len(x)) for x in per_req)} nrx={len(s.rx_trace)} '
            f't={sum(e - st[0] for e, st in zip(s.ends, starts))} calls={s.calls} same={"true" if ok_bytes else "false"}')


def model_line_seqs(line):
    """the recorded back-end trace as the model's environment"""
    sc = json.loads(line.split('|', 1)[1])
    if sc.get('boom') or sc.get('txtime') or sc.get('backoff') or any(r.get('set') for r in sc['reqs']) or sc.get('peergone') is not None:
        return 'no-model'              # (the model's transmissions take no time, its settings do not change under way, its registry is its own)
    s, outs, starts, per_req = run_sequence(sc)
    return '|'.join(['seq', str(sc['retries']), str(sc['delay']), ','.join('1' if t else '0' for t in s.tx_trace),
                     ','.join(f'{dt}:{d.hex()}' for dt, d in s.rx_trace),
                     ';'.join(f"{r['kind']}/{r['cid'][0]}:{r['cid'][1]}/{r['payload']}/{r['resp']}" for r in sc['reqs'])])


def oracles_seqs(line, real_out):
    sc = json.loads(line.split('|', 1)[1])
    recs = []
    s, outs, starts, per_req = run_sequence(sc)
    # C10: in sequence = alone on a fresh server
    bad = None
    RETURNED.clear()
    for i, r in enumerate(sc['reqs']):
        alone, sent, rates = run_alone(sc, i, starts[i])
        a = starts[i][2]
        in_seq_rates = s.link.rates[a:a + len(per_req[i])]
        if (alone, sent) != (outs[i], per_req[i]):
            bad = f'request {i} ({r["kind"]} {r["cid"]}): in sequence {outs[i][:80]} after {len(per_req[i])} transmissions, alone {alone[:80]} after {len(sent)}'
            break
        if rates != in_seq_rates:
            bad = f'request {i} ({r["kind"]} {r["cid"]}): in sequence transmitted at {in_seq_rates} bit/s, alone at {rates}'
            break
    recs.append({'prop': 'C10', 'ok': bad is None, 'expected': 'each request as on a freshly set-up server facing the same receiver behaviour',
                 'observed': bad or 'equal', 'what': 'a request\'s outcome does not depend on earlier requests or traffic'})
    # C04 / C05 per request, on the recorded trace
    chunks = [d for _, d in s.rx_trace]
    why4 = why5 = None
    tmax = max([sc['timeout']] + [d for d, _ in s.rx_trace])
    for i, r in enumerate(sc['reqs']):
        c0 = starts[i][4]
        c1 = starts[i + 1][4] if i + 1 < len(starts) else len(s.calls)
        j0 = starts[i][3]
        stream = after_last_tx(s.calls[c0:c1], chunks[j0:])
        resp_tag = ('resp' + r['resp']) if r['resp'].isdigit() else r['resp']
        boomed = sc.get('boom') and sc['boom']['req'] == i and outs[i].startswith('EXC:')
        w = None if boomed else check_result(r['kind'], r['cid'][0], r['cid'][1], resp_tag, outs[i], stream)
        why4 = why4 or (w and f'request {i}: {w}')
        t0, t1 = starts[i][0], s.ends[i]
        nsent = len(per_req[i])
        rt_i, dl_i = settings_at(sc, i)
        bound = time_bound_ticks(r['kind'], r['cid'][0], rt_i, dl_i, tmax) + nsent * sc.get('txtime', 0)
        if r['kind'] == 'faf':
            if nsent != 1 or 'r' in s.calls[c0:c1]:
                why5 = why5 or f'request {i}: fire_and_forget made {nsent} transmissions / read'
        elif boomed:
            pass
        elif outs[i] == 'TIMEOUT' or nsent > rt_i + 1 or t1 - t0 > bound:
            why5 = why5 or f'request {i}: {outs[i][:30]} after {nsent} transmissions and {t1 - t0} ticks (bound {float(bound):.1f})'
    recs.append({'prop': 'C04', 'ok': why4 is None, 'expected': 'nothing, or a fresh, matching (and for CFG acknowledged) answer',
                 'observed': why4 or 'ok', 'what': 'requests return only fresh, matching and (for CFG) acknowledged answers'})
    recs.append({'prop': 'C05', 'ok': why5 is None, 'expected': 'bounded transmissions and time', 'observed': why5 or 'ok',
                 'what': 'every request terminates: bounded retransmissions and bounded time'})
    recs.append({'prop': 'C12', 'ok': tok(real_out, 'same') == 'true', 'expected': 'canonical bytes', 'observed': real_out[-40:],
                 'what': 'all (re)transmissions carry the same canonical bytes'})
    # C06: scenarios built so that the k-th transmission is answered correctly and in time
    if sc.get('expect'):
        k, ans = sc['expect']
        got = (outs[-1], len(per_req[-1]))        # the scenario's last request; the ones before it are history
        recs.append({'prop': 'C06', 'ok': got == (ans, k), 'expected': f'{ans} after exactly {k} transmissions',
                     'observed': f'{got[0][:200]} after {got[1]}', 'what': 'a correct answer to the k-th transmission is returned after exactly k sends'})
    return recs, []


def benign(rng, awaited, others=()):
    """traffic that is not an answer-class frame: NMEA, other UBX (also of class/ids polled EARLIER on this server),
    corrupted frames, filler"""
    k = rng.random()
    if k < 0.08:
        # what gpsd itself puts on the data socket between the raw bytes
        return rng.choice([b'{"class":"TPV","device":"/dev/ttyS3","mode":3,"time":"2024-01-01T00:00:00.000Z"}\r\n',
                           b'{"class":"SKY","device":"/dev/ttyS3","satellites":[]}\r\n', b'{"class":"WATCH","enable":true,"raw":2}\r\n'])
    if k < 0.25:
        return b'$GPGGA,1,2*33\r\n'
    if k < 0.5:
        pool = [(1, 7), (0x0d, 1), (2, 0x15)] + [c for c in others if c not in awaited] * 3
        return frame(*rng.choice(pool), rand_payload(rng, rng.choice([6, 8, 12]) if others else rng.choice([0, 4, 12])))
    if k < 0.75:
        c, i = rng.choice(awaited)
        f = bytearray(frame(c, i, rand_payload(rng, rng.choice([2, 6, 8]))))
        f[rng.choice([2, 3] + list(range(6, len(f))))] ^= 1 << rng.randrange(8)      # corrupted, not in the length field
        if scan_pos(bytes(f)) and scan_pos(bytes(f))[0][0] == 'frame':
            return b'\x00'
        return bytes(f)
    return bytes(rng.choice([0, 0x24, 0x62, 0xb5]) for _ in range(rng.randrange(1, 4))).replace(b'\xb5\x62', b'\xb5\x00')


def pick_backend(rng, chunk, timeout):
    """the stub back end, or - where the scenario's read size and time-out are theirs - the library's own tty / gpsd back end
    over the same arrivals"""
    if (chunk, timeout) == (1, 102):
        return rng.choice(['base', 'tty', 'tty'])
    if (chunk, timeout) == (128, 256):
        return rng.choice(['base', 'gpsd', 'gpsd'])
    return 'base'


def gen_c06(rng):
    kind = rng.choice(['set', 'set', 'mga', 'poll', 'poll', 'poll'])
    cls_, id_ = (0x13, 0x40) if kind == 'mga' else pick_req_cid(rng)
    minlen = rng.choice([0, 2, 6])
    retries = rng.randrange(0, 4)
    K = rng.randrange(1, retries + 2)
    chunk, timeout = rng.choice([(1, 102), (128, 256), (128, 256), (7, 50)])
    delay = rng.choice([500, 1000, 1800, 3000]) if chunk == 1 else rng.choice([125, 500, 1000, 1800])
    dticks = delay * 1024 // 1000
    awaited = {'set': [ACK, NAK], 'mga': [MGA], 'poll': [(cls_, id_)] + ([ACK, NAK] if cls_ == 6 else [])}[kind]
    tx, timelines = [], []
    cfgpoll = kind == 'poll' and cls_ == 6
    refused_any = False
    for a in range(K - 1):
        fk = rng.choice(['silence', 'garbage', 'corrupt', 'truncated', 'txfail', 'unrelated'] + (['halfway', 'halfway'] if cfgpoll else [])
                        + (['refused', 'refused'] if kind in ('set', 'mga') and chunk >= 128 else []))
        tx.append(fk != 'txfail')
        tl = []
        refused_any = refused_any or fk == 'refused'
        if fk == 'refused':
            # an attempt that ends at once with a frame of the awaited kind that does not settle the request (an ACK-ACK for another
            # message, an MGA-ACK that rejects) - no time-out, so no recovery - and, in the same read, something behind it: a frame cut
            # short, or a second frame of the awaited kind; the next attempt must start from an empty queue and a parser that hunts
            if kind == 'set':
                oc = rng.choice([c for c in [(6, 1), (6, 0x17), (6, 0x3e), (6, 0x8a), (1, 7)] if c != (cls_, id_)])
                first = frame(5, 1, list(oc))
                second = rng.choice([frame(5, 0, [cls_, id_]), frame(5, 1, list(oc)), frame(5, 0, list(oc))])
            else:
                first = frame(0x13, 0x60, [0, 0, rng.choice([1, 2, 6]), id_, 0, 0, 0, 0])
                second = rng.choice([frame(0x13, 0x60, [0, 0, 4, id_, 9, 9, 9, 9]), frame(0x13, 0x60, [1, 0, 0, id_ ^ 1, 0, 0, 0, 0])])
            u = rng.random()
            behind = b'' if u < 0.15 else second if u < 0.5 else second[:rng.randrange(1, len(second))] if u < 0.85 else \
                frame(1, 7, bytes(40))[:rng.randrange(3, 30)]
            tl = [(rng.randrange(1, max(2, dticks // 2)), (first + behind).hex())]
        if fk == 'halfway':
            # a configuration poll that gets its response but not the acknowledgement (lost, corrupted, or a NAK in its place)
            t1 = rng.randrange(1, max(2, dticks // 2))
            tl = [(t1, frame(cls_, id_, rand_payload(rng, minlen + rng.choice([0, 3]))).hex())]
            u = rng.random()
            if u < 0.3:
                f = bytearray(frame(5, 1, [cls_, id_]))
                f[rng.choice([2, 3, 6, 7, 8, 9])] ^= 1 << rng.randrange(8)
                tl.append((t1 + rng.randrange(1, max(2, dticks // 2)), bytes(f).hex()))
            elif u < 0.5:
                tl.append((t1 + rng.randrange(1, max(2, dticks // 2)), frame(5, 0, [cls_, id_]).hex()))
        elif fk == 'garbage':
            tl = [(rng.randrange(1, max(2, dticks // 2)), bytes(rng.choice([0, 1, 0x24, 0x62, 0xff]) for _ in range(rng.randrange(1, 20))).hex())]
        elif fk == 'corrupt':
            c, i = rng.choice(awaited)
            f = bytearray(frame(c, i, [cls_, id_, 0, 0, 0, 0][:max(2, minlen)]))
            f[-1] ^= 0x01
            tl = [(rng.randrange(1, max(2, dticks // 2)), bytes(f).hex())]
        elif fk == 'truncated':
            c, i = rng.choice(awaited)
            f = frame(c, i, [cls_, id_, 0, 0, 0, 0, 0, 0])
            tl = [(rng.randrange(1, max(2, dticks // 4)), f[:rng.randrange(1, len(f))].hex())]
        elif fk == 'unrelated':
            tl = [(rng.randrange(1, max(2, dticks // 2)), (frame(1, 7, b'abcd') + b'$GPGGA,1*00\r\n').hex())]
        timelines.append(tl)
    tx.append(True)
    # history: configuration polls answered at once on the same server, before the request the statement is about
    history, others = [], []
    if rng.random() < 0.4:
        for hc in rng.sample([(6, 8), (6, 0x3e), (6, 0x8b), (6, 0x24)], rng.choice([1, 2])):
            if hc == (cls_, id_):
                continue
            others.append(hc)
            history.append({'kind': 'poll', 'cid': list(hc), 'payload': '', 'resp': '0', 'tx': [True],
                            'timelines': [[(2, (frame(hc[0], hc[1], rand_payload(rng, 6)) + frame(5, 1, list(hc))).hex())]]})
    # … and requests of the other kinds, answered at once, in any order: a set, an MGA set, a poll outside the configuration class, a
    # frame fired and forgotten (what one kind of request leaves behind - a filter, a list it handed to the parser - meets the next kind)
    if rng.random() < 0.45:
        extra = []
        for hk in rng.sample(['set', 'mga', 'pollx', 'faf', 'set'], rng.choice([1, 2, 3])):
            if hk == 'set':
                hc = rng.choice([(6, 1), (6, 0x17), (6, 0x3e)])
                extra.append({'kind': 'set', 'cid': list(hc), 'payload': rand_payload(rng, 4).hex(), 'resp': '0', 'tx': [True],
                              'timelines': [[(2, frame(5, 1, list(hc)).hex())]]})
            elif hk == 'mga':
                extra.append({'kind': 'mga', 'cid': [0x13, 0x40], 'payload': rand_payload(rng, 8).hex(), 'resp': '0', 'tx': [True],
                              'timelines': [[(2, frame(0x13, 0x60, [1, 0, 0, 0x40, 0, 0, 0, 0]).hex())]]})
            elif hk == 'pollx':
                hc = rng.choice([(1, 3), (0x0a, 4), (0x10, 0x10)])
                if hc != (cls_, id_):
                    others.append(hc)
                    extra.append({'kind': 'poll', 'cid': list(hc), 'payload': '', 'resp': '0', 'tx': [True],
                                  'timelines': [[(2, frame(hc[0], hc[1], rand_payload(rng, 6)).hex())]]})
            else:
                extra.append({'kind': 'faf', 'cid': [6, 4], 'payload': rand_payload(rng, 4).hex(), 'resp': '0', 'tx': [True], 'timelines': [[]]})
        history = history + extra if rng.random() < 0.5 else extra + history
    # the answer
    pre = b''.join(benign(rng, awaited, others) for _ in range(rng.choice([0, 0, 1, 2, 3, 3, 7, 12] if not others else [1, 2, 3, 8])))
    if kind == 'set':
        if rng.random() < 0.75:
            ans, tag, apl = frame(5, 1, [cls_, id_]), 'UbxAckAck', bytes([cls_, id_])
            acid = ACK
        else:
            apl = bytes([cls_, id_])
            ans, tag, acid = frame(5, 0, apl), 'UbxAckNak', NAK
        body = pre + ans
    elif kind == 'mga':
        apl = bytes([1, 0, 0, id_, 1, 2, 3, 4])
        ans, tag, acid = frame(0x13, 0x60, apl), 'UbxMgaAckData0', MGA
        body = pre + ans
    else:
        apl = rand_payload(rng, minlen + rng.choice([0, 0, 3, 30]))
        tag, acid = f'resp{minlen}', (cls_, id_)
        body = pre + frame(cls_, id_, apl)
        if cls_ == 6:
            mid = b''.join(benign(rng, [(1, 7)]) for _ in range(rng.choice([0, 0, 1, 2])))
            body += mid + frame(5, 1, [cls_, id_])
    if rng.random() < 0.3:
        body += rng.choice([frame(5, 1, [cls_, id_]), frame(1, 7, b'1234'), b'\xb5\x62\x05'])    # whatever follows the answer
    # the premise, checked with the reference scanner: among the frames of awaited class/ids in the window the answer comes first
    want = [(acid[0], acid[1], apl)] if not (kind == 'poll' and cls_ == 6) else [(cls_, id_, apl), (5, 1, bytes([cls_, id_]))]
    seen = [(e[1], e[2], e[3]) for e in scan_pos(body) if e[0] == 'frame' and (e[1], e[2]) in awaited]
    if seen[:len(want)] != want:
        return None
    need = -(-len(body) // chunk) + 3
    if need + 2 >= dticks:
        return None
    backoff = K >= 2 and all(tx) and not refused_any and rng.random() < 0.2 and delay * 2 ** (K - 1) <= 5000
    if backoff:
        # every failed attempt was followed by a recovery that doubled the delay: the K-th attempt waits delay * 2**(K-1), and the
        # answer comes later than the delay the request started with
        now = dticks * 2 ** (K - 1)
        if dticks + 2 >= now - need:
            return None
        off = rng.randrange(dticks + 1, now - need)
    else:
        off = rng.randrange(1, dticks - need)
    if rng.random() < 0.4:
        # split the arrival in two: however the bytes are split across reads
        cut = rng.randrange(1, len(body))
        gapt = rng.randrange(0, max(1, (dticks * 2 ** (K - 1) if backoff else dticks) - need - off))
        tl = [(off, body[:cut].hex()), (off + gapt, body[cut:].hex())]
    else:
        tl = [(off, body.hex())]
    timelines.append(tl)
    expect = [K, f'{acid[0]}/{acid[1]}:{tag}:{apl.hex()}']
    nested = {}
    if backoff:
        nested = {'backoff': True}
    elif rng.random() < 0.15:
        nested = {'txtime': rng.choice([1, dticks // 4, dticks // 2, dticks - 1, dticks, 2 * dticks])}
    elif rng.random() < 0.15:
        nested = {'nested': {'req': len(history), 'at': rng.choice([1, 2, 3, 4, 6]), 'where': rng.choice(['receive', 'receive', 'recover'])}}
    return {**nested, 'retries': retries, 'delay': delay, 'chunk': chunk, 'timeout': timeout, 'backend': pick_backend(rng, chunk, timeout),
            'reqs': history + [{'kind': kind, 'cid': [cls_, id_], 'payload': rand_payload(rng, rng.choice([0, 1, 6])).hex(), 'resp': str(minlen),
                                'tx': tx, 'timelines': timelines}], 'expect': expect}


def gen_sequence(rng):
    nreq = rng.randrange(1, 6)
    retries = rng.randrange(0, 3)
    delay = rng.choice([1, 125, 500, 1000])
    chunk, timeout = rng.choice([(1, 102), (128, 256), (128, 256)])
    dticks = max(2, delay * 1024 // 1000)
    reqs = []
    prev = None
    earlier = []
    earlier_mga = []
    for _ in range(nreq):
        kind = rng.choice(['set', 'set', 'mga', 'mga', 'poll', 'poll', 'faf'])
        cls_, id_ = (0x13, 0x40) if kind == 'mga' else pick_req_cid(rng, REQ_CIDS[:4])
        if prev and rng.random() < 0.3 and kind != 'mga':
            cls_, id_ = prev                         # the same class/id again, as another kind of request
        prev = (cls_, id_) if kind != 'mga' else prev
        minlen = rng.choice([0, 2, 6])
        payload = rand_payload(rng, rng.choice([0, 1, 6]))
        echo = None
        if kind == 'mga':
            echo = [bytes(payload[:4]).ljust(4, b'\x00')] + earlier_mga
            earlier_mga = [echo[0]] + earlier_mga[:2]
        timelines = []
        for a in range(retries + 1):
            tl = []
            for _ in range(rng.choice([0, 1, 1, 1, 2])):
                off = rng.choice([1, 5, dticks // 4, dticks // 2, dticks - 1, dticks + 5, 2 * dticks + 50, 2500])
                pieces = []
                for _ in range(rng.choice([1, 1, 2, 3])):
                    u = rng.random()
                    if u < 0.15 and earlier:
                        # a late or duplicate answer to an EARLIER request of this sequence
                        ec, ei, em = rng.choice(earlier)
                        pieces.append(frame(ec, ei, rand_payload(rng, em + rng.choice([0, 2]))) if rng.random() < 0.7 else frame(5, 1, [ec, ei]))
                    elif u < 0.2:
                        # a long foreign frame (sensor data, a log dump) whose payload happens to hold what would be an answer: its length
                        # on or next to a byte boundary of the length field
                        inner = answer_frames(rng, kind if kind != 'faf' else 'set', cls_, id_, minlen, echo)
                        L = rng.choice([256, 256, 512, 768, 255, 257, 300])
                        at = rng.randrange(2, max(3, L - len(inner)))
                        body = bytearray(rng.choice([0, 0x11, 0xff]) for _ in range(L))
                        body[at:at + len(inner)] = inner
                        pieces.append(frame(0x10, 2, bytes(body[:L])))
                    elif u < 0.82:
                        pieces.append(answer_frames(rng, kind if kind != 'faf' else 'set', cls_, id_, minlen, echo))
                    else:
                        pieces.append(noise(rng))
                data = b''.join(pieces)
                if rng.random() < 0.12 and len(data) > 1:
                    data = data[:rng.randrange(1, len(data))]       # truncated frame at the end
                tl.append((max(1, off), data.hex()))
            timelines.append(tl)
        reqs.append({'kind': kind, 'cid': [cls_, id_], 'payload': payload.hex(), 'resp': str(minlen),
                     'tx': [rng.random() < 0.88 for _ in range(retries + 1)], 'timelines': timelines})
        if kind == 'poll':
            earlier.append((cls_, id_, minlen))
        if rng.random() < 0.15 and len(reqs) < 6:
            reqs.append(json.loads(json.dumps(reqs[-1])))      # the same request once more, the receiver answering byte for byte the same
        elif rng.random() < 0.1 and len(reqs) < 6 and kind in ('set', 'faf'):
            # the same request OBJECT re-pointed at another class/id, same payload
            again = json.loads(json.dumps(reqs[-1]))
            again['cid'] = list(pick_req_cid(rng, REQ_CIDS[:4]))
            again['retarget'] = True
            again['timelines'] = [[(off, frame(5, 1, again['cid']).hex() if rng.random() < .6 else h) for off, h in tl] for tl in again['timelines']]
            reqs.append(again)
    sc = {'retries': retries, 'delay': delay, 'chunk': chunk, 'timeout': timeout, 'backend': pick_backend(rng, chunk, timeout), 'reqs': reqs}
    if sc['backend'] == 'tty' and rng.random() < 0.5:
        sc['baud'] = rng.choice(BAUDS)          # the line speed was switched after the port was opened
    if rng.random() < 0.2:
        sc['bystander'] = True
    if sc['backend'] == 'base' and rng.random() < 0.2:
        sc['drainflush'] = True
    if sc['backend'] == 'gpsd' and rng.random() < 0.2:
        sc['eof'] = rng.choice([0, 1, 2, 3, 5, 8])
    if rng.random() < 0.15:
        sc['background'] = [rng.choice([50, 100, 200, 250]), rng.choice([frame(1, 7, rand_payload(rng, 8)), b'$GPGGA,1,2*33\r\n', frame(0x10, 2, rand_payload(rng, 4))]).hex()]
    if rng.random() < 0.08:
        sc['txtime'] = rng.choice([1, dticks // 2, dticks, 3 * dticks])
    if rng.random() < 0.12 and len(reqs) > 1:
        sc['boom'] = {'req': rng.randrange(len(reqs) - 1), 'at': rng.choice([1, 1, 2, 3, 6]),
                      'exc': rng.choice(['KeyboardInterrupt', 'OSError', 'SerialException'])}
        if rng.random() < 0.6:
            # … after which the application goes on with other settings (a shorter delay: what was armed before must not outlive the fault)
            reqs[sc['boom']['req'] + 1]['set'] = {'delay': rng.choice([1, 50, 125]), 'retries': rng.choice([0, 0, 1])}
    elif rng.random() < 0.2 and len(reqs) > 1:
        # the application changes a setting between two requests: the number of retries, the delay, or both (each through its own
        # setter) - and now and then what follows is the request before it once more, this time unanswered, so that the new setting is
        # the only thing that bounds it (what the earlier request worked out for itself must not be what the later one runs on)
        j = rng.randrange(1, len(reqs))
        which = rng.choice(['retries', 'retries', 'delay', 'both'])
        st = {}
        if which in ('retries', 'both'):
            st['retries'] = rng.choice([0, 0, 1, 2, 3])
        if which in ('delay', 'both'):
            st['delay'] = rng.choice([1, 125, 500, 1800])
        if rng.random() < 0.5 and reqs[j - 1]['kind'] != 'faf' and not reqs[j - 1].get('retarget') and not reqs[j].get('retarget'):
            again = json.loads(json.dumps(reqs[j - 1]))
            again.pop('set', None)
            again['timelines'] = [[] for _ in again['timelines']]
            again['tx'] = [True for _ in again['tx']] + [True, True, True]
            reqs.insert(j, again)
        reqs[j]['set'] = st
    if rng.random() < 0.06 and not sc.get('bystander'):
        # another server object of the application is set up and cleaned up before one of the requests: the registry they share is gone,
        # what arrives cannot be decoded - and every request still ends within its bound
        sc['peergone'] = rng.randrange(len(reqs))
    if rng.random() < 0.15:
        # another frame leaves through fire_and_forget() while a request of the sequence is waiting; the receiver may well
        # acknowledge THAT frame (an ACK naming another request)
        k = rng.randrange(len(reqs))
        sc['nested'] = {'req': k, 'at': rng.choice([1, 1, 2, 3, 5]), 'where': rng.choice(['receive', 'receive', 'recover'])}
        if rng.random() < 0.7 and reqs[k]['timelines']:
            reqs[k]['timelines'][0].append((rng.choice([1, 2, 5, dticks // 2]), frame(5, 1, [6, 0x31]).hex()))
    return sc


def gen_seqs(rng, n, profile):
    made = 0
    while made < n:
        sc = gen_c06(rng) if profile == 'c06' else gen_sequence(rng)
        if sc is None:
            continue
        made += 1
        yield 'seqs|' + json.dumps(sc, separators=(',', ':'))


# =====================================================================================================
# level: DEBUG versus disabled
# =====================================================================================================
def build_frame(name, h, edits):
    from comp_codec import parse_value
    cls = find_class(name)
    f = cls() if h == '-' else cls.construct(bytearray(bytes.fromhex(h)))
    if edits:
        for e in edits.split(','):
            k, v = e.split('=')
            setattr(f.f, k, parse_value(v))
    return f


def items_frame(spec):
    """a VALSET frame from items the caller made by hand: group, item, bits, signed flag (which may say something else than the
    key table does), value"""
    from comp_codec import parse_items
    from ubxlib.cfgkeys import CfgKeyData
    from ubxlib.ubx_cfg_valset import UbxCfgValSetAction
    return UbxCfgValSetAction([CfgKeyData(f'item{k}', g, i, b, v, sg) for k, (g, i, b, sg, v) in enumerate(parse_items(spec))])


def run_level(line, debug):
    p = line.split('|')
    kind, name, h, edits, retries, delay, txs, rxs = p[1:9]
    again = int(p[9]) if len(p) > 9 and p[9] else 0          # the same frame object sent this many times more
    hist = p[10] if len(p) > 10 else ''                      # what happened to the server / the shared registry before the request
    txl = [t == '1' for t in txs.split(',')] if txs else []
    rx = [(int(e.split(':')[0]), bytes.fromhex(e.split(':')[1])) for e in rxs.split(',')] if rxs else []
    log_level(debug, LEVEL_SPLIT[0] if debug else None)
    try:
        FrameFactory.destroy()
        CLK.ticks = T0
        s = ScriptSrv(txl, rx, 2000000)
        if hist != 'nosetup':
            s.setup()
        if hist == 'peer':
            # another server object of the application was set up and cleaned up in the meantime: the registry both share is gone
            b = ScriptSrv([], [], 2000000)
            b.setup()
            b.cleanup()
        if hist == 'cleanup':
            try:
                s.cleanup()
            except Exception as e:
                return 'cleanup-EXC:' + exc_name(e), None
        s.set_retries(int(retries))
        s.set_retry_delay(float(delay) if '.' in delay else int(delay))        # (a delay computed as 0.25 * 1000 is a float)
        try:
            f = items_frame(h) if name == 'ITEMS' else build_frame(name, h, edits)
        except Exception as e:
            return 'build-EXC:' + exc_name(e), None
        rs = call(s, kind, f)
        for _ in range(again):
            rs += '/' + call(s, kind, f)
        more = (' bytes=' + ','.join(bytes(b).hex() for b in s.sent)) if again or name == 'ITEMS' else ''
        return f'{rs} sent={len(s.sent)} nrx={s.nrx} t={CLK.ticks - T0} calls={s.calls}{more}', (f, s)
    finally:
        log_level(False)


LEVEL_SPLIT = [None]      # set by the oracle: DEBUG on a part of the package's loggers only


def run_plain(line, debug):
    """parsing and scanning (not requests) at a log level: the plain component's line behind a `level` prefix"""
    import comp_parsers
    base = line[len('level'):]
    fn = {'ubx': comp_parsers.real_ubx, 'nmea': comp_parsers.real_nmea, 'scan': real_scan, 'gpsdtx': real_gpsdtx, 'gpsd': real_gpsd,
          'tty': real_tty}[base.split('|')[0].replace('scanseq', 'scan').replace('gpsdsetup', 'gpsdtx')]
    log_level(debug, LEVEL_SPLIT[0])
    try:
        return fn(base)
    except Exception as e:
        return 'EXC:' + exc_name(e)
    finally:
        log_level(False)


def is_plain(line):
    return line.startswith(('levelubx|', 'levelnmea|', 'levelscan|', 'levelscanseq|', 'levelgpsdtx|', 'levelgpsd|', 'leveltty|', 'levelgpsdsetup|'))


def real_level(line):
    if is_plain(line):
        return run_plain(line, True)
    return run_level(line, True)[0]


def model_line_level(line):
    if is_plain(line):
        return line[len('level'):]
    p = line.split('|')
    kind, name, h, edits, retries, delay, txs, rxs = p[1:9]
    if (len(p) > 9 and p[9]) or name == 'ITEMS' or len(p) > 10 or edits or '.' in delay:
        return 'no-model'             # one frame object used for several requests: judged by the oracle alone
    out, st = run_level(line, False)
    if st is None:
        return 'bad-line'
    f, s = st
    pl = s.sent[0][6:-2].hex() if s.sent else ''
    return '|'.join(['srv', kind, f'{f.CID.cls}:{f.CID.id}', pl, '0', retries, delay, txs, rxs])


def oracles_level(line, real_out):
    """disabled, DEBUG everywhere (the `real` answer), and DEBUG with one module logger of the package turned down (or all
    but one): the three must agree"""
    run = run_plain if is_plain(line) else (lambda ln, lv: run_level(ln, lv)[0])
    off = run(line, False)
    LEVEL_SPLIT[0] = zlib.crc32(line.encode())
    try:
        part = run(line, True)
    finally:
        LEVEL_SPLIT[0] = None
    ok = off == real_out == part
    what = ('results and exceptions of parsing' if is_plain(line) else 'results, transmissions and exceptions of requests') + \
        ' are identical whether logging is disabled or set to DEBUG'
    recs = [{'prop': 'C19', 'ok': ok, 'expected': off[:300], 'observed': (real_out if real_out != off else 'with DEBUG on some module loggers only: ' + part)[:300],
             'what': what}]
    p = line.split('|')
    if not is_plain(line) and p[2] == 'ITEMS' and ' bytes=' in off:
        canon = canonical_valset(p[3])
        if canon is not None:
            sent = off.split(' bytes=')[1].split(',')
            same = all(x == canon.hex() for x in sent if x)
            recs.append({'prop': 'C12', 'ok': same, 'expected': 'every transmission ' + canon.hex(), 'observed': 'ok' if same else off.split(' bytes=')[1][:300],
                         'what': 'all (re)transmissions carry the canonical wire encoding of the request\'s field values at the time of the call'})
    return recs, []


def canonical_valset(spec):
    """the wire bytes of a VALSET frame for hand-made items, from the protocol: None where an item cannot be encoded"""
    from comp_codec import parse_items
    pl = bytearray([0, 1, 0, 0])
    for g, i, bits, sg, v in parse_items(spec):
        code = {1: 1, 8: 2, 16: 3, 32: 4, 64: 5}.get(bits)
        if code is None or not (0 <= g <= 255 and 0 <= i <= 4095) or not isinstance(v, int):
            return None
        pl += ((code << 28) | (g << 16) | i).to_bytes(4, 'little')
        if bits == 1:
            pl += bytes([1 if v else 0])
        else:
            try:
                pl += v.to_bytes(bits // 8, 'little', signed=sg)
            except OverflowError:
                return None
    return frame(6, 0x8a, bytes(pl))


def gen_level(rng, n, profile):
    from comp_codec import CLASSES, payload_for, wellformed
    import comp_parsers
    if profile == 'items':
        yield from gen_level_items(rng, n)
        return
    # parsing at DEBUG: with and without a filter (a parser that was never given one), every kind of stream
    for ln in comp_parsers.gen_ubx1(rng, max(30, n // 2), "mixed"):
        if rng.random() < 0.3:
            ln = comp_parsers.with_containers(rng, ln)
        yield 'level' + (ln if rng.random() < 0.6 else 'ubx|' + ';'.join(o for o in ln.split('|', 1)[1].split(';') if o[0] not in 'FS'))
    for ln in comp_parsers.gen_nmea1(rng, max(10, n // 6), "chunks"):
        if rng.random() < 0.3:
            ln = comp_parsers.with_containers(rng, ln)
        yield 'level' + ln
    for ln in gen_scan(rng, max(20, n // 4), 'scan'):
        yield 'level' + ln
    # the back ends at DEBUG: gpsd command framing and replies (text or not), gpsd handshake, serial transmit / recover
    for ln in gen_gpsdtx(rng, max(10, n // 10), 'gpsdtx'):
        yield 'level' + ln
    for ln in gen_gpsd(rng, max(30, n // 5), 'gpsd'):
        yield 'level' + ln
    for ln in gen_tty(rng, 5, 'tty'):
        yield 'level' + ln
    names = [c for c in CLASSES if c not in ('UbxAckAck', 'UbxAckNak', 'UbxMgaAckData0')]
    for k in range(n):
        name = names[k % len(names)] if k < 2 * len(names) else rng.choice(names)
        cls = find_class(name)
        kind = 'mga' if cls.CID.cls == 0x13 else rng.choice(['set', 'set', 'faf', 'set'])
        mode = k % 2 if k < 2 * len(names) else rng.randrange(3)
        h, edits = '-', ''
        if mode >= 1:
            pl = payload_for(rng, name)
            while not wellformed(name, pl):
                pl = payload_for(rng, name)
            h = pl.hex()
        if mode >= 1 and rng.random() < 0.25:
            # a field assigned before the request: in range, out of range, or something that is no number at all (None, a float, a text) -
            # what the request then does (an exception from encoding, most of the time) must be the same at every log level
            from comp_codec import field_kinds
            kinds = [k for k in field_kinds(name, bytes.fromhex(h)) if k[1] != 'text']
            if kinds:
                fname, kk, w = rng.choice(kinds)
                edits = f'{fname}=' + rng.choice(['N', 'N', 'f:1.5', 'f:0.0', 's:' + b'7'.hex(), str(1 << (8 * w)), '-1', str((1 << (8 * w)) - 1), '0'])
        retries = rng.randrange(0, 3)
        delay = rng.choice([1, 125, 500, 500, '250.0', '0.5', '125.0'])       # settings as a caller may compute them: ints, or floats
        c, i = cls.CID.cls, cls.CID.id
        rx = []
        for _ in range(rng.randrange(0, 5)):
            data = rng.choice([frame(5, 1, [c, i]), frame(5, 0, [c, i]), frame(5, 1, [c, i ^ 1]), frame(0x13, 0x60, [1, 0, 0, i, 0, 0, 0, 0]),
                               frame(0x13, 0x60, [0, 0, 0, i, 0, 0, 0, 0]), b'', noise(rng)])
            rx.append((rng.choice([1, 5, 50, 100]), data))
        again = rng.choice(['', '', '', '1', '2'])
        # a request on a server that was never set up, that was cleaned up, or whose registry another server object took down with it:
        # what the request does then (frames that cannot be built are skipped, or an exception) must not depend on the log level either
        hist = rng.choice(['peer', 'peer', 'nosetup', 'cleanup']) if rng.random() < 0.12 else ''
        if hist and kind != 'faf' and rng.random() < 0.7:
            rx.insert(0, (1, frame(0x13, 0x60, [1, 0, 0, i, 0, 0, 0, 0]) if kind == 'mga' else frame(5, 1, [c, i])))
        yield '|'.join(['level', kind, name, h, edits, str(retries), str(delay), ','.join('1' if rng.random() < .9 else '0' for _ in range(retries + 1)),
                        ','.join(f'{dt}:{d.hex()}' for dt, d in rx)] + ([again, hist] if hist else [again] if again else []))
    yield from gen_level_items(rng, max(12, n // 8))


def gen_level_items(rng, count):
    """VALSET frames from items made by hand (their sign flag need not be the key table's; a 1-bit item may hold any integer - what goes
    on the wire is its truth value), the frame sent once or several times"""
    from comp_codec import published_keys
    keys = published_keys()
    # requests whose payload length sits on a byte boundary of the length field: 4 + 5a + 6b + 12c bytes from a 8-bit, b 16-bit, c 64-bit items
    for a, b, c in [(49, 1, 0), (48, 2, 0), (4, 1, 40), (3, 2, 40), (1, 0, 63), (0, 0, 64), (50, 0, 0)]:
        items = [f'{rng.randrange(256)},{rng.randrange(4096)},8,0,{rng.randrange(256)}' for _ in range(a)] + \
                [f'{rng.randrange(256)},{rng.randrange(4096)},16,0,{rng.randrange(65536)}' for _ in range(b)] + \
                [f'{rng.randrange(256)},{rng.randrange(4096)},64,0,{rng.randrange(1 << 64)}' for _ in range(c)]
        rng.shuffle(items)
        yield '|'.join(['level', 'set', 'ITEMS', ';'.join(items), '', '1', '1', '1,1', f'5:{frame(5, 1, [6, 0x8a]).hex()}', '1'])
    for k in range(count):
        items = []
        for _ in range(rng.randrange(1, 4)):
            if rng.random() < 0.75:
                key = rng.choice(keys)
                g, i, bits = (key >> 16) & 0xFF, key & 0xFFF, [0, 1, 8, 16, 32, 64, 0, 0][(key >> 28) & 7]
            else:
                g, i, bits = rng.randrange(256), rng.randrange(4096), rng.choice([1, 8, 16, 32, 64])
            sg = rng.random() < 0.5
            w = max(bits, 8)
            v = rng.choice([0, 1, 2 ** (w - 1) - 1, 2 ** (w - 1), 2 ** w - 1, -1, -2 ** (w - 1), rng.randrange(2 ** w)]) if bits > 1 else \
                rng.choice([0, 1, 0, 1, 2, 4, 0x80, 255, 256, -1])
            if rng.random() < 0.06:
                v = rng.choice(['N', 'f:2.5'])         # a value left unset (from_key(key) with no value), a float
            items.append(f'{g},{i},{bits},{int(sg)},{v}')
        retries = rng.randrange(0, 2)
        rx = [(rng.choice([1, 5, 50]), frame(5, 1, [6, 0x8a])) for _ in range(rng.randrange(0, 4))]
        yield '|'.join(['level', 'set', 'ITEMS', ';'.join(items), '', str(retries), str(rng.choice([1, 125])), ','.join('1' for _ in range(retries + 1)),
                        ','.join(f'{dt}:{d.hex()}' for dt, d in rx), rng.choice(['', '1', '1', '2'])])


# =====================================================================================================
# serial back end: _transmit, _recover, scan
# =====================================================================================================
BAUDS = [4800, 9600, 19200, 38400, 57600, 115200, 230400, 921600]
TTY_NAMES = ['/dev/gnss0', '/dev/ttyS3', '/dev/ttyACM0', 'COM7', '/dev/serial/by-id/usb-u-blox_AG_-_www.u-blox.com_u-blox_GNSS_receiver-if00']


def ctor_args(line):
    """what the object is constructed with is no part of a line; it varies with the line all the same (and repeats on a replay)"""
    h = zlib.crc32(line.encode())
    return TTY_NAMES[(h >> 8) % len(TTY_NAMES)], BAUDS[h % len(BAUDS)]


def tty_server(line=''):
    import ubxlib.server_tty as tty
    realenv.patch_time(tty)
    s = tty.GnssUBlox(*ctor_args(line))
    return s


def real_tty(line):
    p = line.split('|')
    try:
        s = tty_server(line)
        port = s.serial_port
        if p[1] == 'transmit':
            s.setup()
            port.log.clear()
            port.write_result = None if p[2] == '-' else int(p[2])
            data = bytes.fromhex(p[3])
            ok = s._transmit(bytearray(data))
            written = [e[1] for e in port.log if e[0] == 'write']
            exact = written == [data]
            return f'{"true" if ok else "false"} wrote={"exact" if exact else "other"}'
        if p[1] == 'recover':
            import ubxlib.server_tty as tty
            s = tty.GnssUBlox('/dev/gnss0', int(p[2]))        # opened at the constructor's rate …
            port = s.serial_port
            s.setup()
            if p[3] != p[2]:
                s.set_baudrate(int(p[3]))                      # … and switched to another one later
            port.log.clear()
            s._recover()
            bauds = [str(e[1]) for e in port.log if e[0] == 'baudrate']
            other = [e[0] for e in port.log if e[0] != 'baudrate']
            return f'open={"true" if port.is_open else "false"} baud={port.baudrate} log={",".join(bauds)}' + (' other=' + ','.join(other) if other else '')
    except Exception as e:
        return 'EXC:' + exc_name(e)
    return 'bad-line'


def oracles_tty(line, real_out):
    p = line.split('|')
    if p[1] == 'transmit':
        n = len(bytes.fromhex(p[3]))
        full = p[2] == '-' or int(p[2]) == n
        exp = f'{"true" if full else "false"} wrote=exact'
        return [{'prop': 'C12', 'ok': real_out == exp, 'expected': exp, 'observed': real_out,
                 'what': 'the serial back end writes exactly the request bytes and reports success only if all of them were written'}], []
    if p[1] == 'recover':
        ok = real_out.startswith(f'open=true baud={p[3]} ')
        return [{'prop': 'C12', 'ok': ok, 'expected': f'open=true baud={p[3]}', 'observed': real_out,
                 'what': 'link recovery leaves the port open at the previous bit rate'}], []
    return [], []


def gen_tty(rng, n, profile):
    for ln in [0, 1, 8, 9, 100, 1008]:
        data = rand_payload(rng, ln)
        for w in ['-', '0', str(max(0, ln - 1)), str(ln), str(ln + 1)]:
            yield f'tty|transmit|{w}|{data.hex()}'
    rates = [9600, 19200, 38400, 57600, 115200, 230400, 460800, 921600]
    for ctor in rates:
        for cur in rates:
            yield f'tty|recover|{ctor}|{cur}'
    for _ in range(n):
        data = frame(rng.randrange(256), rng.randrange(256), rand_payload(rng, rng.randrange(0, 60)))
        yield f'tty|transmit|{rng.choice(["-", "-", str(rng.randrange(0, len(data) + 2))])}|{data.hex()}'


def real_scan(line):
    if line.startswith('scanseq'):
        return real_scanseq(line)
    _, interval, script = line.split('|')
    evs = []
    for e in (script.split(',') if script else []):
        d, b = e.split(':')
        evs.append((int(d), None if b == '-' else int(b)))
    try:
        s = tty_server(line)
        s.setup()
        s.serial_port.script = evs
        s.serial_port.j = 0
        s.serial_port.delivered = bytearray()
        h = zlib.crc32(line.encode())
        if h % 4 == 0:
            # while this scan is inside one of its reads, a scan runs on ANOTHER port object (another thread probing another
            # tty): that one sees two good frames, or noise; it takes no time here and nothing of it may show in this scan
            other = tty_server(line + 'other')
            other.setup()
            good = frame(1, 7, b'ab') + frame(1, 3, b'') + b'$GPGGA,1*52\r\n'
            other.serial_port.script = [(1, b) for b in (good if h % 8 == 0 else bytes([0xb5, 0x62, 1, 2, 3, 0x24, 0x2a, 0x30]) * 3)]
            at, plain_read, state = (h >> 4) % 6, s.serial_port.read, {'n': 0}

            def read(n=1):
                if state['n'] == at:
                    t = CLK.ticks
                    other.scan(0.05)
                    CLK.ticks = t
                state['n'] += 1
                return plain_read(n)
            s.serial_port.read = read
        CLK.ticks = 0
        r = s.scan(int(interval) / 1024.0)
        return f'{"true" if r else "false"} t={CLK.ticks} reads={s.serial_port.j}'
    except realenv.CaseTimeout:
        raise
    except Exception as e:
        return 'EXC:' + exc_name(e)


def real_scanseq(line):
    """several scans on ONE server object, after its request-loop parser was left in the middle of a frame"""
    _, dirty, scans = line.split('|')
    out = []
    try:
        s = tty_server(line)
        s.setup()
        if dirty:
            s.parser.process(bytes.fromhex(dirty))
        CLK.ticks = 0
        for sc in scans.split('/'):
            interval, script = sc.split('~')
            evs = []
            for e in (script.split(',') if script else []):
                d, b = e.split(':')
                evs.append((int(d), None if b == '-' else int(b)))
            s.serial_port.script = evs
            s.serial_port.j = 0
            t0 = CLK.ticks
            r = s.scan(int(interval) / 1024.0)
            out.append(f'{"true" if r else "false"},t={CLK.ticks - t0},reads={s.serial_port.j}')
    except realenv.CaseTimeout:
        raise
    except Exception as e:
        out.append('EXC:' + exc_name(e))
    return ' '.join(out)


def oracles_scanseq(line, real_out):
    _, dirty, scans = line.split('|')
    recs = []
    outs = real_out.split(' ')
    for k, sc in enumerate(scans.split('/')):
        interval, script = sc.split('~')
        one = outs[k].replace(',', ' ') if k < len(outs) else 'missing'
        r, _ = oracles_scan(f'scan|{interval}|{script}', one)
        for x in r:
            x['what'] += f' (scan {k + 1} of a sequence on one server object)'
        recs += r
    return recs, []


def oracles_scan(line, real_out):
    if line.startswith('scanseq'):
        return oracles_scanseq(line, real_out)
    _, interval, script = line.split('|')
    interval = int(interval)
    evs = []
    for e in (script.split(',') if script else []):
        d, b = e.split(':')
        evs.append((int(d), None if b == '-' else int(b)))
    # the bytes delivered by reads that start before the deadline
    now, got, tmax = 0, bytearray(), 100
    j = 0
    while now < interval:
        dt, b = evs[j] if j < len(evs) else (100, None)
        j += 1
        now += max(1, dt)
        tmax = max(tmax, dt)
        if b is not None:
            got.append(b)
    n_ubx = sum(1 for e in scan_pos(bytes(got)) if e[0] == 'frame')
    n_nmea = nmea_count(bytes(got))
    verdict = real_out.split(' ')[0]
    t = int(tok(real_out, 't') or 0)
    exp = 'true' if n_ubx >= 2 or n_nmea >= 2 else 'false'
    ok = verdict == exp and t <= interval + tmax
    spec = [{'line': 'nmeacount|' + bytes(got).hex(), 'expect': str(n_nmea)}] if got else []
    return [{'prop': 'C18', 'ok': ok, 'expected': f'{exp} (ubx frames {n_ubx}, nmea sentences {n_nmea} in the bytes received), within {interval + tmax} ticks',
             'observed': real_out, 'what': 'scan() says yes only on two real frames of one protocol, always when two arrive, and returns within the interval plus one read time-out'}], spec


def gen_scan(rng, n, profile):
    singles = list(gen_scan1(rng, n, profile))
    for ln in singles:
        yield ln
    # sequences of scans on one object; the request-loop parser may have been left inside a frame
    for _ in range(max(20, n // 4)):
        picks = [rng.choice(singles).split('|', 1)[1].replace('|', '~') for _ in range(rng.randrange(2, 4))]
        dirty = rng.choice([b'', b'\xb5', b'\xb5\x62\x05\x01\xe8\x03', frame(5, 1, [6, 8])[:-2], b'$GP*1'])
        yield f'scanseq|{dirty.hex()}|' + '/'.join(picks)


def gen_scan1(rng, n, profile):
    nm = b'$GP*17\r\n'
    for _ in range(n):
        stream = bytearray()
        for _ in range(rng.randrange(0, 6)):
            k = rng.random()
            if k < .06:
                # text inside binary and binary inside text: a frame whose payload quotes a complete valid sentence (INF-NOTICE,
                # LOG-STRING), a sentence whose body holds a frame's bytes
                import comp_parsers
                quoted = rng.choice([nm, b'$GPGGA,1*52\r\n', comp_parsers.long_sentence(rng)])
                stream += frame(4, 2, quoted) if rng.random() < .7 else frame(4, 2, b'note: ' + quoted + b' end')
                if rng.random() < .5:
                    stream += frame(1, 7, b'abcd')
            elif k < .35:
                stream += frame(rng.choice([1, 5, 6]), rng.randrange(4), bytes(rng.randrange(256) for _ in range(rng.choice([0, 2, 8]))))
            elif k < .45:
                stream += nm if rng.random() < .8 else b'$GP*18\r\n'
                if rng.random() < .25:
                    import comp_parsers
                    stream += comp_parsers.long_sentence(rng) * rng.choice([1, 2, 2]) if rng.random() < .8 else comp_parsers.long_sentence(rng, False) * 2
            elif k < .55:
                # sentences of every kind: bytes >= 0x80 in the body or between the checksum digits, right and wrong checksums
                import comp_parsers
                piece = comp_parsers.nmea_stream(rng)
                if rng.random() < .5:
                    body = bytes(rng.choice([0x47, 0x50, 0x2c, 0x80, 0xff, 0xc3]) for _ in range(rng.randrange(1, 6)))
                    x = 0
                    for b in body:
                        if b < 0x80:
                            x ^= b
                    piece = b'$' + body + b'*' + (b'%02X' % x) + b'\r\n'       # valid only if the high bytes were dropped
                    piece = piece * 2
                stream += piece
            elif k < .62:
                # noise that is ALMOST traffic: an abandoned start of a frame, then what would be a frame if the abandoned bytes counted in
                # its checksum - no frame at all; once, or (as noise at a wrong bit rate repeats) twice or three times
                import comp_parsers
                start, bad = comp_parsers.summed_over_more(rng)
                if start[-1] == 0xb5 and rng.random() < 0.6:
                    bad = bad[1:]
                stream += (start + bad) * rng.choice([1, 2, 2, 3])
            elif k < .66:
                # what is almost a sentence, twice (or next to a real one): a sign, a blank or a byte from 0x80 up where a checksum digit
                # belongs
                import comp_parsers
                pool = comp_parsers.odd_digit_sentences()
                sn = rng.choice(pool)
                stream += sn + bytes(rng.randrange(3)) + (rng.choice(pool) if rng.random() < .6 else nm)
            elif k < .7:
                stream += bytes(rng.randrange(256) for _ in range(rng.randrange(1, 12)))
            elif k < .8:
                stream += b'\xb5'                                     # a lone sync byte before the next frame
            else:
                f = bytearray(frame(5, 1, [6, 1]))
                f[rng.randrange(2, len(f))] ^= 4
                stream += f
        long_run = rng.random() < .06
        if long_run:
            # a long run of frames that arrive damaged - more than any queue was ever meant to hold, nobody collects them during a
            # scan - and then traffic that is fine
            stream = bytearray()
            for _ in range(rng.choice([8, 15, 16, 17, 33, 70])):
                f = bytearray(frame(rng.choice([1, 5, 6]), rng.randrange(4), bytes(rng.randrange(256) for _ in range(rng.choice([0, 2, 4])))))
                f[-1] ^= 1 << rng.randrange(8)
                stream += f
            stream += frame(1, 7, b'abcd') + bytes(rng.randrange(3)) + frame(5, 1, [6, 1]) + (nm if rng.random() < .3 else b'')
        elif rng.random() < .15:                                         # noise as received at a wrong bit rate
            stream = bytearray((b << 1) & 0xff | (b >> 7) for b in stream)
        script = []
        for b in stream:
            if rng.random() < .1:
                script.append((rng.choice([100, 100, 30]), None))
            script.append((rng.choice([1, 1, 1, 2, 7, 40]), b))
        total = sum(max(1, d) for d, _ in script)
        interval = rng.choice([0, 10, 50, 100, 200, 1536, 3072, total, max(0, total - 1), total + 1])
        if long_run and rng.random() < .8:
            interval = total + rng.choice([1, 50, 1000])
        yield f'scan|{interval}|' + ','.join(f'{dt}:{"-" if b is None else b}' for dt, b in script)


# =====================================================================================================
# gpsd back end
# =====================================================================================================
class ScriptEnd(Exception):
    """the scripted chunks of a handshake ran out"""


class FakeSocketModule:
    """stands in for the `socket` module inside ubxlib.server"""
    AF_INET, AF_UNIX, SOCK_STREAM, SHUT_RDWR = real_socket.AF_INET, real_socket.AF_UNIX, real_socket.SOCK_STREAM, real_socket.SHUT_RDWR
    timeout, error = real_socket.timeout, real_socket.error
    script = {}
    log = []

    class socket:
        def __init__(self, family=None, kind=None):
            self.family = family
            FakeSocketModule.log.append(('socket', family))

        def _step(self, op, *a):
            FakeSocketModule.log.append((op,) + a)
            if FakeSocketModule.script.get('fail') == op:
                raise real_socket.error('scripted failure of ' + op)
            if FakeSocketModule.script.get('timeout') == op:
                raise real_socket.timeout('scripted time-out of ' + op)

        def connect(self, addr):
            self._step('connect', addr)

        def settimeout(self, t):
            self._step('settimeout', t)

        def send(self, data):
            self._step('send', bytes(data))

        def sendall(self, data):
            self._step('sendall', bytes(data))

        def recv(self, n):
            self._step('recv', n)
            q = FakeSocketModule.script.get('recv', [])
            if not q:
                if FakeSocketModule.script.get('strict'):
                    raise ScriptEnd()          # the handshake loop of the code swallows time-outs: end the script another way
                raise real_socket.timeout()
            return q.pop(0)

        def shutdown(self, how):
            self._step('shutdown')

        def close(self):
            self._step('close')


def gpsd_server(device):
    import ubxlib.server as srv
    point_sockets(srv, FakeSocketModule)
    realenv.patch_time(srv)
    FakeSocketModule.script = {}
    FakeSocketModule.log = []
    return srv.GnssUBlox(device)


def tok_json(v):
    if v is None:
        return 'n'
    if v is True:
        return 't'
    if v is False:
        return 'f'
    if isinstance(v, (int, float)):
        return '0'
    if isinstance(v, str):
        return 's' + v.encode().hex()
    if isinstance(v, list):
        return 'a( ' + ' '.join(tok_json(x) for x in v) + (' ' if v else '') + ')'
    return 'o( ' + ' '.join(k.encode().hex() + ' ' + tok_json(x) for k, x in v.items()) + (' ' if v else '') + ')'


def untok(ts):
    t = ts.pop(0)
    if t == 'n':
        return None
    if t == 't':
        return True
    if t == 'f':
        return False
    if t == '0':
        return 0
    if t == 'a(':
        out = []
        while ts[0] != ')':
            out.append(untok(ts))
        ts.pop(0)
        return out
    if t == 'o(':
        out = {}
        while ts[0] != ')':
            k = bytes.fromhex(ts.pop(0)).decode()
            out[k] = untok(ts)
        ts.pop(0)
        return out
    return bytes.fromhex(t[1:]).decode()


def chunk_bytes(c, salt=''):
    """the bytes of a chunk written in the line's notation (the real json/str machinery then parses them)"""
    if c == 'U':
        return b'\xff\xfe\xb5b'
    lines = []
    for n, l in enumerate(c.split(';') if c else []):
        if l == 'X':
            # something that is no JSON: an NMEA sentence - or an empty line, or one of blanks only (which one depends on the chunk, and
            # repeats on a replay)
            lines.append(['$GPRMC,1*2C', '$GPRMC,1*2C', '$GPRMC,1*2C', '$GPRMC,1*2C', '', '   ', '\t', '\r'][(zlib.crc32((salt + '/' + c).encode()) + n) % 8])
        elif l == 'D':
            lines.append('[' * 100000)
        elif l == 'B':                       # a number json.loads refuses to convert (more than 4300 digits)
            lines.append('{"class":"TPV","alt":' + '9' * 5000 + '}')
        elif l == 'b':
            lines.append('1' * 4301)
        else:
            lines.append(json.dumps(untok(l.split(' '))))
    return '\n'.join(lines).encode()


def real_gpsd(line):
    _, req, chunks = line.split('|')
    want = None if req == '-' else bytes.fromhex(req).decode()
    out = []
    try:
        g = gpsd_server(want)
    except Exception as e:
        return 'EXC:' + exc_name(e)
    for c in chunks.split('/'):
        try:
            g._parse_gpsd_msg(chunk_bytes(c, line))
            rel = g.release if isinstance(g.release, str) else None
            out.append(f'{g.selected_device},{"true" if g.enabled else "false"},{rel}')
        except RecursionError:
            out.append('EXC:RecursionError')
            break
        except Exception as e:
            out.append('EXC:' + exc_name(e))
            break
    return ' '.join(out)


def wellformed_json(v):
    if isinstance(v, dict) and v.get('class') == 'VERSION':
        return 'release' in v
    if isinstance(v, dict) and v.get('class') == 'DEVICES':
        return isinstance(v.get('devices'), list) and all(isinstance(d, dict) and isinstance(d.get('path'), str) for d in v['devices'])
    return True


def oracles_gpsd(line, real_out):
    _, req, chunks = line.split('|')
    want = None if req == '-' else bytes.fromhex(req).decode()
    sel, en = None, False
    exp = []
    for c in chunks.split('/'):
        if c != 'U':
            for l in (c.split(';') if c else []):
                if l in ('X', 'D', 'B', 'b'):
                    continue
                v = untok(l.split(' '))
                if not wellformed_json(v):
                    return [], []           # outside the statement's premise
                if isinstance(v, dict) and v.get('class') == 'DEVICES':
                    paths = [d['path'] for d in v['devices']]
                    if want:
                        if want in paths:
                            sel, en = want, True
                    elif paths:
                        sel, en = paths[0], True
        exp.append(f'{sel},{"true" if en else "false"}')
    got = [','.join(t.split(',')[:2]) if not t.startswith('EXC') else t for t in real_out.split(' ')]
    return [{'prop': 'C20', 'ok': got == exp, 'expected': ' '.join(exp)[:300], 'observed': ' '.join(got)[:300],
             'what': 'processing gpsd data never raises; the requested device is selected if listed, the first listed if none was requested, none (and not ready) if the requested one is absent'}], []


def rand_json(rng, depth=0):
    k = rng.random()
    if depth > 2 or k < .35:
        return rng.choice([None, True, False, 5, 1.5, 'class', 'abc', 'VERSION', 'DEVICES', '/dev/a', 'devices', 'Devices', 'version', 'gpsd_msg', 'DEVICE'])
    if k < .55:
        return [rand_json(rng, depth + 1) for _ in range(rng.randrange(0, 3))]
    d = {}
    for _ in range(rng.randrange(0, 3)):
        d[rng.choice(['class', 'x', 'path', 'devices', 'release'])] = rand_json(rng, depth + 1)
    return d


def names_on_this_machine():
    """device names are names: gpsd's, not this machine's.  Some of the names used do exist here all the same - as a symbolic
    link (a udev alias and its node), a file, a directory - and that must not make any difference"""
    import lib
    out = ['/dev/stdin', '/dev/fd', '/dev/null', '/proc/self/exe', '/tmp', '.']
    d = os.path.join(lib.SCRATCH, 'dev')
    try:
        os.makedirs(d, exist_ok=True)
        node, alias = os.path.join(d, 'ttyACM0'), os.path.join(d, 'gnss0')
        if not os.path.exists(node):
            open(node, 'w').close()
        if not os.path.islink(alias):
            os.symlink('ttyACM0', alias)
        out += [alias, node]
    except OSError:
        pass
    return out


HERE = names_on_this_machine()


def device_entry(rng, path):
    """an entry of a DEVICES list as gpsd writes them: the path, and optional members in any order - none of which has any
    say in which device is selected"""
    if rng.random() < 0.4:
        return {'path': path, 'x': 1}
    extra = {'class': 'DEVICE', 'driver': rng.choice(['u-blox', 'PPS', 'NMEA0183', 'pps', '', 'AIVDM']), 'subtype': 'SW ROM CORE 3.01',
             'activated': '2024-01-01T00:00:00.000Z', 'flags': rng.choice([0, 1, 5]), 'native': rng.choice([0, 1]), 'bps': rng.choice([9600, 115200]),
             'parity': 'N', 'stopbits': 1, 'cycle': 1.0, 'mincycle': 0.02, 'readonly': rng.choice([True, False])}
    keys = rng.sample(sorted(extra), rng.randrange(1, len(extra) + 1))
    d = {k: extra[k] for k in keys}
    d['path'] = path
    items = list(d.items())
    rng.shuffle(items)
    return dict(items)


def gen_gpsd(rng, n, profile):
    devs = ['/dev/a', '/dev/b', '/dev/gnss0', '/dev/ttyS3', '/dev/ttyACM0', '/dev/ttyACM10', '/dev/ab'] + HERE
    for _ in range(n):
        # requested names include proper prefixes, substrings and concatenations of listed ones
        want = rng.choice([None, None, '/dev/b', '/dev/zz', '/dev/a', '/dev/ttyACM1', '/dev/gnss', 'dev', '/dev/ttyACM0', 'a', '/dev/a/dev/b',
                           '/dev/gnss0 ', '0', '/'] + HERE[-2:] * 2 + HERE[:3])
        chunks = []
        for _ in range(rng.randrange(1, 5)):
            if rng.random() < .1:
                chunks.append('U')
                continue
            toks = []
            for _ in range(rng.randrange(0, 4)):
                k = rng.random()
                if k < .35:
                    v = {'class': 'DEVICES', 'devices': [device_entry(rng, p) for p in rng.sample(devs, rng.randrange(0, 5))]}
                elif k < .45:
                    v = {'class': 'VERSION', 'release': '3.2' + str(rng.randrange(9)), 'rev': 'x'}
                elif k < .55:
                    toks.append('X')
                    continue
                elif k < .6:
                    toks.append('D')
                    continue
                elif k < .64:
                    toks.append(rng.choice('Bb'))
                    continue
                elif k < .72:
                    # objects of OTHER classes that look like reports: other spelling, other case, names of internals
                    v = {'class': rng.choice(['devices', 'Devices', 'version', 'Version', 'DEVICE', 'gpsd_msg', 'GPSD_MSG', 'WATCH', 'TPV', 'ERROR', '']),
                         **rng.choice([{}, {'devices': [{'path': rng.choice(devs)}]}, {'devices': 7}, {'release': '9.9'}, {'path': rng.choice(devs)}])}
                    if rng.random() < 0.5:
                        # the reports gpsd really sends next to VERSION and DEVICES, their usual members holding values of ANY shape - null,
                        # text, a list, an object, a number, true: whoever looks at them must not trip over the shape
                        odd = lambda: rng.choice([None, None, 'x', '', [], [1], {}, {'a': None}, 0, 2, -1, True, False, 1.5])
                        cls_ = rng.choice(['WATCH', 'WATCH', 'TPV', 'SKY', 'DEVICE', 'ERROR', 'POLL', 'PPS', 'TOFF', 'GST', 'ATT'])
                        members = {'WATCH': ['enable', 'raw', 'json', 'nmea', 'scaled', 'timing', 'split24', 'pps', 'device', 'remote'],
                                   'TPV': ['device', 'mode', 'time', 'lat', 'lon', 'alt', 'status'], 'SKY': ['device', 'satellites', 'hdop', 'nSat'],
                                   'DEVICE': ['path', 'driver', 'activated', 'flags', 'native', 'bps'], 'ERROR': ['message'],
                                   'POLL': ['time', 'active', 'tpv', 'sky'], 'PPS': ['device', 'real_sec', 'clock_sec', 'precision'],
                                   'TOFF': ['device', 'real_sec', 'clock_sec'], 'GST': ['device', 'time', 'rms'], 'ATT': ['device', 'heading', 'pitch']}[cls_]
                        v = {'class': cls_, **{m: (odd() if rng.random() < 0.6 else rng.choice([True, 2, 'on', 1])) for m in rng.sample(members, rng.randrange(0, len(members) + 1))}}
                else:
                    v = rand_json(rng)
                    if not wellformed_json(v):
                        v = ['class', {'class': 5}]
                toks.append(tok_json(v))
            chunks.append(';'.join(toks))
        yield f'gpsd|{"-" if want is None else want.encode().hex()}|' + '/'.join(chunks)


def real_gpsdtx(line):
    if line.startswith('gpsdsetup|'):
        return real_gpsdsetup(line)
    _, dev, data, reply = line.split('|')
    device = bytes.fromhex(dev).decode()
    try:
        g = gpsd_server(None)
        FakeSocketModule.script = {'recv': [json.dumps({'class': 'DEVICES', 'devices': [{'path': device}, {'path': '/dev/other'}]}).encode()]}
        g.setup()
        FakeSocketModule.log.clear()
        if reply.startswith('E'):
            FakeSocketModule.script = {'fail': reply[1:], 'recv': [b'OK']}
        elif reply.startswith('T'):
            FakeSocketModule.script = {'timeout': reply[1:], 'recv': [b'OK']}
        else:
            FakeSocketModule.script = {'recv': [bytes.fromhex(reply)]}
        ok = g._transmit(bytearray(bytes.fromhex(data)))
        sent = [e[1] for e in FakeSocketModule.log if e[0] == 'sendall']
        return f'cmd={sent[0].hex() if len(sent) == 1 else "none" if not sent else "several"} ok={"true" if ok else "false"}'
    except Exception as e:
        return 'EXC:' + exc_name(e)


def real_gpsdsetup(line):
    """gpsdsetup|<requested hex or ->|<chunk>/<chunk>…|<data hex>: setup() over stub sockets that deliver the chunks one per
    recv(), then one command; which device is the command addressed to?"""
    _, req, chunks, data = line.split('|')
    want = None if req == '-' else bytes.fromhex(req).decode()
    try:
        g = gpsd_server(want)
        FakeSocketModule.script = {'recv': [chunk_bytes(c, line + str(k)) for k, c in enumerate(chunks.split('/'))], 'strict': True}
        try:
            g.setup()
        except ScriptEnd:
            return 'not-ready'            # the scripted chunks ran out before the handshake was complete
        FakeSocketModule.log.clear()
        FakeSocketModule.script = {'recv': [b'OK']}
        g._transmit(bytearray(bytes.fromhex(data)))
        sent = [e[1] for e in FakeSocketModule.log if e[0] == 'sendall']
        return f'selected={g.selected_device} cmd={sent[0].hex() if len(sent) == 1 else "none"}'
    except RecursionError:
        return 'EXC:RecursionError'
    except Exception as e:
        return 'EXC:' + exc_name(e)


def oracles_gpsdsetup(line, real_out):
    _, req, chunks, data = line.split('|')
    want = None if req == '-' else bytes.fromhex(req).decode()
    sel, en = None, False
    for c in chunks.split('/'):
        if c != 'U':
            for l in (c.split(';') if c else []):
                if l in ('X', 'D', 'B', 'b'):
                    continue
                v = untok(l.split(' '))
                if not wellformed_json(v):
                    return [], []
                if isinstance(v, dict) and v.get('class') == 'DEVICES':
                    paths = [d['path'] for d in v['devices']]
                    if want:
                        if want in paths:
                            sel, en = want, True
                    elif paths:
                        sel, en = paths[0], True
        if en:
            break                          # _enable() stops reading once a chunk has made the connection ready
    exp = f'selected={sel} cmd={(b"&" + sel.encode() + b"=" + data.encode()).hex()}' if en else 'not-ready'
    return [{'prop': 'C20', 'ok': real_out == exp, 'expected': exp[:300], 'observed': real_out[:300],
             'what': 'setup() returns once a device is selected; commands are addressed to the selected device'}], []


def gen_gpsdsetup(rng, n):
    devs = ['/dev/a', '/dev/b', '/dev/gnss0', '/dev/ttyACM0', '/dev/ttyACM10'] + HERE[-2:] + HERE[:2]
    for _ in range(n):
        want = rng.choice([None, None, '/dev/b', '/dev/zz', '/dev/a', '/dev/ttyACM1'] + HERE[-2:] + HERE[:2])
        chunks = []
        for _ in range(rng.randrange(1, 4)):
            toks = []
            for _ in range(rng.randrange(1, 4)):
                k = rng.random()
                if k < .6:
                    toks.append(tok_json({'class': 'DEVICES', 'devices': [device_entry(rng, p) for p in rng.sample(devs, rng.randrange(0, 4))]}))
                elif k < .75:
                    toks.append(tok_json({'class': 'VERSION', 'release': '3.25'}))
                elif k < .9:
                    toks.append('X')
                else:
                    toks.append(tok_json({'class': 'devices', 'devices': [{'path': '/dev/evil'}]}))
            chunks.append(';'.join(toks))
        if rng.random() < 0.3:
            # a read that holds only text that is no JSON and ends without a line break (or raw receiver data), directly before the read
            # that carries a device report
            k = next((j for j, c in enumerate(chunks) if 'DEVICES'.encode().hex() in c), None)
            if k is not None:
                chunks.insert(k, rng.choice(['X', 'X', 'X;X', 'U']))
        yield f'gpsdsetup|{"-" if want is None else want.encode().hex()}|' + '/'.join(chunks) + '|' + rand_payload(rng, rng.choice([0, 8])).hex()


def oracles_gpsdtx(line, real_out):
    if line.startswith('gpsdsetup|'):
        return oracles_gpsdsetup(line, real_out)
    _, dev, data, reply = line.split('|')
    cmd = b'&' + bytes.fromhex(dev) + b'=' + data.encode()
    if reply.startswith('T'):
        reply = 'E' + reply[1:]         # a time-out is a socket error like any other
    if not reply.startswith('E') and any(b >= 0xF8 for b in bytes.fromhex(reply)):
        return [], []                   # a reply that is not text: the code lets UnicodeDecodeError escape (DESIGN.md, C12 partial)
    if reply.startswith('E'):
        okrep = reply[1:] in ('shutdown', 'close')       # the scripted reply "OK" was read before the failing call
    else:
        okrep = b'OK' in bytes.fromhex(reply) or b'ACK' in bytes.fromhex(reply)
    got_cmd, got_ok = tok(real_out, 'cmd'), tok(real_out, 'ok')
    sent_expected = not (reply.startswith('E') and reply[1:] in ('connect', 'settimeout'))
    ok = (got_ok == 'false' or okrep) and (got_cmd == cmd.hex() if sent_expected else got_cmd in ('none', cmd.hex()))
    if not reply.startswith('E') or reply[1:] in ('shutdown', 'close'):
        ok = ok and (got_ok == 'true') == okrep
    return [{'prop': 'C12', 'ok': ok, 'expected': f'cmd={cmd.hex()[:200]} ok={"true" if okrep else "false"}', 'observed': real_out[:260],
             'what': "the gpsd back end sends '&', the selected device, '=' and the hex form of the bytes, and reports success only if gpsd answers OK or ACK"},
            {'prop': 'C20', 'ok': got_cmd in ('none', cmd.hex()), 'expected': 'commands addressed to the selected device', 'observed': real_out[:200],
             'what': 'commands are only ever addressed to the selected device'}], []


def gen_gpsdtx(rng, n, profile):
    for ln in gen_gpsdsetup(rng, max(30, n)):
        yield ln
    replies = [b'OK', b'OK\n', b'ERROR', b'{"class":"ACK"}', b'{"class":"ERROR"}', b'', b' ok ', b'NACK', b'K', b'O', b'\r\nACK\r\n',
               # what else a daemon may say: other words of refusal and of assent, near misses of the two that count
               b'NAK', b'{"class":"NAK"}', b'NO', b'KO', b'AC', b'CK', b'A C K', b'O K', b'ack', b'okay', b'NOK', b'FAIL', b'BUSY', b'?', b'0', b'1',
               b'True', b'success', b'YES', b'DONE']
    for dev in ['/dev/a', '/dev/ttyS3', '/dev/gnss0', '/dev/~!@#$%^*()_+-=[]{};:,.<>?', 'x']:
        for rep in replies:
            yield f'gpsdtx|{dev.encode().hex()}|{rand_payload(rng, rng.choice([0, 1, 8, 40])).hex()}|{rep.hex()}'
        for op in ('connect', 'settimeout', 'sendall', 'recv', 'shutdown', 'close'):
            yield f'gpsdtx|{dev.encode().hex()}|{rand_payload(rng, 8).hex()}|E{op}'
            yield f'gpsdtx|{dev.encode().hex()}|{rand_payload(rng, 8).hex()}|T{op}'
        for rep in (b'OK\xff', b'\xff\xfeACK', b'{"class":"ERROR","message":"\xff'):
            yield f'gpsdtx|{dev.encode().hex()}|{rand_payload(rng, 8).hex()}|{rep.hex()}'
    for _ in range(n):
        dev = '/dev/' + ''.join(rng.choice('abcXYZ019_-.') for _ in range(rng.randrange(1, 12)))
        yield f'gpsdtx|{dev.encode().hex()}|{frame(rng.randrange(256), rng.randrange(256), rand_payload(rng, rng.randrange(0, 40))).hex()}|{rng.choice(replies).hex()}'


COMPONENTS = {
    'srv': {'real': real_srv, 'oracles': oracles_srv, 'gen': gen_srv,
            'model_line': lambda line: run_srvedit(line)[1] if line.startswith('srvedit|') else 'no-model' if line.startswith('srvreuse|') else line},
    'seq': {'real': real_seqs, 'oracles': oracles_seqs, 'gen': gen_seqs, 'model_line': model_line_seqs},
    'level': {'real': real_level, 'oracles': oracles_level, 'gen': gen_level, 'model_line': model_line_level},
    'tty': {'real': real_tty, 'oracles': oracles_tty, 'gen': gen_tty},
    'scan': {'real': real_scan, 'oracles': oracles_scan, 'gen': gen_scan},
    'gpsd': {'real': real_gpsd, 'oracles': oracles_gpsd, 'gen': gen_gpsd},
    'gpsdtx': {'real': real_gpsdtx, 'oracles': oracles_gpsdtx, 'gen': gen_gpsdtx},
}

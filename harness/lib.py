"""Shared helpers of the check harness (no ubxlib import here)."""
import hashlib
import json
import os
import subprocess

ROOT = os.path.dirname(os.path.dirname(os.path.abspath(__file__)))
LEAN = os.path.join(ROOT, 'lean')
HARN = os.path.join(ROOT, 'harness')
REPO = os.environ.get('VERIF_REPO', '/repo')
PY = '/venv/bin/python'
SCRATCH = os.path.join(ROOT, '.scratch')


# ---- an encoder of our own (frames in generated streams are never encoded by the code under test) ----
def fletcher(bs):
    a = b = 0
    for x in bs:
        a = (a + x) & 0xFF
        b = (b + a) & 0xFF
    return a, b


def frame(cls_, id_, payload):
    body = bytes([cls_, id_, len(payload) & 0xFF, (len(payload) >> 8) & 0xFF]) + bytes(payload)
    return b'\xb5\x62' + body + bytes(fletcher(body))


def nmea(body):
    x = 0
    for b in body:
        x ^= b
    return b'$' + bytes(body) + b'*' + ('%02X' % x).encode()


def sha(s):
    return hashlib.sha1(s.encode() if isinstance(s, str) else s).hexdigest()[:12]


# ---- the Lean side ---------------------------------------------------------------------------------
def driver_cmd(which):
    """`which`: 'Driver' (model + spec) or 'SpecDriver' (specification only)."""
    exe = os.path.join(LEAN, '.lake', 'build', 'bin', which.lower())
    if os.path.exists(exe) and os.environ.get('VERIF_INTERPRET') != '1':
        return [exe]
    return ['lake', 'env', 'lean', '--run', which + '.lean']


def run_driver(lines, which='Driver', timeout=1800):
    """one line in, one line out; returns the list of output lines (None on failure)"""
    if not lines:
        return []
    for ln in lines:
        assert '\n' not in ln
    try:
        r = subprocess.run(driver_cmd(which), input='\n'.join(lines) + '\n', capture_output=True, text=True,
                           cwd=LEAN, timeout=timeout)
    except subprocess.TimeoutExpired:
        return None
    out = r.stdout.split('\n')
    if out and out[-1] == '':
        out.pop()
    if r.returncode != 0 or len(out) != len(lines):
        return None
    return out


def dump(obj, path):
    os.makedirs(os.path.dirname(path), exist_ok=True)
    tmp = path + '.tmp%d' % os.getpid()
    with open(tmp, 'w') as f:
        json.dump(obj, f, indent=1, sort_keys=False)
        f.write('\n')
    os.replace(tmp, path)

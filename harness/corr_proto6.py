"""Prototype: trace validation of request SEQUENCES against a buffered, realistic back-end stub.

The real `UbxServerBase_` runs over a stub whose input buffer fills along per-transmission arrival
time-lines whether or not anybody reads, whose `_flush_input()` really drops what has arrived, and
whose reads are chunked (1 byte = serial, 128 bytes = gpsd).  Everything the back end returned is
recorded and handed to the Lean model as its environment (`seq|…` line); the model must reach the
same results, make the same calls in the same order and end at the same tick.

Second half: the C10 property oracle on the real code alone — every request of the sequence is
re-run alone on a newly created server (factory destroyed) facing the same arrivals, and must give
the same result and the same number of transmissions.
"""
import os, random, subprocess, sys, json
from collections import Counter
repo = sys.argv[1] if len(sys.argv) > 1 else '/repo'
sys.path.insert(0, repo)
import logging; logging.disable(logging.CRITICAL)
from ubxlib import server_base as sb
from ubxlib.frame import UbxFrame, UbxCID
from ubxlib.frame_factory import FrameFactory

rng = random.Random(int(os.environ.get('VERIF_SEED', '0')))
DRIVER = os.environ.get('DRIVER', '/root/work/lean/.lake/build/bin/driver')


class Clock:
    def __init__(self): self.ticks = 1024 * 1024
    def time(self): return self.ticks / 1024.0
CLK = Clock()
sb.time = CLK


def frame(cls_, id_, payload):
    f = UbxFrame(); f.CID = UbxCID(cls_, id_); f.data = bytearray(payload)
    return bytes(f.to_bytes())


def make_req(cls_, id_, payload, minlen):
    class Resp(UbxFrame):
        CID = UbxCID(cls_, id_); NAME = 'resp'
        def unpack(self):
            if len(self.data) < minlen: raise ValueError
    class R(UbxFrame):
        CID = UbxCID(cls_, id_); NAME = 'req'
        def pack(self): self.data = bytearray(payload)
        def _cls_response(self): return Resp
    return R()


class BufSrv(sb.UbxServerBase_):
    """input buffer + arrival time-lines; records what every back-end call returned"""
    def __init__(self, txl, timelines, chunk, timeout, tx_base=0, pending=()):
        super().__init__()
        self.txl, self.timelines, self.chunk, self.timeout, self.tx_base = txl, timelines, chunk, timeout, tx_base
        self.pending = sorted(pending); self.buf = bytearray()
        self.sent = []; self.rx_trace = []; self.tx_trace = []; self.calls = ''

    def _arrive(self):
        while self.pending and self.pending[0][0] <= CLK.ticks:
            self.buf += self.pending.pop(0)[1]

    def _recover(self): self.calls += 'v'

    def _flush_input(self):
        self.calls += 'f'; self._arrive(); self.buf.clear()

    def _transmit(self, data):
        k = self.tx_base + len(self.sent); self.sent.append(bytes(data)); self.calls += 't'
        ok = self.txl[k] if k < len(self.txl) else True
        self.tx_trace.append(ok)
        if ok:
            if k not in self.timelines:            # drawn once, for the request that is transmitting now
                self.timelines[k] = draw_timeline(*self.current)
            for off, bs in self.timelines[k]:
                self.pending.append((CLK.ticks + off, bs))
            self.pending.sort(key=lambda e: e[0])
        return ok

    def _receive(self):
        self.calls += 'r'
        t0 = CLK.ticks
        self._arrive()
        if not self.buf:
            nxt = self.pending[0][0] if self.pending else None
            if nxt is not None and nxt <= t0 + self.timeout:
                CLK.ticks = nxt; self._arrive()
            else:
                CLK.ticks = t0 + self.timeout
                self.rx_trace.append((CLK.ticks - t0, b'')); return None
        if CLK.ticks == t0: CLK.ticks += 1          # a read takes at least one tick
        data = bytes(self.buf[:self.chunk]); del self.buf[:self.chunk]
        self.rx_trace.append((CLK.ticks - t0, data))
        return data


def rand_payload(n): return bytes(rng.randrange(256) for _ in range(n))


def answer_bytes(kind, cls_, id_):
    """what the receiver sends back for one transmission: a mix of right, wrong, corrupt and surplus"""
    out = bytearray()
    for _ in range(rng.choice([0, 1, 1, 2, 3])):
        t = rng.random()
        if t < 0.30: f = frame(5, 1, [cls_, id_] if rng.random() < .75 else [cls_, id_ ^ 1])
        elif t < 0.38: f = frame(5, 0, [cls_, id_])
        elif t < 0.60: f = frame(cls_, id_, rand_payload(rng.choice([0, 2, 6, 8])))
        elif t < 0.75: f = frame(0x13, 0x60, [rng.choice([0, 1, 1, 2]), 0, 0, id_, 1, 2, 3, 4])
        elif t < 0.85: f = frame(1, 7, rand_payload(4))
        elif t < 0.93: f = b'$GPTXT,01,01,02,hello*00\r\n'
        else: f = bytes(rng.randrange(256) for _ in range(rng.randrange(1, 5)))
        f = bytearray(f)
        if rng.random() < 0.1: f[-1] ^= 0x10
        if len(f) > 1 and rng.random() < 0.06: f = f[:rng.randrange(1, len(f))]     # truncated
        out += f
    return bytes(out)


def draw_timeline(kind, cls_, id_):
    tl = []
    for _ in range(rng.choice([0, 1, 1, 2])):
        off = rng.choice([1, 5, 50, 200, 600, 1100, 2500])
        tl.append((off, answer_bytes(kind, cls_, id_)))
    return [e for e in tl if e[1]]


def make_sequence():
    nreq = rng.randrange(1, 5)
    retries = rng.randrange(0, 3); delay = rng.choice([1, 125, 500, 1000])
    chunk, timeout = rng.choice([(1, 102), (128, 256), (128, 256)])
    reqs = []
    for _ in range(nreq):
        kind = rng.choice(['set', 'set', 'mga', 'poll', 'poll', 'faf'])
        cls_, id_ = (0x13, 0x40) if kind == 'mga' else rng.choice([(6, 8), (6, 0x3e), (1, 3), (0x0a, 4)])
        reqs.append((kind, cls_, id_, rand_payload(rng.choice([0, 1, 6])), rng.choice([0, 2, 6])))
    ntx = nreq * (retries + 1)
    txl = [rng.random() < 0.85 for _ in range(ntx)]
    timelines = {}      # global transmission index -> arrivals, filled when that transmission happens
    return retries, delay, chunk, timeout, reqs, txl, timelines


def show(r):
    if r is None: return 'none'
    tag = 'resp' if type(r).__name__ == 'Resp' else type(r).__name__
    return f'{r.CID.cls}/{r.CID.id}:{tag}:{bytes(r.data).hex()}'


def call(s, kind, req):
    try:
        return show({'set': s.set, 'mga': s.set_mga, 'poll': s.poll, 'faf': s.fire_and_forget}[kind](req))
    except Exception as e:
        return 'EXC:' + type(e).__name__


def run_sequence(spec):
    retries, delay, chunk, timeout, reqs, txl, timelines = spec
    FrameFactory.destroy(); CLK.ticks = 1024 * 1024
    s = BufSrv(txl, timelines, chunk, timeout); s.setup(); s.set_retries(retries); s.set_retry_delay(delay)
    t0 = CLK.ticks
    outs, starts = [], []
    for kind, cls_, id_, payload, minlen in reqs:
        s._arrive()
        starts.append((CLK.ticks, list(s.pending), len(s.sent)))
        s.current = (kind, cls_, id_)
        outs.append(call(s, kind, make_req(cls_, id_, payload, minlen)))
    line = '|'.join(['seq', str(retries), str(delay), ','.join('1' if t else '0' for t in s.tx_trace),
                     ','.join(f'{dt}:{d.hex()}' for dt, d in s.rx_trace),
                     ';'.join(f'{k}/{c}:{i}/{p.hex()}/{m}' for k, c, i, p, m in reqs)])
    real = f'{";".join(outs)} sent={len(s.sent)} nrx={len(s.rx_trace)} t={CLK.ticks - t0} calls={s.calls}'
    sent_per_req = [b - a for a, b in zip([st[2] for st in starts], [st[2] for st in starts[1:]] + [len(s.sent)])]
    return line, real, outs, starts, sent_per_req


def run_alone(spec, i, start):
    """request i alone on a newly created server facing the same arrivals (nothing buffered)"""
    retries, delay, chunk, timeout, reqs, txl, timelines = spec
    tick, pending, tx_base = start
    FrameFactory.destroy(); CLK.ticks = tick
    s = BufSrv(txl, timelines, chunk, timeout, tx_base=tx_base, pending=pending)
    s.setup(); s.set_retries(retries); s.set_retry_delay(delay)
    kind, cls_, id_, payload, minlen = reqs[i]
    s.current = (kind, cls_, id_)
    return call(s, kind, make_req(cls_, id_, payload, minlen)), len(s.sent)


def main():
    n = int(os.environ.get('N', '400'))
    specs = [make_sequence() for _ in range(n)]
    lines, reals, oracle_bad, dist = [], [], [], Counter()
    for spec in specs:
        line, real, outs, starts, sent_per_req = run_sequence(spec)
        lines.append(line); reals.append(real)
        for o in outs: dist['exc' if o.startswith('EXC') else 'none' if o == 'none' else 'answer'] += 1
        dist[f'chunk{spec[2]}'] += 1; dist[f'len{len(spec[4])}'] += 1
        for i in range(len(spec[4])):
            alone, nsent = run_alone(spec, i, starts[i])
            if (alone, nsent) != (outs[i], sent_per_req[i]):
                oracle_bad.append({'seq': line, 'request': i, 'in_sequence': [outs[i], sent_per_req[i]], 'alone': [alone, nsent]})
    model = subprocess.run([DRIVER], input='\n'.join(lines) + '\n', capture_output=True, text=True).stdout.split('\n')
    bad = [{'line': l, 'real': r, 'model': m} for l, r, m in zip(lines, reals, model) if r != m]
    res = {'sequences': n, 'model_disagreements': len(bad), 'c10_oracle_failures': len(oracle_bad),
           'distribution': dict(dist), 'first': bad[:2], 'first_oracle': oracle_bad[:2]}
    print(json.dumps(res, indent=1)[:3000])
    if os.environ.get('OUT'): json.dump(res, open(os.environ['OUT'], 'w'))


main()

#!/usr/bin/env python3
"""Correspondence prototype, part 4: to_bytes() over payload lengths, Checksum.add exhaustively on a slice."""
import json as _json, sys, os, random, subprocess
REPO = sys.argv[1] if len(sys.argv) > 1 else '/root/work/repo-fixed'
sys.path.insert(0, REPO)
from ubxlib.frame import UbxFrame
from ubxlib.cid import UbxCID
from ubxlib.checksum import Checksum
rng = random.Random(int(os.environ.get('VERIF_SEED', '0')))
cases = []
for n in list(range(0, 300)) + [510, 511, 512, 999, 1000, 1001, 4095, 4096, 65279, 65280, 65534, 65535]:
    cls_, id_ = rng.randrange(256), rng.randrange(256)
    class F(UbxFrame): CID = UbxCID(cls_, id_)
    f = F(); pl = bytes(rng.choice([0xb5, 0x62, 0xff, rng.randrange(256)]) for _ in range(n)); f.data = bytearray(pl)
    b1 = bytes(f.to_bytes()); b2 = bytes(f.to_bytes())
    cases.append((f'frame|{cls_}|{id_}|{pl.hex()}', b1.hex() + ' ' + ('same' if b1 == b2 and bytes(f.data) == pl else 'DIFF')))
for a in range(256):
    for b in (0, 1, 2, 127, 128, 200, 254, 255):
        out = bytearray()
        for x in range(256):
            c = Checksum(); c.add((b - a) % 256); c.add((2 * a - b) % 256)      # reach state (a, b) through the API
            assert c.value() == (a, b)
            c.add(x); out += bytes(c.value())
        cases.append((f'ck|{a}|{b}', out.hex()))
model = subprocess.run(['/root/work/lean/.lake/build/bin/driver'], input='\n'.join(c[0] for c in cases) + '\n', capture_output=True, text=True).stdout.splitlines()
bad = [(l, r, m) for (l, r), m in zip(cases, model) if r != m]
for l, r, m in bad[:3]: print('MISMATCH', l[:60], '\n real ', r[:80], '\n model', m[:80])
print('cases', len(cases), 'model', len(model), 'mismatches', len(bad), 'frame mismatches', sum(1 for l, _, _ in bad if l.startswith('frame')))
OUT_JSON = os.environ.get('OUT')
if OUT_JSON:
    kinds = {}
    for (l, r), m in zip(cases, model):
        k = l.split('|')[0]; kinds.setdefault(k, [0, 0]); kinds[k][0] += 1; kinds[k][1] += (r != m)
    _json.dump({'cases': len(cases), 'kinds': kinds, 'mismatches': [{'in': l, 'real': r, 'model': m} for l, r, m in bad[:20]],
                'samples': [c[0][:200] for c in cases[:3]]}, open(OUT_JSON, 'w'))

import sys, random, subprocess
sys.path.insert(0, sys.argv[1])
from ubxlib.cfgkeys import CfgKeyData, UbxKeyId
rnd = random.Random(1)
lines=[]; exp=[]
keys=[k for k in UbxKeyId.KEY_INFO]
for n in range(3000):
    bits = rnd.choice([1,8,16,32,64,64,0,2,7])
    if rnd.random()<0.4:
        k=rnd.choice(keys); g=(k>>16)&0xff; i=k&0xfff
        if rnd.random()<0.7: bits=CfgKeyData.BITS_FROM_SIZE[(k>>28)&7]
    else:
        g=rnd.choice([0,1,0x7f,0xff,0x100,-1,rnd.randrange(256)]); i=rnd.choice([0,1,0xfff,0x1000,-1,rnd.randrange(4096)])
    sg=rnd.random()<0.5
    v=rnd.choice([0,1,-1,127,128,255,256,-128,-129,65535,65536,2**31,2**32-1,2**63,2**64-1,-2**63,rnd.randrange(-2**64,2**64)])
    lines.append(f"keystr|{g}|{i}|{bits}|{1 if sg else 0}|{v}")
    try:
        exp.append(str(CfgKeyData('data0', g, i, bits, v, signed=sg)))
    except Exception as e:
        exp.append('EXC:'+type(e).__name__)
out=subprocess.run(['/root/work/lean/.lake/build/bin/driver'],input='\n'.join(lines)+'\n',capture_output=True,text=True).stdout.split('\n')
bad=[(l,e,o) for l,e,o in zip(lines,exp,out) if e!=o]
print(len(lines),'cases',len(bad),'mismatches'); print(bad[:5])
from collections import Counter
print(Counter('EXC' if e.startswith('EXC') else 'ok' for e in exp))

"""What each property's check runs: correspondence jobs (component, generator profile, sizes per tier),
the observables compared, and what is trusted / assumed beyond DESIGN.md §6."""
import re


# ---- projections: the observables of a property within a component's output -------------------------
def keys(*names):
    pat = re.compile(r'^(' + '|'.join(names) + r')=')

    def f(out):
        toks = out.split(' ')
        return ' '.join(t for t in toks if pat.match(t) or t.startswith('EXC:') or t == 'TIMEOUT')
    return f


PROJECTIONS = {
    'rx-only': keys('rx'),
}

NONTRIVIAL_RULE = ('the real code produced something beyond the empty answer: a packet, a counted frame, a returned frame, '
                   'a retransmission, a decoded non-zero field, an exception — per component, see harness/plan.py')


def nontrivial(case):
    out, comp = case.get('real') or '', case['component']
    if comp == 'ubx':
        return '/' in out or 'crc' in out or 'rx=0' not in out
    if comp == 'nmea':
        return out != 'rx=0'
    return True


PARSER_TRUST = ['the real parser is driven through process()/packet()/set_filter(s)/restart()/empty_queue() and frames_rx only']

PROPS = {
    'C02': {
        'jobs': [{'component': 'ubx', 'profile': 'grammar', 'quick': 400, 'thorough': 6000, 'exhaustive': 'both'}],
        'exhaustive_note': 'one transition for each parser state x 256 next bytes x 3 filters x 3 continuations, black box',
        'trusted': PARSER_TRUST,
    },
    'C03': {
        'jobs': [{'component': 'ubx', 'profile': 'wild', 'quick': 400, 'thorough': 6000, 'exhaustive': 'both'}],
        'exhaustive_note': 'one transition for each parser state x 256 next bytes x 3 filters x 3 continuations, black box',
        'trusted': PARSER_TRUST,
    },
    'C09': {
        'jobs': [{'component': 'ubx', 'profile': 'chunks', 'quick': 150, 'thorough': 2500},
                 {'component': 'nmea', 'profile': 'chunks', 'quick': 200, 'thorough': 3000}],
        'trusted': PARSER_TRUST,
    },
    'C11': {
        'jobs': [{'component': 'ubx', 'profile': 'ops', 'quick': 400, 'thorough': 6000, 'exhaustive': 'thorough'}],
        'trusted': PARSER_TRUST + ['object identity of payload buffers: explicit heap model (Model/HeapParser), tied by re-reading every '
                                   'handed-out payload object at the end of each history'],
    },
    'C16': {
        'jobs': [{'component': 'nmea', 'profile': 'count', 'quick': 600, 'thorough': 10000, 'exhaustive': 'both'}],
        'exhaustive_note': 'one transition for each of the 5 NMEA states (checksum about to match / not) x 256 bytes x 4 continuations',
        'trusted': PARSER_TRUST,
    },
}

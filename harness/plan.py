"""What each property's check runs: correspondence jobs (component, generator profile, sizes per tier),
the observables compared, and what is trusted / assumed beyond DESIGN.md §6."""
import json
import re


# ---- projections: the observables of a property within a component's output -------------------------
def keys(*names):
    pat = re.compile(r'^(' + '|'.join(names) + r')=')

    def f(out):
        toks = out.split(' ')
        return ' '.join(t for t in toks if pat.match(t) or t.startswith('EXC:') or t == 'TIMEOUT')
    return f


def first_and(*names):
    k = keys(*names)

    def f(out):
        return out.split(' ')[0] + ' ' + k(out)
    return f


PROJECTIONS = {
    'rx-only': keys('rx'),
    'result': first_and(),
    'result+sent': first_and('sent'),
    'sent+time': keys('sent', 't'),
    'result+sent+calls': first_and('sent', 'calls'),
    'sent+same': keys('sent'),
    'all-but-same': first_and('sent', 'nrx', 't', 'calls'),
}

NONTRIVIAL_RULE = ('the real code did something beyond the empty answer: delivered a packet or counted a frame (ubx, nmea, scan), returned a frame '
                   'or retransmitted (srv, seq, level), decoded / encoded / rendered without an exception (fields, assign, key, valset, helper, render), '
                   'changed a block (gnss), reported success or selected a device (tty, gpsdtx, gpsd); frame and ck cases always serialise / sum bytes '
                   '— see nontrivial() in harness/plan.py')


def nontrivial(case):
    """did the real code do something beyond the empty answer on this case? (per component; counted for the evidence)"""
    out, comp, line = case.get('real') or '', case['component'], case.get('line', '')
    if comp == 'ubx':
        return '/' in out or 'crc' in out or 'rx=0' not in out
    if comp == 'nmea':
        return out != 'rx=0'
    if comp in ('srv', 'seq', 'level'):
        if line.startswith(('levelubx', 'levelnmea')):
            return 'rx=0' not in out
        return not out.startswith('none sent=1 ') and not out.startswith('none sent=0 ')
    if comp == 'scan':
        return out.startswith('true') or 'reads=0' not in out
    if comp in ('fields', 'ch', 'subitem', 'key', 'valset', 'helper', 'render'):
        return not out.startswith('EXC')            # something was decoded / encoded / rendered
    if comp == 'assign':
        return out.startswith('pack=') and 'EXC' not in out
    if comp == 'gnss':
        return out != line.split('|')[3] if line.count('|') >= 3 else True      # the helper changed a block
    if comp in ('tty', 'gpsdtx'):
        return 'true' in out or 'selected=' in out
    if comp == 'gpsd':
        return ',true' in out                        # a device was selected
    return True                                      # frame, ck: every case serialises / sums real bytes


def mix_tags(case):
    """what kind of input a case is and which branch of the real code it ended in (counted into the evidence)"""
    line, out = case.get('line', ''), case.get('real') or ''
    kind = line.split('|', 1)[0]
    tags = ['kind:' + kind]
    if case.get('python'):
        tags.append('interpreter:' + case['python'].split('/versions/')[-1].split('/')[0])
    if case.get('pyflags'):
        tags.append('interpreter:python ' + ' '.join(case['pyflags']) + (' TZ=' + case['env'].get('TZ', '') if case.get('env') else ''))
    if out.startswith('EXC:') or ' EXC:' in out or '=EXC:' in out:
        tags.append('outcome:' + out[out.index('EXC:'):].split()[0].split(';')[0][:30])
    elif out == 'TIMEOUT':
        tags.append('outcome:TIMEOUT')
    if kind == 'seqs':
        try:
            sc = json.loads(line.split('|', 1)[1])
            tags.append('backend:' + sc.get('backend', 'base'))
            tags.append(f'requests:{len(sc["reqs"])}')
            for r in sc['reqs']:
                tags.append('request:' + r['kind'])
            tags.append(f'retries:{sc["retries"]}')
            for flag in ('bystander', 'nested', 'boom', 'txtime', 'backoff', 'background', 'drainflush', 'eof', 'baud', 'expect'):
                if sc.get(flag) is not None:
                    tags.append('scenario:' + flag)
            if any(r.get('retarget') for r in sc['reqs']):
                tags.append('scenario:retarget')
        except ValueError:
            pass
    elif kind in ('srv', 'level'):
        p = line.split('|')
        if len(p) > 1:
            tags.append('request:' + p[1])
    elif kind in ('ubx', 'nmea'):
        tags.append(f'length:{min(len(line) // 200, 20) * 100}+')
    return tags


PARSER_TRUST = ['the real parser is driven through process()/packet()/set_filter(s)/restart()/empty_queue() and frames_rx only']

PROPS = {
    'C02': {
        'source_transfer': ['TransferUbx'],
        'source_tie': ['UbxParser', 'Checksum'],
        'jobs': [{'component': 'ubx', 'profile': 'grammar', 'quick': 2400, 'thorough': 6000, 'exhaustive': 'both'},
                 {'component': 'ubx', 'profile': 'bulk', 'quick': 0, 'thorough': 4}],
        'exhaustive_note': 'one transition for each parser state x 256 next bytes x 3 filters x 3 continuations, black box',
        'trusted': PARSER_TRUST,
    },
    'C03': {
        'source_transfer': ['TransferUbx'],
        'source_tie': ['UbxParser', 'Checksum'],
        'jobs': [{'component': 'ubx', 'profile': 'wild', 'quick': 2400, 'thorough': 6000, 'exhaustive': 'both'},
                 {'component': 'ubx', 'profile': 'bulk', 'quick': 0, 'thorough': 4}],
        'exhaustive_note': 'one transition for each parser state x 256 next bytes x 3 filters x 3 continuations, black box',
        'trusted': PARSER_TRUST,
    },
    'C09': {
        'source_transfer': ['TransferUbx', 'TransferNmea'],
        'source_tie': ['UbxParser', 'NmeaParser'],
        'jobs': [{'component': 'ubx', 'profile': 'chunks', 'quick': 900, 'thorough': 2500},
                 {'component': 'ubx', 'profile': 'bulk', 'quick': 0, 'thorough': 2},
                 {'component': 'nmea', 'profile': 'chunks', 'quick': 1500, 'thorough': 3000}],
        'trusted': PARSER_TRUST,
    },
    'C11': {
        'source_transfer': ['TransferUbx'],
        'source_tie': ['UbxParser'],
        'jobs': [{'component': 'ubx', 'profile': 'ops', 'quick': 3000, 'thorough': 6000, 'exhaustive': 'thorough'},
                 {'component': 'ubx', 'profile': 'bulk', 'quick': 0, 'thorough': 4},
                 {'component': 'cid', 'profile': 'grid', 'quick': 1, 'thorough': 1}],
        'trusted': PARSER_TRUST + ['object identity of payload buffers: explicit heap model (Model/HeapParser), tied by re-reading every '
                                   'handed-out payload object at the end of each history'],
    },
    'C16': {
        'source_transfer': ['TransferNmea'],
        'source_tie': ['NmeaParser'],
        'jobs': [{'component': 'nmea', 'profile': 'count', 'quick': 4000, 'thorough': 10000, 'exhaustive': 'both'}],
        'exhaustive_note': 'one transition for each of the 5 NMEA states (checksum about to match / not) x 256 bytes x 4 continuations',
        'trusted': PARSER_TRUST,
    },
    'C01': {
        'source_transfer': ['TransferFrame'],
        'source_tie': ['UbxFrame', 'Checksum'],
        'jobs': [{'component': 'frame', 'profile': 'quick', 'quick': 60, 'thorough': 400},
                 {'component': 'frame', 'profile': 'all-lengths', 'quick': 0, 'thorough': 1},
                 {'component': 'ck', 'profile': 'quick', 'quick': 120, 'thorough': 200}],
        'exhaustive_note': 'thorough: every payload length 0..65535 once (payload expanded from (length, seed) on both sides, digests compared)',
        'trusted': ['frames are ad-hoc UbxFrame subclasses with arbitrary CID; `data` is assigned directly, to_bytes() is the method under test'],
    },
    'C15': {
        'source_transfer': ['TransferFrame'],
        'source_tie': ['Checksum'],
        'jobs': [{'component': 'ck', 'profile': 'quick', 'quick': 900, 'thorough': 0},
                 {'component': 'ck', 'profile': 'all-states', 'quick': 0, 'thorough': 3000}],
        'exhaustive_note': 'quick: add() from the 256 x 8 states (a, b in 8 values) x 256 bytes; thorough: all 65536 states x 256 bytes '
                           '(each state reached from reset() by its two-byte prefix, digests per row compared)',
        'trusted': ['Checksum is driven through add()/reset()/value()/matches() only'],
    },
    'C07': {
        'source_transfer': ['TransferTypes', 'TransferBlocks'],
        'source_tie': ['Types', 'Fields', 'Blocks'],
        'jobs': [{'component': 'fields', 'profile': 'decode', 'quick': 30, 'thorough': 400},
                 {'component': 'ch', 'profile': 'all-text', 'quick': 1, 'thorough': 1},
                 {'component': 'ch', 'profile': 'random', 'quick': 500, 'thorough': 5000},
                 {'component': 'subitem', 'profile': 'grid', 'quick': 1, 'thorough': 1},
                 {'component': 'key', 'profile': 'codec', 'quick': 150, 'thorough': 1000},
                 {'component': 'valset', 'profile': 'valget', 'quick': 450, 'thorough': 3000}],
        'exhaustive_note': 'count byte 0..255 of CFG-GNSS and ESF-STATUS, 0..7 of CFG-ESFLA, 0..32 MON-VER extensions; every byte position of every fixed layout with only its top bit set; '
                           'text items: every one- and two-byte sequence, every three-/four-byte lead class x every second byte x boundary continuation bytes',
        'trusted': ['field tables are read from frame.f._fields / Item.order / Item.fmt / length (named in the property anchors)',
                    'a Python str is modelled by its UTF-8 encoding; that the interpreter\'s strict codec is a bijection between well-formed UTF-8 and surrogate-free '
                    'strings is runtime (Proofs/Utf8.lean proves it of the model\'s validUtf8 against Spec.encodeText; the `ch` component compares both with the codec)'],
        'assumptions': ['well-formed = exactly the prescribed length (R6), text ranges well-formed UTF-8 (R5)'],
    },
    'C08': {
        'source_transfer': ['TransferTypes', 'TransferValget', 'TransferBlocks'],
        'source_tie': ['Types', 'Fields', 'CfgKeyData', 'CfgItem', 'Valget', 'Blocks'],
        'jobs': [{'component': 'fields', 'profile': 'decode', 'quick': 30, 'thorough': 400},
                 {'component': 'ch', 'profile': 'all-text', 'quick': 1, 'thorough': 1},
                 {'component': 'ch', 'profile': 'random', 'quick': 500, 'thorough': 5000},
                 {'component': 'subitem', 'profile': 'grid', 'quick': 1, 'thorough': 1},
                 {'component': 'assign', 'profile': 'rmw', 'quick': 24, 'thorough': 60},
                 {'component': 'key', 'profile': 'codec', 'quick': 150, 'thorough': 1000},
                 {'component': 'valset', 'profile': 'valget', 'quick': 300, 'thorough': 3000}],
        'exhaustive_note': 'text items: every one- and two-byte sequence, every three-/four-byte lead class x every second byte x boundary continuation bytes',
        'trusted': ['fields are assigned through attribute access on frame.f, re-encoded by frame.pack()',
                    'a Python str is modelled by its UTF-8 encoding (R5); strings with lone surrogates are not generated'],
        'assumptions': ['in-range assignment = fits the field type (text: its encoding fits, no trailing NUL)'],
    },
    'C13': {
        'source_transfer': ['TransferCfg'],
        'source_tie': ['CfgKeyData', 'CfgItem'],
        'jobs': [{'component': 'key', 'profile': 'codec', 'quick': 750, 'thorough': 5000}],
        'exhaustive_note': 'every published key; size code 0..7 x available value bytes 0..9 x 4 value patterns x reserved bits set/clear',
        'assumptions': ['R2: in-range is relative to the signedness the key table gives the key; R12: size codes 1..5'],
    },
    'C14': {
        'source_transfer': ['TransferCfg', 'TransferValget', 'TransferValset'],
        'source_tie': ['CfgKeyData', 'CfgItem', 'Types', 'Valget', 'Valset'],
        'jobs': [{'component': 'key', 'profile': 'codec', 'quick': 750, 'thorough': 5000},
                 {'component': 'valset', 'profile': 'valget', 'quick': 450, 'thorough': 3000}],
        'exhaustive_note': 'size code 0..7 x available value bytes 0..9 x 4 value patterns x reserved bits set/clear',
        'assumptions': ['R3: 1-bit items are encoded by truthiness; R4: 1-3 trailing bytes of a VALGET response are not a pair'],
    },
    'C17': {
        'source_transfer': ['TransferHelpers', 'TransferBlocks'],
        'source_tie': ['Helpers', 'Types', 'Blocks'],
        'jobs': [{'component': 'gnss', 'profile': 'helpers', 'quick': 2400, 'thorough': 6000},
                 {'component': 'helper', 'profile': 'helpers', 'quick': 600, 'thorough': 1500}],
        'exhaustive_note': 'set_rate_in_hz for 0..11; every permutation of every subset of <= 2 (thorough <= 3) GNSS systems',
    },
    'C04': {
        'source_transfer': ['TransferServer', 'TransferFactory'],
        'source_tie': ['Server', 'UbxParser', 'Factory'],
        'jobs': [{'component': 'srv', 'profile': 'mixed', 'quick': 4000, 'thorough': 8000, 'project': 'result'},
                 {'component': 'seq', 'profile': 'seq', 'quick': 1000, 'thorough': 2500, 'project': 'result'},
                 {'component': 'cid', 'profile': 'grid', 'quick': 1, 'thorough': 1}],
        'trusted': ['back end = scripted stub (oracle-style per receive call, and buffered with arrival time-lines); virtual clock ticks/1024 s'],
        'assumptions': ['partial: the transports are stubs; every blocking receive advances the clock by at least one tick'],
    },
    'C05': {
        'source_transfer': ['TransferServer'],
        'source_tie': ['Server', 'UbxParser'],
        'jobs': [{'component': 'srv', 'profile': 'bounds', 'quick': 3000, 'thorough': 6000, 'project': 'sent+time'},
                 {'component': 'srv', 'profile': 'mixed', 'quick': 1500, 'thorough': 3000, 'project': 'sent+time'},
                 {'component': 'seq', 'profile': 'seq', 'quick': 600, 'thorough': 1500, 'project': 'sent+time'}],
        'trusted': ['virtual clock: time.time() of server_base replaced by ticks/1024.0 (exact in binary floating point, DESIGN.md 4.2)'],
        'assumptions': ['partial: real time is replaced by the virtual clock; transmit, flush and recover take no time; a receive takes 1..T ticks'],
    },
    'C06': {
        'source_transfer': ['TransferServer', 'TransferFactory'],
        'source_tie': ['Server', 'UbxParser', 'Factory'],
        'jobs': [{'component': 'seq', 'profile': 'c06', 'quick': 3000, 'thorough': 8000, 'project': 'result+sent'}],
        'trusted': ['scenarios are built so that the premise holds and the premise is re-checked with the reference scanner before a scenario is used'],
        'assumptions': ['partial: as C04; "in time" = the bytes are delivered by receive calls that start before the deadline'],
    },
    'C10': {
        'source_transfer': ['TransferServer', 'TransferFactory'],
        'source_tie': ['Server', 'UbxParser', 'Factory'],
        'jobs': [{'component': 'seq', 'profile': 'seq', 'quick': 2400, 'thorough': 6000, 'project': 'result+sent+calls'},
                 {'component': 'cid', 'profile': 'grid', 'quick': 1, 'thorough': 1}],
        'trusted': ['the buffered stub implements the contract of _flush_input(): what has arrived and was not read is dropped'],
        'assumptions': ['partial: claimed for the base class over a back end whose _flush_input() honours its contract (the serial one); '
                        'the gpsd back end inherits the no-op'],
    },
    'C12': {
        'source_transfer': ['TransferServer', 'TransferTty', 'TransferGpsdTx'],
        'source_tie': ['Server', 'UbxParser', 'Tty', 'GpsdTx'],
        'jobs': [{'component': 'srv', 'profile': 'mixed', 'quick': 2400, 'thorough': 4000, 'project': 'sent+same'},
                 {'component': 'frame', 'profile': 'threads', 'quick': 1, 'thorough': 1},
                 {'component': 'subitem', 'profile': 'grid', 'quick': 1, 'thorough': 1},
                 {'component': 'tty', 'profile': 'tty', 'quick': 180, 'thorough': 1500},
                 {'component': 'gpsdtx', 'profile': 'gpsdtx', 'quick': 180, 'thorough': 1500},
                 {'component': 'level', 'profile': 'items', 'quick': 300, 'thorough': 2000, 'project': 'result+sent'}],
        'trusted': ['stub serial.Serial (write/baudrate/is_open recorded), stub control socket (connect/sendall/recv scripted)'],
        'assumptions': ['partial: the OS serial driver and gpsd themselves; gpsd replies are ASCII'],
    },
    'C18': {
        'source_transfer': ['TransferUbx', 'TransferNmea', 'TransferTty'],
        'source_tie': ['UbxParser', 'NmeaParser', 'Tty'],
        'jobs': [{'component': 'scan', 'profile': 'scan', 'quick': 3000, 'thorough': 8000}],
        'trusted': ['stub serial port with a timed byte script on the virtual clock'],
        'assumptions': ['partial: real serial timing; a read takes 1..T ticks'],
    },
    'C19': {
        'source_transfer': ['TransferRender', 'TransferKeyStr'],
        'source_tie': ['Render', 'Str', 'CfgKeyData', 'KeyStr'],
        'jobs': [{'component': 'render', 'profile': 'render', 'quick': 90, 'thorough': 300},
                 {'component': 'level', 'profile': 'level', 'quick': 1200, 'thorough': 3000, 'project': 'result+sent'},
                 {'component': 'valset', 'profile': 'valget', 'quick': 120, 'thorough': 600},
                 {'component': 'key', 'profile': 'codec', 'quick': 450, 'thorough': 3000}],
        'exhaustive_note': 'every table-driven renderer over all 256 values of its byte (X4 mode: all combinations of its rendered bits), decoded and edited',
        'assumptions': ['R7: stale derived text after an edit is not a violation; text fields ASCII'],
    },
    'C20': {
        'jobs': [{'component': 'gpsd', 'profile': 'gpsd', 'quick': 4000, 'thorough': 10000},
                 {'component': 'gpsdtx', 'profile': 'gpsdtx', 'quick': 120, 'thorough': 800}],
        'trusted': ['bytes.decode / str.splitlines / json.loads are the real ones; the model is handed their per-line outcome'],
        'assumptions': ['partial: gpsd itself; termination of _enable() is not claimed'],
        'source_transfer': ['TransferGpsd', 'TransferGpsdTx'],
        'source_tie': ['Gpsd', 'GpsdTx'],
    },
}

"""Components `ubx` and `nmea`: the two byte-stream parsers driven through their public API.

line formats (shared with lean/Driver.lean)
  ubx|<op>;<op>;…     P<hex> process  K packet()  D drain the queue  R restart  E empty_queue
                      F<c:i,…> set_filters  S<c:i> set_filter
                      output: one token per K, the drained packets and `.` per D, then rx=<frames_rx> stable=<bool>
  nmea|<op>;<op>;…    P<hex> process  R restart          output: rx=<frames_rx>
"""
import copy
import pickle
import sys
import zlib

from lib import frame, fletcher, nmea as nmea_sentence
import realenv
from realenv import exc_name

from ubxlib.cid import UbxCID
from ubxlib.parser_ubx import UbxParser
from ubxlib.parser_nmea import NmeaParser

realenv.patch_all_time()

CRC = (0, 2)
CIDS = [(5, 1), (5, 0), (6, 8), (1, 3), (0x13, 0x60), (0xb5, 0x62)]
MAXLEN = 1000


# =====================================================================================================
# real side
# =====================================================================================================
def show_packet(cid, data):
    if cid is None:
        return 'none'
    if data is None:
        return 'crc'
    return f'{cid.cls}/{cid.id}:{bytes(data).hex()}'


class NamedCID(UbxCID):
    """what an application may well do: class/ids that know what they are called"""

    def __init__(self, cls, id, name):
        super().__init__(cls, id)
        self.name = name


_ALT = []


def alt_cid_class():
    """the UbxCID class once more, as a second class object: cid.py loaded under another module name (a vendored copy beside the
    package, a reload) - its instances say the same class/ids"""
    if not _ALT:
        import importlib.util
        import ubxlib.cid as orig
        spec = importlib.util.spec_from_file_location('vendored_cid', orig.__file__)
        mod = importlib.util.module_from_spec(spec)
        sys.modules['vendored_cid'] = mod            # (importable by name, as a vendored copy is: pickle looks classes up there)
        spec.loader.exec_module(mod)
        _ALT.append(mod.UbxCID)
    return _ALT[0]


def parse_cids(s, same_class=False):
    """class/ids as the caller may hold them: plain, of a subclass that carries a name, or tagged after construction - which one
    depends on the text (and repeats on a replay); to a filter they are the same class/ids"""
    out = []
    for n, x in enumerate(s.split(',') if s else []):
        c, i = map(int, x.split(':'))
        k = (zlib.crc32(s.encode()) + n) % 6
        if k == 0:
            cid = NamedCID(c, i, f'MSG-{c:02X}-{i:02X}')
        elif k == 2 and not same_class:        # (set_filter() itself insists on its own class: isinstance)
            cid = alt_cid_class()(c, i)
        elif k == 1:
            cid = UbxCID(c, i)
            cid.label = 'mine'
        else:
            cid = UbxCID(c, i)
        out.append(cid)
    return out


FEED = 'PALMIGOZ'     # Z<hex>~<hex>: ONE process() call over a lazy source that calls restart() between the two parts - the same as
                      # two calls with restart() between them. process() given bytes / bytearray / list / memoryview / iterator / generator: any iterable of byte values;
                      # O<n>:<hex>: process(bytes) with ANOTHER parser object parsing a frame of its own at the n-th line executed


def feed_bytes(op):
    if op[0] == 'Z':
        return bytes.fromhex(op[1:].replace('~', ''))
    return bytes.fromhex(op[1:].split(':')[1] if op[0] == 'O' else op[1:])


def lazy_with_restart(p, op):
    a, b = op[1:].split('~')
    yield from bytes.fromhex(a)
    p.restart()
    yield from bytes.fromhex(b)


def meanwhile_ubx():
    q = UbxParser(UbxCID(*CRC))
    q.set_filters([UbxCID(1, 7), UbxCID(5, 1)])
    q.process(frame(1, 7, b'\x01\x02\x03') + b'\xb5\x62\x05\x01\x02')
    q.packet()


def meanwhile_nmea():
    q = NmeaParser()
    q.process(b'$GPGGA,1*52\r\n$GPGLL,')


def as_container(kind, b):
    if kind == 'A':
        return bytearray(b)
    if kind == 'L':
        return list(b)
    if kind == 'M':
        return memoryview(b)
    if kind == 'I':
        return iter(b)
    if kind == 'G':
        return (x for x in b)
    return b


class UbxRun:
    """one real parser driven op by op"""

    def __init__(self):
        self.p = UbxParser(UbxCID(*CRC))
        self.filter_list = None
        self.out, self.handed, self.exc = [], [], None      # handed: (payload object, copy at hand-out time)

    def step(self, op):
        realenv.in_thread(self._step, op)

    def _step(self, op):
        if self.exc:
            return
        p, out, handed = self.p, self.out, self.handed
        try:
            if op[0] in FEED:
                if op[0] == 'Z':
                    p.process(lazy_with_restart(p, op))
                elif op[0] == 'O':
                    realenv.interleaved(lambda: p.process(feed_bytes(op)), int(op[1:].split(':')[0]), meanwhile_ubx)
                elif op[0] in 'AM':
                    # the caller's own receive buffer (a bytearray, or a memoryview of one, filled readinto-style): handed over, and used
                    # again for the next read as soon as process() has returned - what the parser keeps must be its own
                    buf = bytearray(feed_bytes(op))
                    p.process(buf if op[0] == 'A' else memoryview(buf))
                    for k in range(len(buf)):
                        buf[k] = 0xEE
                else:
                    p.process(as_container(op[0], feed_bytes(op)))
            elif op == 'K':
                cid, data = p.packet()
                if data is not None:
                    handed.append((data, bytes(data)))
                out.append(show_packet(cid, data))
            elif op == 'D':
                for _ in range(100000):
                    cid, data = p.packet()
                    if cid is None:
                        break
                    if data is not None:
                        handed.append((data, bytes(data)))
                    out.append(show_packet(cid, data))
                out.append('.')
            elif op == 'R':
                p.restart()
            elif op[0] == 'T':
                realenv.CLK.ticks += int(op[1:])      # time passes (or the wall clock is stepped) between two calls
            elif op[0] == 'C':
                # the history goes on with a copy of the parser, taken wherever it is (in the middle of a frame, too)
                self.p = p = [copy.deepcopy, lambda x: pickle.loads(pickle.dumps(x)), copy.copy][int(op[1:] or 0) % 3](p)
            elif op[0] == 'H':
                # the application keeps ONE filter list: changes it in place and passes the same object again
                new = parse_cids(op[1:])
                if self.filter_list is None:
                    self.filter_list = new
                else:
                    self.filter_list[:] = new
                p.set_filters(self.filter_list)
            elif op == 'J':
                # … and passes that one list object once more without touching it: it holds what the application wrote into it last
                # (nothing the library did since may have changed the caller's list)
                if self.filter_list is not None:
                    p.set_filters(self.filter_list)
            elif op == 'E':
                p.empty_queue()
            elif op[0] == 'F':
                p.set_filters(parse_cids(op[1:]))
            elif op[0] == 'S':
                p.set_filter(parse_cids(op[1:], same_class=True)[0])
            else:
                out.append('bad-op')
        except Exception as e:
            self.exc = 'EXC:' + exc_name(e)

    def result(self):
        if self.exc:
            return ' '.join(self.out + [self.exc])
        stable = all(bytes(obj) == snap for obj, snap in self.handed)
        return ' '.join(self.out + [f'rx={self.p.frames_rx}', f'stable={"true" if stable else "false"}'])


class NmeaRun:
    def __init__(self):
        self.p = NmeaParser()
        self.exc = None

    def step(self, op):
        realenv.in_thread(self._step, op)

    def _step(self, op):
        if self.exc:
            return
        try:
            if op[0] in FEED:
                if op[0] == 'Z':
                    self.p.process(lazy_with_restart(self.p, op))
                elif op[0] == 'O':
                    realenv.interleaved(lambda: self.p.process(feed_bytes(op)), int(op[1:].split(':')[0]), meanwhile_nmea)
                else:
                    self.p.process(as_container(op[0], feed_bytes(op)))
            elif op == 'R':
                self.p.restart()
            elif op[0] == 'T':
                realenv.CLK.ticks += int(op[1:])
            elif op[0] == 'C':
                self.p = [copy.deepcopy, lambda x: pickle.loads(pickle.dumps(x)), copy.copy][int(op[1:] or 0) % 3](self.p)
        except Exception as e:
            self.exc = 'EXC:' + exc_name(e)

    def result(self):
        return self.exc or f'rx={self.p.frames_rx}'


def run_interleaved(cls, line):
    """<kind>il|<schedule>|<ops of object 0>|<ops of object 1>|…: all objects exist from the start; digit k of the schedule
    lets object k do its next op; what is left when the schedule ends is done object by object; a digit 9 creates (and
    drops) one more object of the class in between"""
    parts = line.split('|')
    sched, seqs = parts[1], [x.split(';') for x in parts[2:]]
    runs = [cls() for _ in seqs]
    pos = [0] * len(seqs)
    for ch in sched:
        k = int(ch)
        if k == 9:
            cls()
        elif k < len(seqs) and pos[k] < len(seqs[k]):
            runs[k].step(seqs[k][pos[k]])
            pos[k] += 1
    for k, ops in enumerate(seqs):
        for op in ops[pos[k]:]:
            runs[k].step(op)
    return ' ## '.join(r.result() for r in runs)


def bulk_stream(n, mode):
    out = bytearray()
    for k in range(n):
        f = bytearray(frame(1, 7, [k % 256, k // 256 % 256]))
        if mode == 1 or (mode == 2 and k % 3 == 0):
            f[-1] = (f[-1] + 1) % 256
        out += f
    return bytes(out)


def digest(bs):
    h = 0
    for b in bs:
        h = (h * 31 + b) % 4294967296
    return h


def summarise(tokens):
    return f'count={len(tokens)} h={digest(" ".join(tokens).encode())} tail={" ".join(tokens[-4:])}'


def bulk_as_ops(line):
    """the explicit `ubx|` line a bulk line stands for (for the reference scanner)"""
    _, n, mode, ops = line.split('|')
    return 'ubx|F1:7;P' + bulk_stream(int(n), int(mode)).hex() + ';' + ops


def real_ubxbulk(line):
    """a long history on ONE parser: thousands of frames fed in blocks and left in the queue, then the operations"""
    _, n, mode, ops = line.split('|')
    r = UbxRun()
    r.step('F1:7')
    data = bulk_stream(int(n), int(mode))
    for k in range(0, len(data), 4096):
        realenv.in_thread(r.p.process, data[k:k + 4096])
    for op in ops.split(';'):
        r.step(op)
    toks = r.result().split(' ')
    if 'bad-op' in toks:
        return 'bad-op'
    if toks[-1] == 'stable=false':
        return 'PAYLOADS-CHANGED ' + summarise(toks[:-1])
    return summarise(toks[:-1] if toks[-1].startswith('stable=') else toks)


def canon_g(line):
    """J (the caller's one filter list passed again untouched) written as H with what the caller wrote into the list last; in an
    interleaved line every history has its own list"""
    if ';J' not in line and '|J' not in line:
        return line

    def one(ops):
        out, last = [], None
        for o in ops.split(';'):
            if o and o[0] == 'H':
                last = o
            if o == 'J':
                out.append(last if last is not None else 'T0')      # (no list yet: nothing happens; the op count stays)
                continue
            out.append(o)
        return ';'.join(out)
    segs = line.split('|')
    if segs[0] == 'ubx':
        return 'ubx|' + one('|'.join(segs[1:]))
    if segs[0] == 'ubxil':
        return '|'.join(segs[:2] + [one(x) for x in segs[2:]])
    return line


def model_line_ubx(line):
    return canon_g(line)


def real_ubx(line):
    if line.startswith('ubxbulk|'):
        return real_ubxbulk(line)
    if line.startswith('ubxil|'):
        return run_interleaved(UbxRun, line)
    r = UbxRun()
    for op in line.split('|', 1)[1].split(';'):
        r.step(op)
    return r.result()


def real_nmea(line):
    if line.startswith('nmeail|'):
        return run_interleaved(NmeaRun, line)
    r = NmeaRun()
    for op in line.split('|', 1)[1].split(';'):
        r.step(op)
    return r.result()


# =====================================================================================================
# whole-stream reference (a Python port of Spec.scan with positions; every use is cross-checked against
# the Lean `Spec.scan` through `specscan|hex`, see `spec_lines`)
# =====================================================================================================
class Scanner:
    """Spec.scan, incremental: feed() returns the events completed by the new bytes.
    events: (kind, cls, id, payload, start, end) with kind in frame|bad|long; end = index after the last byte"""

    def __init__(self, maxlen=MAXLEN):
        self.s = bytearray()
        self.i = 0
        self.maxlen = maxlen

    def feed(self, data):
        self.s += data
        s, n, evs = self.s, len(self.s), []
        i = self.i
        while i < n:
            if s[i] != 0xB5:
                i += 1
                continue
            if i + 1 >= n:
                break
            if s[i + 1] != 0x62:
                i += 1
                continue
            if i + 6 > n:
                break
            c, d, l1, l2 = s[i + 2:i + 6]
            ln = l1 + 256 * l2
            if ln > self.maxlen:
                evs.append(('long', c, d, b'', i, i + 6))
                i += 6
                continue
            if i + 6 + ln + 2 > n:
                break
            pl = bytes(s[i + 6:i + 6 + ln])
            a, b = fletcher(bytes(s[i + 2:i + 6 + ln]))
            ok = (s[i + 6 + ln], s[i + 7 + ln]) == (a, b)
            evs.append(('frame' if ok else 'bad', c, d, pl, i, i + 8 + ln))
            i += 8 + ln
        self.i = i
        return evs


def scan_pos(s, maxlen=MAXLEN):
    return Scanner(maxlen).feed(bytes(s))


def expand_z(line):
    """Z<a>~<b> said with the ops the reference knows: P<a>;R;P<b>"""
    if ';Z' not in line and '|Z' not in line:
        return line
    kind, ops = line.split('|', 1)
    out = []
    for o in ops.split(';'):
        if o and o[0] == 'Z':
            a, b = o[1:].split('~')
            out += ['P' + a, 'R', 'P' + b]
        else:
            out.append(o)
    return kind + '|' + ';'.join(out)


def spec_ubx(line):
    """expected output of a `ubx|` line: the stream is cut at every restart, each piece is scanned as a whole,
    a valid frame is queued iff its class/id is in the filter in force when its last byte is processed"""
    ops = expand_z(line).split('|', 1)[1].split(';')
    out, queue, rx = [], [], 0
    filt = None
    sc = Scanner()
    pieces = []              # every scanned segment, for the cross-check against Lean
    for op in ops:
        if op[0] in FEED:
            for kind, c, d, pl, _, _ in sc.feed(feed_bytes(op)):
                if kind == 'frame':
                    rx += 1
                    if filt and (c, d) in filt:
                        queue.append(f'{c}/{d}:{pl.hex()}')
                elif kind == 'bad':
                    queue.append('crc')
        elif op == 'K':
            out.append(queue.pop(0) if queue else 'none')
        elif op == 'D':
            out += queue + ['.']
            queue.clear()
        elif op == 'R':
            pieces.append(bytes(sc.s))
            sc = Scanner()
        elif op == 'E':
            queue.clear()
        elif op[0] in 'FSH':
            filt = [tuple(map(int, x.split(':'))) for x in op[1:].split(',')] if len(op) > 1 else []
    pieces.append(bytes(sc.s))
    return ' '.join(out + [f'rx={rx}', 'stable=true']), pieces


def show_events(s):
    return ';'.join('crc' if k == 'bad' else f'{c}/{d}:{pl.hex()}' for k, c, d, pl, _, _ in scan_pos(s) if k != 'long')


def features_ubx(line):
    line = canon_g(line)
    ops = expand_z(line).split('|', 1)[1].split(';')
    first_p = next((i for i, o in enumerate(ops) if o[0] in FEED), len(ops))
    mid = ops[first_p:]
    stream = b''.join(feed_bytes(o) for o in ops if o[0] in FEED)
    evs = scan_pos(stream)
    return {
        'restart': any(o == 'R' for o in ops),
        'midfilter': any(o[0] in 'FSH' for o in mid),
        'empty': any(o == 'E' for o in ops),
        'long': any(e[0] == 'long' for e in evs),
        'frames': sum(e[0] == 'frame' for e in evs), 'bad': sum(e[0] == 'bad' for e in evs),
        'chunks': sum(o[0] in FEED for o in ops), 'bytes': len(stream),
        'maxpl': max([len(e[3]) for e in evs] or [0]),
    }


def occurrence_check(line, real_out):
    """first sentence of C03, checked literally: every delivered data packet is the class/id and payload of a
    distinct, non-overlapping, checksum-valid occurrence in the input, in stream order, and was in the filter.
    (only for lines without restart / empty_queue / filter changes after the first chunk)"""
    ops = expand_z(line).split('|', 1)[1].split(';')
    stream = b''.join(feed_bytes(o) for o in ops if o[0] in FEED)
    filt = None
    for o in ops:
        if o[0] in FEED:
            break
        if o[0] in 'FSH':
            filt = [tuple(map(int, x.split(':'))) for x in o[1:].split(',')] if len(o) > 1 else []
    pos = 0
    for tok in real_out.split(' '):
        if '/' not in tok or ':' not in tok:
            continue
        cid, h = tok.split(':')
        c, d = map(int, cid.split('/'))
        pl = bytes.fromhex(h)
        if len(pl) > MAXLEN:
            return f'delivered a payload of {len(pl)} bytes'
        if not filt or (c, d) not in filt:
            return f'delivered {c}/{d}, which is not in the filter'
        at = stream.find(frame(c, d, pl), pos)
        if at < 0:
            return f'delivered {tok[:60]} without a checksum-valid occurrence after offset {pos}'
        pos = at + 8 + len(pl)
    return None


def oracles_interleaved(kind, one, line, real_out):
    """several objects alive at once: each is judged as if it were alone"""
    seqs = line.split('|')[2:]
    outs = real_out.split(' ## ')
    merged, spec = {}, []
    for k, ops in enumerate(seqs):
        recs, sp = one(kind + '|' + ops, outs[k] if k < len(outs) else 'missing')
        spec += sp
        for r in recs:
            m = merged.get(r['prop'])
            if m is None or (m['ok'] and not r['ok']):
                merged[r['prop']] = dict(r, what=r['what'] + ' (several parser objects alive at once, each as if alone)',
                                         observed=(f'object {k}: ' if not r['ok'] else '') + r['observed'])
    return list(merged.values()), spec


def oracles_ubx(line, real_out):
    if line.startswith('ubxbulk|'):
        exp, pieces = spec_ubx(bulk_as_ops(line))
        exp = summarise(exp.split(' ')[:-1])
        what = 'a long history on one parser: every frame delivered exactly once and in order, one marker per bad frame, however many are waiting'
        return [{'prop': q, 'ok': real_out == exp, 'expected': exp, 'observed': real_out[:300], 'what': what} for q in ('C02', 'C03', 'C09', 'C11')], []
    if line.startswith('ubxil|'):
        return oracles_interleaved('ubx', oracles_ubx, line, real_out)
    line = canon_g(line)
    exp, pieces = spec_ubx(line)
    ft = features_ubx(line)
    recs = []
    simple = not (ft['restart'] or ft['empty'])         # (filter changes in mid-stream: the reference tracks the filter in force)
    real_t, exp_t = real_out.split(' '), exp.split(' ')
    data = lambda ts: [t for t in ts if '/' in t]
    rx = lambda ts: [t for t in ts if t.startswith('rx=')]
    marks = lambda ts: sum(t == 'crc' for t in ts)
    if simple and not ft['long']:
        ok = data(real_t) == data(exp_t) and rx(real_t) == rx(exp_t)
        recs.append({'prop': 'C02', 'ok': ok, 'expected': ' '.join(data(exp_t) + rx(exp_t))[:400],
                     'observed': ' '.join(data(real_t) + rx(real_t))[:400],
                     'what': 'well-formed frames delivered exactly once, in order, intact; counter = number of well-formed frames'})
    if simple:
        occ = occurrence_check(line, real_out) if not ft['midfilter'] else None
        ok = occ is None and data(real_t) == data(exp_t) and marks(real_t) == marks(exp_t)
        recs.append({'prop': 'C03', 'ok': ok, 'expected': exp[:400], 'observed': (occ or real_out)[:400],
                     'what': 'only checksum-valid occurrences are delivered; one error marker per bad frame; a long header hides nothing'})
    elif ft['restart'] and not ft['empty']:
        # restart() in the history: what is delivered afterwards are checksum-valid frames of the input that FOLLOWED it (the reference
        # scans the stretches between restarts separately) - nothing made of bytes from before
        ok = data(real_t) == data(exp_t) and marks(real_t) == marks(exp_t)
        recs.append({'prop': 'C03', 'ok': ok, 'expected': exp[:400], 'observed': real_out[:400],
                     'what': 'only checksum-valid occurrences are delivered, also after restart(): nothing dropped by it becomes part of a later packet'})
    if ft['restart'] or ft['chunks'] > 1:
        recs.append({'prop': 'C09', 'ok': real_out == exp, 'expected': exp[:400], 'observed': real_out[:400],
                     'what': 'chunking is irrelevant; after restart() the parser treats further input like a new parser, queue and counter kept'})
    recs.append({'prop': 'C11', 'ok': real_out == exp, 'expected': exp[:400], 'observed': real_out[:400],
                 'what': 'queued iff in the filter in force at the last byte; FIFO; sentinel; empty_queue; payloads never altered'})
    # cross-check of the Python port of the reference scanner against the Lean one
    spec = [{'line': 'specscan|' + p.hex(), 'expect': show_events(p)} for p in pieces if p]
    return recs, spec


# ---- NMEA reference ----------------------------------------------------------------------------------
HEX = b'0123456789abcdefABCDEF'


def nmea_count(s):
    """Spec.Nmea.count, ported; cross-checked against Lean through `nmeacount|hex`"""
    n = 0
    for i, c in enumerate(s):
        if c != 0x24:
            continue
        x, j = 0, i + 1
        while j < len(s) and s[j] not in (0x24, 0x2A):
            x ^= s[j]
            j += 1
        if j + 2 < len(s) and s[j] == 0x2A and s[j + 1] in HEX and s[j + 2] in HEX:
            if int(bytes(s[j + 1:j + 3]), 16) == x:
                n += 1
    return n


def oracles_nmea(line, real_out):
    if line.startswith('nmeail|'):
        return oracles_interleaved('nmea', oracles_nmea, line, real_out)
    ops = expand_z(line).split('|', 1)[1].split(';')
    pieces, seg = [], bytearray()
    for o in ops:
        if o[0] in FEED:
            seg += feed_bytes(o)
        elif o == 'R':
            pieces.append(bytes(seg))
            seg = bytearray()
    pieces.append(bytes(seg))
    total = sum(nmea_count(p) for p in pieces)
    exp = f'rx={total}'
    recs = []
    if len(pieces) == 1:
        recs.append({'prop': 'C16', 'ok': real_out == exp, 'expected': exp, 'observed': real_out,
                     'what': 'the counter equals the number of positions where a checksum-valid sentence starts'})
    recs.append({'prop': 'C09', 'ok': real_out == exp, 'expected': exp, 'observed': real_out,
                 'what': 'chunking is irrelevant; after restart() the NMEA parser counts further input like a new parser'})
    spec = [{'line': 'nmeacount|' + p.hex(), 'expect': str(nmea_count(p))} for p in pieces if p]
    return recs, spec


# =====================================================================================================
# generators
# =====================================================================================================
POOL = [0xb5, 0x62, 0x24, 0x2a, 0x00, 0xff]


def pick_cid(rng):
    """a class/id of the pool, or the class of one pool entry with the id of another (never itself in the pool)"""
    k = rng.random()
    if k < 0.65:
        return rng.choice(CIDS)
    if k < 0.85:
        return (rng.choice(CIDS)[0], rng.choice(CIDS)[1])
    if k < 0.9:
        return CRC                  # a real frame with the class/id the parser uses for its checksum-error marker
    # any byte as class and id, the protocol's own special characters included
    return (rng.choice([0x24, 0x2a, 0x62, 0xb5, 0x00, 0xff, rng.randrange(256)]), rng.choice([0x24, 0x2a, 0x62, 0xb5, 0x00, 0xff, rng.randrange(256)]))


def quoting_payload(rng):
    """a payload that quotes text: a complete valid sentence, a sentence cut short, sync characters"""
    return rng.choice([b'$GPGGA,1*52\r\n', b'$GP*17\r\n', b'note $GNTXT,01,01,02,ANT', long_sentence(rng)[:300], b'\xb5\x62\x05\x01'])


def rand_payload(rng, n):
    mode = rng.random()
    if mode < 0.15:
        return bytes([0xb5, 0x62] * (n // 2 + 1))[:n]
    return bytes(rng.choice(POOL) if rng.random() < 0.3 else rng.randrange(256) for _ in range(n))


def rand_len(rng):
    k = rng.random()
    if k < 0.45:
        return rng.randrange(0, 41)
    if k < 0.7:
        return rng.choice([254, 255, 256, 257, 258, 510, 511, 512, 513, 514, 998, 999, 1000])
    if k < 0.8:
        return rng.choice([1001, 1002, 1024, 4096, 65535])
    return rng.randrange(0, 1001)


def gap(rng):
    """filler that contains no B5 62 pair (it may end in a lone B5)"""
    k = rng.random()
    if k < 0.3:
        g = b'\xb5'
    elif k < 0.45:
        g = bytes(rng.choice([0xb5, 0x00, 0x24, 0x61]) for _ in range(rng.randrange(1, 5)))
    elif k < 0.6:
        g = nmea_sentence(b'GPRMC,1') + b'\r\n'
    elif k < 0.7:
        g = b'\xb5\xb5\xb5'
    elif k < 0.8:
        # a sentence cut short - no '*', no line end (the receiver was reset in the middle of its start-up banner, a UART overrun
        # dropped the tail): whatever kind it is, it is filler, and the frame behind it counts
        whole = rng.choice([b'$GNTXT,01,01,02,u-blox AG - www.u-blox.com*4E', b'$GPTXT,01,01,02,HW UBX-M8030 00080000*60', b'$GPGGA,092725.00,4717.11399,N,00833.91590,E,1,08,1.01,499.6,M,48.0,M,,*5B',
                            b'$GNRMC,083559.00,A,4717.11437,N,00833.91522,E,0.004,77.52,091202,,,A,V*57', b'$PUBX,00,081350.00,4717.113210,N,00833.915187,E,546.589,G3,2.1,2.0,0.007,77.52,0.007,,0.92,1.19,0.77,9,0,0*5F',
                            b'$GLGSV,1,1,00*65', b'$BDTXT,01,01,02,ANTSTATUS=OK*3F'])
        g = whole[:rng.randrange(1, len(whole))]
    else:
        g = bytes(rng.randrange(256) for _ in range(rng.randrange(1, 12)))
    return g.replace(b'\xb5\x62', b'\xb5\x63')


def grammar_stream(rng, allow_long=False):
    """items of C02's grammar: gap, then a frame that is valid or corrupted anywhere but in sync/length"""
    out = bytearray()
    for _ in range(rng.randrange(1, 6)):
        if rng.random() < 0.55:
            out += gap(rng)
        c, i = pick_cid(rng)
        n = rand_len(rng)
        if n > MAXLEN and not allow_long:
            n = rng.randrange(0, 1001)
        if n > MAXLEN:
            out += b'\xb5\x62' + bytes([c, i, n & 0xff, n >> 8])     # six header bytes; what follows is the next item
            continue
        f = bytearray(frame(c, i, rand_payload(rng, n) if rng.random() > 0.05 else quoting_payload(rng)))
        if rng.random() < 0.2:
            k = rng.choice([2, 3] + list(range(6, len(f))))          # class, id, payload or checksum; not the length
            f[k] ^= 1 << rng.randrange(8)
        out += f
    if rng.random() < 0.3:
        out += gap(rng)
    return bytes(out)


def summed_over_more(rng):
    """an abandoned start of a frame (sync pair, then part of a header or of a payload, or a header that announces too much) followed by a
    frame whose checksum bytes are the sums over the ABANDONED bytes and its own - so it is no well-formed frame; a parser that lets
    anything of the abandoned start into the next frame's sums takes it for one.  Returns (abandoned start, the frame)."""
    kind = rng.random()
    if kind < 0.2:
        stale = bytes([rng.choice([5, 6, 1]), rng.randrange(256), rng.randrange(1, 60)][:rng.randrange(1, 4)])      # cut short inside the header
        start = b'\xb5\x62' + stale
    elif kind < 0.4:
        n = rng.randrange(2, 40)                                                           # cut short inside the payload
        stale = bytes([rng.choice([5, 6, 1]), rng.randrange(256), n, 0]) + bytes(rng.randrange(256) for _ in range(rng.randrange(0, n)))
        start = b'\xb5\x62' + stale
    elif kind < 0.7:
        stale = bytes([rng.choice([5, 6, 1]), rng.randrange(256), rng.randrange(256), rng.choice([4, 0xb5, 0xb5, 0xff])])    # length > 1000
        start = b'\xb5\x62' + stale
    else:
        stale = bytes([rng.choice([5, 6]), 1, 2, 0, 6, 8])                               # a whole payload, checksum bytes missing
        start = b'\xb5\x62' + stale
    c, i = pick_cid(rng)
    pl = rand_payload(rng, rng.choice([0, 2, 2, 5]))
    body = bytes([c, i, len(pl) & 0xFF, len(pl) >> 8]) + pl
    a, b = fletcher(stale + body)
    return start, b'\xb5\x62' + body + bytes([a, b])


def wild_stream(rng):
    out = bytearray()
    for _ in range(rng.randrange(1, 6)):
        k = rng.random()
        if k < 0.25:
            out += bytes(rng.choice([0xb5, 0x62, 0, 0x24]) for _ in range(rng.randrange(0, 5)))
        elif k < 0.35:
            out += nmea_sentence(b'GPRMC,1') + b'\r\n'
        if rng.random() < 0.1:
            start, bad = summed_over_more(rng)
            if start[-1] == 0xb5 and rng.random() < 0.5:
                bad = bad[1:]                      # the last abandoned byte doubles as the first sync byte
            out += start + bad
            continue
        c, i = pick_cid(rng)
        f = bytearray(frame(c, i, rand_payload(rng, rand_len(rng))))
        r = rng.random()
        if r < 0.2:
            f[rng.randrange(0, len(f))] ^= 1 << rng.randrange(8)      # anywhere, sync and length included
        elif r < 0.3:
            f = f[:rng.randrange(1, len(f))]                          # truncated
        elif r < 0.36:
            inner = frame(*rng.choice(CIDS), rand_payload(rng, rng.randrange(0, 6)))
            f = bytearray(frame(c, i, inner + inner[:5]))            # frames nested in a payload
        out += f
    return bytes(out)


def chunkings(rng, data):
    yield 'whole', [data]
    yield 'one', [data[i:i + 1] for i in range(len(data))]
    yield '128', [data[i:i + 128] for i in range(0, len(data), 128)]
    out, i = [], 0
    while i < len(data):
        n = rng.choice([0, 1, 2, 3, 7, 50, 300])
        out.append(data[i:i + n])
        i += n
    yield 'rand', out
    # a reader that polls without blocking: runs of empty reads (ten, thirty in a row) anywhere, in the middle of a frame too
    out, i = [], 0
    while i < len(data):
        n = rng.choice([1, 2, 5, 40])
        out.append(data[i:i + n])
        if rng.random() < 0.3:
            out += [b''] * rng.choice([1, 9, 10, 11, 30])
        i += n
    yield 'idle', out[:400]


def filt_op(rng):
    k = rng.random()
    if k < 0.03:
        # a filter with numbers that do not fit a byte (a 16-bit message number not masked): entries that match no frame
        c, i = rng.choice(CIDS)
        return 'F' + ','.join(rng.sample([f'{c}:{i + 256 * rng.randrange(1, 5)}', f'{c + 256}:{i}', f'{c}:{i}', f'{c & 1}:{(c >> 1) * 256 + i}', f'{i}:{c * 256}'], rng.randrange(1, 4)))
    if k < 0.06:
        # a filter naming arbitrary class/ids
        return 'F' + ','.join(f'{rng.choice([0x24, 0x62, 0xb5, 0, 255, rng.randrange(256)])}:{rng.choice([0x24, 0x62, 0xb5, 0, 255, rng.randrange(256)])}'
                              for _ in range(rng.randrange(1, 4)))
    if k < 0.12:
        return 'F'
    if k < 0.2:
        c, i = rng.choice(CIDS)
        return f'S{c}:{i}'
    return 'F' + ','.join(f'{c}:{i}' for c, i in rng.sample(CIDS, rng.randrange(1, len(CIDS) + 1)))


def interleave(rng, kind, lines):
    """two or three generated lines as objects that live at the same time, their ops interleaved in bursts"""
    seqs = [ln.split('|', 1)[1] for ln in lines]
    total = sum(s.count(';') + 1 for s in seqs)
    sched = []
    while len(sched) < total + 3:
        k = rng.randrange(len(seqs)) if rng.random() > 0.04 else 9
        sched += [str(k)] * rng.choice([1, 1, 1, 2, 3])
    return f'{kind}il|' + ''.join(sched) + '|' + '|'.join(seqs)


TIME_STEPS = [1, 11 * 1024, 3600 * 1024, 400 * 86400 * 1024, -3600 * 1024, -20 * 365 * 86400 * 1024]


def with_containers(rng, ln):
    """the chunks handed over as other iterables of byte values than bytes"""
    kind, ops = ln.split('|', 1)
    k = rng.choice('ALMIG')
    return kind + '|' + ';'.join((rng.choice([k, k, 'P']) + o[1:]) if o[0] == 'P' else o for o in ops.split(';'))


def with_copies(rng, ln):
    """the history goes on with a copy of the parser (C<k>: deepcopy, pickle round trip, copy) at one or two points; filter
    changes re-use ONE list object (H instead of F)"""
    kind, ops = ln.split('|', 1)
    ops = ops.split(';')
    if kind == 'ubx' and rng.random() < 0.6:
        ops = [('H' + o[1:]) if o[0] == 'F' and len(o) > 1 else o for o in ops]
        first = next((o for o in ops if o[0] == 'H'), None)
        feeds = [k for k, o in enumerate(ops) if o[0] in FEED]
        if first and len(feeds) > 1:
            # the one list, edited in place to other class/ids - as many as before, or more, or fewer - and passed again
            cnt = first.count(',') + 1
            m = rng.choice([cnt, cnt, cnt + 1, max(1, cnt - 1)])
            new = 'H' + ','.join(f'{c}:{i}' for c, i in (rng.sample(CIDS, min(m, len(CIDS)))))
            ops.insert(rng.choice(feeds[1:]), new)
        if first and rng.random() < 0.5:
            # … a set_filter() for a single class/id in between, then the one list passed again as it is
            hs = [k for k, o in enumerate(ops) if o[0] == 'H']
            k = rng.choice(hs) + 1
            c, i = rng.choice(CIDS)
            ops[k:k] = [f'S{c}:{i}'] + ([rng.choice([o for o in ops if o[0] in FEED])] if rng.random() < 0.5 else []) + ['J']
    if rng.random() < 0.7 or kind != 'ubx':
        for _ in range(rng.choice([1, 1, 2])):
            ops.insert(rng.randrange(len(ops) + 1), f'C{rng.randrange(3)}')
    return kind + '|' + ';'.join(ops)


def with_meanwhile(rng, ln):
    """one or two of the chunks are processed while another parser object parses something of its own in the middle"""
    kind, ops = ln.split('|', 1)
    ops = ops.split(';')
    idx = [k for k, o in enumerate(ops) if o[0] == 'P' and len(o) > 1]
    for k in rng.sample(idx, min(len(idx), rng.choice([1, 1, 2]))):
        ops[k] = f'O{rng.choice([1, 2, 3, 5, 8, 13, 21, 40, 80])}:' + ops[k][1:]
    return kind + '|' + ';'.join(ops)


def with_lazy_restart(rng, ln):
    """one chunk comes from a lazy source that calls restart() on the parser between two of its bytes"""
    kind, ops = ln.split('|', 1)
    ops = ops.split(';')
    idx = [k for k, o in enumerate(ops) if o[0] == 'P' and len(o) > 4]
    if idx:
        k = rng.choice(idx)
        h = ops[k][1:]
        cut = 2 * rng.randrange(1, len(h) // 2)
        ops[k] = 'Z' + h[:cut] + '~' + h[cut:]
    return kind + '|' + ';'.join(ops)


def with_time(rng, ln):
    """time passes between two calls - a second, an hour, a year - or the wall clock is stepped back (a host that sets its
    clock from the receiver it is talking to)"""
    kind, ops = ln.split('|', 1)
    ops = ops.split(';')
    for _ in range(rng.choice([1, 1, 2, 3])):
        ops.insert(rng.randrange(len(ops) + 1), f'T{rng.choice(TIME_STEPS)}')
    return kind + '|' + ';'.join(ops)


BULK_TAILS = ['D', 'K;D', 'R;D', 'R;Pb56201070200aabb6f41b562010702000c0d2356b56201070200aabb6f41;D', 'E;Pb562010702000c0d2356;K;K']


def gen_ubx(rng, n, profile):
    """profile: 'grammar' (C02), 'wild' (C03), 'chunks' (C09), 'ops' (C11), 'mixed'; about one line in twelve runs two or
    three parser objects side by side; one in eight has time passing between the calls; a few are long histories"""
    if profile == 'bulk':
        # thorough tier: histories long enough for any 16-bit counter or table to wrap
        for size, mode, tail in [(40000, 0, 'D'), (70000, 0, 'K;D'), (70000, 2, BULK_TAILS[3]), (33000, 1, 'R;D')][:max(1, n)]:
            yield f'ubxbulk|{size}|{mode}|{tail}'
        return
    if n >= 100:
        # (a job is cut into shards of a few hundred lines: the big ones come with a probability, so that a run has one or two)
        sizes = [150, 300, 1100] + ([5000] if rng.random() < .25 else []) + ([20000] if rng.random() < .06 else [])
        for k, size in enumerate(sizes):
            yield f'ubxbulk|{size}|{(k + rng.randrange(3)) % 3}|{rng.choice(BULK_TAILS)}'
        yield f'ubxbulk|{rng.choice([120, 260, 1030])}|1|{BULK_TAILS[3]}'
    hold = []
    for ln in gen_ubx1(rng, n, profile):
        if rng.random() < 0.12:
            ln = with_time(rng, ln)
        if rng.random() < 0.1:
            ln = with_containers(rng, ln)
        if rng.random() < 0.12:
            ln = with_copies(rng, ln)
        if rng.random() < 0.1:
            ln = with_meanwhile(rng, ln)
        if rng.random() < 0.06 and profile in ('chunks', 'ops', 'mixed'):
            ln = with_lazy_restart(rng, ln)
        yield ln
        if rng.random() < 0.2 and len(ln) < 4000:
            hold.append(ln)
            if len(hold) >= rng.choice([2, 2, 3]):
                yield interleave(rng, 'ubx', hold)
                hold = []


def gen_ubx1(rng, n, profile):
    for k in range(n):
        prof = profile if profile != 'mixed' else rng.choice(['grammar', 'wild', 'chunks', 'ops'])
        stream = grammar_stream(rng, allow_long=prof != 'grammar') if prof in ('grammar', 'ops') or rng.random() < 0.4 else wild_stream(rng)
        first = [] if rng.random() < 0.05 else [filt_op(rng)]
        if prof in ('grammar', 'wild'):
            name, chunks = rng.choice(list(chunkings(rng, stream)))
            yield 'ubx|' + ';'.join(first + ['P' + c.hex() for c in chunks] + ['D'])
            if prof == 'wild' and rng.random() < 0.12:
                # restart() in the middle of a frame, then a frame whose checksum bytes are summed over what was dropped as well
                start, bad = summed_over_more(rng)
                yield 'ubx|' + ';'.join(first + ['P' + start.hex(), 'R', 'P' + (bad + frame(*pick_cid(rng), rand_payload(rng, 2))).hex(), 'D'])
        elif prof == 'chunks':
            if rng.random() < 0.5:
                for name, chunks in chunkings(rng, stream):
                    yield 'ubx|' + ';'.join(first + ['P' + c.hex() for c in chunks] + ['D'])
            else:                       # restart at a byte position
                cut = rng.randrange(0, len(stream) + 1)
                yield 'ubx|' + ';'.join(first + ['P' + stream[:cut].hex(), 'R', 'P' + stream[cut:].hex(), 'D'])
                if rng.random() < 0.3:
                    # restart() in the middle of a frame, then a frame whose checksum bytes are summed over what was dropped as well
                    start, bad = summed_over_more(rng)
                    yield 'ubx|' + ';'.join(first + ['P' + (stream[:cut] if rng.random() < 0.5 else b'').hex(), 'P' + start.hex(), 'R',
                                                     'P' + (bad + frame(*pick_cid(rng), rand_payload(rng, 2))).hex(), 'D'])
        else:
            name, chunks = rng.choice(list(chunkings(rng, stream))[2:])
            ops = list(first)
            for c in chunks:
                ops.append('P' + c.hex())
                r = rng.random()
                if r < 0.2:
                    ops.append('K')
                elif r < 0.25:
                    ops.append('R')
                elif r < 0.29:
                    ops.append('E')
                elif r < 0.4:
                    ops.append(filt_op(rng))
            yield 'ubx|' + ';'.join(ops + ['K', 'D', 'K'])


def long_sentence(rng, valid=True):
    """a sentence longer than the 82 characters NMEA 0183 allows its own: u-blox's proprietary ones ($PUBX,00 about 110, $PUBX,03
    several hundred) - well-formed is what has a matching checksum"""
    body = b'PUBX,03,' + bytes(rng.choice(b'0123456789,.-UeN') for _ in range(rng.choice([75, 76, 100, 250, 504, 505, 700, 1500])))
    x = 0
    for b in body:
        x ^= b
    return b'$' + body + b'*' + (b'%02X' % (x if valid else x ^ 1)) + b'\r\n'


def nmea_stream(rng):
    s = bytearray()
    for _ in range(rng.randrange(1, 6)):
        k = rng.random()
        if k < 0.12:
            s += bytes(rng.randrange(256) for _ in range(rng.randrange(1, 10)))
            continue
        if k < 0.2:
            s += frame(1, 7, bytes(rng.randrange(256) for _ in range(4)))
            continue
        body = bytes(rng.choice(b'GPRMC,12.5AN$*') if rng.random() < .9 else rng.randrange(256) for _ in range(rng.randrange(0, 14)))
        if rng.random() < 0.08:
            # a long sentence (proprietary ones are not held to 82 characters): hundreds to thousands of body bytes, no '$' or '*'
            body = bytes(rng.choice(b'PUBX,03.5AN-0123456789') for _ in range(rng.choice([82, 83, 84, 200, 255, 256, 511, 512, 513, 700, 1023, 1025, 2500, 4097])))
        if rng.random() < 0.15:
            # text that is well-formed in some multi-byte encoding (UTF-8, UTF-16, Latin-1): to the parser these are just bytes
            body = body[:4] + rng.choice(['é', 'Zürich', '€', '😀', 'ß*', 'ñ$']).encode(rng.choice(['utf-8', 'utf-8', 'latin-1', 'utf-16-le'])
                                                                                         if True else 'utf-8', 'ignore') + body[4:]
        x = 0
        for b in body:
            x ^= b
        cs = '%02X' % x
        r = rng.random()
        if r < .2:
            cs = cs.lower()
        elif r < .35:
            cs = '%02X' % (x ^ rng.choice([1, 0x10, 0x80]))
        elif r < .45:
            cs = cs[:1]
        elif r < .5:
            cs = 'G' + cs[1:]
        elif r < .55:
            cs = cs[:1] + 'g'
        elif r < .6:
            cs = ''
        s += b'$' + body + b'*' + cs.encode() + rng.choice([b'\r\n', b'\n', b'', b'\xb5\x62', b'\r', b'*'])
    return bytes(s)


def gen_nmea(rng, n, profile):
    """profile: 'count' (C16: no restart), 'chunks' (C09); about one line in twelve runs two or three parser objects side by side"""
    hold = []
    for ln in gen_nmea1(rng, n, profile):
        if rng.random() < 0.12:
            ln = with_time(rng, ln)
        if rng.random() < 0.1:
            ln = with_containers(rng, ln)
        if rng.random() < 0.12:
            ln = with_copies(rng, ln)
        if rng.random() < 0.1:
            ln = with_meanwhile(rng, ln)
        if rng.random() < 0.06 and profile in ('chunks', 'ops', 'mixed'):
            ln = with_lazy_restart(rng, ln)
        yield ln
        if rng.random() < 0.2 and len(ln) < 4000:
            hold.append(ln)
            if len(hold) >= rng.choice([2, 2, 3]):
                yield interleave(rng, 'nmea', hold)
                hold = []


def high_digit_sentences():
    """every byte from 0x80 up in either checksum-digit position, against every value the other digit and the body could make it
    'fit' under some folding of the byte to a hex digit: a byte that is no hex digit is no checksum digit, whatever arithmetic would
    make of it"""
    hexd = b'0123456789ABCDEF'
    for b in range(0x80, 0x100):
        for pos in (0, 1):
            for v in range(16):
                for other in ({(b >> 4) & 0xF, b & 0xF, (b & 0x5F) % 16, v}):
                    x = (v << 4 | other) if pos == 0 else (other << 4 | v)
                    a = 0x41 + (x >> 4)
                    c2 = a ^ x
                    body = bytes([a, c2]) if c2 not in (0x24, 0x2a, 0x0d, 0x0a, 0x00) and c2 < 0x80 else None
                    if body is None:
                        continue
                    digits = bytes([b, hexd[other]]) if pos == 0 else bytes([hexd[other], b])
                    yield b'$' + body + b'*' + digits + b'\r\n'


def odd_digit_sentences():
    """a sign, a blank, a TAB, CR or LF where one of the two checksum digits belongs, the other digit and the body chosen so that
    reading the pair as ONE number (with whatever a lenient conversion strips or accepts) would make it fit: no pair of hex digits,
    no sentence"""
    hexd = b'0123456789ABCDEF'
    out = []
    for ch in b'+- \t\r\n_':
        for pos in (0, 1):
            for v in range(16):
                x = v                         # the body's XOR is the one digit that is there
                a = 0x41
                c2 = a ^ x
                if c2 in (0x24, 0x2a, 0x0d, 0x0a):
                    continue
                digits = bytes([ch, hexd[v]]) if pos == 0 else bytes([hexd[v], ch])
                out.append(b'$' + bytes([a, c2]) + b'*' + digits + (b'\r\n' if ch not in b'\r\n' else b'x'))
    return out


def gen_nmea1(rng, n, profile):
    if profile == 'count':
        odd = odd_digit_sentences()
        for k in range(0, len(odd), 32):
            yield 'nmea|P' + b''.join(odd[k:k + 32]).hex()
        batch = b''
        for k, sn in enumerate(high_digit_sentences()):
            batch += sn
            if k % 64 == 63:
                yield 'nmea|P' + batch.hex()
                batch = b''
        if batch:
            yield 'nmea|P' + batch.hex()
    for _ in range(n):
        s = nmea_stream(rng)
        if profile == 'count':
            name, chunks = rng.choice(list(chunkings(rng, s)))
            yield 'nmea|' + ';'.join('P' + c.hex() for c in chunks)
        else:
            if rng.random() < 0.5:
                for name, chunks in chunkings(rng, s):
                    yield 'nmea|' + ';'.join('P' + c.hex() for c in chunks)
            else:
                cut = rng.randrange(0, len(s) + 1)
                yield 'nmea|' + ';'.join(['P' + s[:cut].hex(), 'R', 'P' + s[cut:].hex()])


def exhaustive_ubx_transitions():
    """one transition for each of the 9 states x 256 next bytes x situations, black box: the state is reached
    through process() by a driving prefix and observed through packet()/frames_rx after fixed continuations"""
    good = frame(6, 8, b'\x01\x02')
    cont = [good, b'', b'\xb5']
    prefixes = {
        'init': b'', 'sync': b'\xb5', 'cls': b'\xb5\x62', 'id': b'\xb5\x62\x05', 'len1': b'\xb5\x62\x05\x01',
    }
    for lo in (0, 1, 2, 255, 232, 233):                   # len2: announced length lo + 256*d around 0, 1000, 1001
        prefixes[f'len2/{lo}'] = b'\xb5\x62\x05\x01' + bytes([lo])
    f2 = frame(5, 1, b'\x06\x08')
    prefixes['data/last'] = f2[:7]                        # one payload byte missing
    prefixes['data/mid'] = f2[:6]
    prefixes['crc1'] = f2[:8]
    prefixes['crc2/match'] = f2[:9]
    bad = bytearray(f2)
    bad[8] ^= 1
    prefixes['crc2/bad-a'] = bytes(bad[:9])
    for name, pre in prefixes.items():
        for filt in ('F5:1,6:8', 'F', 'F1:3'):
            for d in range(256):
                for c in cont:
                    tail = bytes([d])
                    if name.startswith('data'):
                        # complete the frame with a checksum that is right for the byte actually fed
                        body = bytearray(f2[2:6]) + (bytearray([f2[6], d]) if name == 'data/last' else bytearray([d, 0x08]))
                        tail = bytes([d]) + (b'' if name == 'data/last' else b'\x08') + bytes(fletcher(body))
                    yield 'ubx|' + ';'.join([filt, 'P' + pre.hex(), 'P' + tail.hex(), 'P' + c.hex(), 'D'])


def exhaustive_nmea_transitions():
    pre = {'wait': b'', 'data': b'$GP', 'ck1': b'$GP*', 'ck2/match': b'$GP*1', 'ck2/miss': b'$GP*2', 'lineend': b'$GP*17'}
    for name, p in pre.items():
        for d in range(256):
            for cont in (b'', b'\n$GP*17', b'7\r\n', b'$GP*17\r\n'):
                yield 'nmea|' + ';'.join(['P' + p.hex(), 'P' + bytes([d]).hex() + cont.hex()])


# ---- UbxCID: equality, hash, membership (what the filter and the frame registry rest on) -----------------------
CID_GRID = [(c, i) for c in (0, 1, 2, 3, 4, 5, 6, 8, 0x0a, 0x0c, 0x10, 0x13, 0x14, 0x28, 0x62, 0xb5, 0xff)
            for i in (0, 1, 2, 3, 4, 7, 8, 9, 0x10, 0x14, 0x3e, 0x60, 0x62, 0xff)] + \
    [(5, 0x501), (0x105, 1), (1, 0x407), (0, 0x100), (1, 0x100), (0x100, 0), (5, 0x10001), (0x605, 0x801)]     # numbers that do not fit a byte


def real_cid(line):
    c, i = map(int, line.split('|')[1].split(':'))
    a = UbxCID(c, i)
    eq, neq, hsh, inl, dct = [], [], [], [], []
    table = {UbxCID(x, y): (x, y) for x, y in CID_GRID}
    for n, (x, y) in enumerate(CID_GRID):
        # the other side of the comparison: plain, of a subclass that carries a name, tagged after construction, a copy
        b = [UbxCID(x, y), NamedCID(x, y, 'named'), UbxCID(x, y), copy.deepcopy(UbxCID(x, y))][(n + c + i) % 4]
        if (n + c + i) % 4 == 2:
            b.label = 'tagged'
        if a == b:
            eq.append(f'{x}:{y}')
        if not (a != b):
            neq.append(f'{x}:{y}')
        if a in [b]:
            inl.append(f'{x}:{y}')
        if a == b and hash(a) != hash(b):
            hsh.append(f'{x}:{y}')
    got = table.get(a)
    return (f'eq={",".join(eq)} ne={",".join(neq)} in={",".join(inl)} hashdiff={",".join(hsh) or "-"} '
            f'dict={"%d:%d" % got if got else "missing"} size={len(table)} same={a == a} fields={a.cls}:{a.id}')


def oracles_cid(line, real_out):
    me = line.split('|')[1]
    exp = f'eq={me} ne={me} in={me} hashdiff=- dict={me} size={len(CID_GRID)} same=True fields={me}'
    what = 'two class/ids are equal exactly when class and id are equal (==, !=, in, hash, dict lookup agree)'
    return [{'prop': p, 'ok': real_out == exp, 'expected': exp, 'observed': real_out[:300], 'what': what} for p in ('C04', 'C10', 'C11')], []


def gen_cid(rng, n, profile):
    for c, i in CID_GRID:
        yield f'cid|{c}:{i}'


COMPONENTS = {
    'cid': {'real': real_cid, 'oracles': oracles_cid, 'gen': gen_cid},
    'ubx': {'real': real_ubx, 'oracles': oracles_ubx, 'gen': gen_ubx, 'features': features_ubx, 'model_line': model_line_ubx,
            'exhaustive': exhaustive_ubx_transitions},
    'nmea': {'real': real_nmea, 'oracles': oracles_nmea, 'gen': gen_nmea, 'exhaustive': exhaustive_nmea_transitions},
}

"""Shrinking of a failing input before it is written out as a replay.

A candidate is kept only if the SAME oracle of the SAME property still fails on it when it is run through the real
code again - so whatever comes out is a genuine failing input, only a smaller one.  Components opt in (MODES): their
oracles must be self-contained, i.e. computed from the line alone and not from an invariant their generator set up.
Nothing here decides a verdict; a shrink that finds nothing leaves the original input in place."""
import json
import re
import time

HEXTOK = re.compile(r'^([A-Za-z]?)((?:[0-9a-f]{2})+)$')
SEPS = [';', '/', ',', ' ', ':']

# component -> 'remove' (the structure may get shorter) | 'zero' (same shape: bytes are zeroed, never removed)
MODES = {'ubx': 'remove', 'nmea': 'remove', 'gpsd': 'remove', 'scan': 'remove', 'srv': 'remove', 'level': 'remove', 'seq': 'json',
         'valset': 'remove', 'fields': 'zero', 'assign': 'zero', 'ch': 'zero', 'key': 'zero', 'render': 'zero'}


def chunk_removals(parts):
    """the list with one chunk removed: halves first, then quarters, … single elements"""
    n = len(parts)
    size = n // 2
    while size >= 1:
        for i in range(0, n, size):
            yield parts[:i] + parts[i + size:]
        size //= 2


def chunk_zeroings(pairs):
    n = len(pairs)
    size = max(1, n // 2)
    while size >= 1:
        for i in range(0, n, size):
            if any(p != '00' for p in pairs[i:i + size]):
                yield pairs[:i] + ['00'] * len(pairs[i:i + size]) + pairs[i + size:]
        if size == 1:
            break
        size //= 2


def token_variants(tok, mode, depth=0):
    """smaller versions of one field / token"""
    m = HEXTOK.match(tok)
    if m and len(m.group(2)) >= 2:
        pre, h = m.groups()
        pairs = [h[i:i + 2] for i in range(0, len(h), 2)]
        if mode == 'remove':
            for c in chunk_removals(pairs):
                yield pre + ''.join(c)
        else:
            for c in chunk_zeroings(pairs):
                yield pre + ''.join(c)
        return
    if len(tok) > 1 and tok[0].isalpha() and tok[0].isupper() and ';' not in tok and '/' not in tok and any(sep in tok for sep in SEPS[depth:]):
        # an operation letter in front of a list: the letter stays
        for v in token_variants(tok[1:], mode, depth):
            yield tok[0] + v
        return
    for sep in SEPS[depth:]:
        if sep in tok:
            parts = tok.split(sep)
            if mode == 'remove' and sep != ':':
                for c in chunk_removals(parts):
                    if c:
                        yield sep.join(c)
            for i, p in enumerate(parts):
                for v in token_variants(p, mode, SEPS.index(sep) + 1):
                    yield sep.join(parts[:i] + [v] + parts[i + 1:])
            return


def line_candidates(line, mode):
    fields = line.split('|')
    for i in range(len(fields) - 1, 0, -1):            # the last fields are usually the long ones
        for v in token_variants(fields[i], mode):
            yield '|'.join(fields[:i] + [v] + fields[i + 1:])


def json_candidates(line):
    """seqs|{scenario}: drop requests (history only, when the scenario carries an expectation about its last request),
    drop arrivals, shorten arrivals, the plain back end instead of a real one"""
    head, body = line.split('|', 1)
    sc = json.loads(body)

    def emit(x):
        return head + '|' + json.dumps(x, separators=(',', ':'))
    reqs = sc['reqs']
    keep_last = 'expect' in sc
    idx = list(range(len(reqs) - 1 if keep_last else len(reqs)))
    for c in chunk_removals(idx):
        keep = c + ([len(reqs) - 1] if keep_last else [])
        if keep and len(keep) < len(reqs):
            yield emit(dict(sc, reqs=[reqs[k] for k in keep]))
    if sc.get('backend', 'base') != 'base':
        yield emit(dict(sc, backend='base'))
    if keep_last:
        return                    # the arrivals are what makes the expectation true: left alone
    for ri, r in enumerate(reqs):
        for ai, tl in enumerate(r['timelines']):
            for c in chunk_removals(list(range(len(tl)))):
                nr = dict(r, timelines=r['timelines'][:ai] + [[tl[k] for k in c]] + r['timelines'][ai + 1:])
                yield emit(dict(sc, reqs=reqs[:ri] + [nr] + reqs[ri + 1:]))
            for ei, (off, h) in enumerate(tl):
                for v in token_variants(h, 'remove'):
                    ntl = tl[:ei] + [[off, v]] + tl[ei + 1:]
                    nr = dict(r, timelines=r['timelines'][:ai] + [ntl] + r['timelines'][ai + 1:])
                    yield emit(dict(sc, reqs=reqs[:ri] + [nr] + reqs[ri + 1:]))
        if r.get('payload'):
            yield emit(dict(sc, reqs=reqs[:ri] + [dict(r, payload='')] + reqs[ri + 1:]))


def candidates(component, line):
    mode = MODES.get(component)
    if mode is None:
        return
    seen = {line}
    gen = json_candidates(line) if mode == 'json' else line_candidates(line, mode)
    try:
        for c in gen:
            if c not in seen and (len(c) < len(line) or mode == 'zero'):
                seen.add(c)
                yield c
    except (ValueError, KeyError, IndexError, TypeError):
        return


def shrink(component, line, still_fails, budget_s=10.0, batch=40, per_round=400):
    """`still_fails(list of lines) -> list of bool`; greedy: the first (largest) reduction that still fails is taken,
    until none does or the time is up.  Returns (line, rounds, candidates tried)."""
    t_end = time.time() + budget_s
    best, rounds, tried = line, 0, 0
    while time.time() < t_end:
        cands = []
        for c in candidates(component, best):
            cands.append(c)
            if len(cands) >= per_round:
                break
        found = None
        for i in range(0, len(cands), batch):
            if time.time() >= t_end:
                break
            part = cands[i:i + batch]
            tried += len(part)
            try:
                oks = still_fails(part)
            except Exception:
                return best, rounds, tried
            for c, ok in zip(part, oks):
                if ok:
                    found = c
                    break
            if found:
                break
        if not found:
            break
        best, rounds = found, rounds + 1
    return best, rounds, tried

"""Registry of correspondence components; modules are imported lazily so that a broken part of the
repository under test only takes down the components that need it."""
import importlib

MODULES = {
    'ubx': 'comp_parsers', 'nmea': 'comp_parsers', 'cid': 'comp_parsers',
    'frame': 'comp_codec', 'ck': 'comp_codec', 'fields': 'comp_codec', 'ch': 'comp_codec', 'subitem': 'comp_codec', 'assign': 'comp_codec',
    'key': 'comp_codec', 'valset': 'comp_codec', 'gnss': 'comp_codec', 'helper': 'comp_codec', 'render': 'comp_codec',
    'srv': 'comp_server', 'seq': 'comp_server', 'tty': 'comp_server', 'scan': 'comp_server',
    'gpsd': 'comp_server', 'gpsdtx': 'comp_server', 'level': 'comp_server',
}


def get(name):
    return importlib.import_module(MODULES[name]).COMPONENTS[name]

#!/usr/bin/env python3
"""Correspondence prototype: same scenarios through the real ubxlib and the Lean driver."""
import json as _json, sys, os, random, subprocess, logging
REPO = sys.argv[1] if len(sys.argv) > 1 else '/root/work/repo-fixed'
SEED = int(os.environ.get('VERIF_SEED', '0'))
sys.path.insert(0, REPO)
logging.getLogger('ubxlib').addHandler(logging.NullHandler())
logging.getLogger('ubxlib').setLevel(logging.CRITICAL)
from ubxlib.cid import UbxCID
from ubxlib.parser_ubx import UbxParser
from ubxlib.parser_nmea import NmeaParser
from ubxlib.frame import UbxFrame
from ubxlib.frame_factory import FrameFactory
import ubxlib.server_base as sb

rng = random.Random(SEED)

def frame(cls, id, pl):
    b = bytearray([0xb5, 0x62, cls, id, len(pl) & 0xff, len(pl) >> 8]) + bytearray(pl)
    a = c = 0
    for x in b[2:]:
        a = (a + x) & 0xff; c = (c + a) & 0xff
    return bytes(b + bytes([a, c]))

def rand_payload(n):
    pool = [0xb5, 0x62, 0x24, 0x2a, 0x00, 0xff]
    return bytes(rng.choice(pool) if rng.random() < 0.3 else rng.randrange(256) for _ in range(n))

CIDS = [(5, 1), (5, 0), (6, 8), (1, 3), (0x13, 0x60)]

def rand_stream():
    out = bytearray()
    for _ in range(rng.randrange(1, 6)):
        k = rng.random()
        if k < 0.25:
            out += bytes(rng.choice([0xb5, 0x62, 0, 0x24]) for _ in range(rng.randrange(0, 4)))
        elif k < 0.35:
            out += b'$GPRMC,1*2C\r\n'
        c, i = rng.choice(CIDS)
        n = rng.choice([0, 1, 2, 2, 8, 40, 254, 255, 256, 999, 1000, 1001])
        f = bytearray(frame(c, i, rand_payload(n)))
        r = rng.random()
        if r < 0.15: f[rng.randrange(2, len(f))] ^= 1 << rng.randrange(8)      # corrupt (maybe the length)
        elif r < 0.22: f = f[:rng.randrange(1, len(f))]                         # truncate
        out += f
    return bytes(out)

def chunks(data):
    mode = rng.choice(['whole', 'one', '128', 'rand'])
    if mode == 'whole': return [data]
    if mode == 'one': return [data[i:i+1] for i in range(len(data))]
    if mode == '128': return [data[i:i+128] for i in range(0, len(data), 128)]
    out, i = [], 0
    while i < len(data):
        n = rng.choice([0, 1, 2, 3, 7, 50]); out.append(data[i:i+n]); i += n
    return out

def ubx_case():
    ops = []
    if rng.random() < 0.9:
        ops.append('F' + ','.join(f'{c}:{i}' for c, i in rng.sample(CIDS, rng.randrange(0, 4))))
    for ch in chunks(rand_stream()):
        ops.append('P' + ch.hex())
        r = rng.random()
        if r < 0.2: ops.append('K')
        elif r < 0.25: ops.append('R')
        elif r < 0.28: ops.append('E')
        elif r < 0.33: ops.append('F' + ','.join(f'{c}:{i}' for c, i in rng.sample(CIDS, rng.randrange(0, 3))))
    ops += ['K'] * 8
    return 'ubx|' + ';'.join(ops)

def real_ubx(ops):
    p = UbxParser(UbxCID(0, 2)); out = []
    for op in ops.split(';'):
        if op[0] == 'P': p.process(bytes.fromhex(op[1:]))
        elif op == 'K':
            cid, data = p.packet()
            out.append('none' if cid is None else ('crc' if data is None else f'{cid.cls}/{cid.id}:{bytes(data).hex()}'))
        elif op == 'R': p.restart()
        elif op == 'E': p.empty_queue()
        elif op[0] == 'F':
            p.set_filters([UbxCID(*map(int, x.split(':'))) for x in op[1:].split(',')] if len(op) > 1 else [])
    return ' '.join(out + [f'rx={p.frames_rx}', f'q={len(p.rx_queue)}'])

def nmea_case():
    s = bytearray()
    for _ in range(rng.randrange(1, 5)):
        body = bytes(rng.choice(b'GPRMC,12.5AN$*') if rng.random() < .9 else rng.randrange(256) for _ in range(rng.randrange(0, 12)))
        x = 0
        for b in body: x ^= b
        cs = '%02X' % x
        r = rng.random()
        if r < .2: cs = cs.lower()
        elif r < .35: cs = '%02X' % (x ^ 1)
        elif r < .45: cs = cs[:1]
        elif r < .5: cs = 'G' + cs[1:]
        s += b'$' + body + b'*' + cs.encode() + rng.choice([b'\r\n', b'\n', b'', b'\xb5\x62'])
    ops = []
    for ch in chunks(bytes(s)):
        ops.append('P' + ch.hex())
        if rng.random() < 0.1: ops.append('R')
    return 'nmea|' + ';'.join(ops)

def real_nmea(ops):
    p = NmeaParser()
    try:
        for op in ops.split(';'):
            if op[0] == 'P': p.process(bytes.fromhex(op[1:]))
            elif op == 'R': p.restart()
    except Exception as e:
        return 'EXC:' + type(e).__name__
    return f'rx={p.frames_rx}'

class Clock:
    def __init__(self): self.ticks = 1024 * 1024
    def time(self): return self.ticks / 1024.0
CLK = Clock()
sb.time = CLK

class Req(UbxFrame):
    pass

def make_req(cls_, id_, payload, minlen):
    class Resp(UbxFrame):
        CID = UbxCID(cls_, id_); NAME = 'resp'
        def unpack(self):
            if len(self.data) < minlen: raise ValueError
    class R(UbxFrame):
        CID = UbxCID(cls_, id_); NAME = 'req'
        def pack(self): self.data = bytearray(payload)
        def _cls_response(self): return Resp
    return R()

class Srv(sb.UbxServerBase_):
    def __init__(self, txl, rxl):
        super().__init__(); self.txl, self.rxl = txl, rxl; self.sent = []; self.nrx = 0; self.calls = ''
    def _recover(self): self.calls += 'v'
    def _flush_input(self): self.calls += 'f'
    def _transmit(self, data):
        k = len(self.sent); self.sent.append(bytes(data)); self.calls += 't'
        return self.txl[k] if k < len(self.txl) else True
    def _receive(self):
        j = self.nrx; self.nrx += 1; self.calls += 'r'
        dt, data = self.rxl[j] if j < len(self.rxl) else (100, b'')
        CLK.ticks += max(1, dt)
        return data or None

ANS = {'set': [(5, 1), (5, 0)], 'mga': [(0x13, 0x60)]}

def srv_case():
    kind = rng.choice(['set', 'set', 'mga', 'poll', 'poll', 'faf'])
    cls_, id_ = (0x13, 0x40) if kind == 'mga' else rng.choice([(6, 8), (6, 0x3e), (1, 3), (0x0a, 4)])
    payload = rand_payload(rng.choice([0, 1, 6]))
    minlen = rng.choice([0, 2, 6])
    retries = rng.randrange(0, 4); delay = rng.choice([0, 1, 125, 500, 1000, 1800])
    txl = [rng.random() < 0.85 for _ in range(retries + 1)]
    rx = []
    for _ in range(rng.randrange(0, 9)):
        dt = rng.choice([1, 1, 5, 50, 100, 128, 512, 1024])
        k = rng.random(); data = b''
        if k < 0.15: data = b''
        elif k < 0.3: data = bytes(rng.randrange(256) for _ in range(rng.randrange(1, 6)))
        else:
            fr = bytearray()
            for _ in range(rng.choice([1, 1, 1, 2, 3])):
                t = rng.random()
                if t < 0.3: f = frame(5, 1, [cls_, id_] if rng.random() < .7 else [cls_, id_ ^ 1])
                elif t < 0.4: f = frame(5, 0, [cls_, id_])
                elif t < 0.5: f = frame(5, 1, [cls_][:rng.randrange(0, 2)])
                elif t < 0.7: f = frame(cls_, id_, rand_payload(rng.choice([0, 2, 6, 8])))
                elif t < 0.85: f = frame(0x13, 0x60, [rng.choice([0, 1, 1, 2]), 0, 0, id_, 1, 2, 3, 4][:rng.choice([8, 8, 3])])
                else: f = frame(1, 7, rand_payload(4))
                f = bytearray(f)
                if rng.random() < 0.12: f[-1] ^= 0x10
                fr += f
            data = bytes(fr)
            if rng.random() < 0.3:
                cut = rng.randrange(1, len(data)); rx.append((dt, data[:cut])); data = data[cut:]
        rx.append((dt, data))
    line = '|'.join(['srv', kind, f'{cls_}:{id_}', payload.hex(), str(minlen), str(retries), str(delay),
                     ','.join('1' if t else '0' for t in txl), ','.join(f'{dt}:{d.hex()}' for dt, d in rx)])
    return line, (kind, cls_, id_, payload, minlen, retries, delay, txl, rx)

def real_srv(spec):
    kind, cls_, id_, payload, minlen, retries, delay, txl, rx = spec
    FrameFactory.destroy()
    CLK.ticks = 1024 * 1024
    s = Srv(txl, rx); s.setup(); s.set_retries(retries); s.set_retry_delay(delay)
    req = make_req(cls_, id_, payload, minlen)
    t0 = CLK.ticks
    try:
        r = {'set': s.set, 'mga': s.set_mga, 'poll': s.poll, 'faf': s.fire_and_forget}[kind](req)
        if r is None: rs = 'none'
        else:
            tag = 'resp' if type(r).__name__ == 'Resp' else type(r).__name__
            rs = f'{r.CID.cls}/{r.CID.id}:{tag}:{bytes(r.data).hex()}'
    except Exception as e:
        rs = 'EXC:' + type(e).__name__
    same = all(x == s.sent[0] for x in s.sent)
    return f'{rs} sent={len(s.sent)} nrx={s.nrx} t={CLK.ticks - t0} calls={s.calls} same={"true" if same else "false"}'

def main():
    n = int(os.environ.get('N', '300'))
    lines, real = [], []
    for _ in range(n):
        l = ubx_case(); lines.append(l); real.append(real_ubx(l.split('|', 1)[1]))
    for _ in range(n):
        l = nmea_case(); lines.append(l); real.append(real_nmea(l.split('|', 1)[1]))
    for _ in range(n):
        l, spec = srv_case(); lines.append(l); real.append(real_srv(spec))
    model = subprocess.run(['/root/work/lean/.lake/build/bin/driver'], input='\n'.join(lines) + '\n',
                           capture_output=True, text=True).stdout.splitlines()
    bad = 0
    kinds = {}
    mism = []
    for l, r, m in zip(lines, real, model):
        k = l.split('|')[0] + ('/' + l.split('|')[1] if l.startswith('srv') else '')
        kinds.setdefault(k, [0, 0]); kinds[k][0] += 1
        if r != m:
            kinds[k][1] += 1; bad += 1
            if kinds[k][1] <= 3: mism.append({'in': l, 'real': r, 'model': m})
            if bad <= 6: print('MISMATCH\n  in   ', l[:300], '\n  real ', r[:300], '\n  model', m[:300])
    print('cases', len(lines), 'model lines', len(model), 'mismatches', bad, kinds)
    if os.environ.get('OUT'):
        _json.dump({'cases': len(model), 'kinds': kinds, 'mismatches': mism[:200], 'samples': [x[:200] for x in (lines if 'lines' in dir() else [c[0] for c in cases])[:3]]}, open(os.environ['OUT'], 'w'))
main()

"""Components over the pure codecs: frame serialisation, checksum, field containers of every message class,
configuration items, VALSET/VALGET, convenience helpers, renderers.

line formats (shared with lean/Driver.lean; the oracle lines go to lean/SpecDriver.lean)
  frame|cls|id|<payload hex>                 to_bytes() twice            -> <hex> same|DIFF
  framegen|cls|id|len|seed|mode              payload expanded by the shared LCG -> len=… head=… tail=… h=… same|DIFF
  ck|a|b                                     add(x) for all x from state (a,b) -> 512 bytes hex
  ckrow|a                                    digest over all b, x
  ckm|a|b                                    the pairs matches() accepts in state (a,b)
  ckseq|<hex>                                value() after reset + adds
  fields|<Class>|<payload hex>               construct + pack            -> name=v,… pack=<hex>
  assign|<Class>|<payload hex>|field|value   construct, assign, pack, construct again
  keypack|g|i|bits|signed|value   keyunpack|<hex>   fromkey|key|value   keystr|g|i|bits|signed|value
  valset|g,i,bits,signed,value;…   valgetpoll|k,k,…   valget|<payload hex>
  gnss|op|system|id:flags,…   helper|<name>|args…
  render|<item class>|value|derived-from     str|<Class>|<payload hex or ->|field=value,…
"""
import datetime
import importlib
import inspect
import pkgutil
import copy
import decimal
import enum
import fractions
import pickle
import struct
import sys
import zlib

from lib import fletcher, frame as wire_frame
import realenv
from realenv import exc_name

import ubxlib
from ubxlib.frame import UbxFrame
from ubxlib.cid import UbxCID
from ubxlib.checksum import Checksum
from ubxlib.types import Padding, CH, Item
from ubxlib.cfgkeys import CfgKeyData, UbxKeyId


def find_class(name):
    for m in pkgutil.iter_modules(ubxlib.__path__):
        if m.name.startswith('ubx_'):
            mod = importlib.import_module('ubxlib.' + m.name)
            c = getattr(mod, name, None)
            if inspect.isclass(c) and c.__module__ == mod.__name__:
                return c
    raise KeyError(name)


# fixed payload sizes (u-blox interface description); None = built from the payload
CLASSES = {
    'UbxAckAck': 2, 'UbxAckNak': 2, 'UbxCfgCfgAction': 12, 'UbxCfgEsfAlg': 12, 'UbxCfgEsflaSet': 12, 'UbxCfgNav5': 36,
    'UbxCfgNavx5': 44, 'UbxCfgNmea': 20, 'UbxCfgPrtUart': 20, 'UbxCfgPrtPoll': 1, 'UbxCfgRate': 6, 'UbxCfgRstAction': 4,
    'UbxCfgTp5': 32, 'UbxCfgTp5Poll': 1, 'UbxEsfAlg': 16, 'UbxEsfMeas': 12, 'UbxMgaAckData0': 8, 'UbxMgaIniTimeUtc': 24,
    'UbxNavStatus': 16, 'UbxUpdSos': 8, 'UbxUpdSosAction': 4,
    'UbxCfgGnss': None, 'UbxCfgEsfla': None, 'UbxEsfStatus': None, 'UbxMonVer': None,
}
TEXT_RANGES = {'UbxCfgNmea': [(12, 2)]}
COUNT_AT = {'UbxCfgGnss': 3, 'UbxCfgEsfla': 1, 'UbxEsfStatus': 15}
COUNT_FIELD = {'UbxCfgGnss': 'numConfigBlocks', 'UbxCfgEsfla': 'numConfigs', 'UbxEsfStatus': 'numSens'}


def blocks_of(name, pl):
    """number of repeated blocks a payload of a dynamic class announces (what the specification says)"""
    if name == 'UbxCfgGnss':
        return pl[3] if len(pl) > 3 else 0
    if name == 'UbxCfgEsfla':
        return pl[1] if len(pl) > 1 else 0
    if name == 'UbxEsfStatus':
        return pl[15] if len(pl) > 15 else 0
    if name == 'UbxMonVer':
        return max(0, (len(pl) - 40) // 30)
    return 0


def text_ranges(name, pl):
    if name == 'UbxMonVer':
        return [(0, 30), (30, 10)] + [(40 + 30 * k, 30) for k in range(max(0, (len(pl) - 40) // 30))]
    return TEXT_RANGES.get(name, [])


def decodable(b):
    try:
        bytes(b).decode()
        return True
    except UnicodeDecodeError:
        return False


def wellformed(name, pl):
    """R6: exactly the prescribed length; text fields hold what the interpreter's strict UTF-8 codec decodes"""
    size = CLASSES[name]
    n = blocks_of(name, pl)
    if name == 'UbxCfgGnss':
        size = 4 + 8 * n
    elif name == 'UbxCfgEsfla':
        size = 4 + 8 * n
        if n > 5:
            return False
    elif name == 'UbxEsfStatus':
        size = 16 + 4 * n
    elif name == 'UbxMonVer':
        size = 40 + 30 * n
        if len(pl) < 40:
            return False
    if len(pl) != size:
        return False
    return all(decodable(pl[off:off + ln]) for off, ln in text_ranges(name, pl))


def show(v):
    if isinstance(v, str):
        return 's:' + v.encode('utf-8', 'surrogateescape').hex()
    if isinstance(v, bool):
        return str(int(v))
    return str(v)


def ordered_items(f):
    return sorted(f.f._fields.values(), key=lambda it: it.order)


def has_nonascii_text(name, pl):
    if name == 'UbxMonVer':
        return any(b >= 0x80 for b in pl)
    return any(b >= 0x80 for off, ln in TEXT_RANGES.get(name, []) for b in pl[off:off + ln])


UTF8_GOOD = ['é', '°', 'µ', 'ß', '€', '中', '\u0800', '\ud7ff', '\ue000', '\uffff', '😀', '\U00010000', '\U0010ffff', '\x7f', '\x80', '\u07ff']
UTF8_BAD = [b'\x80', b'\xbf', b'\xc0\x80', b'\xc1\xbf', b'\xc3', b'\xe0\x80\x80', b'\xe0\x9f\xbf', b'\xed\xa0\x80', b'\xed\xbf\xbf',
            b'\xf0\x80\x80\x80', b'\xf0\x8f\xbf\xbf', b'\xf4\x90\x80\x80', b'\xf5\x80\x80\x80', b'\xff', b'\xe2\x82', b'\xf0\x9f\x98', b'\xc3\x28',
            b'\xe2\x28\xa1', b'\xf8\x88\x80\x80\x80']


def sprinkle_text(rng, pl, off, ln):
    """multi-byte characters (mostly well-formed, at any position, also cut by the end of the field) into a text field"""
    for _ in range(rng.choice([1, 1, 2, 3])):
        seq = rng.choice(UTF8_GOOD).encode() if rng.random() < .8 else rng.choice(UTF8_BAD)
        at = off + rng.randrange(ln)
        seq = seq[:off + ln - at]
        pl[at:at + len(seq)] = seq


# =====================================================================================================
# frame / checksum
# =====================================================================================================
def lcg_payload(n, seed, mode):
    """shared with the Lean drivers: x' = (1103515245 x + 12345) mod 2^31, byte = (x >> 16) & 0xFF;
    mode 1: all FF, mode 2: sync-dense (B5 62 repeated)"""
    if mode == 1:
        return bytes([0xFF]) * n
    if mode == 2:
        return bytes([0xB5, 0x62] * (n // 2 + 1))[:n]
    out = bytearray(n)
    x = seed
    for i in range(n):
        x = (1103515245 * x + 12345) % 2147483648
        out[i] = (x >> 16) & 0xFF
    return bytes(out)


def digest(bs):
    h = 0
    for b in bs:
        h = (h * 31 + b) % 4294967296
    return h


def make_frame(cls_, id_):
    """a frame of a class the library has no class for, as an application writes it: the class/id a class constant, or set on the
    instance by a generic frame class (which one: by the class/id)"""
    if (cls_ * 7 + id_) % 3 == 0:
        class G(UbxFrame):
            NAME = 'GENERIC'

            def __init__(self):
                super().__init__()
                self.CID = UbxCID(cls_, id_)
        return G()

    class F(UbxFrame):
        CID = UbxCID(cls_, id_)
    return F()


def real_frameseq(line):
    """one frame object serialised again and again while its payload is replaced (N: a new bytearray object,
    I: the same object changed in place) - the frame is mutable state, and `any frame` includes an edited one"""
    p = line.split('|')
    f = make_frame(int(p[1]), int(p[2]))
    out = []
    try:
        for step in p[3].split(';'):
            mode, h = step.split(':')
            pl = bytes.fromhex(h)
            if mode == 'N':
                f.data = bytearray(pl)
            elif mode in ('B', 'C'):
                if mode == 'B':
                    # a serialisation that fails part-way (a payload that is no byte sequence), the mistake repaired, the
                    # same object used again
                    f.data = [None, 'text', [1, 2, None], [1, 300], b'ab' and 3.5][len(pl) % 5]
                    try:
                        f.to_bytes()
                    except Exception:
                        pass
                else:
                    f.checksum.add(0x55)       # the frame's checksum member is public; somebody used it
                    f.checksum.add(0xaa)
                f.data = bytearray(pl)
            elif mode == 'D':
                # a decode that is refused (payload too short for the fields) and an encode that is refused (a value that does not fit),
                # both caught by the caller; the fields are set up anew as the dynamic messages do, and the same object is used again
                from ubxlib.types import U4, Fields
                f.f.add(U4('q'))
                f.data = bytearray(b'\x01')
                try:
                    f.unpack()
                except Exception:
                    pass
                f.f.q = 1 << 40
                try:
                    f.pack()
                except Exception:
                    pass
                f.f = Fields()
                f.data = bytearray(pl)
            elif mode == 'I':
                f.data[:] = pl
            elif mode == 'X':          # in place, one byte at a time
                del f.data[len(pl):]
                for k, b in enumerate(pl):
                    if k < len(f.data):
                        f.data[k] = b
                    else:
                        f.data.append(b)
            r = realenv.in_thread(f.to_bytes)
            out.append(bytes(r).hex())
            if bytes(f.data) != pl:
                out.append('DATA-CHANGED')
            # what to_bytes() returns is the caller's: a back end may consume it while writing (`del data[:n]` after a short write),
            # a caller may patch it - the next serialisation says the same as ever (which lines do this depends on the line)
            if isinstance(r, bytearray) and zlib.crc32(line.encode()) % 2 == 0:
                k = zlib.crc32(h.encode()) % 3
                if k == 0:
                    del r[:max(1, len(r) // 2)]
                elif k == 1:
                    r[0] ^= 0xFF
                    r.append(0)
                else:
                    r.clear()
    except Exception as e:
        out.append('EXC:' + exc_name(e))
    return ' '.join(out)


def real_framefam(line):
    """frames of a family of classes serialised one after the other: step = <parent>:<cls>:<id>:<payload hex> with parent
    B (an instance of UbxFrame itself, class/id 0/0), U (a new class derived from UbxFrame) or j (a new class derived from
    the class of step j, overriding CID) - what one class serialised must not depend on what another did before"""
    p = line.split('|')
    classes, out = [], []
    try:
        for step in p[1].split(';'):
            par, c, i, h = step.split(':')
            if par == 'B':
                cls = UbxFrame
            else:
                base = UbxFrame if par == 'U' else classes[int(par)]
                cls = type('Fam', (base,), {'CID': UbxCID(int(c), int(i))})
            classes.append(cls)
            f = cls()
            f.data = bytearray(bytes.fromhex(h))
            out.append(bytes(f.to_bytes()).hex())
    except Exception as e:
        out.append('EXC:' + exc_name(e))
    return ' '.join(out)


def real_framecls(line):
    """a frame of a REAL message class (its field container is populated by __init__), payload assigned directly"""
    _, name, h = line.split('|')
    pl = bytes.fromhex(h)
    try:
        f = find_class(name)()
        f.data = bytearray(pl)
        b1 = bytes(f.to_bytes())
        b2 = bytes(f.to_bytes())
    except Exception as e:
        return 'EXC:' + exc_name(e)
    return b1.hex() + ' ' + ('same' if b1 == b2 and bytes(f.data) == pl else 'DIFF')


def real_framethreads(line):
    """several threads, each serialising frames of its own again and again (a short switch interval makes the interpreter
    change threads inside the checksum loop): frames share nothing, so every serialisation must come out right"""
    import sys
    import threading
    _, nthreads, length, rounds, seed = line.split('|')
    nthreads, length, rounds, seed = int(nthreads), int(length), int(rounds), int(seed)
    bad = [0] * nthreads
    errs = []

    def work(k):
        try:
            pl = lcg_payload(length + k, seed + k, 0)
            f = make_frame(1 + k, 2 + k)
            f.data = bytearray(pl)
            want = wire_frame(1 + k, 2 + k, pl)
            for _ in range(rounds):
                if bytes(f.to_bytes()) != want:
                    bad[k] += 1
        except Exception as e:
            errs.append(exc_name(e))
    old = sys.getswitchinterval()
    sys.setswitchinterval(1e-5)
    try:
        ts = [threading.Thread(target=work, args=(k,)) for k in range(nthreads)]
        for t in ts:
            t.start()
        for t in ts:
            t.join()
    finally:
        sys.setswitchinterval(old)
    if errs:
        return 'EXC:' + errs[0]
    return f'bad={"some" if sum(bad) else 0}'


def real_frameobs(line):
    """to_bytes() under observation: a trace function (a debugger's log point, a profiler; the same as a signal handler or a
    monitor thread that prints the frame in flight) evaluates repr(frame), str(frame) and vars(frame) ONCE, at the n-th line
    executed while the frame is being serialised (a single look: a second one later could put right what the first disturbed).
    Looking at an object must not change what it does."""
    p = line.split('|')
    cls_, id_, pl, period = int(p[1]), int(p[2]), bytes.fromhex(p[3]), max(1, int(p[4]))
    f = make_frame(cls_, id_)
    f.data = bytearray(pl)
    other = make_frame((cls_ + 1) % 256, (id_ + 7) % 256)
    other.data = bytearray(b'\x55\xaa' * 9)

    def look():
        repr(f), str(f), repr(vars(f))
        other.to_bytes()                      # …and another frame object is serialised in the middle of this one
    try:
        b1 = bytes(realenv.interleaved(f.to_bytes, period, look))
        b2 = bytes(f.to_bytes())
    except Exception as e:
        return 'EXC:' + exc_name(e)
    return b1.hex() + ' ' + ('same' if b1 == b2 and bytes(f.data) == pl else 'DIFF')


def model_line_frame(line):
    p = line.split('|')
    if p[0] == 'frameseq':
        return line.replace('|D:', '|N:').replace(';D:', ';N:')      # (a refused decode / encode in between: to the model, a payload replaced)
    return '|'.join(['frame'] + p[1:4]) if p[0] == 'frameobs' else line


def real_frame(line):
    p = line.split('|')
    if p[0] == 'frameobs':
        return real_frameobs(line)
    if p[0] == 'framethreads':
        return real_framethreads(line)
    if p[0] == 'framecls':
        return real_framecls(line)
    if p[0] == 'frameseq':
        return real_frameseq(line)
    if p[0] == 'framefam':
        return real_framefam(line)
    if p[0] == 'frame':
        cls_, id_, pl = int(p[1]), int(p[2]), bytes.fromhex(p[3])
    else:
        cls_, id_, pl = int(p[1]), int(p[2]), lcg_payload(int(p[3]), int(p[4]), int(p[5]))
    f = make_frame(cls_, id_)
    f.data = bytearray(pl)
    try:
        b1 = bytes(f.to_bytes())
        b2 = bytes(f.to_bytes())
    except Exception as e:
        return 'EXC:' + exc_name(e)
    same = 'same' if b1 == b2 and bytes(f.data) == pl else 'DIFF'
    if p[0] == 'frame':
        return b1.hex() + ' ' + same
    return f'len={len(b1)} head={b1[:8].hex()} tail={b1[-2:].hex()} h={digest(b1)} {same}'


def oracles_frame(line, real_out):
    p = model_line_frame(line).split('|')
    what = 'to_bytes() = sync, class, id, 16-bit little-endian length, payload, Fletcher checksum; twice the same; frame unchanged'
    if p[0] == 'framethreads':
        return [{'prop': q, 'ok': real_out == 'bad=0', 'expected': 'bad=0', 'observed': real_out,
                 'what': 'frames serialised by different threads at the same time come out right: frame objects share no state'} for q in ('C01', 'C12')], []
    if p[0] == 'framecls':
        cid = find_class(p[1]).CID
        rec = {'prop': 'C01', 'ok': real_out.endswith(' same'), 'expected': 'same', 'observed': real_out[-20:],
               'what': 'serialising twice gives the same bytes and leaves the frame unchanged'}
        return [rec], [{'line': f'wire|{cid.cls}|{cid.id}|{p[2]}', 'expect': real_out.split(' ')[0], 'prop': 'C01',
                        'what': what + ' (a frame of a message class with declared fields; the payload is what `data` holds)'}]
    if p[0] == 'framefam':
        outs = real_out.split(' ')
        steps = [st.split(':') for st in p[1].split(';')]
        if len(outs) != len(steps):
            return [{'prop': 'C01', 'ok': False, 'expected': f'{len(steps)} serialisations', 'observed': real_out[-200:], 'what': what}], []
        return [], [{'line': f'wire|{0 if st[0] == "B" else st[1]}|{0 if st[0] == "B" else st[2]}|{st[3]}', 'expect': o, 'prop': 'C01',
                     'what': what + ' (frame classes of one family serialised one after the other)'} for st, o in zip(steps, outs)]
    if p[0] == 'frameseq':
        outs = real_out.split(' ')
        steps = p[3].split(';')
        if len(outs) != len(steps):
            return [{'prop': 'C01', 'ok': False, 'expected': f'{len(steps)} serialisations', 'observed': real_out[-200:], 'what': what}], []
        return [], [{'line': f'wire|{p[1]}|{p[2]}|{st.split(":")[1]}', 'expect': o, 'prop': 'C01', 'what': what + ' (the same frame object after its payload was replaced or edited in place)'}
                    for st, o in zip(steps, outs)]
    if p[0] == 'frame':
        rec = {'prop': 'C01', 'ok': real_out.endswith(' same'), 'expected': 'same', 'observed': real_out[-20:],
               'what': 'serialising twice gives the same bytes and leaves the frame unchanged'}
        return [rec], [{'line': f'wire|{p[1]}|{p[2]}|{p[3]}', 'expect': real_out.split(' ')[0], 'prop': 'C01', 'what': what}]
    return [], [{'line': 'wiregen|' + '|'.join(p[1:]), 'expect': real_out, 'prop': 'C01', 'what': what}]


def gen_frame(rng, n, profile):
    if profile == 'threads':
        for nthreads, length, rounds in [(2, 3000, 12), (3, 1200, 20), (2, 20000, 3), (4, 600, 30)]:
            yield f'framethreads|{nthreads}|{length}|{rounds}|{rng.randrange(1 << 20)}'
        return
    lens = list(range(0, 300)) + [510, 511, 512, 513, 999, 1000, 1001, 4095, 4096]
    if not profile.startswith('all-lengths'):
        # a payload that is itself a complete message: of the same class/id (a message replayed from a capture, an earlier
        # to_bytes() output), of another class/id, with one bit of it wrong, twice nested
        for _ in range(6):
            c, i = rng.randrange(256), rng.randrange(256)
            inner = wire_frame(c, i, bytes(rng.randrange(256) for _ in range(rng.choice([0, 1, 4, 20]))))
            yield f'frame|{c}|{i}|{inner.hex()}'
            yield f'frame|{c}|{i}|{wire_frame(c, i, inner).hex()}'
            yield f'frame|{c}|{(i + 1) % 256}|{inner.hex()}'
            broken = bytearray(inner)
            broken[-1] ^= 1
            yield f'frame|{c}|{i}|{bytes(broken).hex()}'
            yield f'frameseq|{c}|{i}|N:{inner.hex()};I:{inner.hex()};N:;N:{inner.hex()}'
        for ln in (0, 1, 2, 7, 30, 200):
            for at in sorted({1, 5, 12, 20, 27, 35, 7 * ln // 2 + 20, 7 * ln, 7 * ln + 22, 7 * ln + 30, 7 * ln + 36}):
                pl = bytes(rng.randrange(256) for _ in range(ln))
                yield f'frameobs|{rng.randrange(256)}|{rng.randrange(256)}|{pl.hex()}|{at}'
    if profile.startswith('all-lengths'):
        k, K = map(int, profile.split(':')[1].split('/')) if ':' in profile else (0, 1)
        for ln in range(k, 65536, K):
            yield f'framegen|{rng.randrange(256)}|{rng.randrange(256)}|{ln}|{rng.randrange(1 << 30)}|{rng.choice([0, 0, 0, 1, 2])}'
        return
    for ln in lens:
        pl = bytes(rng.choice([0xb5, 0x62, 0xff, rng.randrange(256)]) for _ in range(ln))
        yield f'frame|{rng.randrange(256)}|{rng.randrange(256)}|{pl.hex()}'
    for ln in list(range(300, 1101, 1)) + [65278, 65279, 65280, 65281, 65282, 65530, 65531, 65532, 65533, 65534, 65535] + \
            [rng.randrange(1100, 65536) for _ in range(n)]:
        yield f'framegen|{rng.randrange(256)}|{rng.randrange(256)}|{ln}|{rng.randrange(1 << 30)}|{rng.choice([0, 0, 1, 2])}'
    for c, i in [(0, 0), (255, 255), (0xb5, 0x62)]:
        yield f'frame|{c}|{i}|'
    for nthreads, length, rounds in [(2, 3000, 12), (3, 1200, 20), (2, 20000, 3)]:
        yield f'framethreads|{nthreads}|{length}|{rounds}|{rng.randrange(1 << 20)}'
    for name, size in CLASSES.items():
        for pl in {b'', bytes(size or 4), bytes(rng.randrange(256) for _ in range(size or 8)), bytes(rng.randrange(256) for _ in range(1)),
                   bytes(rng.randrange(256) for _ in range((size or 8) + 3))}:
            yield f'framecls|{name}|{pl.hex()}'
    for _ in range(max(30, n // 2)):
        steps = []
        for k in range(rng.randrange(2, 6)):
            par = rng.choice(['B', 'U', 'U'] + [str(j) for j in range(k) if steps[j][0] != 'B'])
            steps.append(f'{par}:{rng.randrange(256)}:{rng.randrange(256)}:{bytes(rng.randrange(256) for _ in range(rng.choice([0, 1, 4, 12]))).hex()}')
        yield 'framefam|' + ';'.join(steps)
    for _ in range(max(40, n)):
        steps = []
        pl = bytes(rng.randrange(256) for _ in range(rng.choice([0, 1, 2, 12, 40, 255, 256])))
        for _ in range(rng.randrange(2, 6)):
            k = rng.random()
            if k < 0.3 and pl:
                q = bytearray(pl)
                q[rng.randrange(len(q))] ^= 1 << rng.randrange(8)      # one byte patched
                pl = bytes(q)
            elif k < 0.5:
                pl = pl + bytes(rng.randrange(256) for _ in range(rng.choice([1, 2, 8])))   # grown
            elif k < 0.6:
                pl = pl[:rng.randrange(0, len(pl) + 1)]                                         # shrunk
            elif k < 0.75:
                pass                                                                            # unchanged
            else:
                pl = bytes(rng.randrange(256) for _ in range(rng.choice([0, 1, 12, 300])))
            steps.append(rng.choice(['N', 'I', 'I', 'X', 'N', 'I', 'I', 'X', 'B', 'C', 'D']) + ':' + pl.hex())
        yield f'frameseq|{rng.randrange(256)}|{rng.randrange(256)}|' + ';'.join(steps)


def reach(a, b):
    c = Checksum()
    c.add((b - a) % 256)
    c.add((2 * a - b) % 256)
    return c


def real_ckil(line):
    """several Checksum objects alive at once: N new object, A<k>:<hex> add bytes to object k, R<k> reset, V<k> value"""
    objs, out = [], []
    for op in line.split('|', 1)[1].split(';'):
        if op == 'N':
            objs.append(Checksum())
        elif op[0] == 'C':
            # a fork: a copy of object k, taken in the middle of its accumulation (copy.copy / deepcopy / a pickle round trip),
            # is one more object from here on - feeding the one must not show in the other
            k, how = op[1:].split(':')
            objs.append([copy.copy, copy.deepcopy, lambda x: pickle.loads(pickle.dumps(x))][int(how) % 3](objs[int(k)]))
        elif op[0] == 'A':
            k, h = op[1:].split(':')
            for x in bytes.fromhex(h):
                realenv.in_thread(objs[int(k)].add, x)
        elif op[0] == 'R':
            realenv.in_thread(objs[int(op[1:])].reset)
        elif op[0] == 'V':
            va, vb = realenv.in_thread(objs[int(op[1:])].value)
            out.append(f'{va},{vb}')
    return ' '.join(out)


def real_ckobs(line):
    """ckobs|<hex>|<n>: the bytes added one by one, and at the n-th line executed inside the package somebody LOOKS at the same
    object - value(), matches(): pure questions (a debugger's watch expression, a status thread) - then value() as usual"""
    _, h, at = line.split('|')
    c = Checksum()
    data = bytes.fromhex(h)

    def feed():
        for x in data:
            c.add(x)

    def look():
        c.value()
        c.matches(1, 2)
    realenv.interleaved(feed, int(at), look)
    va, vb = c.value()
    return f'{va},{vb} {"true" if c.matches(va, vb) else "false"}'


def real_ck(line):
    p = line.split('|')
    try:
        if p[0] == 'ckobs':
            return real_ckobs(line)
        if p[0] == 'ckil':
            return real_ckil(line)
        if p[0] == 'ck':
            a, b = int(p[1]), int(p[2])
            out = bytearray()
            for x in range(256):
                c = reach(a, b)
                if c.value() != (a, b):
                    return 'unreachable'
                c.add(x)
                out += bytes(c.value())
            return out.hex()
        if p[0] == 'ckrow':
            a = int(p[1])
            h = 0
            for b in range(256):
                for x in range(256):
                    c = reach(a, b)
                    c.add(x)
                    va, vb = c.value()
                    h = ((h * 31 + va) * 31 + vb) % 4294967296
            return str(h)
        if p[0] == 'ckm':
            a, b = int(p[1]), int(p[2])
            c = reach(a, b)
            xs = list(dict.fromkeys(list(range(256)) + [256 + a, 512 + a, (a << 8) | b, 65536 + a]))      # also arguments that are no bytes
            ys = list(dict.fromkeys(list(range(256)) + [256 + b, 512 + b, (a << 8) | b, 65536 + b]))
            hits = [f'{x}:{y}' for x in xs for y in ys if c.matches(x, y)]
            # asking is not changing: after all these questions the object still reports its pair, still says yes to it, and goes on
            # summing from it
            if c.value() != (a, b) or not c.matches(a, b) or not c.matches(a, b):
                return 'CHANGED-BY-MATCHES ' + ','.join(hits)
            c.add(1)
            if c.value() != ((a + 1) & 0xFF, (b + a + 1) & 0xFF):
                return 'SUMS-ON-FROM-ANOTHER-STATE-AFTER-MATCHES ' + ','.join(hits)
            c2 = reach(a, b)
            c2.reset()
            return ','.join(hits) + f' reset={c2.value()[0]}:{c2.value()[1]}'
        if p[0] == 'ckgen':
            c = Checksum()
            for x in lcg_payload(int(p[1]), int(p[2]), int(p[3])):
                c.add(x)
            va, vb = c.value()
            again = Checksum()
            c.reset()
            for x in b'\x01\x02\x03':
                c.add(x)
                again.add(x)
            return f'{va},{vb} {"true" if c.value() == again.value() else "false"}'
        if p[0] == 'ckseq':
            c = Checksum()
            c.add(0x55)
            c.reset()
            data = bytes.fromhex(p[1])
            def as_held(j, x):
                # a byte as the caller may hold it: a plain int, an int by another name, a bool for 0 / 1 (which depends on the position)
                return SubInt(x) if j % 3 == 1 else (bool(x) if x in (0, 1) and j % 3 == 2 else x)
            for k in range(0, len(data), 7):        # (in pieces: each piece may come from another thread)
                realenv.in_thread(lambda part: [c.add(as_held(j, x)) for j, x in enumerate(part)], data[k:k + 7])
            va, vb = realenv.in_thread(c.value)
            ok = c.matches(va, vb) and c.matches(va, vb) and c.value() == (va, vb)        # (asked twice: asking is not changing)
            return f'{va},{vb} {"true" if ok else "false"}'
    except Exception as e:
        return 'EXC:' + exc_name(e)
    return 'bad-line'


def oracles_ck(line, real_out):
    p = line.split('|')
    if p[0] == 'ckil':
        objs, exp = [], []
        for op in p[1].split(';'):
            if op == 'N':
                objs.append(bytearray())
            elif op[0] == 'C':
                objs.append(bytearray(objs[int(op[1:].split(':')[0])]))
            elif op[0] == 'A':
                k, h = op[1:].split(':')
                objs[int(k)] += bytes.fromhex(h)
            elif op[0] == 'R':
                objs[int(op[1:])] = bytearray()
            elif op[0] == 'V':
                exp.append('%d,%d' % fletcher(objs[int(op[1:])]))
        e = ' '.join(exp)
        return [{'prop': 'C15', 'ok': real_out == e, 'expected': e[:300], 'observed': real_out[:300],
                 'what': 'the result depends only on the byte sequence fed to THIS object since its creation or reset (several objects alive at once)'}], []
    if p[0] == 'ckgen':
        return [], [{'line': 'ckgen|' + '|'.join(p[1:]), 'expect': real_out, 'prop': 'C15',
                     'what': 'CK_A / CK_B are the sums mod 256 for every byte sequence, however long; after reset() the object is as new'}]
    if p[0] == 'ckobs':
        va, vb = fletcher(bytes.fromhex(p[1]))
        exp = f'{va},{vb} true'
        return [{'prop': 'C15', 'ok': real_out == exp, 'expected': exp, 'observed': real_out,
                 'what': 'the result depends only on the byte sequence - not on whether somebody looked at the object (value(), matches()) in the middle of an add()'}], []
    if p[0] == 'ckseq':
        return [], [{'line': 'ck|' + p[1], 'expect': real_out.split(' ')[0], 'prop': 'C15',
                     'what': 'CK_A = sum of the bytes mod 256, CK_B = sum of the successive CK_A values mod 256, from (0,0)'}]
    if p[0] == 'ckm':
        exp = f'{p[1]}:{p[2]} reset=0:0'
        return [{'prop': 'C15', 'ok': real_out == exp, 'expected': exp, 'observed': real_out[:200],
                 'what': 'matches() is true for exactly the current pair; reset() returns to (0,0)'}], []
    if p[0] == 'ck':
        a, b = int(p[1]), int(p[2])
        exp = bytearray()
        for x in range(256):
            exp += bytes([(a + x) % 256, (b + (a + x) % 256) % 256])
        return [{'prop': 'C15', 'ok': real_out == exp.hex(), 'expected': exp.hex()[:80], 'observed': real_out[:80],
                 'what': 'add(x) from state (a,b) gives ((a+x) mod 256, (b+a+x) mod 256), both within 0..255'}], []
    return [], []


def gen_ck(rng, n, profile):
    if profile.startswith('all-states'):
        k, K = map(int, profile.split(':')[1].split('/')) if ':' in profile else (0, 1)
        for a in range(k, 256, K):
            yield f'ckrow|{a}'
        if k:
            return
    for a in range(256):
        for b in (0, 1, 2, 127, 128, 200, 254, 255):
            yield f'ck|{a}|{b}'
    for a in (0, 1, 0x37, 0x80, 0xff):
        for b in (0, 1, 0x80, 0xff):
            yield f'ckm|{a}|{b}'
    for _ in range(16 if not profile.startswith('all-states') else 64):
        yield f'ckm|{rng.randrange(256)}|{rng.randrange(256)}'
    for at in range(1, 26):
        yield f'ckobs|{bytes(rng.randrange(1, 256) for _ in range(6)).hex()}|{at}'
    # several objects alive at once, fed in turns
    for _ in range(30):
        ops, nobj = ['N'], 1
        for _ in range(rng.randrange(4, 14)):
            k = rng.random()
            if k < 0.12:
                ops.append('N')
                nobj += 1
            elif k < 0.22:
                ops.append(f'C{rng.randrange(nobj)}:{rng.randrange(3)}')
                nobj += 1
            elif k < 0.3:
                ops.append(f'R{rng.randrange(nobj)}')
            elif k < 0.75:
                ops.append(f'A{rng.randrange(nobj)}:' + bytes(rng.randrange(256) for _ in range(rng.randrange(1, 6))).hex())
            else:
                ops.append(f'V{rng.randrange(nobj)}')
        yield 'ckil|' + ';'.join(ops + [f'V{k}' for k in range(nobj)])
    # long runs: the running sums must stay reduced however many bytes go into one object
    longs = [5802, 5803, 5804, 6000, 8200, 20000, 65535, 65536, 100000] + ([300000, 1000000, 3000000] if profile.startswith('all-states') else [])
    for ln in longs:
        for mode in (0, 1, 2):
            yield f'ckgen|{ln}|{rng.randrange(1 << 30)}|{mode}'
    for _ in range(n):
        ln = rng.choice([0, 1, 2, 3, 255, 256, 257, 1000, rng.randrange(5000)])
        yield 'ckseq|' + bytes(rng.choice([0xff, 0xb5, 0, rng.randrange(256)]) for _ in range(ln)).hex()


# =====================================================================================================
# field containers
# =====================================================================================================
def payload_for(rng, name):
    size = CLASSES[name]
    if name == 'UbxCfgGnss':
        n = rng.choice([0, 1, 2, 3, 7, 8, 31])
        pl = bytearray(rng.randrange(256) for _ in range(4 + 8 * n))
        pl[3] = n
    elif name == 'UbxCfgEsfla':
        n = rng.choice([0, 1, 2, 3, 4, 5, 5, 6])
        pl = bytearray(rng.randrange(256) for _ in range(4 + 8 * n))
        pl[1] = n
    elif name == 'UbxEsfStatus':
        n = rng.choice([0, 1, 2, 5, 40])
        pl = bytearray(rng.randrange(256) for _ in range(16 + 4 * n))
        pl[15] = n
    elif name == 'UbxMonVer':
        n = rng.choice([0, 1, 2, 6])
        pl = bytearray(rng.choice(b'ABCxyz019 .=\x00\x00') for _ in range(40 + 30 * n))
        if rng.random() < .5:
            pl[25:30] = bytes(5)
            pl[36:40] = bytes(4)
        if rng.random() < .35:
            off, ln = rng.choice(text_ranges(name, pl))
            sprinkle_text(rng, pl, off, ln)
    else:
        k = rng.random()
        if k < .2:
            pl = bytearray([0xff] * size)
        elif k < .3:
            pl = bytearray(size)
        elif k < .45:
            pl = bytearray((i * 37 + 11) % 251 | (0x80 if i % 3 == 0 else 0) for i in range(size))
        else:
            pl = bytearray(rng.randrange(256) for _ in range(size))
        if name == 'UbxCfgNmea' and rng.random() < 0.9:
            pl[12:14] = bytes(rng.choice(b'GPBD\x00') for _ in range(2))
            if rng.random() < .3:
                pl[12:14] = rng.choice(['é', '°', 'µ', 'ß', '\x80', '\u07ff']).encode() if rng.random() < .8 else rng.choice([b'\xc3\x28', b'\xc0\x80', b'A\xc3', b'\xa9B'])
    r = rng.random()
    if r < .06:
        pl = pl[:rng.randrange(0, len(pl) + 1)]          # too short
    elif r < .10:
        pl += bytes(rng.randrange(1, 4))               # too long
    return bytes(pl)


def lookalike_payloads(rng, name):
    """well-formed payloads whose own bytes look like the layers around them: a complete wire frame of the message itself (sync, own
    class/id, a length field that fits, a checksum that is right), the start of one, an acknowledgement naming the message, an
    NMEA sentence.  A payload is a payload whatever it looks like."""
    cls = find_class(name)
    c, i = cls.CID.cls, cls.CID.id
    size = CLASSES[name]
    if size:
        sizes, cnt_at = [size], None
    elif name == 'UbxCfgGnss':
        sizes, cnt_at = [4 + 8 * i], 3                 # the count byte is where the id of the look-alike frame sits
    elif name == 'UbxCfgEsfla':
        sizes, cnt_at = [4 + 8 * 0x62], 1
    elif name == 'UbxEsfStatus':
        sizes, cnt_at = [16 + 4 * n for n in (0, 1, 5, 40)], 15
    else:
        return []
    out = []
    for L in sizes:
        if L < 10:
            continue
        base = bytearray(rng.randrange(256) for _ in range(L))
        if name == 'UbxEsfStatus':
            base[15] = (L - 16) // 4
        # a complete frame of the message itself
        pl = bytearray(base)
        pl[0:6] = bytes([0xb5, 0x62, c, i, (L - 8) & 0xff, (L - 8) >> 8])
        pl[-2:] = bytes(fletcher(pl[2:-2]))
        out.append(bytes(pl))
        # … with a wrong checksum, and cut short: only the beginning looks like one
        pl2 = bytearray(pl)
        pl2[-1] ^= 0x40
        out.append(bytes(pl2))
        # an acknowledgement naming the message, then the rest
        pl3 = bytearray(base)
        ack = bytes([0xb5, 0x62, 5, 1, 2, 0, c, i])
        pl3[0:10] = ack + bytes(fletcher(ack[2:]))
        if cnt_at is not None and cnt_at < 10:
            continue_ok = (name == 'UbxCfgGnss' and 4 + 8 * pl3[3] == L) or (name == 'UbxCfgEsfla' and 4 + 8 * pl3[1] == L)
            if continue_ok:
                out.append(bytes(pl3))
        else:
            out.append(bytes(pl3))
        # an NMEA sentence
        pl4 = bytearray(base)
        t = b'$GPGGA,1,2*33\r\n'[:min(15, L)]
        pl4[0:len(t)] = t
        if cnt_at is None or cnt_at >= len(t):
            out.append(bytes(pl4))
    return [p for p in out if wellformed(name, p)]


def model_line_fields(line):
    p = line.split('|')
    if p[0] == 'fieldsmv':
        return 'fields|' + p[1] + '|' + p[2]
    if p[0] == 'fieldsagain':
        return '|'.join(['fields', p[1], p[3]])
    return '|'.join(['fields'] + p[1:3]) if p[0] == 'fieldsobs' else line


def describe_frame(f):
    dec = ','.join(f'{it.name}={show(it.value)}' for it in ordered_items(f) if not isinstance(it, Padding))
    try:
        f.pack()
        return dec + ' pack=' + bytes(f.data).hex()
    except Exception as e:
        return dec + ' pack=EXC:' + exc_name(e)


def real_fieldscopy(line):
    """fieldscopy|<Class>|<payload 1>|<payload 2>|<how>: a decoded frame is copied (deepcopy / a pickle round trip), ANOTHER payload is
    decoded through the copy; the copy holds the second payload's values, the original still the first's"""
    _, name, h1, h2, how = line.split('|')
    cls = find_class(name)
    try:
        f = cls.construct(bytearray(bytes.fromhex(h1)))
        if int(how) & 2:
            f.pack()
        g = copy.deepcopy(f) if int(how) & 1 == 0 else pickle.loads(pickle.dumps(f))
        g.data = bytearray(bytes.fromhex(h2))
        g.unpack()
        return describe_frame(g) + ' ## ' + describe_frame(f)
    except Exception as e:
        return 'EXC:' + exc_name(e)


def real_fieldsagain(line):
    """fieldsagain|<Class>|<payload 1>|<payload 2>|<how>: ONE frame object decodes a payload, then another one - its buffer refilled in
    place (a receive buffer that is used again) or replaced; optionally encoded / rendered in between.  It holds the second payload's values."""
    _, name, h1, h2, how = line.split('|')
    how = int(how)
    cls = find_class(name)
    try:
        if how & 8:
            # not the object but the caller's receive buffer is used again: a frame is decoded from it, its holder edits a field (and
            # does not encode), the buffer is overwritten in place with the next payload - the same bytes, now and then - and decoded
            # again: a frame of its own, holding what the buffer holds now
            buf = bytearray(bytes.fromhex(h1))
            f = cls.construct(buf)
            for it in ordered_items(f):
                if isinstance(it.value, int) and not isinstance(it, Padding):
                    it.value ^= 1
                    break
            if how & 2:
                str(f)
            nxt = bytes.fromhex(h2)
            if len(nxt) == len(buf) and how & 1:
                buf[:] = nxt
            else:
                buf = bytearray(nxt)
            g = cls.construct(buf)
            if g is f:
                return 'THE-EARLIER-FRAME-OBJECT-RETURNED'
            return describe_frame(g)
        f = cls.construct(bytearray(bytes.fromhex(h1)))
        if how & 2:
            f.pack()
        if how & 4:
            str(f)
        if how & 1:
            try:
                f.data[:] = bytes.fromhex(h2)
            except TypeError:             # the frame keeps its payload in something immutable: then the buffer is replaced
                f.data = bytearray(bytes.fromhex(h2))
        else:
            f.data = bytearray(bytes.fromhex(h2))
        f.unpack()
        return describe_frame(f)
    except Exception as e:
        return 'EXC:' + exc_name(e)


def real_fields(line):
    parts = line.split('|')
    if parts[0] == 'fieldscopy':
        return real_fieldscopy(line)
    if parts[0] == 'fieldsagain':
        return real_fieldsagain(line)
    if parts[0] == 'fieldsmv':
        # the payload handed over as a memoryview of the caller's receive buffer, which is used again as soon as the frame has been
        # decoded: what the frame holds are the values that were in the buffer when it was decoded
        try:
            buf = bytearray(bytes.fromhex(parts[2]))
            f = find_class(parts[1]).construct(memoryview(buf))
            for k in range(len(buf)):
                buf[k] = 0xEE
            dec = ','.join(f'{it.name}={show(it.value)}' for it in ordered_items(f) if not isinstance(it, Padding))
            f.pack()
            return dec + ' pack=' + bytes(f.data).hex()
        except Exception as e:
            return 'EXC:' + exc_name(e)
    name, h = parts[1], parts[2]
    pl = bytes.fromhex(h)
    given = bytearray(pl)
    cls = find_class(name)
    try:
        if parts[0] == 'fieldsobs':
            # another frame of the same class - with another number of blocks, where the class has blocks - is decoded and encoded
            # in the middle of this decode (at the n-th line executed)
            other = other_payload(name, pl)

            def meanwhile():
                g = cls.construct(bytearray(other))
                g.pack()
            total = realenv.count_lines(lambda: cls.construct(bytearray(pl)))
            f = realenv.interleaved(lambda: cls.construct(given), max(1, total * int(parts[3]) // 1000), meanwhile)     # parts[3]: how far in, in thousandths
        else:
            f = cls.construct(given)
    except Exception as e:
        return 'EXC:' + exc_name(e)
    if bytes(given) != pl or bytes(f.data) != pl:
        return 'PAYLOAD-CHANGED-BY-DECODING'
    dec = ','.join(f'{it.name}={show(it.value)}' for it in ordered_items(f) if not isinstance(it, Padding))
    try:
        f.pack()
        return dec + ' pack=' + bytes(f.data).hex()
    except Exception as e:
        return dec + ' pack=EXC:' + exc_name(e)


def other_payload(name, pl):
    """a well-formed payload of the same class that differs from `pl` in every byte and, for the classes with repeated blocks,
    in the number of blocks"""
    n = blocks_of(name, pl)
    m = (n + 2) % 5 if name in COUNT_AT else n
    if name == 'UbxCfgGnss':
        out = bytearray((b ^ 0x5A) for b in pl[:4]) + bytes([0x33]) * (8 * m)
    elif name == 'UbxCfgEsfla':
        out = bytearray((b ^ 0x5A) for b in pl[:4]) + bytes([0x33]) * (8 * m)
    elif name == 'UbxEsfStatus':
        out = bytearray((b ^ 0x5A) for b in pl[:16]) + bytes([0x33]) * (4 * m)
    elif name == 'UbxMonVer':
        return bytes(b'OTHER VERSION'.ljust(30, b'\x00') + b'HW2'.ljust(10, b'\x00') + b'EXT'.ljust(30, b'\x00') * ((n + 1) % 3))
    else:
        return bytes((b ^ 0x5A) & 0x7F for b in pl)
    if name in COUNT_AT and len(out) > COUNT_AT[name]:
        out[COUNT_AT[name]] = m
    return bytes(out)


def api_values(name, pl, spec_names=None):
    """field values through the public accessors (frame.f.<name>), not through the table"""
    f = find_class(name).construct(bytearray(pl))
    out = []
    for it in ordered_items(f):
        if not isinstance(it, Padding):
            out.append(f'{it.name}={show(getattr(f.f, it.name))}')
    return out


def oracles_fields(line, real_out):
    if line.startswith('fieldscopy|'):
        _, name, h1, h2, how = line.split('|')
        recs, spec = [], []
        outs = real_out.split(' ## ')
        for h, o in zip((h2, h1), outs + ['missing', 'missing']):
            r, sp = oracles_fields(f'fields|{name}|{h}', o)
            recs += [dict(x, what=x['what'] + ' (a frame and its copy: each holds what was decoded through it)') for x in r if x['prop'] != 'C07' or 'another' not in x['what']]
            spec += [dict(x, what=x['what'] + ' (a frame and its copy: each holds what was decoded through it)') for x in sp]
        return recs, spec
    _, name, h = model_line_fields(line).split('|')
    pl = bytes.fromhex(h)
    if not wellformed(name, pl):
        return [], []
    n = blocks_of(name, pl)
    dec = real_out.split(' ')[0] if not real_out.startswith('EXC') else real_out
    packed = real_out.split('pack=')[-1] if 'pack=' in real_out else real_out
    recs = []
    # decoding one frame never changes another frame object (aliasing between instances)
    try:
        cls = find_class(name)
        f1 = cls.construct(bytearray(pl))
        before = [(it.name, it.value) for it in ordered_items(f1)]
        other = bytearray((b ^ 0x5A) & 0x7F for b in pl)        # a different payload of the same shape, ASCII
        if name in COUNT_AT and len(pl) > COUNT_AT[name]:
            other[COUNT_AT[name]] = n
        try:
            f2 = cls.construct(other)
            for it in ordered_items(f2):
                if not isinstance(it, (Padding, CH)):
                    it.value = 1
        except Exception:
            pass
        cls()
        after = [(it.name, it.value) for it in ordered_items(f1)]
        recs.append({'prop': 'C07', 'ok': before == after, 'expected': str(before)[:300], 'observed': str(after)[:300],
                     'what': 'decoding one frame never changes another frame object'})
    except Exception as e:
        recs.append({'prop': 'C07', 'ok': False, 'expected': 'a well-formed payload decodes', 'observed': 'EXC:' + exc_name(e),
                     'what': 'every well-formed payload decodes'})
    spec = [{'line': f'read|{name}|{n}|{h}', 'expect': dec, 'prop': 'C07', 'mode': 'subset',
             'what': 'every named field equals the value at its prescribed offset, width, signedness, little-endian; blocks in payload order; text without trailing NULs'},
            {'line': f'reenc|{name}|{n}|{h}', 'expect': packed, 'prop': 'C08',
             'what': 'decoding then encoding reproduces the payload, reserved bytes zero'}]
    return recs, spec


def gen_fields(rng, n, profile):
    # exhaustive over the count byte of the count-prefixed messages
    for cnt in range(256):
        pl = bytearray((7 * i + cnt) % 256 for i in range(4 + 8 * cnt))
        pl[3] = cnt
        yield 'fields|UbxCfgGnss|' + bytes(pl).hex()
        pl = bytearray((5 * i + cnt) % 256 for i in range(16 + 4 * cnt))
        pl[15] = cnt
        yield 'fields|UbxEsfStatus|' + bytes(pl).hex()
    for cnt in range(8):
        pl = bytearray((11 * i + cnt) % 256 for i in range(4 + 8 * cnt))
        pl[1] = cnt
        yield 'fields|UbxCfgEsfla|' + bytes(pl).hex()
    for ext in range(0, 33, 4):
        yield 'fields|UbxMonVer|' + bytes((65 + (i % 26)) if i % 30 < 20 else 0 for i in range(40 + 30 * ext)).hex()
    for name, size in CLASSES.items():
        if size:        # distinct bytes with sign bits set; one field's sign bit at a time
            yield f'fields|{name}|' + bytes(0x80 | (i + 1) if i % 2 else (i + 1) for i in range(size)).hex()
            for k in range(size):
                pl = bytearray(size)
                pl[k] = 0x80
                yield f'fields|{name}|' + bytes(pl).hex()
        for _ in range(n):
            yield f'fields|{name}|' + payload_for(rng, name).hex()
        for pl in lookalike_payloads(rng, name):
            yield f'fields|{name}|' + pl.hex()
        for how in range(4):
            pl, pl2 = payload_for(rng, name), payload_for(rng, name)
            if wellformed(name, pl) and wellformed(name, pl2):
                yield f'fieldscopy|{name}|{pl.hex()}|{pl2.hex()}|{how}'
        for at in (1, 30, 80, 150, 230, 320, 400, 480, 550, 620, 700, 780, 850, 920, 970, 999):
            pl = payload_for(rng, name)
            if wellformed(name, pl):
                yield f'fieldsobs|{name}|{pl.hex()}|{at}'
        for how in range(8):
            pl, pl2 = payload_for(rng, name), payload_for(rng, name)
            if wellformed(name, pl):
                yield f'fieldsagain|{name}|{pl.hex()}|{pl2.hex()}|{how}'
        for _ in range(3):
            pl = payload_for(rng, name)
            if wellformed(name, pl) and not text_ranges(name, pl):
                yield f'fieldsmv|{name}|{pl.hex()}'
        for how in (8, 9, 10, 11):
            pl, pl2 = payload_for(rng, name), payload_for(rng, name)
            if wellformed(name, pl):
                yield f'fieldsagain|{name}|{pl.hex()}|{(pl if how in (8, 9) or not wellformed(name, pl2) else pl2).hex()}|{how}'


# ---- a user's item type ---------------------------------------------------------------------------------
def real_subitem(line):
    """an item type derived from one of the library's, with another `fmt` - after the parent type has been used - standing in a
    Fields container like any other item: assigned through the attribute, read back, packed by the container, decoded again.
    The variant says what else the user's class defines: nothing, a __bool__ that is False, a __len__ that is 0, an __eq__ that
    says yes to everything - none of which is the container's business"""
    import ubxlib.types as T
    parts = line.split('|')
    parent, fmt, v = parts[1], parts[2], int(parts[3])
    variant = parts[4] if len(parts) > 4 else 'plain'
    P = getattr(T, parent)
    try:
        warm = P('warm')
        warm.value = 1
        warm.unpack(bytearray(warm.pack()) + bytes(8))
        extra = {'plain': {}, 'falsy': {'__bool__': lambda self: False}, 'len0': {'__len__': lambda self: 0},
                 'eqall': {'__eq__': lambda self, other: True, '__hash__': lambda self: 7}}[variant]
        Sub = type('My' + parent, (P,), dict(extra, fmt=fmt))
        box = T.Fields()
        box.add(T.U1('before'))
        box.add(Sub('x'))
        box.add(T.U1('after'))
        box.before, box.after = 0x11, 0x22
        box.x = v
        if box.x != v or box.get('x').value != v:
            return 'not-assigned'
        try:
            data = bytes(box.pack())
        except Exception as e:
            return 'pack=EXC:' + exc_name(e)
        if data[:1] != b'\x11' or data[-1:] != b'\x22':
            return 'neighbours-changed:' + data.hex()
        data = data[1:-1]
        back = T.Fields()
        back.add(T.U1('before'))
        back.add(Sub('x'))
        back.add(T.U1('after'))
        try:
            back.unpack(bytearray(b'\x11' + data + b'\x22'))
            return f'pack={data.hex()} back={show(back.x)} n={len(data)}'
        except Exception as e:
            return f'pack={data.hex()} back=EXC:' + exc_name(e)
    except Exception as e:
        return 'EXC:' + exc_name(e)


def oracles_subitem(line, real_out):
    _, parent, fmt, v = line.split('|')[:4]
    v, w = int(v), struct.calcsize('<' + fmt)
    lo, hi = (-(1 << (8 * w - 1)), (1 << (8 * w - 1)) - 1) if fmt.islower() else (0, (1 << 8 * w) - 1)
    if not lo <= v <= hi:
        return [], []
    exp = f'pack={(v % (1 << 8 * w)).to_bytes(w, "little").hex()} back={v} n={w}'
    return [{'prop': q, 'ok': real_out == exp, 'expected': exp, 'observed': real_out[:200],
             'what': "a user's item type (a library item type with another `fmt`) is encoded and decoded by its own format"} for q in ('C07', 'C08', 'C12')], []


def gen_subitem(rng, n, profile):
    for parent in ('U1', 'U2', 'U4', 'I1', 'I2', 'I4', 'X1', 'X2', 'X4'):
        for fmt in 'BbHhIiQq':
            w = struct.calcsize('<' + fmt)
            lo, hi = (-(1 << (8 * w - 1)), (1 << (8 * w - 1)) - 1) if fmt.islower() else (0, (1 << 8 * w) - 1)
            for v in (lo, hi, 1, hi // 3, lo - 1, hi + 1):
                yield f'subitem|{parent}|{fmt}|{v}'
            for variant in ('falsy', 'len0', 'eqall'):
                yield f'subitem|{parent}|{fmt}|{rng.choice([1, hi, hi // 3])}|{variant}'


# ---- one text item ------------------------------------------------------------------------------------
def real_ch(line):
    _, n, h = line.split('|')
    it = CH(int(n), 'x')
    try:
        k = it.unpack(bytearray(bytes.fromhex(h)))
    except Exception as e:
        return 'EXC:' + exc_name(e)
    try:
        packed = bytes(it.pack()).hex()
    except Exception as e:
        packed = 'EXC:' + exc_name(e)
    return f'{k} {show(it.value)} pack={packed}'


def oracles_ch(line, real_out):
    _, n, h = line.split('|')
    n, data = int(n), bytes.fromhex(h)
    if len(data) < n or not decodable(data[:n]):
        return [], []
    recs = [{'prop': 'C07', 'ok': not real_out.startswith('EXC'), 'expected': 'text', 'observed': real_out[:100],
             'what': 'every well-formed text field decodes'},
            {'prop': 'C08', 'ok': real_out.endswith('pack=' + data[:n].hex()), 'expected': data[:n].hex(), 'observed': real_out[-80:],
             'what': 'decoding a text field and encoding it again reproduces its bytes'}]
    spec = []
    if not real_out.startswith('EXC'):
        got = parse_value(real_out.split(' ')[1])
        spec.append({'line': 'utf8enc|' + ','.join(str(ord(c)) for c in got), 'expect': data[:n].rstrip(b'\x00').hex(), 'prop': 'C07',
                     'what': 'a text field holds the characters whose UTF-8 encoding was sent, without the trailing NULs'})
    return recs, spec


def ch_space():
    for a in range(256):
        yield f'ch|1|{a:02x}'
        for b in range(256):
            yield f'ch|2|{a:02x}{b:02x}'
    edge = [0x7f, 0x80, 0xbf, 0xc0]
    for a in (0xe0, 0xe1, 0xec, 0xed, 0xee, 0xef):
        for b in range(256):
            for c in edge:
                yield f'ch|3|{a:02x}{b:02x}{c:02x}'
    for a in (0xf0, 0xf1, 0xf3, 0xf4, 0xf5):
        for b in range(256):
            for c in edge:
                for d in edge:
                    yield f'ch|4|{a:02x}{b:02x}{c:02x}{d:02x}'


def gen_ch(rng, n, profile):
    """all-text: the whole space of one- and two-byte sequences; three- and four-byte sequences over every lead byte class x
    every second byte x boundary continuation bytes (shard k of K takes every K-th); otherwise random text with padding,
    sequences cut by the end of the field, data shorter and longer than the field"""
    if profile.startswith('all-text'):
        k, K = map(int, profile.split(':')[1].split('/')) if ':' in profile else (0, 1)
        for j, ln in enumerate(ch_space()):
            if j % K == k:
                yield ln
        return
    for _ in range(n):
        ln = rng.choice([1, 2, 3, 4, 10, 30])
        pl = bytearray(rng.choice(b'ABCxyz019 .=\x00\x00') for _ in range(ln))
        sprinkle_text(rng, pl, 0, ln)
        if rng.random() < .3:
            cut = rng.randrange(ln)
            pl[cut:] = bytes(ln - cut)                      # NUL padding behind the text
        k = rng.random()
        data = bytes(pl) if k < .7 else bytes(pl) + bytes(rng.randrange(1, 4)) if k < .9 else bytes(pl[:rng.randrange(ln)])
        yield f'ch|{ln}|{data.hex()}'


def parse_value(s):
    if s == 'N':
        return None                    # (a value somebody forgot to set)
    if s.startswith('f:'):
        return float(s[2:])
    return bytes.fromhex(s[2:]).decode('utf-8', 'surrogateescape') if s.startswith('s:') else int(s)


def real_assign(line):
    """mode (optional 6th field): A assign through frame.f.<name> (default), G through frame.get(name).value;
    a leading P encodes the frame once BEFORE the edit, a trailing R reads str(frame) before encoding"""
    parts = line.split('|')
    _, name, h, field, val = parts[:5]
    mode = parts[5] if len(parts) > 5 else 'A'
    pl = bytes.fromhex(h)
    try:
        cls = find_class(name)
        f = cls.construct(bytearray(pl))
        if mode.startswith('P'):
            f.pack()
            f.to_bytes()
        if 'F' in mode:
            # an encode that is refused first: the LAST numeric field gets a value no field holds, pack() raises, the caller catches it
            # and puts the old value back - then the edit the line is about
            nums = [it for it in ordered_items(f) if isinstance(it.value, int) and not isinstance(it, (Padding, CfgKeyData))]
            if nums:
                old_v = nums[-1].value
                nums[-1].value = 1 << 70
                try:
                    f.pack()
                except Exception:
                    pass
                nums[-1].value = old_v
        given = parse_value(val)
        if isinstance(given, int):
            given = dress(given, line)
        if 'G' in mode:
            f.get(field).value = given
        else:
            setattr(f.f, field, given)
        if getattr(f.f, field) != parse_value(val):
            return 'not-assigned'
    except Exception as e:
        return 'EXC:' + exc_name(e)
    try:
        f.pack()
        data = bytes(f.data)
    except Exception as e:
        return 'pack=EXC:' + exc_name(e)
    try:
        g = cls.construct(bytearray(data))
        return f'pack={data.hex()} back={show(getattr(g.f, field))}'
    except Exception as e:
        return f'pack={data.hex()} back=EXC:' + exc_name(e)


def field_kinds(name, pl):
    f = find_class(name).construct(bytearray(pl))
    out = []
    for it in ordered_items(f):
        if isinstance(it, Padding):
            continue
        if isinstance(it, CH):
            out.append((it.name, 'text', it.length))
        else:
            out.append((it.name, it.fmt, struct.calcsize('<' + it.fmt)))
    return out


def in_range(kind, w, v):
    if kind == 'text':
        return isinstance(v, str) and len(v.encode()) <= w and not v.endswith('\x00')
    if not isinstance(v, int):
        return False
    if kind in 'BHIQ':
        return 0 <= v < 1 << (8 * w)
    return -(1 << (8 * w - 1)) <= v < 1 << (8 * w - 1)


def oracles_assign(line, real_out):
    _, name, h, field, val = line.split('|')[:5]
    pl = bytes.fromhex(h)
    if not wellformed(name, pl):
        return [], []
    try:
        kinds = {n: (k, w) for n, k, w in field_kinds(name, pl)}
    except Exception:
        return [], []
    if field not in kinds:
        return [], []
    k, w = kinds[field]
    v = parse_value(val)
    if not in_range(k, w, v):
        return [], []           # what an out-of-range assignment does is not part of the statement
    n = blocks_of(name, pl)
    packed = real_out.split(' ')[0].replace('pack=', '') if real_out.startswith('pack=') else real_out
    back = real_out.split('back=')[-1] if 'back=' in real_out else real_out
    recs = []
    if COUNT_FIELD.get(name) != field:      # an edited count no longer describes the payload: not a well-formed frame to decode
        recs.append({'prop': 'C08', 'ok': back == val, 'expected': val, 'observed': back[:200],
                     'what': 'encoding then decoding an in-range field assignment returns the assigned value'})
    spec = [{'line': f'rmw|{name}|{n}|{h}|{field}|{val}', 'expect': packed, 'prop': 'C08',
             'what': 'after one field is changed the re-encoded payload differs from the original only in that field\'s bytes (and zeroed reserved bytes)'}]
    return recs, spec


def boundary_values(rng, kind, w):
    if kind == 'text':
        vals = ['', 'A', 'AB'[:w], 'Z' * w, 'Z' * (w + 1), 'a\x00b'[:w],
                # text measured in bytes, not characters: fitting exactly, one byte too long with fewer than w characters
                'é' * (w // 2), 'é' * (w // 2 + 1), ('µ' + 'A' * w)[:w - 1], '€'[:w // 3] + 'x' * (w % 3), '😀' * (w // 4 + (1 if w % 4 else 0))]
        return [('s:' + v.encode().hex()) for v in vals]
    bits = 8 * w
    vs = [0, 1, 2, (1 << (bits - 1)) - 1, 1 << (bits - 1), (1 << bits) - 1, 1 << bits, -1, -2, -(1 << (bits - 1)), -(1 << (bits - 1)) - 1,
          rng.randrange(1 << bits), -rng.randrange(1 << (bits - 1))]
    return [str(v) for v in vs]


def gen_assign(rng, n, profile):
    # a frame that was encoded once, then ONE signed field changed between two values with the same hash() (-1 / -2), encoded again
    for name, size in CLASSES.items():
        if not size:
            continue
        try:
            kinds = field_kinds(name, bytes([0xff]) * size)
        except Exception:
            continue
        for fname, k, w in kinds:
            if k != 'text' and k.islower():
                yield f'assign|{name}|{"ff" * size}|{fname}|-2|{rng.choice(["PA", "PG"])}'
                yield f'assign|{name}|{"fe" + "ff" * (size - 1) if False else "ff" * size}|{fname}|-2|PA'
    for name in CLASSES:
        for _ in range(max(1, n // 10)):
            pl = payload_for(rng, name)
            while not wellformed(name, pl):
                pl = payload_for(rng, name)
            try:
                kinds = field_kinds(name, pl)
            except Exception:
                continue
            if not kinds:
                continue
            picks = kinds if n >= 30 else rng.sample(kinds, min(len(kinds), 4))
            for fname, k, w in picks:
                vals = boundary_values(rng, k, w)
                for v in (vals if n >= 30 else rng.sample(vals, 4)):
                    yield f'assign|{name}|{pl.hex()}|{fname}|{v}|{rng.choice(["A", "A", "G", "PA", "PG", "PG", "FA", "FG", "PFA"])}'


# =====================================================================================================
# configuration items
# =====================================================================================================
def item_str(c, v=None):
    return f'{c.group_id},{c.item_id},{c.bits},{int(c.signed)},{int(c.value if v is None else v)}'


def real_keyseq(line):
    """ONE CfgKeyData object used again and again: P pack, S str, U<hex> unpack into it, G/I/B/V/Z<value> assign
    group_id / item_id / bits / value / signed"""
    c = CfgKeyData('data0', 0, 0, 8, 0, False)
    out = []
    for op in line.split('|', 1)[1].split(';'):
        try:
            if op == 'P':
                out.append(bytes(c.pack()).hex())
            elif op == 'S':
                out.append('str:' + str(c).replace(' ', '_'))
            elif op[0] == 'U':
                n = c.unpack(bytearray(bytes.fromhex(op[1:])))
                out.append(f'{item_str(c)},n={n}')
            elif op[0] == 'G':
                c.group_id = int(op[1:])
            elif op[0] == 'I':
                c.item_id = int(op[1:])
            elif op[0] == 'B':
                c.bits = int(op[1:])
            elif op[0] == 'V':
                c.value = int(op[1:])
            elif op[0] == 'Z':
                c.signed = op[1:] == '1'
        except Exception as e:
            out.append('EXC:' + exc_name(e))
    return ' '.join(out)


class SubInt(int):
    """an int by another name (what numpy-free code calls `Level(3)`, `Hz(10)` …)"""


def dress(v, line):
    """the integer as the caller may hold it: a plain int, an int subclass, an IntEnum / IntFlag member, a bool.  Which one
    depends on the line (and repeats on a replay); to the codec they are the same number"""
    k = zlib.crc32(line.encode()) % 8
    if k == 0:
        return SubInt(v)
    if k == 1:
        return enum.IntEnum('Setting', {'CHOSEN': v}).CHOSEN
    if k == 2 and v >= 0:
        return enum.IntFlag('Mask', {'CHOSEN': v}).CHOSEN if v else v
    if k == 3 and v in (0, 1):
        return bool(v)
    return v


def real_keytab(line):
    """the public key table changes while items are decoded and built: T<key>:<1|0|-> register as signed / unsigned or
    remove (what an application with keys of its own does), U<hex> decode an item, F<key>:<value> build from a key and pack,
    G<hex> decode a VALGET payload.  The table is put back as it was afterwards."""
    from ubxlib.cfgkeys import KeyInfo
    from ubxlib.ubx_cfg_valget import UbxCfgValGet
    saved_obj, saved = UbxKeyId.KEY_INFO, dict(UbxKeyId.KEY_INFO)
    out = []
    try:
        for op in line.split('|', 1)[1].split(';'):
            try:
                if op[0] in 'TW':
                    k, v = op[1:].split(':')
                    if op[0] == 'W':
                        # the same change made by installing a NEW table (KEY_INFO = {**KEY_INFO, …}; mock.patch.object) instead of
                        # editing the shipped dict in place
                        UbxKeyId.KEY_INFO = dict(UbxKeyId.KEY_INFO)
                    if v == '-':
                        UbxKeyId.KEY_INFO.pop(int(k), None)
                    else:
                        UbxKeyId.KEY_INFO[int(k)] = KeyInfo('CFG-USER-KEY', v == '1')
                elif op[0] == 'U':
                    u = CfgKeyData('x')
                    n = u.unpack(bytearray(bytes.fromhex(op[1:])))
                    out.append(f'{item_str(u)},n={n}')
                elif op[0] == 'F':
                    k, v = op[1:].split(':')
                    c = CfgKeyData.from_key(int(k), int(v))
                    try:
                        out.append(item_str(c, int(v)) + ',' + bytes(c.pack()).hex())
                    except Exception as e:
                        out.append(item_str(c, int(v)) + ',EXC:' + exc_name(e))
                elif op[0] == 'G':
                    f = UbxCfgValGet.construct(bytearray(bytes.fromhex(op[1:])))
                    out.append('/'.join(item_str(it) for it in ordered_items(f) if isinstance(it, CfgKeyData)))
                else:
                    out.append('bad-op')
            except Exception as e:
                out.append('EXC:' + exc_name(e))
    finally:
        UbxKeyId.KEY_INFO = saved_obj
        saved_obj.clear()
        saved_obj.update(saved)
    return ' '.join(out)


def oracles_keytab(line, real_out):
    """decoded values against the reference decoder with the table as it is at each operation; an item that decodes
    re-encodes to the bytes it was decoded from (C14), with the signedness the table gives its key (C13, C07)"""
    table = {k: v.signed for k, v in UbxKeyId.KEY_INFO.items()}
    outs = real_out.split(' ')
    j, bad = 0, None
    for op in line.split('|', 1)[1].split(';'):
        if op[0] in 'TW':
            k, v = op[1:].split(':')
            if v == '-':
                table.pop(int(k), None)
            else:
                table[int(k)] = v == '1'
            continue
        got = outs[j] if j < len(outs) else 'missing'
        j += 1
        if op[0] == 'U':
            data = bytes.fromhex(op[1:])
            r = ref_unpack(data, table)
            exp = 'EXC:ValueError' if r is None else ','.join(map(str, [r[0][0], r[0][1], r[0][2], int(r[0][3]), r[0][4]])) + f',n={r[1]}'
            if got != exp:
                bad = bad or f'{op[:40]}: expected {exp}, got {got}'
    what = 'configuration items are decoded with the signedness the key table gives their key at the time of the call'
    return [{'prop': q, 'ok': bad is None, 'expected': 'as the reference decoder', 'observed': bad or 'ok', 'what': what} for q in ('C07', 'C08', 'C13', 'C14')], []


def real_keyobs(line):
    """pack() of one item with ANOTHER item packed and decoded in the middle of it (at the n-th line executed): items share
    nothing, so the bytes are this item's"""
    p = line.split('|')
    g, i, bits, sg, v, at = int(p[1]), int(p[2]), int(p[3]), p[4] == '1', int(p[5]), int(p[6])
    item = CfgKeyData('x', g, i, bits, v, sg)
    other = CfgKeyData('y', 0x31, 0x0e, 32 if bits != 32 else 16, 12345, False)

    def meanwhile():
        data = other.pack()
        CfgKeyData('z').unpack(bytearray(data))
    try:
        return bytes(realenv.interleaved(item.pack, at, meanwhile)).hex()
    except Exception as e:
        return 'EXC:' + exc_name(e)


def real_key(line):
    p = line.split('|')
    try:
        if p[0] == 'keyobs':
            return real_keyobs(line)
        if p[0] == 'keytab':
            return real_keytab(line)
        if p[0] == 'keyseq':
            return real_keyseq(line)
        if p[0] == 'keypack':
            g, i, bits, sg, v = int(p[1]), int(p[2]), int(p[3]), p[4] == '1', dress(int(p[5]), line)
            return bytes(CfgKeyData('x', g, i, bits, v, sg).pack()).hex()
        if p[0] == 'keyunpack':
            u = CfgKeyData('x')
            n = u.unpack(bytearray(bytes.fromhex(p[1])))
            return f'{item_str(u)} n={n}'
        if p[0] == 'fromkey':
            key, v = int(p[1]), dress(int(p[2]), line)
            c = CfgKeyData.from_key(key, v)
            head = item_str(c, v)
            try:
                return head + ' ' + bytes(c.pack()).hex()
            except Exception as e:
                return head + ' EXC:' + exc_name(e)
        if p[0] == 'keystr':
            g, i, bits, sg, v = int(p[1]), int(p[2]), int(p[3]), p[4] == '1', int(p[5])
            return str(CfgKeyData('data0', g, i, bits, v, signed=sg))
    except Exception as e:
        return 'EXC:' + exc_name(e)
    return 'bad-line'


WIDTH = {1: 1, 8: 1, 16: 2, 32: 4, 64: 8}
SIZE_CODE = {1: 1, 8: 2, 16: 3, 32: 4, 64: 5}


def clear_reserved(b):
    k = struct.unpack('<I', b[:4])[0] & 0x70FF0FFF
    return struct.pack('<I', k) + b[4:]


def table_signed(key):
    try:
        return bool(UbxKeyId.sign(key))
    except Exception:
        return False


def oracles_keyseq(line, real_out):
    """every P of the sequence is judged like a fresh keypack of the object's fields at that moment"""
    g, i, bits, sg, v = 0, 0, 8, False, 0
    outs = real_out.split(' ')
    recs, k = [], 0
    for op in line.split('|', 1)[1].split(';'):
        if op in ('P', 'S') or op[0] == 'U':
            o = outs[k] if k < len(outs) else 'missing'
            k += 1
            if op == 'P':
                r, _ = oracles_key(f'keypack|{g}|{i}|{bits}|{int(sg)}|{v}', o)
                for x in r:
                    x['what'] += ' (one item object encoded again after its fields were changed)'
                recs += [dict(x, prop=q) for x in r[:1] for q in ('C13', 'C14')] if r else []
            elif op[0] == 'U':
                # every decode is judged by the reference decoder, whatever the object decoded before
                r = ref_unpack(bytes.fromhex(op[1:]))
                exp = 'EXC:ValueError' if r is None else ','.join(str(int(x)) for x in r[0]) + f',n={r[1]}'
                recs += [{'prop': q, 'ok': o == exp, 'expected': exp, 'observed': o[:200],
                          'what': 'decoding a key/value pair gives its group, item, size, the signedness the key table gives the key, and the value - '
                                  'whatever the item object held before'} for q in ('C13', 'C14')]
                if not o.startswith('EXC'):
                    f = o.split(',')
                    g, i, bits, sg, v = int(f[0]), int(f[1]), int(f[2]), f[3] == '1', int(f[4])
        elif op[0] == 'G':
            g = int(op[1:])
        elif op[0] == 'I':
            i = int(op[1:])
        elif op[0] == 'B':
            bits = int(op[1:])
        elif op[0] == 'V':
            v = int(op[1:])
        elif op[0] == 'Z':
            sg = op[1:] == '1'
    return recs, []


def model_line_key(line):
    p = line.split('|')
    return '|'.join(['keypack'] + p[1:6]) if p[0] == 'keyobs' else line


def oracles_key(line, real_out):
    line = model_line_key(line)
    p = line.split('|')
    if p[0] == 'keytab':
        return oracles_keytab(line, real_out)
    if p[0] == 'keyseq':
        return oracles_keyseq(line, real_out)
    recs, spec = [], []
    if p[0] == 'keypack':
        g, i, bits, sg, v = int(p[1]), int(p[2]), int(p[3]), p[4] == '1', int(p[5])
        valid = 0 <= g <= 255 and 0 <= i <= 4095 and bits in WIDTH
        key = (SIZE_CODE.get(bits, 0) << 28) | ((g & 0xff) << 16) | (i & 0xfff)
        tsg = table_signed(key) if valid else False
        rng_ok = bits == 1 or (valid and (-(1 << (bits - 1)) <= v < (1 << (bits - 1)) if sg else 0 <= v < (1 << bits)))
        if not (valid and rng_ok):
            recs.append({'prop': 'C14', 'ok': real_out == 'EXC:ValueError', 'expected': 'EXC:ValueError', 'observed': real_out[:100],
                         'what': 'encoding an out-of-range value, group, item or size raises ValueError'})
        else:
            exp_bytes = struct.pack('<I', key) + (bytes([1 if v else 0]) if bits == 1 else (v % (1 << bits)).to_bytes(bits // 8, 'little'))
            recs.append({'prop': 'C13', 'ok': real_out == exp_bytes.hex(), 'expected': exp_bytes.hex(), 'observed': real_out[:100],
                         'what': 'an item encodes to its key id (size 30..28, group 23..16, item 11..0) little-endian, then the value in its width'})
            # round trip through the real decoder, when the value is in range for the table's signedness (R2)
            rt_ok = bits == 1 or (-(1 << (bits - 1)) <= v < (1 << (bits - 1)) if tsg else 0 <= v < (1 << bits))
            if rt_ok and not real_out.startswith('EXC'):
                try:
                    u = CfgKeyData('x')
                    n = u.unpack(bytearray(bytes.fromhex(real_out)))
                    got = f'{u.group_id},{u.item_id},{u.bits},{int(u.value)} n={n}'
                except Exception as e:
                    got = 'EXC:' + exc_name(e)
                exp = f'{g},{i},{bits},{int(bool(v)) if bits == 1 else v} n={4 + WIDTH[bits]}'
                recs.append({'prop': 'C13', 'ok': got == exp, 'expected': exp, 'observed': got,
                             'what': 'encode then decode gives back group, item, size and value and consumes 4 bytes plus the value width'})
    elif p[0] == 'keyunpack':
        data = bytes.fromhex(p[1])
        if real_out.startswith('EXC:'):
            must = len(data) < 4
            if len(data) >= 4:
                key = struct.unpack('<I', data[:4])[0]
                code = (key >> 28) & 7
                bits = {1: 1, 2: 8, 3: 16, 4: 32, 5: 64}.get(code)
                must = bits is None or len(data) - 4 < WIDTH[bits] or (bits == 1 and data[4] not in (0, 1))
            recs.append({'prop': 'C14', 'ok': real_out == 'EXC:ValueError' and must, 'expected': 'EXC:ValueError only for malformed data',
                         'observed': real_out, 'what': 'decoding raises ValueError and no other exception, and only for malformed data'})
        else:
            head, ntok = real_out.split(' ')
            g, i, bits, sg, v = map(int, head.split(','))
            n = int(ntok[2:])
            try:
                re_enc = bytes(CfgKeyData('x', g, i, bits, v, bool(sg)).pack()).hex()
            except Exception as e:
                re_enc = 'EXC:' + exc_name(e)
            exp = clear_reserved(data[:n]).hex() if 4 < n <= len(data) else 'consumed prefix within the data'
            key = struct.unpack('<I', data[:4])[0]
            code = (key >> 28) & 7
            malformed = code not in (1, 2, 3, 4, 5) or (code == 1 and len(data) > 4 and data[4] not in (0, 1))
            recs.append({'prop': 'C14', 'ok': re_enc == exp and not malformed, 'expected': exp, 'observed': re_enc,
                         'what': 'a decoded prefix re-encodes to the same bytes (reserved key bits cleared); size codes 0, 6, 7 and 1-bit values other than 0/1 are rejected'})
            if key & ~0x70FF0FFF == 0:      # the statement is about key ids whose reserved bits are zero
                spec.append({'line': f'keysigned|{key}', 'expect': 'true' if sg else 'false', 'prop': 'C13',
                             'what': 'a signed interpretation exactly for the keys documented as signed'})
    elif p[0] == 'fromkey':
        key, v = int(p[1]), int(p[2])
        code = (key >> 28) & 7
        reserved_zero = key & ~0x70FF0FFF == 0
        if reserved_zero and code in (1, 2, 3, 4, 5) and 0 <= key < (1 << 32):
            bits = {1: 1, 2: 8, 3: 16, 4: 32, 5: 64}[code]
            tsg = table_signed(key)
            okv = bits == 1 or (-(1 << (bits - 1)) <= v < (1 << (bits - 1)) if tsg else 0 <= v < (1 << bits))
            if not okv:
                tail = real_out.split(' ')[-1]
                recs.append({'prop': 'C14', 'ok': tail == 'EXC:ValueError', 'expected': 'EXC:ValueError', 'observed': real_out[:120],
                             'what': 'encoding an out-of-range value raises ValueError (item built from a key id; the range is that of the key\'s size and documented signedness)'})
            if okv:
                tail = real_out.split(' ')[-1]
                exp = struct.pack('<I', key).hex()
                ok = tail[:8] == exp and len(tail) == 2 * (4 + WIDTH[bits])
                recs.append({'prop': 'C13', 'ok': ok, 'expected': exp + f' + {WIDTH[bits]} value byte(s)', 'observed': tail[:60],
                             'what': 'the item built from a key id with zero reserved bits encodes to exactly that key id, little-endian, with the value width of its size code'})
                spec.append({'line': f'keysigned|{key}', 'expect': 'true' if real_out.split(',')[3] == '1' else 'false', 'prop': 'C13',
                             'what': 'a signed interpretation exactly for the keys documented as signed'})
    return recs, spec


def published_keys():
    ks = {v for k, v in vars(UbxKeyId).items() if isinstance(v, int) and not isinstance(v, bool) and k.startswith('CFG_')}
    return sorted(ks | {k for k in getattr(UbxKeyId, 'KEY_INFO', {}) if isinstance(k, int)})


def gen_keytab(rng, n):
    """keys of the application's own (signed ones of every width among them) registered, changed and removed between uses -
    also keys that were looked up before they were registered, and published keys re-registered with the other signedness"""
    pub = published_keys()
    for _ in range(n):
        mine = [(rng.choice([1, 2, 3, 4, 5]) << 28) | (rng.randrange(256) << 16) | rng.randrange(4096) for _ in range(rng.choice([1, 2, 3]))]
        if rng.random() < .3:
            mine.append(rng.choice(pub))
        ops = []
        for _ in range(rng.randrange(3, 9)):
            k = rng.choice(mine)
            bits = {1: 1, 2: 8, 3: 16, 4: 32, 5: 64}[(k >> 28) & 7]
            u = rng.random()
            if u < .35:
                ops.append(f'{rng.choice("TTW")}{k}:{rng.choice(["1", "1", "0", "-"])}')
            elif u < .7:
                val = bytes([rng.choice([0, 1])]) if bits == 1 else bytes(rng.choice([0xff, 0x80, 0xce, 0, rng.randrange(256)]) for _ in range(WIDTH[bits]))
                ops.append('U' + (struct.pack('<I', k) + val).hex())
            elif u < .85:
                ops.append(f'F{k}:{rng.choice([-1, -50, 1, 0, 200, -(1 << (bits - 1)) if bits > 1 else 1, (1 << bits) - 1])}')
            else:
                pl = bytearray([1, 0, 0, 0])
                for kk in rng.sample(mine, rng.randrange(1, len(mine) + 1)):
                    b = {1: 1, 2: 8, 3: 16, 4: 32, 5: 64}[(kk >> 28) & 7]
                    pl += struct.pack('<I', kk) + (bytes([1]) if b == 1 else bytes(rng.choice([0xff, 0xfe, 0x7f, 0]) for _ in range(WIDTH[b])))
                ops.append('G' + bytes(pl).hex())
        yield 'keytab|' + ';'.join(ops)


def gen_key(rng, n, profile):
    yield from gen_keytab(rng, max(20, n // 5))
    for bits, sg, v in [(1, 0, 1), (8, 1, -3), (16, 0, 250), (16, 1, -100), (32, 0, 70000), (64, 1, -5)]:
        for at in (1, 3, 5, 8, 11, 14, 17, 20, 24, 28):
            yield f'keyobs|{rng.randrange(256)}|{rng.randrange(4096)}|{bits}|{sg}|{v}|{at}'
    keys = published_keys()
    # exhaustive: size code 0..7 x available value bytes 0..9 x value patterns x reserved bits set/clear
    for code in range(8):
        for avail in range(10):
            for pat in (0x00, 0xFF, 0x01, 0x80):
                for res in (0, 1 << 31, 0xF << 24, 0xF << 12):
                    key = (code << 28) | (0x20 << 16) | 0x011 | res
                    yield 'keyunpack|' + (struct.pack('<I', key) + bytes([pat]) * avail).hex()
    for k in range(4):
        yield 'keyunpack|' + bytes([0x11] * k).hex()
    for key in keys:
        for v in (0, 1, -1, 100, -100, 70000, 255, 256, -32768, 32767, 65535):
            yield f'fromkey|{key}|{v}'
        bits = {1: 1, 2: 8, 3: 16, 4: 32, 5: 64}.get((key >> 28) & 7, 8)
        for v in (0, 1, (1 << (bits - 1)) - 1 if bits > 1 else 1, (1 << bits) - 1, -1 if bits > 1 else 0):
            data = struct.pack('<I', key) + (v % (1 << max(bits, 8))).to_bytes(WIDTH[bits], 'little')
            yield 'keyunpack|' + data.hex()
    # neighbours of every published key: the same group/item under every size code, the items and groups next to it
    for key in keys:
        for code in (1, 2, 3, 4, 5):
            for k2 in {(key & 0x0FFFFFFF) | code << 28, ((key & 0x0FFFF000) | ((key + 1) & 0xFFF)) | code << 28,
                       ((key & 0x0F00FFFF) | ((key + 0x10000) & 0xFF0000)) | code << 28}:
                bits = {1: 1, 2: 8, 3: 16, 4: 32, 5: 64}[code]
                top = 1 if bits == 1 else (1 << bits) - 1
                yield f'fromkey|{k2}|{top}'
                yield 'keyunpack|' + (struct.pack('<I', k2) + top.to_bytes(WIDTH[bits], 'little')).hex()
                yield f'keypack|{(k2 >> 16) & 0xff}|{k2 & 0xfff}|{bits}|0|{top}'
    # one item object reused: encode / print / decode into it / change its fields, in every order
    for _ in range(max(40, n // 4)):
        ops = []
        for _ in range(rng.randrange(3, 9)):
            k = rng.random()
            if k < 0.3:
                ops.append('P')
            elif k < 0.4:
                ops.append('S')
            elif k < 0.55:
                key = rng.choice(keys)
                bits = {1: 1, 2: 8, 3: 16, 4: 32, 5: 64}[(key >> 28) & 7]
                ops.append('U' + (struct.pack('<I', key) + bytes(rng.choice([0, 1]) if bits == 1 else rng.randrange(256) for _ in range(WIDTH[bits]))).hex())
                if rng.random() < 0.35:
                    # … a decode that is refused after the key id was read (value bytes missing, no such size, a 1-bit value of 2), and
                    # the object goes on being used
                    good = bytes.fromhex(ops.pop()[1:])
                    bad = rng.choice([good[:rng.randrange(4, len(good))], struct.pack('<I', (key & 0x0fffffff) | (rng.choice([0, 6, 7]) << 28)) + good[4:],
                                      struct.pack('<I', (key & 0x0fffffff) | (1 << 28)) + b'\x02'])
                    ops.extend(['U' + bad.hex(), 'U' + good.hex()])
            elif k < 0.65:
                ops.append(f'G{rng.choice([0, 6, 0x21, 0xff])}')
            elif k < 0.75:
                ops.append(f'I{rng.choice([1, 0x2e, 0x2f, 0xfff])}')
            elif k < 0.87:
                ops.append(f'B{rng.choice([1, 8, 16, 32, 64])}')
            elif k < 0.95:
                ops.append(f'V{rng.choice([0, 1, 4, 200, 255])}')
            else:
                ops.append(f'Z{rng.randrange(2)}')
        yield 'keyseq|' + ';'.join(ops + ['P'])
    # one item object decodes a key the table documents as signed, then a key the table does not list (value with its top bit set), and
    # the other way round: what it knows about one key is not what it knows about the next
    signed_keys = [k for k in keys if table_signed(k)]
    for sk in signed_keys:
        sb = {1: 1, 2: 8, 3: 16, 4: 32, 5: 64}[(sk >> 28) & 7]
        sval = bytes([0x80 | j for j in range(WIDTH[sb])])
        for code in (2, 3, 4, 5):
            w = WIDTH[{2: 8, 3: 16, 4: 32, 5: 64}[code]]
            other = struct.pack('<I', (code << 28) | (0xEE << 16) | 0x123) + bytes([0xF0 | j for j in range(w)])
            yield f'keyseq|U{(struct.pack("<I", sk) + sval).hex()};U{other.hex()};P'
            yield f'keyseq|U{other.hex()};U{(struct.pack("<I", sk) + sval).hex()};P;U{other.hex()};P'
    # a refused decode, then a good one into the same object, for every way of refusing and every width
    for key in keys[:12] + keys[-6:]:
        bits = {1: 1, 2: 8, 3: 16, 4: 32, 5: 64}[(key >> 28) & 7]
        good = struct.pack('<I', key) + bytes((1 if bits == 1 else 0x80 | j) for j in range(WIDTH[bits]))
        for bad in (good[:4], good[:-1] if len(good) > 5 else good[:4], struct.pack('<I', key & 0x0fffffff) + good[4:], struct.pack('<I', (key & 0x0fffffff) | (7 << 28)) + good[4:],
                    struct.pack('<I', (key & 0x0fffffff) | (1 << 28)) + b'\x02', good[:3]):
            yield f'keyseq|U{bad.hex()};U{good.hex()};P'
            yield f'keyseq|U{good.hex()};P;U{bad.hex()};U{(good + good).hex()};P'       # (what a refused decode leaves in the object is not prescribed: a good one follows)
    # the same object packed, ONE attribute changed to a value with the same hash() as the old one (-1 / -2; n / n + 2**61 - 1;
    # 0 / 2**61 - 1), packed again: whatever is remembered about the object must not be keyed on hashes
    M = (1 << 61) - 1
    for a, b, bits, sg in [(-1, -2, 16, 1), (-2, -1, 8, 1), (-1, -2, 32, 1), (-2, -1, 64, 1), (5, 5 + M, 64, 0), (0, M, 64, 0), (M, 0, 64, 1), (1, 1 + M, 64, 1)]:
        yield f'keyseq|B{bits};Z{sg};V{a};P;V{b};P;V{a};P'
        yield f'keyseq|B{bits};Z{sg};V{a};P;S;V{b};S;P'
    for bits in (1, 8, 16, 32, 64):
        for sg in (0, 1):
            for g in (0, 1, 0x7f, 0xff):
                for i in (0, 1, 0x3ff, 0x400, 0x7ff, 0x800, 0xfff):
                    w = max(bits, 8)
                    for v in (0, 1, (1 << (w - 1)) - 1, 1 << (w - 1), (1 << w) - 1, 1 << w, -1, -(1 << (w - 1)), -(1 << (w - 1)) - 1):
                        if rng.random() < (1.0 if n >= 300 else 0.25):
                            yield f'keypack|{g}|{i}|{bits}|{sg}|{v}'
    for _ in range(n):
        bits = rng.choice([1, 8, 16, 32, 64, 64, 0, 7, 24])
        sg = int(rng.random() < .5)
        g = rng.choice([0, 1, 0x7f, 0xff, 0x100, -1, 6, rng.randrange(256)])
        i = rng.choice([0, 1, 0x3ff, 0x400, 0x7ff, 0x800, 0xfff, 0x1000, -1, 0x2e, rng.randrange(4096)])
        w = bits if bits in (8, 16, 32, 64) else 8
        v = rng.choice([0, 1, 2, (1 << (w - 1)) - 1, 1 << (w - 1), (1 << w) - 1, 1 << w, -1, -(1 << (w - 1)), -(1 << (w - 1)) - 1,
                        rng.randrange(-(1 << w), 1 << w)])
        yield f'keypack|{g}|{i}|{bits}|{sg}|{v}'
        yield f'keystr|{g}|{i}|{bits}|{sg}|{v}'
    for _ in range(n):
        k = rng.random()
        if k < .5:
            key = rng.choice(keys) if rng.random() < .6 else (rng.randrange(8) << 28 | rng.randrange(256) << 16 | rng.randrange(4096))
            if rng.random() < .2:
                key |= rng.choice([1 << 31, 0xf << 24, 0xf << 12])
            data = struct.pack('<I', key) + bytes(rng.choice([0, 1, 2, 0xff, 0x80, rng.randrange(256)]) for _ in range(rng.randrange(0, 10)))
        else:
            data = bytes(rng.randrange(256) for _ in range(rng.randrange(0, 14)))
        yield 'keyunpack|' + data.hex()
    for _ in range(n // 2):
        key = (rng.randrange(8) << 28 | rng.randrange(256) << 16 | rng.randrange(4096)) if rng.random() < .7 else rng.randrange(1 << 32)
        yield f'fromkey|{key}|{rng.choice([0, 1, 100, -100, 70000, -5])}'


# ---- VALSET / VALGET ---------------------------------------------------------------------------------
def parse_items(s):
    out = []
    for e in s.split(';'):
        g, i, bits, sg, v = e.split(',')
        out.append((int(g), int(i), int(bits), sg == '1', parse_value(v) if v == 'N' or v.startswith('f:') else int(v)))
    return out


def real_valset(line):
    from ubxlib.ubx_cfg_valset import UbxCfgValSetAction
    from ubxlib.ubx_cfg_valget import UbxCfgValGetPoll, UbxCfgValGet
    p = line.split('|')
    try:
        if p[0] == 'valset':
            items = [CfgKeyData('x', g, i, b, dress(v, line + str(k)), s) for k, (g, i, b, s, v) in enumerate(parse_items(p[1]))]
            f = UbxCfgValSetAction(items)
            f.pack()
            return bytes(f.data).hex()
        if p[0] == 'valsetreuse':
            # the same item objects in two frames, one after the other: the later frame is the one looked at
            objs = [CfgKeyData('x', g, i, b, v, s) for g, i, b, s, v in parse_items(p[1])]
            first = UbxCfgValSetAction([objs[int(k)] for k in p[2].split(',')])
            first.pack()
            f = UbxCfgValSetAction([objs[int(k)] for k in p[3].split(',')])
            f.pack()
            return bytes(f.data).hex()
        if p[0] == 'valsetagain':
            # one frame encoded, one of its items changed through the reference the caller kept (or handed out by the frame), encoded
            # again: the second encoding is the one looked at - the new value, or the refusal the new value deserves
            objs = [CfgKeyData('x', g, i, b, v, s) for g, i, b, s, v in parse_items(p[1])]
            f = UbxCfgValSetAction(objs)
            f.pack()
            if p[4] == '1':
                f.to_bytes()
            k = int(p[2])
            (objs[k] if p[5] == '0' else f.get(f'data{k}')).value = int(p[3])
            f.pack()
            return bytes(f.data).hex()
        if p[0] == 'valsetfrom':
            # a VALSET built from items TAKEN OUT of a decoded VALGET response (d<k>), in any order, mixed with new ones (n<spec>) - the
            # read-modify-write of the generation-9 receivers; both frames are rendered afterwards
            res = UbxCfgValGet.construct(bytearray(bytes.fromhex(p[1])))
            if len(p) > 3 and p[3] == 'render':
                str(res)                                 # the response is printed when it arrives, before anything is taken out of it
            got = [it for it in ordered_items(res) if isinstance(it, CfgKeyData)]
            chosen = []
            for e in p[2].split(';'):
                if e[0] == 'd':
                    chosen.append(got[int(e[1:])])
                else:
                    g, i, b, sg, v = parse_items(e[1:])[0]
                    chosen.append(CfgKeyData('x', g, i, b, v, sg))
            f = UbxCfgValSetAction(chosen)
            f.pack()
            if len(p) > 3 and p[3] == 'render':          # (asked by the oracle of C19)
                try:
                    text = str(f)
                    missing = [f'data{k}' for k in range(len(chosen)) if f'data{k}:' not in text]
                    if missing or f.NAME not in text:
                        return 'missing-in-text:' + ','.join(missing or [f.NAME])
                    return 'ok' if str(res) else 'empty'
                except Exception as e:
                    return 'EXC:' + exc_name(e)
            return bytes(f.data).hex()
        if p[0] == 'valgetpoll':
            f = UbxCfgValGetPoll([int(k) for k in p[1].split(',')])
            f.pack()
            return bytes(f.data).hex()
        if p[0] == 'valgetrt':
            f = UbxCfgValGet.construct(bytearray(bytes.fromhex(p[1])))
            if len(p) > 2 and p[2]:
                k, v = p[2].split('=')
                setattr(f.f, k, int(v))
            f.pack()
            return bytes(f.data).hex()
        if p[0] == 'valget':
            f = UbxCfgValGet.construct(bytearray(bytes.fromhex(p[1])))
            items = [it for it in ordered_items(f) if isinstance(it, CfgKeyData)]
            names_ok = [it.name for it in items] == [f'data{k}' for k in range(len(items))]
            return f'{f.f.version},{f.f.layer},{f.f.position} ' + ';'.join(item_str(it) for it in items) + ('' if names_ok else ' misnamed')
    except Exception as e:
        return 'EXC:' + exc_name(e)
    return 'bad-line'


def ref_unpack(data, table=None):
    """reference decoder of one key/value pair: (item tuple, consumed) or None when malformed; `table`: key -> signed, when
    it is not the published one"""
    if table is not None:
        def table_signed(key):
            return bool(table.get(key, False))
    else:
        table_signed = globals()['table_signed']
    if len(data) < 4:
        return None
    key = struct.unpack('<I', data[:4])[0]
    bits = {1: 1, 2: 8, 3: 16, 4: 32, 5: 64}.get((key >> 28) & 7)
    if bits is None or len(data) - 4 < WIDTH[bits]:
        return None
    raw = int.from_bytes(data[4:4 + WIDTH[bits]], 'little')
    if bits == 1:
        if raw not in (0, 1):
            return None
        v = raw
        sg = table_signed(key)
    else:
        sg = table_signed(key)
        v = raw - (1 << bits) if sg and raw >= 1 << (bits - 1) else raw
    return ((key >> 16) & 0xff, key & 0xfff, bits, sg, v), 4 + WIDTH[bits]


def model_line_valset(line):
    """the model knows nothing of objects: a frame made of items used before is the frame made of those items"""
    p = line.split('|')
    if p[0] == 'valsetreuse':
        specs = p[1].split(';')
        return 'valset|' + ';'.join(specs[int(k)] for k in p[3].split(','))
    if p[0] == 'valsetagain':
        specs = p[1].split(';')
        g, i, b, sg, _ = specs[int(p[2])].split(',')
        specs[int(p[2])] = f'{g},{i},{b},{sg},{p[3]}'
        return 'valset|' + ';'.join(specs)
    if p[0] == 'valsetfrom':
        # what the decoded items are is said by the reference decoder
        data, items = bytes.fromhex(p[1])[4:], []
        while len(data) >= 4:
            r = ref_unpack(data)
            if r is None:
                return 'valget|' + p[1]             # (a payload that does not decode: both sides say so)
            items.append(','.join(str(int(x)) for x in r[0]))
            data = data[r[1]:]
        return 'valset|' + ';'.join(items[int(e[1:])] if e[0] == 'd' else e[1:] for e in p[2].split(';'))
    return line


def oracles_valset(line, real_out):
    p = model_line_valset(line).split('|')
    recs = []
    if line.startswith('valsetfrom|'):
        rendered = real_valset(line + '|render')
        recs.append({'prop': 'C19', 'ok': rendered == 'ok', 'expected': 'ok', 'observed': rendered,
                     'what': 'str() of a frame returns text without raising - also of a VALGET response some of whose items were handed on to a VALSET'})
    if p[0] == 'valset':
        items = parse_items(p[1])
        parts, bad = [], False
        for g, i, b, s, v in items:
            valid = 0 <= g <= 255 and 0 <= i <= 4095 and b in WIDTH and (b == 1 or (-(1 << (b - 1)) <= v < (1 << (b - 1)) if s else 0 <= v < (1 << b)))
            if not valid:
                bad = True
                break
            key = (SIZE_CODE[b] << 28) | (g << 16) | i
            parts.append(struct.pack('<I', key) + (bytes([1 if v else 0]) if b == 1 else (v % (1 << b)).to_bytes(b // 8, 'little')))
        exp = 'EXC:ValueError' if bad else (bytes([0, 1, 0, 0]) + b''.join(parts)).hex()
        for q in ('C14', 'C08'):
            recs.append({'prop': q, 'ok': real_out == exp, 'expected': exp[:300], 'observed': real_out[:300],
                         'what': 'a VALSET payload is the 4-byte header followed by the items in the order given'})
    elif p[0] == 'valgetpoll':
        ks = [int(k) for k in p[1].split(',')]
        if all(0 <= k < 1 << 32 for k in ks):
            exp = (bytes(4) + b''.join(struct.pack('<I', k) for k in ks)).hex()
            recs.append({'prop': 'C14', 'ok': real_out == exp, 'expected': exp[:300], 'observed': real_out[:300],
                         'what': 'a VALGET poll lists the requested keys in order'})
    elif p[0] == 'valgetrt':
        data = bytes.fromhex(p[1])
        if len(data) >= 4:
            work, parts, bad = data[4:], [], False
            while len(work) >= 4:
                r = ref_unpack(work)
                if r is None:
                    bad = True
                    break
                parts.append((r[0], work[:r[1]]))
                work = work[r[1]:]
            if not bad:
                edit = p[2].split('=') if len(p) > 2 and p[2] else None
                out = bytearray(data[:4])
                okv = True
                for k, ((g, i, b, sg, v), raw) in enumerate(parts):
                    raw = clear_reserved(raw)
                    if edit and edit[0] == f'data{k}':
                        nv = int(edit[1])
                        okv = (nv in (0, 1)) if b == 1 else ((-(1 << (b - 1)) <= nv < (1 << (b - 1))) if sg else (0 <= nv < (1 << b)))
                        raw = raw[:4] + (bytes([nv]) if b == 1 else (nv % (1 << b)).to_bytes(b // 8, 'little')) if okv else raw
                    out += raw
                if okv:
                    exp = bytes(out).hex()
                    recs.append({'prop': 'C08', 'ok': real_out == exp, 'expected': exp[:300], 'observed': real_out[:300],
                                 'what': 'decoding a VALGET response and encoding it again reproduces the payload (reserved key bits zero); an edited value changes only its own bytes'})
    elif p[0] == 'valget':
        data = bytes.fromhex(p[1])
        if len(data) >= 4:
            work, items, bad = data[4:], [], False
            while len(work) >= 4:
                r = ref_unpack(work)
                if r is None:
                    bad = True
                    break
                items.append(r[0])
                work = work[r[1]:]
            exp = 'EXC:ValueError' if bad else f'{data[0]},{data[1]},{data[2] + 256 * data[3]} ' + ';'.join(
                f'{g},{i},{b},{int(s)},{v}' for g, i, b, s, v in items)
            what = 'a VALGET response decodes to one entry per key/value pair in payload order, or ValueError if a pair is malformed'
            recs.append({'prop': 'C14', 'ok': real_out == exp, 'expected': exp[:300], 'observed': real_out[:300], 'what': what})
            recs.append({'prop': 'C07', 'ok': real_out == exp, 'expected': exp[:300], 'observed': real_out[:300],
                         'what': 'configuration key/value pairs are indexed in payload order with the prescribed values'})
    return recs, []


def gen_valset(rng, n, profile):
    keys = published_keys()

    def item(valid=True):
        bits = rng.choice([1, 8, 16, 32, 64])
        sg = rng.random() < .3
        g, i = rng.randrange(256), rng.randrange(4096)
        v = rng.randrange(-(1 << (bits - 1)), 1 << (bits - 1)) if sg and bits > 1 else rng.randrange(1 << bits)
        if not valid:
            k = rng.randrange(4)
            if k == 0:
                g = rng.choice([-1, 256])
            elif k == 1:
                i = rng.choice([-1, 4096])
            elif k == 2:
                bits = rng.choice([0, 2, 7, 24, 128])
            else:
                bits = max(bits, 8)
                v = (1 << bits) if not sg else -(1 << bits)
        return f'{g},{i},{bits},{int(sg)},{v}'
    for _ in range(n):
        cnt = rng.choice([1, 1, 2, 3, 8, 64])
        items = [item() for _ in range(cnt)]
        if rng.random() < .2:
            items[rng.randrange(cnt)] = item(False)
        yield 'valset|' + ';'.join(items)
    for _ in range(max(4, n // 4)):
        # items that were part of an earlier frame (sent before, or built and dropped), in another order and mixed with new ones
        cnt = rng.choice([2, 3, 4, 8])
        items = [item() for _ in range(cnt)]
        sel1 = rng.sample(range(cnt), rng.randrange(1, cnt + 1))
        sel2 = rng.sample(range(cnt), rng.randrange(1, cnt + 1))
        yield 'valsetreuse|' + ';'.join(items) + '|' + ','.join(map(str, sel1)) + '|' + ','.join(map(str, sel2))
    for _ in range(max(6, n // 5)):
        # encoded, one item's value changed behind the frame's back, encoded again
        cnt = rng.choice([1, 2, 3, 5])
        items = [item() for _ in range(cnt)]
        k = rng.randrange(cnt)
        b = int(items[k].split(',')[2])
        w = max(b, 8)
        nv = rng.choice([0, 1, 2, (1 << (w - 1)) - 1, 1 << (w - 1), (1 << w) - 1, 1 << w, -1, -(1 << (w - 1)) - 1, rng.randrange(1 << w)])
        yield f'valsetagain|{";".join(items)}|{k}|{nv}|{rng.randrange(2)}|{rng.randrange(2)}'
    for _ in range(max(6, n // 6)):
        npairs = rng.choice([2, 3, 4, 6])
        pl = bytearray([1, 0, 0, 0])
        for _ in range(npairs):
            key = rng.choice(keys) if rng.random() < .6 else (rng.choice([1, 2, 3, 4, 5]) << 28 | rng.randrange(256) << 16 | rng.randrange(4096))
            bits = {1: 1, 2: 8, 3: 16, 4: 32, 5: 64}[(key >> 28) & 7]
            pl += struct.pack('<I', key) + (bytes([rng.choice([0, 1])]) if bits == 1 else bytes(rng.randrange(128) for _ in range(WIDTH[bits])))
        sel = [f'd{k}' for k in rng.sample(range(npairs), rng.randrange(1, npairs + 1))]
        for _ in range(rng.choice([0, 1, 2])):
            sel.insert(rng.randrange(len(sel) + 1), 'n' + item())
        yield 'valsetfrom|' + bytes(pl).hex() + '|' + ';'.join(sel)
    for _ in range(n // 2):
        ks = [rng.choice(keys) if rng.random() < .7 else rng.randrange(1 << 32) for _ in range(rng.choice([1, 2, 5, 64]))]
        yield 'valgetpoll|' + ','.join(map(str, ks))
    for _ in range(n):
        pl = bytearray([rng.choice([0, 1]), rng.choice([0, 1, 2, 7]), rng.randrange(4), 0])
        npairs = rng.choice([0, 1, 2, 3, 6, 6, 63, 64, 65, 66, 100, 130])
        # at most one pair of a payload is malformed (anywhere, also behind the 64th), most payloads are well-formed
        bad_at = rng.randrange(npairs) if npairs and rng.random() < 0.35 else -1
        for k in range(npairs):
            key = rng.choice(keys) if rng.random() < .6 else (rng.choice([1, 2, 3, 4, 5]) << 28 | rng.randrange(256) << 16 | rng.randrange(4096))
            bits = {1: 1, 2: 8, 3: 16, 4: 32, 5: 64}[(key >> 28) & 7]
            val = bytes([rng.choice([0, 1])]) if bits == 1 else bytes(rng.choice([0, 0xff, 0x80, rng.randrange(256)]) for _ in range(WIDTH[bits]))
            if k == bad_at:
                r = rng.random()
                if r < .3:
                    key = (key & 0x0FFFFFFF) | rng.choice([0, 6, 7]) << 28
                elif r < .55 and bits == 1:
                    val = bytes([rng.choice([2, 0xff])])
                elif r < .8 and k == npairs - 1:
                    val = val[:-1]
                else:
                    key |= rng.choice([1 << 31, 0xf << 24, 0xf << 12])       # reserved bits set: not malformed, cleared on re-encoding
            pl += struct.pack('<I', key) + val
        if rng.random() < .2:
            pl += bytes(rng.randrange(1, 4))
        if rng.random() < .05:
            pl = pl[:rng.randrange(0, 4)]
        yield 'valget|' + bytes(pl).hex()
        yield 'valgetrt|' + bytes(pl).hex() + '|' + rng.choice(['', '', f'data{rng.randrange(3)}={rng.choice([0, 1, 200, 65535, -1])}'])


# =====================================================================================================
# helpers
# =====================================================================================================
def real_gnss(line):
    from ubxlib.ubx_cfg_gnss import UbxCfgGnss
    _, op, sysn, bl = line.split('|')[:4]
    tail = line.split('|')[4] if len(line.split('|')) > 4 else ''
    prepack = tail == 'P'
    blocks = [tuple(map(int, e.split(':'))) for e in bl.split(',')] if bl else []

    def payload(blocks):
        pl = bytearray([0, 32, 32, len(blocks)])
        for i, fl in blocks:
            pl += bytes([i, 0, 0, 0]) + struct.pack('<I', fl)
        return pl
    pl = payload(blocks)
    try:
        if tail.startswith('H'):
            # the frame object has a past: it held another message (other blocks, another order), a helper was used on it, and then
            # this message was decoded into it - through a new buffer, or the old one refilled in place
            how, hop, hsys, hbl = tail[1:].split('/')
            f = UbxCfgGnss.construct(payload([tuple(map(int, e.split(':'))) for e in hbl.split(',')] if hbl else []))
            {'enable': lambda: f.enable_gnss(int(hsys)), 'disable': lambda: f.disable_gnss(int(hsys)), 'gps_glonass': f.gps_glonass,
             'gps_galileo_beidou': f.gps_galileo_beidou}[hop]()
            if int(how) & 2:
                f.pack()
            if int(how) & 1:
                try:
                    f.data[:] = pl
                except TypeError:
                    f.data = bytearray(pl)
            else:
                f.data = bytearray(pl)
            f.unpack()
        elif tail.startswith('K'):
            # another CFG-GNSS frame is alive in the process (a snapshot kept, a second receiver's answer): decoded before or after this
            # one, with as many blocks or not, and a helper is used on IT first.  Nothing of that may show in this frame.
            order, hop, hsys, hbl = tail[1:].split('/')
            opl = payload([tuple(map(int, e.split(':'))) for e in hbl.split(',')] if hbl else [])
            if order == '0':
                g = UbxCfgGnss.construct(opl)
                f = UbxCfgGnss.construct(pl)
            else:
                f = UbxCfgGnss.construct(pl)
                g = UbxCfgGnss.construct(opl)
            {'enable': lambda: g.enable_gnss(int(hsys)), 'disable': lambda: g.disable_gnss(int(hsys)), 'gps_glonass': g.gps_glonass,
             'gps_galileo_beidou': g.gps_galileo_beidou}[hop]()
        else:
            if tail.startswith('T'):
                # earlier in this process a message announcing as many blocks arrived cut short (checksum fine, payload too short): decoding it
                # failed - and must have left nothing behind that the decoding of this one meets
                cut = payload(blocks)[:4 + 8 * min(int(tail[1:]), max(0, len(blocks) - 1)) + 3]
                try:
                    UbxCfgGnss.construct(bytearray(cut))
                except Exception:
                    pass
            f = UbxCfgGnss.construct(pl)
        if prepack:                 # the frame has been encoded (sent) once before the helper is used
            f.pack()
            f.to_bytes()
        {'enable': lambda: styled(line, f.enable_gnss, ['system'], int(sysn)), 'disable': lambda: styled(line, f.disable_gnss, ['system'], int(sysn)),
         'gps_glonass': f.gps_glonass, 'gps_galileo_beidou': f.gps_galileo_beidou}[op]()
        f.pack()
        d = bytes(f.data)
        if d[:4] != bytes(pl[:4]) or len(d) != len(pl) or any(d[5 + 8 * k:8 + 8 * k] != bytes(3) for k in range(len(blocks))):
            return 'other-bytes-changed:' + d.hex()
        return ','.join(f'{d[4 + 8 * k]}:{struct.unpack("<I", d[8 + 8 * k:12 + 8 * k])[0]}' for k in range(len(blocks)))
    except Exception as e:
        return 'EXC:' + exc_name(e)


PRESETS = {'gps_glonass': ([0, 1, 6], [2, 3, 4, 5]), 'gps_galileo_beidou': ([0, 1, 2, 3], [4, 5, 6])}


def oracles_gnss(line, real_out):
    _, op, sysn, bl = line.split('|')[:4]
    blocks = [list(map(int, e.split(':'))) for e in bl.split(',')] if bl else []
    exp = [list(b) for b in blocks]

    def apply(system, enable):
        for b in exp:
            if b[0] == system:
                b[1] = (b[1] | 1) if enable else (b[1] & ~1)
                return
    if op in PRESETS:
        for s in PRESETS[op][0]:
            apply(s, True)
        for s in PRESETS[op][1]:
            apply(s, False)
    else:
        apply(int(sysn), op == 'enable')
    e = ','.join(f'{i}:{fl}' for i, fl in exp)
    return [{'prop': 'C17', 'ok': real_out == e, 'expected': e[:300], 'observed': real_out[:300],
             'what': 'enable/disable touches only bit 0 of the flags of the first block whose gnssId is the system, nothing when absent; presets are compositions'}], []


def gen_gnss(rng, n, profile):
    import itertools
    flags = [0, 1, 0x01010000, 0x01010001, 0xffffffff, 0xfffffffe]
    for size in range(0, 4 if n < 500 else 5):
        for ids in itertools.permutations(range(8), size):
            if size == 3 and rng.random() > (0.25 if n < 500 else 1):
                continue
            if size == 4 and rng.random() > 0.2:
                continue
            bl = ','.join(f'{i}:{rng.choice(flags)}' for i in ids)
            op = rng.choice(['enable', 'disable', 'enable', 'disable', 'gps_glonass', 'gps_galileo_beidou'])
            yield f'gnss|{op}|{rng.choice(ids) if ids and rng.random() < .7 else rng.randrange(8)}|{bl}'
    for _ in range(n):
        ids = [rng.randrange(8) for _ in range(rng.randrange(0, 7))] if rng.random() < .3 else rng.sample(range(8), rng.randrange(0, 9))
        bl = ','.join(f'{i}:{rng.choice(flags + [rng.randrange(1 << 32)])}' for i in ids)
        op = rng.choice(['enable', 'disable', 'gps_glonass', 'gps_galileo_beidou'])
        past = ''
        if rng.random() < 0.3:
            hids = rng.sample(range(8), rng.randrange(0, 9))
            hbl = ','.join(f'{i}:{rng.choice(flags)}' for i in hids)
            past = f'|H{rng.randrange(4)}/{rng.choice(["enable", "disable", "gps_glonass", "gps_galileo_beidou"])}/{rng.randrange(8)}/{hbl}'
        elif rng.random() < 0.3:
            # another frame alive next to this one: as many blocks (most of the time), other systems and flags
            hids = [rng.randrange(8) for _ in ids] if rng.random() < 0.7 else rng.sample(range(8), rng.randrange(0, 9))
            hbl = ','.join(f'{i}:{rng.choice(flags)}' for i in hids)
            past = f'|K{rng.randrange(2)}/{rng.choice(["enable", "disable", "gps_glonass", "gps_galileo_beidou"])}/{rng.randrange(8)}/{hbl}'
        yield f'gnss|{op}|{rng.randrange(8)}|{bl}' + (past or rng.choice(['', '', '|P']))
    # messages with many blocks (more than any receiver has systems: the count byte is the receiver's), now and then after one that
    # announced as many and came cut short
    for _ in range(max(40, n // 20)):
        ids = [rng.randrange(8) for _ in range(rng.randrange(9, 40))]
        bl = ','.join(f'{i}:{rng.choice(flags + [rng.randrange(1 << 32)])}' for i in ids)
        op = rng.choice(['enable', 'disable', 'gps_glonass', 'gps_galileo_beidou'])
        yield f'gnss|{op}|{rng.randrange(8)}|{bl}' + rng.choice(['', f'|T{rng.randrange(0, len(ids))}', f'|T{rng.randrange(0, len(ids))}'])


def styled(line, method, names, *args):
    """the call written the way a caller may write it - positional, or by the parameter names the library documents (the pinned
    signatures: a rename is an incompatible change), or mixed - chosen by the line"""
    k = zlib.crc32(line.encode()) % 3
    if k == 0 or not args:
        return method(*args)
    if k == 1:
        return method(**dict(zip(names, args)))
    return method(args[0], **dict(zip(names[1:], args[1:])))


def start_frame(cls, init):
    """a fresh frame, or one decoded from a payload (a frame that was used before / came from the receiver)"""
    return cls() if init in ('', '-') else cls.construct(bytearray(bytes.fromhex(init)))


def leverarm_base(p):
    """the query the model is asked: `again` is the same question, `edited:k:v` the question about the payload with X of block k changed"""
    mode = p[4] if len(p) > 4 else ''
    pl = bytearray(bytes.fromhex(p[3]))
    if mode.startswith('edited:'):
        _, k, v = mode.split(':')
        pl[6 + 8 * int(k):8 + 8 * int(k)] = (int(v) % 65536).to_bytes(2, 'little')
    return p[:3] + [bytes(pl).hex()]


def model_line_helper(line):
    p = line.split('|')
    return '|'.join(leverarm_base(p)) if p[1] == 'leverarm' else line


def real_helper(line):
    """helper|<name>|args…|<initial payload hex or ->: the helper applied to a fresh or a decoded frame, then pack()"""
    p = line.split('|')
    try:
        if p[1] == 'rate':
            from ubxlib.ubx_cfg_rate import UbxCfgRate
            f = UbxCfgRate.construct(bytearray(bytes.fromhex(p[3])))
            if '/' in p[2]:
                # a rate in range that is no whole number, as the caller may hold it: a float (exact: the denominator is a power
                # of two), a Fraction, a Decimal
                a, b = map(int, p[2].split('/'))
                k = zlib.crc32(line.encode()) % 3
                f.set_rate_in_hz(a / b if k == 0 else fractions.Fraction(a, b) if k == 1 else decimal.Decimal(a) / decimal.Decimal(b))
            else:
                styled(line, f.set_rate_in_hz, ['rate'], dress(int(p[2]), line))
        elif p[1] in ('save', 'reset'):
            from ubxlib.ubx_cfg_cfg import UbxCfgCfgAction
            f = start_frame(UbxCfgCfgAction, p[3] if len(p) > 3 else '-')
            styled(line, getattr(f, p[1]), ['settings'], int(p[2]))
        elif p[1] == 'rst':
            from ubxlib.ubx_cfg_rst import UbxCfgRstAction
            f = start_frame(UbxCfgRstAction, p[3] if len(p) > 3 else '-')
            getattr(f, p[2])()
        elif p[1] == 'sos':
            from ubxlib.ubx_upd_sos import UbxUpdSosAction
            f = start_frame(UbxUpdSosAction, p[3] if len(p) > 3 else '-')
            getattr(f, p[2])()
        elif p[1] == 'esflaset':
            from ubxlib.ubx_cfg_esfla import UbxCfgEsflaSet
            f = start_frame(UbxCfgEsflaSet, p[6] if len(p) > 6 else '-')
            styled(line, f.set, ['lever_arm_type', 'x', 'y', 'z'], *map(int, p[2:6]))
        elif p[1] == 'utc':
            from ubxlib.ubx_mga_ini_time_utc import UbxMgaIniTimeUtc
            f = start_frame(UbxMgaIniTimeUtc, p[8] if len(p) > 8 else '-')
            styled(line, f.set_datetime, ['dt'], datetime.datetime(*map(int, p[2:8])))
        elif p[1] == 'leverarm':
            from ubxlib.ubx_cfg_esfla import UbxCfgEsfla
            f = UbxCfgEsfla.construct(bytearray(bytes.fromhex(p[3])))
            mode = p[4] if len(p) > 4 else ''
            if mode.startswith('edited:'):                  # a field is assigned after decoding: the query is about the frame as it is now
                _, k, v = mode.split(':')
                setattr(f.f, f'leverArmX_{k}', int(v))
            r = styled(line, f.lever_arm, ['armType'], int(p[2]))
            if mode == 'again' and r is not None:
                # what a query returns is the caller's: scribbling on it (unit conversion in place …) and asking for other
                # types in between must not change what the next query says about the unchanged frame
                for key in list(r):
                    r[key] = r[key] / 100.0 + 7
                r['note'] = 'mine'
                f.lever_arm((int(p[2]) + 1) % 5)
                r = f.lever_arm(int(p[2]))
            return 'none' if r is None else f"{r['x']},{r['y']},{r['z']}"
        else:
            return 'bad-line'
        f.pack()
        return bytes(f.data).hex()
    except Exception as e:
        return 'EXC:' + exc_name(e)


def le(v, w, signed=False):
    return int(v).to_bytes(w, 'little', signed=signed)


def oracles_helper(line, real_out):
    p = line.split('|')
    what = 'the helper sets exactly the fields and values the u-blox protocol prescribes'
    exp, spec = None, []
    if p[1] == 'rate' and '/' in p[2]:
        (a, b), pl = map(int, p[2].split('/')), bytes.fromhex(p[3])
        if b <= a <= 10 * b and len(pl) == 6:
            exp = (le(1000 * b // a, 2) + le(1, 2) + pl[4:6]).hex()
            spec.append({'line': f'rate|{a}/{b}', 'expect': f'{1000 * b // a},1'})
            what = 'the navigation-rate helper sets the period the protocol prescribes for every rate in range, whole or not'
    elif p[1] == 'rate':
        r, pl = int(p[2]), bytes.fromhex(p[3])
        if 1 <= r <= 10 and len(pl) == 6:
            exp = (le(1000 // r, 2) + le(1, 2) + pl[4:6]).hex()
            spec.append({'line': f'rate|{r}', 'expect': f'{1000 // r},1'})
    elif p[1] == 'save':
        m = int(p[2])
        if 0 <= m < 1 << 32:
            exp = (le(0, 4) + le(m, 4) + le(0, 4)).hex()
    elif p[1] == 'reset':
        m = int(p[2])
        if 0 <= m < 1 << 32:
            exp = (le(m, 4) + le(0, 4) + le(m, 4)).hex()
    elif p[1] == 'rst':
        exp = {'warm_start': '01000100', 'cold_start': 'ffff0100', 'start': '00000900', 'stop': '00000800'}[p[2]]
    elif p[1] == 'sos':
        init = bytes.fromhex(p[3]) if len(p) > 3 and p[3] not in ('', '-') else bytes(4)
        exp = ({'backup': '00', 'clear': '01'}[p[2]] + init[1:4].hex()) if len(init) == 4 else None
    elif p[1] == 'esflaset':
        t, x, y, z = map(int, p[2:6])
        init = bytes.fromhex(p[6]) if len(p) > 6 and p[6] not in ('', '-') else bytes([0, 1]) + bytes(10)
        if 0 <= t <= 1 and all(-1000 <= v <= 1000 for v in (x, y, z)) and init[:2] == bytes([0, 1]) and len(init) == 12:
            exp = (bytes([0, 1, 0, 0, t, 0]) + le(x, 2, True) + le(y, 2, True) + le(z, 2, True)).hex()
    elif p[1] == 'utc':
        y, mo, d, h, mi, s = map(int, p[2:8])
        exp = (bytes([0x10, 0, 0, 0x80]) + le(y, 2) + bytes([mo, d, h, mi, s, 0]) + le(0, 4) + le(10, 2) + bytes(2) + le(0, 4)).hex()
        spec.append({'line': f'initime|{y}|{mo}|{d}|{h}|{mi}|{s}', 'expect': exp})
    elif p[1] == 'leverarm':
        p = leverarm_base(p)
        t, pl = int(p[2]), bytes.fromhex(p[3])
        n = pl[1]
        if n <= 5 and len(pl) == 4 + 8 * n:
            exp = 'none'
            for k in range(n):
                b = pl[4 + 8 * k:12 + 8 * k]
                if b[0] == t:
                    exp = ','.join(str(int.from_bytes(b[2 + 2 * j:4 + 2 * j], 'little', signed=True)) for j in range(3))
                    break
            what = 'the lever-arm query returns the first block of the requested type or nothing'
    if exp is None:
        return [], []
    return [{'prop': 'C17', 'ok': real_out == exp, 'expected': exp, 'observed': real_out[:200], 'what': what}], spec


def gen_helper(rng, n, profile):
    for r in range(0, 12):
        for pl in ('e80301000100', '000000000000', 'ffffffffffff'):
            yield f'helper|rate|{r}|{pl}'
    for b in (2, 4, 8, 16, 64):
        for a in sorted({b, b + 1, 2 * b + 1, 5 * b // 2, 25 * b // 4, 10 * b - 1, 10 * b, 10 * b + 1, b - 1, 7 * b // 2 + 1}):
            yield f'helper|rate|{a}/{b}|e80301000100'
    def init(size):
        """'-' = a fresh frame; otherwise the payload the frame was decoded from (a frame used before: no field is zero)"""
        return rng.choice(['-', bytes([0xff] * size).hex(), bytes(rng.randrange(1, 256) for _ in range(size)).hex()])
    for m in [0, 1, 0x1f1f, 0xffff, 0xffffffff, 0x80000000] + [rng.randrange(1 << 32) for _ in range(max(4, n // 10))]:
        for _ in range(2):
            yield f'helper|save|{m}|{init(12)}'
            yield f'helper|reset|{m}|{init(12)}'
    for a in ('warm_start', 'cold_start', 'start', 'stop'):
        for i in ('-', 'ffffffff', '12345678'):
            yield f'helper|rst|{a}|{i}'
    for a in ('backup', 'clear'):
        for i in ('-', 'ffffffff', '12345678'):
            yield f'helper|sos|{a}|{i}'
    for t in (0, 1, 2):
        for v in (-1001, -1000, -1, 0, 1, 999, 1000, 1001):
            yield f'helper|esflaset|{t}|{v}|{-v}|{rng.randrange(-1000, 1001)}'
    for _ in range(n):
        i = rng.choice(['-', '-', (bytes([0, 1]) + bytes(rng.randrange(1, 256) for _ in range(10))).hex(), bytes(rng.randrange(1, 256) for _ in range(12)).hex()])
        yield f'helper|esflaset|{rng.randrange(2)}|{rng.randrange(-1000, 1001)}|{rng.randrange(-1000, 1001)}|{rng.randrange(-1000, 1001)}|{i}'
    for y, mo, d, h, mi, s in [(1, 1, 1, 0, 0, 0), (9999, 12, 31, 23, 59, 59), (2000, 2, 29, 12, 0, 0), (255, 1, 1, 0, 0, 0), (256, 1, 1, 0, 0, 0),
                               (1980, 1, 6, 0, 0, 0), (2038, 1, 19, 3, 14, 7)]:
        yield f'helper|utc|{y}|{mo}|{d}|{h}|{mi}|{s}'
    for _ in range(n):
        i = rng.choice(['-', '-', bytes([0xff] * 24).hex(), bytes(rng.randrange(1, 256) for _ in range(24)).hex()])
        yield f'helper|utc|{rng.randrange(1, 10000)}|{rng.randrange(1, 13)}|{rng.randrange(1, 29)}|{rng.randrange(24)}|{rng.randrange(60)}|{rng.randrange(60)}|{i}'
    for _ in range(n):
        cnt = rng.randrange(0, 6)
        pl = bytearray([0, cnt, 0, 0])
        for _ in range(cnt):
            pl += bytes([rng.randrange(0, 6), 0]) + bytes(rng.randrange(256) for _ in range(6))
        t = rng.randrange(0, 6) if rng.random() < .5 or not pl[1] else pl[4 + 8 * rng.randrange(min(pl[1], (len(pl) - 4) // 8) or 1)] if len(pl) >= 12 else 0
        yield f'helper|leverarm|{t}|{bytes(pl).hex()}'
        if 1 <= pl[1] <= 5 and len(pl) == 4 + 8 * pl[1]:
            yield f'helper|leverarm|{t}|{bytes(pl).hex()}|again'
            yield f'helper|leverarm|{t}|{bytes(pl).hex()}|edited:{rng.randrange(pl[1])}:{rng.choice([0, 1, -1, 250, -32768, 32767])}'


# =====================================================================================================
# renderers
# =====================================================================================================
def render_items():
    from ubxlib import ubx_cfg_esfla, ubx_cfg_gnss, ubx_cfg_prt, ubx_esf_alg, ubx_esf_status, ubx_nav_status, types as T
    return {'U1_LeverArmType': ubx_cfg_esfla.U1_LeverArmType, 'U1_GnssId': ubx_cfg_gnss.U1_GnssId, 'X4_Flags': ubx_cfg_gnss.X4_Flags,
            'X2_Proto': ubx_cfg_prt.X2_Proto, 'X4_Mode': ubx_cfg_prt.X4_Mode, 'U1_Flags': ubx_esf_alg.U1_Flags,
            'X1_InitStatus1': ubx_esf_status.X1_InitStatus1, 'X1_InitStatus2': ubx_esf_status.X1_InitStatus2,
            'U1_FusionMode': ubx_esf_status.U1_FusionMode, 'X1_SensStatus1': ubx_esf_status.X1_SensStatus1,
            'X1_SensStatus2': ubx_esf_status.X1_SensStatus2, 'U1_GpsFix': ubx_nav_status.U1_GpsFix, 'X1_Flags': ubx_nav_status.X1_Flags,
            'X1': T.X1, 'X2': T.X2, 'X4': T.X4, 'U1': T.U1}


def real_render(line):
    p = line.split('|')
    try:
        if p[0] == 'render':
            cls = render_items()[p[1]]
            v, d = int(p[2]), int(p[3])
            width = struct.calcsize('<' + cls.fmt)
            it = cls('f')
            if p[4] == 'decoded':
                it.unpack(v.to_bytes(width, 'little'))
            elif p[4] == 'edited':
                it.unpack(d.to_bytes(width, 'little'))
                it.value = v
            return str(it)[len('f: '):]
        if p[0] == 'strval':
            from ubxlib.ubx_cfg_valset import UbxCfgValSetAction
            from ubxlib.ubx_cfg_valget import UbxCfgValGetPoll, UbxCfgValGet
            if p[1] == 'valset':
                f = UbxCfgValSetAction([CfgKeyData('x', g, i, b, v, sg) for g, i, b, sg, v in parse_items(p[2])])
            elif p[1] == 'valgetpoll':
                f = UbxCfgValGetPoll([int(k) for k in p[2].split(',')])
            else:
                f = UbxCfgValGet.construct(bytearray(bytes.fromhex(p[2])))
            text = str(f)
            names = [it.name for it in ordered_items(f) if not isinstance(it, Padding)]
            missing = [n for n in names if n not in text]
            return f'ok name={"true" if type(f).NAME in text else "false"} missing={",".join(missing) or "-"} items={len(names)}'
        if p[0] == 'str':
            cls = find_class(p[1])
            f = cls() if p[2] == '-' else cls.construct(bytearray(bytes.fromhex(p[2])))
            if p[3]:
                for e in p[3].split(','):
                    k, v = e.split('=')
                    setattr(f.f, k, parse_value(v))
            text = str(f)
            names = [it.name for it in ordered_items(f) if not isinstance(it, Padding)]
            missing = [n for n in names if n not in text]
            return f'ok name={"true" if cls.NAME in text else "false"} missing={",".join(missing) or "-"}'
    except Exception as e:
        return 'EXC:' + exc_name(e)
    return 'bad-line'


def oracles_render(line, real_out):
    p = line.split('|')
    if p[0] == 'render':
        return [{'prop': 'C19', 'ok': not real_out.startswith('EXC'), 'expected': 'text', 'observed': real_out[:100],
                 'what': 'str() of a field returns text without raising, for every field value (fresh, decoded or edited)'}], []
    if p[0] == 'strval':
        if (real_out.startswith('EXC:ValueError') and p[1] != 'valgetpoll') or (real_out.startswith('EXC:') and p[1] == 'valget'):
            return [], []           # malformed VALGET data / an item of an invalid width: C14's subject (cfgitem_text_invalid)
        ok = real_out.startswith('ok name=true missing=- ')
        return [{'prop': 'C19', 'ok': ok, 'expected': 'ok name=true missing=-', 'observed': real_out[:200],
                 'what': 'str() of a VALSET / VALGET frame returns text with the message name and every item, without raising'}], []
    if p[0] == 'str':
        if p[2] != '-' and not wellformed(p[1], bytes.fromhex(p[2])):
            return [], []
        exp = 'ok name=true missing=-'
        return [{'prop': 'C19', 'ok': real_out == exp, 'expected': exp, 'observed': real_out[:200],
                 'what': 'str() of a frame returns text containing the message name and the name of every non-reserved field, without raising'}], []
    return [], []


def gen_render(rng, n, profile):
    items = render_items()
    for name, cls in items.items():
        width = struct.calcsize('<' + cls.fmt)
        if width == 1:
            values = list(range(256))
        elif name == 'X4_Mode':
            values = [((v & 3) << 6) | (((v >> 2) & 7) << 9) | (((v >> 5) & 3) << 12) | (v >> 7) * 0x00010001 for v in range(256)]
        else:
            values = list(range(16)) + [rng.randrange(1 << (8 * width)) for _ in range(40)] + [(1 << (8 * width)) - 1]
        for v in values:
            v &= (1 << (8 * width)) - 1
            yield f'render|{name}|{v}|{v}|decoded'
            yield f'render|{name}|{v}|85|edited'
        yield f'render|{name}|0|0|fresh'
    for name in CLASSES:
        yield f'str|{name}|-|'
        for _ in range(max(2, n // 10)):
            pl = payload_for(rng, name)
            yield f'str|{name}|{pl.hex()}|'
            if wellformed(name, pl):
                try:
                    kinds = field_kinds(name, pl)
                except Exception:
                    continue
                edits = []
                for fname, k, w in rng.sample(kinds, min(len(kinds), 3)):
                    if k != 'text':
                        edits.append(f'{fname}={rng.choice([0, 1, (1 << (8 * w - 1)) - 1, (1 << (8 * w)) - 1 if k in "BHIQ" else -1])}')
                yield f'str|{name}|{pl.hex()}|{",".join(edits)}'
    for ln in gen_valset(rng, max(20, n // 3), 'valget'):
        kind, arg = ln.split('|')[:2]
        if kind in ('valset', 'valgetpoll', 'valget'):
            yield f'strval|{kind}|{arg}'
    for extra in ('UbxCfgPrtUart', 'UbxCfgGnss', 'UbxEsfStatus', 'UbxEsfAlg', 'UbxNavStatus', 'UbxCfgEsfla'):
        size = CLASSES[extra]
        if size:
            for b in range(256):
                yield f'str|{extra}|{bytes([b] * size).hex()}|'


COMPONENTS = {
    'frame': {'real': real_frame, 'oracles': oracles_frame, 'gen': gen_frame, 'model_line': model_line_frame},
    'ck': {'real': real_ck, 'oracles': oracles_ck, 'gen': gen_ck,
           'model_line': lambda line: 'ckseq|' + line.split('|')[1] if line.startswith('ckobs|') else line},
    'fields': {'real': real_fields, 'oracles': oracles_fields, 'gen': gen_fields, 'model_line': model_line_fields},
    'ch': {'real': real_ch, 'oracles': oracles_ch, 'gen': gen_ch},
    'subitem': {'real': real_subitem, 'oracles': oracles_subitem, 'gen': gen_subitem},
    'assign': {'real': real_assign, 'oracles': oracles_assign, 'gen': gen_assign},
    'key': {'real': real_key, 'oracles': oracles_key, 'gen': gen_key, 'model_line': model_line_key},
    'valset': {'real': real_valset, 'oracles': oracles_valset, 'gen': gen_valset, 'model_line': model_line_valset},
    'gnss': {'real': real_gnss, 'oracles': oracles_gnss, 'gen': gen_gnss},
    'helper': {'real': real_helper, 'oracles': oracles_helper, 'gen': gen_helper, 'model_line': model_line_helper},
    'render': {'real': real_render, 'oracles': oracles_render, 'gen': gen_render},
}

"""Prototype of the C02/C03 search oracle: the real UbxParser (no filter restriction: all class/ids of
the stream awaited) against the Lean reference scanner `Spec.scan` on arbitrary byte streams."""
import os, random, subprocess, sys, json
repo = sys.argv[1] if len(sys.argv) > 1 else '/repo'
sys.path.insert(0, repo)
import logging; logging.disable(logging.CRITICAL)
from ubxlib.parser_ubx import UbxParser
from ubxlib.frame import UbxFrame, UbxCID
rng = random.Random(int(os.environ.get('VERIF_SEED', '0')))
DRIVER = os.environ.get('DRIVER', '/root/work/lean/.lake/build/bin/driver')
CRC = UbxCID(0, 2)

def frame(c, i, pl):
    f = UbxFrame(); f.CID = UbxCID(c, i); f.data = bytearray(pl); return bytes(f.to_bytes())

def stream():
    s = bytearray(); cids = set()
    for _ in range(rng.randrange(0, 7)):
        k = rng.random()
        if k < 0.5:
            c, i = rng.choice([(5, 1), (6, 8), (1, 7), (0xb5, 0x62)])
            n = rng.choice([0, 1, 2, 5, 40, 255, 256, 300, 1000, 1001])
            pl = bytes(rng.choice([0xb5, 0x62, 0, rng.randrange(256)]) for _ in range(n))
            f = bytearray(frame(c, i, pl)); cids.add((c, i))
            r = rng.random()
            if r < 0.15: f[rng.randrange(2, len(f))] ^= 1 << rng.randrange(8)
            elif r < 0.25: f = f[:rng.randrange(1, len(f))]
            s += f
        elif k < 0.7: s += bytes(rng.choice([0xb5, 0xb5, 0x62, 0, 0x24]) for _ in range(rng.randrange(1, 4)))
        elif k < 0.85: s += b'$GPGGA,1,2*33\r\n'
        else: s += bytes(rng.randrange(256) for _ in range(rng.randrange(1, 12)))
    return bytes(s), cids

def real(s, cids):
    p = UbxParser(CRC)
    allc = [UbxCID(c, i) for c in range(256) for i in ()]  # placeholder
    p.set_filters([UbxCID(c, i) for (c, i) in ALL])
    cuts = sorted(rng.sample(range(len(s) + 1), min(len(s) + 1, rng.randrange(0, 4))))
    prev = 0
    for c in cuts + [len(s)]:
        p.process(s[prev:c]); prev = c
    out = []
    while True:
        cid, data = p.packet()
        if cid is None: break
        out.append('crc' if cid == CRC else f'{cid.cls}/{cid.id}:{bytes(data).hex()}')
    return ';'.join(out), p.frames_rx

ALL = [(c, i) for c in (1, 5, 6, 0xb5, 0, 0x62, 0x24) for i in range(256)]

def main():
    n = int(os.environ.get('N', '2000'))
    cases = [stream() for _ in range(n)]
    lines = ['specscan|' + s.hex() for s, _ in cases]
    model = subprocess.run([DRIVER], input='\n'.join(lines) + '\n', capture_output=True, text=True).stdout.split('\n')
    bad = []
    for (s, cids), m in zip(cases, model):
        r, nrx = real(s, cids)
        # events of class/ids outside ALL are not queued by the real parser: drop them from the oracle side
        mm = ';'.join(e for e in m.split(';') if e and (e == 'crc' or (int(e.split('/')[0]), int(e.split('/')[1].split(':')[0])) in ALL))
        if r != mm: bad.append({'stream': s.hex(), 'real': r, 'spec': mm})
    print(json.dumps({'streams': n, 'mismatches': len(bad), 'first': bad[:2]})[:1500])
main()

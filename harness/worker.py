#!/venv/bin/python
"""Runs one job against the real ubxlib (in this process) and writes the records to a JSON file.

job: {"component": …, "profile": …, "seed": n, "n": n, "exhaustive": bool, "lines": […], "props": […]}
out: {"cases": [{"line", "real", "recs", "spec"}], "error": null | text}
"""
import json
import os
import random
import sys
import traceback

sys.path.insert(0, os.path.dirname(os.path.abspath(__file__)))


def main():
    job = json.load(open(sys.argv[1]))
    out = {'cases': [], 'error': None}
    try:
        import realenv
        import components
        comp = components.get(job['component'])
        lines = list(job.get('lines') or [])
        if job.get('exhaustive') and comp.get('exhaustive'):
            lines += list(comp['exhaustive']())
        if job.get('n'):
            rng = random.Random(f"{job['component']}/{job.get('profile')}/{job['seed']}")
            lines += list(comp['gen'](rng, job['n'], job.get('profile')))
        limit = job.get('case_timeout', 20)
        timeouts = 0
        for ln in lines:
            realenv.set_case(ln)
            real = realenv.guarded(comp['real'], limit, ln)
            recs, spec = [], []
            if real == 'TIMEOUT':
                # a call of the real code that does not return: a failure of whatever property rests on it; it is
                # not run again for the oracles, and after three of them the job stops (each costs `limit` seconds)
                timeouts += 1
                recs = [{'prop': p, 'ok': False, 'expected': 'the call returns', 'observed': f'no return within {limit} s of real time',
                         'what': 'the call of the real code did not return'} for p in (job.get('props') or ['*'])]
                out['cases'].append({'line': ln, 'real': real, 'recs': recs, 'spec': []})
                if timeouts >= 3:
                    out['aborted'] = 'stopped after three calls that did not return'
                    break
                continue
            if comp.get('oracles'):
                try:
                    recs, spec = comp['oracles'](ln, real)
                except Exception as e:       # an oracle that cannot run says so; it is not a verdict
                    recs = [{'prop': '*', 'ok': None, 'what': 'oracle failed to run: ' + repr(e)[:200]}]
            if job.get('props'):
                recs = [r for r in recs if r['prop'] in job['props'] or r['prop'] == '*']
                spec = [x for x in spec if x.get('prop') is None or x['prop'] in job['props']]
            case = {'line': ln, 'real': real, 'recs': recs, 'spec': spec}
            if comp.get('model_line'):          # the model is driven by what the back end returned on the real run
                case['model_line'] = realenv.guarded(comp['model_line'], limit, ln)
            out['cases'].append(case)
    except BaseException as e:
        out['error'] = ''.join(traceback.format_exception_only(type(e), e)).strip()[-400:] + ' @ ' + \
            (traceback.format_tb(e.__traceback__)[-1].strip().replace('\n', ' ')[:300] if e.__traceback__ else '')
    with open(sys.argv[2], 'w') as f:
        json.dump(out, f)


main()

"""Import the real ubxlib from the repository under test, with the runtime substituted from outside:
a stub `serial` module, stub sockets, a virtual clock, logging silenced.  Nothing in /repo is edited."""
import logging
import os
import signal
import threading
import sys
import types

from lib import REPO

sys.path.insert(0, REPO)
sys.dont_write_bytecode = True

# ---- logging: swallowed, level chosen by the caller -------------------------------------------------
_root = logging.getLogger('ubxlib')
_root.addHandler(logging.NullHandler())
_root.propagate = False


def log_level(debug, split=None):
    """`debug` = True: every DEBUG-guarded rendering in the library is evaluated; False: disabled.
    `split` (a number): DEBUG on some of the package's module loggers only - the noisy ones turned down, as a user does"""
    mods = sorted(n for n in logging.root.manager.loggerDict if n.startswith('ubxlib.'))
    for n in mods:
        logging.getLogger(n).setLevel(logging.NOTSET)
    # (the run in the other environment has DEBUG on throughout: no level may change what the library does)
    _root.setLevel(logging.DEBUG if debug or os.environ.get('VERIF_LOGLEVEL') == 'DEBUG' else logging.CRITICAL + 10)
    if split is not None and mods:
        # one logger (or all but one) at WARNING, the rest inherit DEBUG from the package logger
        k = split % (2 * len(mods))
        for i, n in enumerate(mods):
            if (i == k) if k < len(mods) else (i != k - len(mods)):
                logging.getLogger(n).setLevel(logging.WARNING)


log_level(False)


# ---- virtual clock: integer ticks of 1/1024 s ----------------------------------------------------
class Clock:
    """stands in for the `time` module (and for its functions, when a module imported them by name)"""

    # as on any real host the wall clock and the monotonic clock advance together but read very different values
    # (seconds since 1970 against seconds since boot); both stay exact in binary floating point (ticks of 2**-10 s)
    EPOCH, SINCE_BOOT = 1_700_000_000, 5_000

    def __init__(self):
        self.ticks = 1024 * 1024

    def time(self):
        return self.EPOCH + self.ticks / 1024.0

    def monotonic(self):
        return self.SINCE_BOOT + self.ticks / 1024.0

    perf_counter = monotonic

    def time_ns(self):
        return self.EPOCH * 1000000000 + self.ticks * 1000000000 // 1024

    def monotonic_ns(self):
        return self.SINCE_BOOT * 1000000000 + self.ticks * 1000000000 // 1024

    perf_counter_ns = monotonic_ns

    def __call__(self):
        return self.time()

    def sleep(self, s):
        self.ticks += max(1, int(round(s * 1024)))


CLK = Clock()

# ---- stub pyserial (the sandbox has none; the code only needs Serial and SerialException) ------------
serial = types.ModuleType('serial')
serialutil = types.ModuleType('serial.serialutil')


class SerialException(Exception):
    pass


class Serial:
    """records what is written and what is done to the bit rate; reads follow a script on the virtual clock"""

    def __init__(self, *a, **k):
        self.is_open = False
        self._baud = 9600
        self.port = None
        self.timeout = None
        self.log = []                 # ('baudrate', n) | ('write', bytes) | ('open',) | ('close',) | ('flush',)
        self.script = []              # list of (dt ticks, byte or None)
        self.j = 0
        self.write_result = None      # None: all bytes; int: that many; list: one per call
        self.delivered = bytearray()

    @property
    def baudrate(self):
        return self._baud

    @baudrate.setter
    def baudrate(self, v):
        self._baud = v
        self.log.append(('baudrate', v))

    def open(self):
        self.is_open = True
        self.log.append(('open',))

    def close(self):
        self.is_open = False
        self.log.append(('close',))

    def reset_input_buffer(self):
        self.log.append(('flush',))

    def flush(self):
        self.log.append(('drain',))

    def write(self, data):
        self.log.append(('write', bytes(data)))
        r = self.write_result
        if isinstance(r, list):
            r = r.pop(0) if r else None
        return len(data) if r is None else r

    def read(self, n=1):
        dt, b = self.script[self.j] if self.j < len(self.script) else (100, None)
        self.j += 1
        CLK.ticks += max(1, dt)
        if b is None:
            return b''
        self.delivered.append(b)
        return bytes([b])


serial.Serial = Serial
serial.SerialException = SerialException
serialutil.SerialException = SerialException
serial.serialutil = serialutil
sys.modules.setdefault('serial', serial)
sys.modules.setdefault('serial.serialutil', serialutil)


def patch_time(module):
    """whatever way the module reaches the clock - `import time`, `from time import time / monotonic / sleep …` - goes
    to the virtual clock"""
    import time as real_time
    for name, val in list(vars(module).items()):
        if val is real_time:
            setattr(module, name, CLK)
        elif val is real_time.time:
            setattr(module, name, CLK.time)
        elif val in (real_time.monotonic, real_time.perf_counter):
            setattr(module, name, CLK.monotonic)
        elif val is real_time.time_ns:
            setattr(module, name, CLK.time_ns)
        elif val in (real_time.monotonic_ns, real_time.perf_counter_ns):
            setattr(module, name, CLK.monotonic_ns)
        elif val is real_time.sleep:
            setattr(module, name, CLK.sleep)


def patch_all_time():
    """every module of the package that reaches the clock at all reaches the virtual one"""
    for name, mod in list(sys.modules.items()):
        if (name == 'ubxlib' or name.startswith('ubxlib.')) and mod is not None:
            patch_time(mod)


def install_clock():
    import ubxlib.server_base as sb
    patch_time(sb)
    try:
        import ubxlib.server_tty as tty
        patch_time(tty)
    except Exception:      # a broken back end must not take the other components down
        pass


# ---- which thread calls -------------------------------------------------------------------------------
HOP = [False]


def set_case(line):
    """per line: whether the operations of this history are made from a new thread each (a thread pool, run_in_executor …) -
    strictly one after the other, never at the same time.  An object must not care which thread calls it next."""
    import zlib
    HOP[0] = zlib.crc32(line.encode()) % 6 == 0 and line.count(';') < 300       # (a thread per operation: not for the byte-by-byte giants)


def in_thread(fn, *a):
    if not HOP[0] or threading.current_thread() is not threading.main_thread():
        return fn(*a)
    box = {}

    def run():
        try:
            box['r'] = fn(*a)
        except BaseException as e:        # handed to the caller, whatever it is
            box['e'] = e
    t = threading.Thread(target=run, daemon=True)
    t.start()
    while t.is_alive():
        t.join(0.05)                      # the main thread stays open to the watchdog's alarm
    if 'e' in box:
        raise box['e']
    return box.get('r')


# ---- something else happens in the middle ---------------------------------------------------------------
def interleaved(fn, at, action):
    """fn() with `action()` run once, at the `at`-th line executed inside the package while fn is running: what another
    thread, a signal handler or a debugger's log point would do in the middle of an operation - made deterministic by doing it
    from a trace function.  (Another OBJECT doing a whole operation of its own there must not show in what fn returns.)"""
    state = {'n': 0, 'busy': False}

    def local(frm, event, arg):
        if event == 'line' and not state['busy']:
            state['n'] += 1
            if state['n'] == at:
                state['busy'] = True
                try:
                    action()
                except Exception:
                    pass
                finally:
                    state['busy'] = False
        return local

    def tracer(frm, event, arg):
        return local if 'ubxlib' in frm.f_code.co_filename else None
    old = sys.gettrace()
    sys.settrace(tracer)
    try:
        return fn()
    finally:
        sys.settrace(old)


def count_lines(fn):
    """how many lines fn() executes inside the package (a dry run, to place something in the middle of a second run)"""
    n = [0]

    def local(frm, event, arg):
        if event == 'line':
            n[0] += 1
        return local

    def tracer(frm, event, arg):
        return local if 'ubxlib' in frm.f_code.co_filename else None
    old = sys.gettrace()
    sys.settrace(tracer)
    try:
        fn()
    except Exception:
        pass
    finally:
        sys.settrace(old)
    return n[0]


# ---- per-case watchdog ----------------------------------------------------------------------------
class CaseTimeout(BaseException):
    """raised by the watchdog; a BaseException so that no `except Exception` of a component or of the code under test swallows it"""


def _alarm(signum, frm):
    raise CaseTimeout()


signal.signal(signal.SIGALRM, _alarm)


def guarded(fn, seconds, *a):
    """run fn(*a); 'TIMEOUT' if it does not return within `seconds` of real time, 'EXC:<kind>' if it raises"""
    signal.alarm(seconds)
    try:
        return fn(*a)
    except CaseTimeout:
        return 'TIMEOUT'
    except RecursionError:
        return 'EXC:RecursionError'
    except Exception as e:        # the harness's own failure to run a case is reported, not hidden
        return 'EXC:' + type(e).__name__
    finally:
        signal.alarm(0)


def exc_name(e):
    n = type(e).__name__
    return 'error' if n == 'error' else n

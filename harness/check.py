#!/venv/bin/python
"""/verif/check — decide one property of ubxlib for the working tree of /repo.

  ./check Cxx [--tier quick|thorough]     translator -> proofs + axiom audit -> correspondence -> property oracles
  ./check Cxx --replay <file>             re-run one recorded input against the real code, the model and the oracle
  ./check --setup                         translator + full build (Lean library, both drivers)

exit 0: the property held on everything explored; exit 1: `VIOLATION property=<id> replay=<path>` printed;
exit 2: the check itself could not run (tool failure, time-out) — never a verdict.
"""
import concurrent.futures
import fcntl
import json
import os
import re
import shutil
import subprocess
import sys
import tempfile
import time

sys.path.insert(0, os.path.dirname(os.path.abspath(__file__)))
from lib import ROOT, LEAN, HARN, REPO, PY, SCRATCH, run_driver, dump, sha
import plan

ALLOWED_AXIOMS = {'propext', 'Classical.choice', 'Quot.sound'}
FORBIDDEN = re.compile(r'\b(sorry|admit|native_decide|bv_decide|implemented_by)\b|^axiom |\bunsafe |maxHeartbeats 0', re.M)


def close_stderr():
    os.close(2)


def sh(cmd, **kw):
    return subprocess.run(cmd, capture_output=True, text=True, **kw)


def strip_comments(src):
    src = re.sub(r'/-.*?-/', '', src, flags=re.S)
    return re.sub(r'--.*', '', src)


# =====================================================================================================
# step 1+2: translator, build, audit
# =====================================================================================================
def translate():
    r = sh([PY, os.path.join(ROOT, 'tools', 'extract.py'), REPO, os.path.join(LEAN, 'UbxModel', 'Gen')])
    if r.returncode != 0:
        tail = (r.stderr.strip().splitlines() or ['translator failed'])[-1]
        return 'translator (tools/extract.py) failed on the working tree: ' + tail[:300]
    return None


def translate_source():
    """source-level translation of the small pure classes (tools/pysrc2lean.py); {class: 'ok' | reason}"""
    out = os.path.join(LEAN, 'UbxModel', 'Gen', 'Src.lean')
    try:
        r = sh([PY, os.path.join(ROOT, 'tools', 'pysrc2lean.py'), REPO, out], timeout=120)
        status = json.loads(r.stdout.strip().splitlines()[-1])
    except Exception as e:
        # keep the library buildable: an empty translation
        open(out, 'w').write('/-! source-level translation failed on this tree -/\n')
        status = {c: 'untranslatable: translator failed (' + type(e).__name__ + ')' for c in ('Checksum', 'UbxParser', 'NmeaParser', 'UbxFrame', 'CfgKeyData')}
    # the request loop (server_base.py) has a translator and an output file of its own
    out2 = os.path.join(LEAN, 'UbxModel', 'Gen', 'SrcServer.lean')
    try:
        r = sh([PY, os.path.join(ROOT, 'tools', 'pysrc2lean_server.py'), REPO, out2], timeout=120)
        status['Server'] = r.stdout.strip().splitlines()[-1]
    except Exception as e:
        open(out2, 'w').write('/-! source-level translation of server_base.py failed on this tree -/\n')
        status['Server'] = 'untranslatable: translator failed (' + type(e).__name__ + ')'
    # so have the methods of CfgKeyData (cfgkeys.py)
    out3 = os.path.join(LEAN, 'UbxModel', 'Gen', 'SrcCfg.lean')
    try:
        r = sh([PY, os.path.join(ROOT, 'tools', 'pysrc2lean_cfg.py'), REPO, out3], timeout=120)
        status['CfgItem'] = r.stdout.strip().splitlines()[-1]
    except Exception as e:
        open(out3, 'w').write('/-! source-level translation of the CfgKeyData methods failed on this tree -/\n')
        status['CfgItem'] = 'untranslatable: translator failed (' + type(e).__name__ + ')'
    # and the field codec (types.py)
    out4 = os.path.join(LEAN, 'UbxModel', 'Gen', 'SrcTypes.lean')
    try:
        r = sh([PY, os.path.join(ROOT, 'tools', 'pysrc2lean_types.py'), REPO, out4], timeout=120)
        status['Types'] = r.stdout.strip().splitlines()[-1]
    except Exception as e:
        open(out4, 'w').write('/-! source-level translation of types.py failed on this tree -/\n')
        status['Types'] = 'untranslatable: translator failed (' + type(e).__name__ + ')'
    # and the serial back end (server_tty.py)
    out5 = os.path.join(LEAN, 'UbxModel', 'Gen', 'SrcTty.lean')
    try:
        r = sh([PY, os.path.join(ROOT, 'tools', 'pysrc2lean_tty.py'), REPO, out5], timeout=120)
        status['Tty'] = r.stdout.strip().splitlines()[-1]
    except Exception as e:
        open(out5, 'w').write('/-! source-level translation of server_tty.py failed on this tree -/\n')
        status['Tty'] = 'untranslatable: translator failed (' + type(e).__name__ + ')'
    # and the convenience setters of the message classes
    out6 = os.path.join(LEAN, 'UbxModel', 'Gen', 'SrcHelpers.lean')
    try:
        r = sh([PY, os.path.join(ROOT, 'tools', 'pysrc2lean_helpers.py'), REPO, out6], timeout=120)
        status['Helpers'] = r.stdout.strip().splitlines()[-1]
    except Exception as e:
        open(out6, 'w').write('/-! source-level translation of the helper setters failed on this tree -/\n')
        status['Helpers'] = 'untranslatable: translator failed (' + type(e).__name__ + ')'
    # and the table-driven renderers
    out7 = os.path.join(LEAN, 'UbxModel', 'Gen', 'SrcRender.lean')
    try:
        r = sh([PY, os.path.join(ROOT, 'tools', 'pysrc2lean_render.py'), REPO, out7], timeout=120)
        status['Render'] = r.stdout.strip().splitlines()[-1]
    except Exception as e:
        open(out7, 'w').write('/-! source-level translation of the renderers failed on this tree -/\n')
        status['Render'] = 'untranslatable: translator failed (' + type(e).__name__ + ')'
    # and the decoding loop of a VALGET response
    out9 = os.path.join(LEAN, 'UbxModel', 'Gen', 'SrcValget.lean')
    try:
        r = sh([PY, os.path.join(ROOT, 'tools', 'pysrc2lean_valget.py'), REPO, out9], timeout=120)
        status['Valget'] = r.stdout.strip().splitlines()[-1]
    except Exception as e:
        open(out9, 'w').write('/-! source-level translation of UbxCfgValGet.unpack failed on this tree -/\n')
        status['Valget'] = 'untranslatable: translator failed (' + type(e).__name__ + ')'
    # and the constructors of VALSET / VALGET-poll with Fields.pack over what they build
    out11 = os.path.join(LEAN, 'UbxModel', 'Gen', 'SrcValset.lean')
    try:
        r = sh([PY, os.path.join(ROOT, 'tools', 'pysrc2lean_valset.py'), REPO, out11], timeout=120)
        status['Valset'] = r.stdout.strip().splitlines()[-1]
    except Exception as e:
        open(out11, 'w').write('/-! source-level translation of the VALSET / VALGET constructors failed on this tree -/\n')
        status['Valset'] = 'untranslatable: translator failed (' + type(e).__name__ + ')'
    # and the unpack methods of the block-structured messages
    out12 = os.path.join(LEAN, 'UbxModel', 'Gen', 'SrcBlocks.lean')
    try:
        r = sh([PY, os.path.join(ROOT, 'tools', 'pysrc2lean_blocks.py'), REPO, out12], timeout=120)
        status['Blocks'] = r.stdout.strip().splitlines()[-1]
    except Exception as e:
        open(out12, 'w').write('/-! source-level translation of the block-structured unpack methods failed on this tree -/\n')
        status['Blocks'] = 'untranslatable: translator failed (' + type(e).__name__ + ')'
    # and the bookkeeping of the field container
    out13 = os.path.join(LEAN, 'UbxModel', 'Gen', 'SrcFields.lean')
    try:
        r = sh([PY, os.path.join(ROOT, 'tools', 'pysrc2lean_fields.py'), REPO, out13], timeout=120)
        status['Fields'] = r.stdout.strip().splitlines()[-1]
    except Exception as e:
        open(out13, 'w').write('/-! source-level translation of the field container failed on this tree -/\n')
        status['Fields'] = 'untranslatable: translator failed (' + type(e).__name__ + ')'
    # and the base renderers
    out14 = os.path.join(LEAN, 'UbxModel', 'Gen', 'SrcStr.lean')
    try:
        r = sh([PY, os.path.join(ROOT, 'tools', 'pysrc2lean_str.py'), REPO, out14], timeout=120)
        status['Str'] = r.stdout.strip().splitlines()[-1]
    except Exception as e:
        open(out14, 'w').write('/-! source-level translation of the base renderers failed on this tree -/\n')
        status['Str'] = 'untranslatable: translator failed (' + type(e).__name__ + ')'
    # and the renderer of a configuration item
    out15 = os.path.join(LEAN, 'UbxModel', 'Gen', 'SrcKeyStr.lean')
    try:
        r = sh([PY, os.path.join(ROOT, 'tools', 'pysrc2lean_keystr.py'), REPO, out15], timeout=120)
        status['KeyStr'] = r.stdout.strip().splitlines()[-1]
    except Exception as e:
        open(out15, 'w').write('/-! source-level translation of CfgKeyData.__str__ failed on this tree -/\n')
        status['KeyStr'] = 'untranslatable: translator failed (' + type(e).__name__ + ')'
    # and the command framing of the gpsd back end
    out16 = os.path.join(LEAN, 'UbxModel', 'Gen', 'SrcGpsdTx.lean')
    try:
        r = sh([PY, os.path.join(ROOT, 'tools', 'pysrc2lean_gpsdtx.py'), REPO, out16], timeout=120)
        status['GpsdTx'] = r.stdout.strip().splitlines()[-1]
    except Exception as e:
        open(out16, 'w').write('/-! source-level translation of the gpsd command framing failed on this tree -/\n')
        status['GpsdTx'] = 'untranslatable: translator failed (' + type(e).__name__ + ')'
    # and the frame registry
    out10 = os.path.join(LEAN, 'UbxModel', 'Gen', 'SrcFactory.lean')
    try:
        r = sh([PY, os.path.join(ROOT, 'tools', 'pysrc2lean_factory.py'), REPO, out10], timeout=120)
        status['Factory'] = r.stdout.strip().splitlines()[-1]
    except Exception as e:
        open(out10, 'w').write('/-! source-level translation of the frame registry failed on this tree -/\n')
        status['Factory'] = 'untranslatable: translator failed (' + type(e).__name__ + ')'
    # and the gpsd handshake
    out8 = os.path.join(LEAN, 'UbxModel', 'Gen', 'SrcGpsd.lean')
    try:
        r = sh([PY, os.path.join(ROOT, 'tools', 'pysrc2lean_gpsd.py'), REPO, out8], timeout=120)
        status['Gpsd'] = r.stdout.strip().splitlines()[-1]
    except Exception as e:
        open(out8, 'w').write('/-! source-level translation of the gpsd handshake failed on this tree -/\n')
        status['Gpsd'] = 'untranslatable: translator failed (' + type(e).__name__ + ')'
    return status


SRC_THEOREMS = {
    'Checksum': ['ck_reset', 'ck_add', 'ck_value', 'ck_matches'],
    'UbxFrame': ['frame_calc', 'frame_to_bytes'],
    'UbxParser': ['ubx_reset', 'ubx_step', 'ubx_process', 'ubx_restart', 'ubx_empty_queue', 'ubx_set_filter', 'ubx_set_filters'],
    'NmeaParser': ['nmea_to_bin', 'nmea_step', 'nmea_process', 'nmea_restart'],
    'CfgKeyData': ['key_bits', 'key_group', 'key_item', 'key_bytes', 'key_header'],
    'CfgItem': ['cfg_pack_value', 'cfg_pack_keyid', 'cfg_pack', 'cfg_unpack_value', 'cfg_unpack', 'cfg_from_key'],
    'Types': ['item_pack', 'item_unpack', 'fields_pack', 'fields_unpack'],
    'Tty': ['tty_receive', 'tty_receive_closed', 'tty_transmit', 'tty_flush_input', 'tty_recover', 'scan_loop', 'tty_scan'],
    'Helpers': ['item_assign_same', 'item_assign_other', 'assign_names', 'h_set_rate', 'h_set_rate_refused', 'h_cfg_save', 'h_cfg_reset', 'h_rst', 'h_sos',
                'h_esfla_set', 'h_set_datetime', 'h_find_entry', 'h_enable_gnss', 'h_disable_gnss', 'h_gps_glonass', 'h_gps_galileo_beidou', 'h_lever_arm'],
    'Render': ['r_lever', 'r_gnssid', 'r_fusion', 'r_gpsfix', 'r_flags_enable', 'r_alg_flags', 'r_init1', 'r_init2', 'r_sens1', 'r_sens2', 'r_nav_flags',
               'r_mode', 'r_proto'],
    'Valget': ['unpack_consumed', 'valget_body_ok', 'valget_body_err', 'valget_loop', 'hdr_decode', 'valget_prelude', 'valget_unpack'],
    'Valset': ['forFields_append', 'pack_cfgs', 'pack_uint', 'names_fresh', 'add_fresh', 'valset_loop', 'valset_init', 'valset_pack', 'poll_loop', 'poll_init',
               'pack_u4s', 'poll_pack'],
    'Blocks': ['addAll_fresh', 'blocks_loop', 'objs_append', 'padzero_append', 'padzero_decoded', 'unpack_objs', 'valueAt_objs', 'decode_ints', 'counted_eq',
               'blk_gnss', 'blk_esfla', 'blk_esfstatus', 'quot_len', 'blk_monver'],
    'Fields': ['contains_iff', 'setitem_fresh', 'inv_init', 'fields_add', 'add_inv', 'addMany_inv', 'sorted_is_added', 'sorted_reachable', 'add_names', 'get_added',
               'setattr_field', 'setattr_other', 'setattr_early', 'getattr_field', 'getattr_other', 'getattr_missing', 'setitem_value_only', 'getattr_after_setattr'],
    'Str': ['item_str_named', 'item_str_total', 'fields_loop', 'frame_str_names', 'frame_str_total', 'frame_str_base'],
    'KeyStr': ['low_and_ff', 'low_and_fff', 'header_low', 'keystr_eq'],
    'GpsdTx': ['gtx_header', 'gtx_cmd', 'gtx_after_setup', 'gtx_success'],
    'Factory': ['getitem_setitem', 'getitem_err', 'lookupR_register', 'agree_empty', 'fac_register', 'fac_build_with_data', 'fac_build'],
    'Gpsd': ['g_parse_version', 'g_devices_loop', 'g_parse_devices', 'g_line', 'g_lines', 'g_parse_gpsd_msg', 'absG_init', 'g_ready'],
    'Server': ['srv_check_poll', 'srv_check_ack_nak', 'srv_check_mga', 'srv_send', 'srv_wait', 'srv_set', 'srv_set_mga',
               'srv_set_mga_other_class', 'srv_fire_and_forget', 'srv_set_retries', 'srv_set_retry_delay', 'srv_poll'],
}


TRANSFERS = {   # module -> (classes it needs, theorems)
    'TransferFrame': (['Checksum', 'UbxFrame'], ['src_to_bytes_is_wire', 'src_checksum_is_fletcher']),
    'TransferUbx': (['UbxParser', 'Checksum'], ['src_process_chunks', 'src_parser_refines_scanner']),
    'TransferNmea': (['NmeaParser'], ['src_nmea_counts_exactly']),
    'TransferCfg': (['CfgItem', 'CfgKeyData'], ['src_item_roundtrip', 'src_unpack_dichotomy', 'src_pack_rejects_ids']),
    'TransferTypes': (['Types'], ['generated_tables_known', 'src_decoded_as_prescribed', 'src_encode_after_decode']),
    'TransferTty': (['Tty', 'UbxParser', 'NmeaParser'], ['src_scan_verdict', 'src_scan_time', 'src_tty_transmit', 'src_tty_recover']),
    'TransferHelpers': (['Helpers'], ['src_enable_gnss_spec', 'src_disable_gnss_spec', 'src_lever_arm_first']),
    'TransferRender': (['Render'], ['src_renderers_total']),
    'TransferValget': (['Valget', 'CfgItem', 'CfgKeyData', 'Types'], ['src_valget_terminates', 'src_valget_dichotomy', 'src_valget_reencode']),
    'TransferValset': (['Valset', 'CfgItem', 'CfgKeyData', 'Types'], ['src_valset_is_payload', 'src_valset_parts', 'src_valset_count', 'src_poll_is_payload']),
    'TransferBlocks': (['Blocks', 'Types'], ['counted_ok', 'src_gnss_items', 'src_esfla_items', 'src_esfstatus_items', 'src_monver_items']),
    'TransferFactory': (['Factory'], ['src_registry_refines', 'src_last_registration_wins', 'src_registration_local', 'src_unregistered']),
    'TransferGpsd': (['Gpsd'], ['src_chunk_never_raises', 'src_decision_table', 'src_ready_after', 'src_requested_kept']),
    'TransferKeyStr': (['KeyStr', 'CfgKeyData'], ['src_keystr_total', 'src_keystr_invalid', 'src_decoded_item_renders']),
    'TransferGpsdTx': (['GpsdTx'], ['src_command_carries_bytes', 'src_command_length', 'src_header_shape', 'src_success_only_if', 'src_success_if']),
    'TransferServer': (['Server', 'UbxParser'], ['src_set_returns_bounded', 'src_set_mga_returns_bounded', 'src_poll_returns_bounded', 'src_set_result',
                                                 'src_poll_result', 'src_set_kth', 'src_set_like_fresh', 'src_poll_like_fresh', 'src_poll_all_same']),
}


def audit_module(mod, names, tag):
    path = os.path.join(LEAN, f'.audit_src_{tag}.lean')
    with open(path, 'w') as f:
        f.write(f'import UbxModel.Proofs.SrcEquiv.{mod}\n' + ''.join(f'#print axioms SrcEquiv.{n}\n' for n in names))
    try:
        a = sh(['lake', 'env', 'lean', path], cwd=LEAN, timeout=300)
    finally:
        os.remove(path)
    axs = {x.strip() for m in re.finditer(r"depends on axioms: \[([^\]]*)\]", a.stdout) for x in m.group(1).split(',') if x.strip()}
    return len(re.findall(r"'SrcEquiv\.", a.stdout)), axs


def source_tie(prop):
    """for the classes the property rests on: is the definition generated from the source proved equal to the model?"""
    classes = plan.PROPS[prop].get('source_tie', [])
    if not classes:
        return {}
    status = translate_source()
    res = {}
    for c in classes:
        if status.get(c) != 'ok':
            res[c] = 'unavailable on this tree (' + str(status.get(c))[:200] + '); the tie rests on the correspondence check'
            continue
        ok, errs = lake_build([f'UbxModel.Proofs.SrcEquiv.{c}'], timeout=600)
        if not ok:
            res[c] = 'translated, but the equivalence with the model no longer checks: ' + ' | '.join(errs)[:300]
            continue
        n, axs = audit_module(c, SRC_THEOREMS[c], f'{prop}_{c}')
        if n != len(SRC_THEOREMS[c]) or not axs <= ALLOWED_AXIOMS:
            res[c] = f'translated, equivalence built, but the audit covered {n} of {len(SRC_THEOREMS[c])} theorems / axioms {sorted(axs)}'
        else:
            res[c] = f'source translated on this run and proved equal to the model ({len(SRC_THEOREMS[c])} theorems: ' + ', '.join(SRC_THEOREMS[c]) + ')'
    # the headline theorems restated for the generated definitions
    for mod, (needs, names) in TRANSFERS.items():
        if mod in plan.PROPS[prop].get('source_transfer', []) and all(res.get(c, '').startswith('source translated') for c in needs if c in res):
            ok, errs = lake_build([f'UbxModel.Proofs.SrcEquiv.{mod}'], timeout=600)
            if ok:
                n, axs = audit_module(mod, names, f'{prop}_{mod}')
                ok = n == len(names) and axs <= ALLOWED_AXIOMS
            res['theorems about the generated definitions (' + mod + ')'] = (', '.join(names) + ': proved') if ok else 'do not check on this tree'
    return res


def lake_build(targets, timeout=1500):
    try:
        r = sh(['lake', 'build'] + targets, cwd=LEAN, timeout=timeout)
    except subprocess.TimeoutExpired:
        return False, ['lake build timed out']
    if r.returncode == 0:
        return True, []
    errs = [l.strip() for l in (r.stdout + r.stderr).splitlines() if re.search(r'\berror\b', l)]
    return False, errs[:8] or ['lake build failed']


def theorem_names(prop):
    src = strip_comments(open(os.path.join(LEAN, 'UbxModel', 'Props', prop + '.lean')).read())
    return re.findall(r'^theorem\s+([A-Za-z0-9_\.\']+)', src, re.M)


def audit(prop, names):
    """`#print axioms` of every theorem of Props/Cxx.lean"""
    path = os.path.join(LEAN, f'.audit_{prop}.lean')
    with open(path, 'w') as f:
        f.write(f'import UbxModel.Props.{prop}\n' + ''.join(f'#print axioms {prop}.{n}\n' for n in names))
    try:
        a = sh(['lake', 'env', 'lean', path], cwd=LEAN, timeout=600)
    finally:
        os.remove(path)
    axioms = {}
    for m in re.finditer(r"'([^']+)' (?:depends on axioms: \[([^\]]*)\]|does not depend on any axioms)", a.stdout):
        axioms[m.group(1)] = sorted(x.strip() for x in (m.group(2) or '').split(',') if x.strip())
    return axioms


def forbidden_tokens():
    hits = []
    for dp, _, fs in os.walk(os.path.join(LEAN, 'UbxModel')):
        for fn in fs:
            if fn.endswith('.lean'):
                m = FORBIDDEN.search(strip_comments(open(os.path.join(dp, fn)).read()))
                if m:
                    hits.append(f'{fn}: {m.group(0).strip()}')
    return hits


def build_and_audit(prop, tier):
    """returns (broken: list of text, info: dict)"""
    broken, info = [], {}
    os.makedirs(SCRATCH, exist_ok=True)
    with open(os.path.join(LEAN, '.build.lock'), 'w') as lock:
        fcntl.flock(lock, fcntl.LOCK_EX)
        t = translate()
        if t:
            broken.append(t)
        ok_spec, errs = lake_build(['specdriver'])
        if not ok_spec:
            print('infrastructure: the specification driver does not build: ' + ' | '.join(errs), file=sys.stderr)
            sys.exit(2)
        ok_drv, errs = lake_build(['driver'])
        info['driver'] = ok_drv
        if not ok_drv:
            broken.append('the model no longer compiles against the generated tables: ' + ' | '.join(errs)[:600])
        ok, errs = lake_build([f'UbxModel.Props.{prop}'])
        names = theorem_names(prop)
        info['theorems'] = names
        if not ok:
            broken.append(f'proof obligations of {prop} no longer check (lake build UbxModel.Props.{prop}): ' + ' | '.join(errs)[:900])
            info['axioms'] = {}
        else:
            axioms = audit(prop, names)
            info['axioms'] = axioms
            bad = {k: v for k, v in axioms.items() if not set(v) <= ALLOWED_AXIOMS}
            if bad:
                broken.append(f'axioms outside the allowed set: {bad}')
            if len(axioms) != len(names):
                broken.append(f'axiom audit covered {len(axioms)} of {len(names)} theorems')
            if tier == 'thorough':
                t0 = time.time()
                mods = imported_modules(prop)
                r = sh(['lake', 'env', 'leanchecker'] + mods, cwd=LEAN, timeout=1500)
                info['leanchecker'] = {'modules': len(mods), 'exit': r.returncode, 'wall_s': round(time.time() - t0, 1)}
                if r.returncode != 0:
                    broken.append('leanchecker rejects the compiled proofs: ' + (r.stdout + r.stderr)[-300:])
        fb = forbidden_tokens()
        if fb:
            broken.append('forbidden token in the Lean sources: ' + ', '.join(fb))
        info['source_tie'] = source_tie(prop)
    return broken, info


def imported_modules(prop):
    """the UbxModel modules Props/Cxx.lean depends on (transitively)"""
    seen, todo = [], [f'UbxModel.Props.{prop}']
    while todo:
        m = todo.pop()
        if m in seen:
            continue
        seen.append(m)
        p = os.path.join(LEAN, m.replace('.', '/') + '.lean')
        if os.path.exists(p):
            todo += re.findall(r'^import (UbxModel\.[A-Za-z0-9_\.]+)', open(p).read(), re.M)
    return sorted(seen)


# =====================================================================================================
# step 3: correspondence + oracles
# =====================================================================================================
OTHER_ENV = {'TZ': 'Pacific/Kiritimati', 'LC_ALL': 'C', 'LANG': 'C', 'PYTHONIOENCODING': 'ascii', 'VERIF_LOGLEVEL': 'DEBUG', 'VERIF_STDERR': 'closed'}


_OTHERS = None


def other_interpreters():
    """other CPython minor versions present in this sandbox that can run the harness AND import the package of the tree under test
    (probed once per run); none is required.  Taken: the nearest older and the nearest newer minor version next to the interpreter
    the repository's tests run under.  A version that cannot import the package - a rewrite may use syntax or library features
    the older version does not have, which no listed property forbids - is left out, and the evidence says so."""
    global _OTHERS
    if _OTHERS is None:
        found = {}
        import glob
        ours = subprocess.run([PY, '-c', 'import sys; print("%d.%d" % sys.version_info[:2])'], capture_output=True, text=True).stdout.strip()
        probe = ('import sys, types, json, struct, enum, zlib, pkgutil, importlib\n'
                 'sys.path.insert(0, sys.argv[1])\n'
                 'm = types.ModuleType("serial"); m.Serial = object; u = types.ModuleType("serial.serialutil"); u.SerialException = OSError\n'
                 'm.serialutil = u; m.SerialException = OSError; sys.modules["serial"] = m; sys.modules["serial.serialutil"] = u\n'
                 'import ubxlib\n'
                 'for x in pkgutil.iter_modules(ubxlib.__path__): importlib.import_module("ubxlib." + x.name)\n'
                 'print("%d.%d" % sys.version_info[:2])\n')
        for py in sorted(glob.glob('/root/.pyenv/versions/3.*/bin/python')) + ['/usr/bin/python3.11', '/usr/bin/python3']:
            try:
                r = subprocess.run([py, '-c', 'import sys; print("%d.%d" % sys.version_info[:2])'], capture_output=True, text=True, timeout=20)
                v = r.stdout.strip()
                if r.returncode != 0 or not v or v == ours or tuple(map(int, v.split('.'))) < (3, 8) or v in found or v in SKIPPED_INTERPRETERS:
                    continue
                r = subprocess.run([py, '-c', probe, REPO], capture_output=True, text=True, timeout=60)
                if r.returncode == 0 and r.stdout.strip() == v:
                    found[v] = py
                else:
                    SKIPPED_INTERPRETERS[v] = (r.stderr.strip().splitlines() or ['?'])[-1][:160]
            except (OSError, subprocess.SubprocessError, ValueError):
                continue
        key = lambda x: tuple(map(int, x.split('.')))
        older = sorted((v for v in found if key(v) < key(ours)), key=key)
        newer = sorted((v for v in found if key(v) > key(ours)), key=key)
        _OTHERS = ([found[older[-1]]] if older else []) + ([found[newer[0]]] if newer else [])
    return _OTHERS


SKIPPED_INTERPRETERS = {}       # version -> why it cannot import the package of this tree (reported in the evidence)


def clone_size(n):
    """the size of a job's second and third run: a sixth, at least 40 cases - but never more than the job itself"""
    return n if n <= 40 else max(40, n // 6)


def hashseed_of(job):
    """the interpreter's string-hash seed (order of sets, collisions in dicts): fixed per job, different between jobs"""
    if job.get('hashseed') is not None:
        return job['hashseed']
    import zlib
    return zlib.crc32(f"{job.get('seed')}/{job.get('component')}/{job.get('profile')}".encode()) % 4294967295


def run_job(job):
    os.makedirs(SCRATCH, exist_ok=True)
    d = tempfile.mkdtemp(dir=SCRATCH)
    try:
        jf, of = os.path.join(d, 'job.json'), os.path.join(d, 'out.json')
        json.dump(job, open(jf, 'w'))
        try:
            r = sh([job.get('python') or PY] + list(job.get('pyflags') or []) + [os.path.join(HARN, 'worker.py'), jf, of], timeout=job.get('timeout', 3000),
                   env=dict(os.environ, VERIF_REPO=REPO, PYTHONDONTWRITEBYTECODE='1', PYTHONHASHSEED=str(hashseed_of(job)),
                            **(job.get('env') or {})),
                   # (the run in the other environment starts with standard error closed, as a daemon does: sys.stderr is None)
                   **({'preexec_fn': close_stderr} if (job.get('env') or {}).get('VERIF_STDERR') == 'closed' else {}))
        except subprocess.TimeoutExpired:
            return {'cases': [], 'error': 'worker timed out'}
        if not os.path.exists(of):
            return {'cases': [], 'error': 'worker died: ' + (r.stderr.strip().splitlines() or ['?'])[-1][:300]}
        return json.load(open(of))
    finally:
        shutil.rmtree(d, ignore_errors=True)


def shard(jobs, tier):
    """split generated jobs over the cores (the seed of shard k is derived from the job's seed)"""
    out = []
    for j in jobs:
        n = j.get('n', 0)
        if (j.get('profile') or '').startswith('all-') and n:
            # an exhaustive enumeration: shard k of K takes every K-th element
            out += [dict(j, profile=f"{j['profile']}:{k}/14", lines=j.get('lines') if k == 0 else []) for k in range(14)]
            continue
        parts = 1 if n < 600 else min(12, n // 300)
        if parts <= 1:
            out.append(j)
            continue
        for k in range(parts):
            out.append(dict(j, n=n // parts, seed=f"{j['seed']}.{k}", exhaustive=j.get('exhaustive') and k == 0,
                            lines=j.get('lines') if k == 0 else []))
    return out


def corpus_lines(component):
    p = os.path.join(HARN, 'corpus', component + '.txt')
    if not os.path.exists(p):
        return []
    return [l.rstrip('\n') for l in open(p) if l.strip() and not l.startswith('#')]


def explore(prop, tier, seed, have_driver, extra_lines=None, scale=1):
    """run the jobs of the property; returns the records, grouped per component"""
    spec = plan.PROPS[prop]
    jobs = []
    for j in spec['jobs']:
        n = j['quick'] if tier == 'quick' else j['thorough']
        jobs.append({'component': j['component'], 'profile': j.get('profile'), 'seed': seed, 'n': int(n * scale),
                     'exhaustive': j.get('exhaustive') in (tier, 'both', True) or (j.get('exhaustive') == 'quick' and tier == 'thorough'),
                     'lines': corpus_lines(j['component']) + (extra_lines or {}).get(j['component'], []),
                     'props': [prop], 'project': j.get('project')})
    # the same generators once more, smaller, with the interpreter stripping assert statements (python -O): what the library
    # does must not hang on an `assert` being executed.  Judged by the oracles only: where the code *uses* AssertionError
    # to refuse something, the model (of the default interpreter) and the code rightly differ.
    for j in list(jobs):
        if j['n'] and not (j.get('profile') or '').startswith('all-') and j.get('profile') != 'bulk':
            jobs.append(dict(j, n=clone_size(j['n']), seed=f"{j['seed']}-O", pyflags=['-O'], exhaustive=False, lines=j['lines']))
            # … and once more in another environment: warnings are errors, the local time zone is far from UTC.  None of that
            # is anything the library should notice: these cases are compared with the model like any other.
            jobs.append(dict(j, n=clone_size(j['n']), seed=f"{j['seed']}-W", pyflags=['-W', 'error', '-bb'], env=OTHER_ENV, exhaustive=False,
                             lines=j['lines']))
            # … and under another minor version of the interpreter, where the sandbox has one (the oldest and the newest found, in
            # turns): the package declares python_requires >= 3.7
            others = other_interpreters()
            if others:
                py = others[len(jobs) % len(others)]
                jobs.append(dict(j, n=clone_size(j['n']), seed=f"{j['seed']}-V", python=py, exhaustive=False, lines=j['lines']))
    jobs = shard(jobs, tier)
    t_jobs = time.time()
    with concurrent.futures.ThreadPoolExecutor(max_workers=14) as ex:
        results = list(ex.map(run_job, jobs))
    if os.environ.get('VERIF_TIMING'):
        print(f'timing: {len(jobs)} jobs {time.time() - t_jobs:.1f}s', file=sys.stderr)
    cases, errors = [], []
    for j, r in zip(jobs, results):
        if r['error']:
            errors.append(f"{j['component']}: {r['error']}")
        for c in r['cases']:
            c['component'] = j['component']
            c['project'] = j.get('project')
            if j.get('pyflags'):
                c['pyflags'] = j['pyflags']
            if j.get('env'):
                c['env'] = j['env']
            if j.get('python'):
                c['python'] = j['python']
            c['hashseed'] = hashseed_of(j)
            cases.append(c)
    # de-duplicate identical lines (corpus + shards)
    seen, uniq = set(), []
    for c in cases:
        key = (c['line'], tuple(c.get('pyflags') or ()), bool(c.get('env')), c.get('python'))
        if key not in seen:
            seen.add(key)
            uniq.append(c)
    cases = uniq
    t_fin = time.time()
    n_spec = finish(cases, have_driver, errors)
    if os.environ.get('VERIF_TIMING'):
        print(f'timing: model and specification drivers {time.time() - t_fin:.1f}s', file=sys.stderr)
    return cases, errors, n_spec


def finish(cases, have_driver, errors, strict=True):
    """the model's answer to every case, and the oracles that are questions to the Lean specification"""
    # the model's answers
    if have_driver and cases:
        model = run_driver_parallel([c.get('model_line') or c['line'] for c in cases], 'Driver')
        if model is None:
            errors.append('the model driver failed to run')
            model = [None] * len(cases)
    else:
        model = [None] * len(cases)
    for c, m in zip(cases, model):
        if c.get('model_line') == 'no-model':
            m = None                     # a scenario the model has no words for (an exception out of the transport): oracles only
        c['model'] = m if '-O' not in (c.get('pyflags') or []) else None
        c['model_shadow'] = m
    # cross-check of the harness's reference implementations against the Lean specification
    spec_lines = [(c, s) for c in cases for s in c.get('spec', [])]
    if spec_lines:
        outs = run_driver_parallel([s['line'] for _, s in spec_lines], 'SpecDriver')
        if outs is None:
            if not strict:
                raise RuntimeError('specification driver failed')
            print('infrastructure: the specification driver failed to run', file=sys.stderr)
            sys.exit(2)
        for (c, s), o in zip(spec_lines, outs):
            if s.get('prop'):
                # the real code's observable against the Lean specification: a property oracle
                if s.get('mode') == 'subset':
                    got = set(s['expect'].split(','))
                    ok = all(item in got for item in o.split(','))
                else:
                    ok = o == s['expect']
                c['recs'].append({'prop': s['prop'], 'ok': ok, 'expected': o[:600], 'observed': s['expect'][:600],
                                  'what': s['what'], 'spec_line': s['line'][:300]})
            elif o != s['expect']:
                if not strict:
                    c['invalid'] = True
                    continue
                print(f'infrastructure: the harness reference disagrees with the Lean specification on {s["line"][:200]}: '
                      f'{s["expect"][:200]} vs {o[:200]}', file=sys.stderr)
                sys.exit(2)
    return len(spec_lines)


def evaluate(prop, component, lines, have_driver=True, proj=None, strict=True, pyflags=None, hashseed=None, env=None, python=None):
    """the given lines of one component through the real code, the model and the oracles of `prop`"""
    r = run_job({'component': component, 'lines': list(lines), 'n': 0, 'seed': 0, 'props': [prop], 'pyflags': pyflags, 'hashseed': hashseed,
                 'env': env, 'python': python})
    if r['error']:
        raise RuntimeError(r['error'])
    cases = r['cases']
    for c in cases:
        c['component'], c['project'] = component, proj
        if pyflags:
            c['pyflags'] = pyflags
        if env:
            c['env'] = env
        if python:
            c['python'] = python
    errors = []
    finish(cases, have_driver, errors, strict=strict)
    if errors:
        raise RuntimeError('; '.join(errors))
    return cases


def run_driver_parallel(lines, which):
    """the driver is one process per call; bulk runs are cut into pieces that run side by side"""
    size = sum(len(l) for l in lines)
    if len(lines) < 4000 and size < 20_000_000:
        return run_driver(lines, which)
    k = 12
    step = -(-len(lines) // k)
    parts = [lines[i:i + step] for i in range(0, len(lines), step)]
    with concurrent.futures.ThreadPoolExecutor(max_workers=k) as ex:
        outs = list(ex.map(lambda p: run_driver(p, which), parts))
    if any(o is None for o in outs):
        return None
    return [x for o in outs for x in o]


def project(name, out):
    return plan.PROJECTIONS[name](out) if name and out is not None else out


def analyse(prop, cases):
    """disagreements between model and code on the observables of the property; oracle failures"""
    disagreements, failures, unknown = [], [], []
    for c in cases:
        if c['model'] is not None and project(c['project'], c['real']) != project(c['project'], c['model']):
            disagreements.append(c)
        for r in c['recs']:
            if r['prop'] == prop and r['ok'] is False:
                failures.append((c, r))
            elif r['ok'] is None:
                unknown.append((c, r))
    return disagreements, failures, unknown


# =====================================================================================================
# verdicts
# =====================================================================================================
def load_findings():
    p = os.path.join(ROOT, 'known_findings.json')
    return json.load(open(p)) if os.path.exists(p) else []


def finding_for(prop, case, rec):
    for f in load_findings():
        if f.get('status') == 'open' and f['property'] == prop:
            m = f.get('match', {})
            if m.get('input_hash') == sha(case['line']):
                return f
            if m.get('component') == case.get('component') and m.get('line_regex') and re.search(m['line_regex'], case['line']) \
                    and (not m.get('observed_regex') or re.search(m['observed_regex'], rec.get('observed', ''))):
                return f
    return None


def shrink_case(prop, c, r, budget_s=8.0):
    """a smaller input on which the same oracle of the property still fails on the real code (harness/shrink.py)"""
    import shrink
    comp = c['component']
    if os.environ.get('VERIF_NO_SHRINK') or comp not in shrink.MODES:
        return c, r

    def failing(case):
        if case.get('invalid'):
            return None
        for q in case['recs']:
            if q['prop'] == prop and q['ok'] is False and q['what'] == r['what']:
                return q
        return None

    def wellformed(case):
        """a candidate must still be a line of the protocol: nothing rejected as malformed by either side, no exception of
        the harness that the original did not show, and - where there is a model - code and model still differ on it (on a
        line outside what the oracles were written for, both tend to say the same nonsense)"""
        real, model = str(case.get('real')), case.get('model_shadow')
        if 'bad-op' in real or 'bad-line' in real or (model is not None and ('bad-op' in model or 'bad-line' in model)):
            return False
        if real.startswith('EXC:') and not str(c.get('real')).startswith('EXC:'):
            return False
        if model is not None and c.get('model') is not None and project(c.get('project'), real) == project(c.get('project'), model):
            return False
        return True

    def still(lines):
        cs = evaluate(prop, comp, lines, have_driver=True, proj=c.get('project'), strict=False, pyflags=c.get('pyflags'), hashseed=c.get('hashseed'), env=c.get('env'), python=c.get('python'))
        by = {x['line']: x for x in cs}
        return [l in by and failing(by[l]) is not None and wellformed(by[l]) for l in lines]
    try:
        line, rounds, tried = shrink.shrink(comp, c['line'], still, budget_s=budget_s)
        if line == c['line']:
            return c, r
        c2 = evaluate(prop, comp, [line], have_driver=True, proj=c.get('project'), strict=False, pyflags=c.get('pyflags'), hashseed=c.get('hashseed'), env=c.get('env'), python=c.get('python'))[0]
        r2 = failing(c2)
        if r2 is None:
            return c, r
        c2['hashseed'] = c.get('hashseed')
        if c.get('env'):
            c2['env'] = c['env']
        if c.get('python'):
            c2['python'] = c['python']
        c2['shrunk'] = {'original_input': c['line'], 'rounds': rounds, 'candidates_tried': tried}
        return c2, r2
    except Exception:
        return c, r


SRC_TIE_STATE = {}      # how the source-level tie stood on this run (informational; never a verdict)


def write_replay(prop, kind, case, rec, broken, seed):
    os.makedirs(os.path.join(ROOT, 'replays'), exist_ok=True)
    ident = sha((case['line'] if case else '') + '|' + '|'.join(b[:80] for b in broken) + '|' + kind)
    path = os.path.join('replays', f'{prop}-{ident}.json')
    dump({'property': prop, 'kind': kind, 'component': case.get('component') if case else None,
          'project': case.get('project') if case else None,
          **({'interpreter_flags': case['pyflags']} if case and case.get('pyflags') else {}),
          **({'hashseed': case['hashseed']} if case and case.get('hashseed') is not None else {}),
          **({'environment': case['env']} if case and case.get('env') else {}),
          **({'interpreter': case['python']} if case and case.get('python') else {}),
          'input': case['line'] if case else None,
          'expected': (rec or {}).get('expected'), 'observed': (rec or {}).get('observed') or (case['real'] if case else None),
          'model': case.get('model') if case else None, 'what': (rec or {}).get('what'),
          'broken': broken, 'replay_cmd': f'./check {prop} --replay {path}', 'seed': seed,
          **({'source_tie': SRC_TIE_STATE} if SRC_TIE_STATE else {}),
          **({'shrunk': case['shrunk']} if case and case.get('shrunk') else {})},
         os.path.join(ROOT, path))
    return path


def evidence(prop, tier, seed, info, cases, n_spec, disagreements, failures, broken, t0, extra=None):
    names = info.get('theorems', [])
    axioms = info.get('axioms', {})
    nontrivial = {c['line'] for c in cases if plan.nontrivial(c)}
    per_comp = {}
    for c in cases:
        k = per_comp.setdefault(c['component'], {'cases': 0, 'nontrivial': 0, 'disagreements': 0, 'oracle_checks': 0})
        k['cases'] += 1
        k['nontrivial'] += plan.nontrivial(c)
        k['oracle_checks'] += sum(1 for r in c['recs'] if r['prop'] == prop and r['ok'] is not None)
    for c in disagreements:
        per_comp[c['component']]['disagreements'] += 1
    spec = plan.PROPS[prop]
    used = sorted({a for v in axioms.values() for a in v})
    mix = {}
    for c in cases:
        for tag in plan.mix_tags(c):
            mix[tag] = mix.get(tag, 0) + 1
    cov = {
        'obligations': len(names),
        'discharged': len([n for n in names if f'{prop}.{n}' in axioms]) if not any('proof obligations' in b for b in broken) else 0,
        'checker_cmd': f'cd lean && lake build UbxModel.Props.{prop} && lake env lean <#print axioms of every theorem of Props/{prop}.lean>'
                       + (' && lake env leanchecker <its modules>' if tier == 'thorough' else ''),
        'trusted_base': ['Lean 4.33.0 kernel' + (' + leanchecker re-check of the compiled modules' if tier == 'thorough' else ''),
                         'axioms used by the theorems of this property: ' + (', '.join(used) or 'none'),
                         'tools/extract.py (translator: field tables, keys, constants, renderer tables regenerated from /repo on this run)',
                         'correspondence check harness/ (differential; sizes below)',
                         'lean/UbxModel/Spec/*.lean (hand transcription of the u-blox interface description / NMEA 0183)']
                        + (['source-level translators tools/pysrc2lean*.py for ' + ', '.join(spec['source_tie']) + ' (syntax-directed, Python AST -> Lean; what they '
                            'model instead of translate is listed at the top of lean/UbxModel/Model/Py*.lean and in DESIGN.md §6); state of the tie on this run: see source_tie']
                           if spec.get('source_tie') else [])
                        + spec.get('trusted', []),
        'theorems': names,
        'evaluations': len(cases),
        'distinct_nontrivial': len(nontrivial),
        'rule': spec.get('rule', 'one case = one line of the line protocol, run through the real code and the Lean model and compared on the '
                         'observables of the property; distinct = distinct lines; non-trivial = ' + plan.NONTRIVIAL_RULE),
        'samples': [c['line'][:300] for c in cases[:2] + cases[len(cases) // 2:len(cases) // 2 + 2]],
        'components': per_comp,
        'input_mix': dict(sorted(mix.items())),
        'oracle_checks': sum(k['oracle_checks'] for k in per_comp.values()),
        'spec_crosschecks': n_spec,
        'disagreements': len(disagreements),
        'exhaustive': bool(spec.get('exhaustive_note')),
    }
    if spec.get('exhaustive_note'):
        cov['exhaustive_part'] = spec['exhaustive_note']
    if 'leanchecker' in info:
        cov['leanchecker'] = info['leanchecker']
    if info.get('source_tie'):
        cov['source_tie'] = info['source_tie']
    if _OTHERS is not None:
        cov['other_interpreters'] = {'used': _OTHERS, 'left_out_because_they_cannot_import_this_tree': SKIPPED_INTERPRETERS}
    if extra:
        cov.update(extra)
    ev = {'property_id': prop, 'tier': tier, 'seed': seed, 'level': 'proof', 'coverage': cov,
          'assumptions': spec.get('assumptions', []) + ['see DESIGN.md §6 (trusted base)'],
          'wall_s': round(time.time() - t0, 1), 'violations': len(failures) + (1 if broken and not failures else 0)}
    dump(ev, os.path.join(ROOT, 'evidence', prop + '.json'))


def main():
    args = sys.argv[1:]
    if args and args[0] == '--setup':
        return setup()
    prop = args[0]
    if prop not in plan.PROPS:
        print(f'unknown property {prop}', file=sys.stderr)
        return 2
    tier = os.environ.get('VERIF_TIER') or 'quick'
    if '--tier' in args:
        tier = args[args.index('--tier') + 1]
    seed = int(os.environ.get('VERIF_SEED', '0'))
    if '--replay' in args:
        return replay(prop, args[args.index('--replay') + 1])
    t0 = time.time()
    broken, info = build_and_audit(prop, tier)
    SRC_TIE_STATE.update(info.get('source_tie') or {})
    cases, errors, n_spec = explore(prop, tier, seed, info.get('driver'))
    for e in errors:
        broken.append('correspondence could not run: ' + e)
    disagreements, failures, unknown = analyse(prop, cases)
    if unknown:
        c, r = unknown[0]
        broken.append(f'{len(unknown)} oracle evaluations could not run, e.g. {r["what"]}')
    if disagreements:
        comps = sorted({c['component'] for c in disagreements})
        broken.append(f'correspondence: model and code disagree on {len(disagreements)} of {len(cases)} cases (components {", ".join(comps)})')
    extra = None
    src_doubt = [c for c, v in info.get('source_tie', {}).items() if not v.startswith('source translated') and not v.endswith(': proved')]
    if src_doubt and not broken and not failures:
        # the source no longer matches the model syntactically: not a verdict, but a reason to look harder
        more, errs2, n2 = explore(prop, tier, seed + 104729, False, scale=2)
        _, failures, _ = analyse(prop, more)
        extra = {'search_after_source_tie_unavailable': {'classes': src_doubt, 'cases': len(more), 'failing_inputs': len(failures)}}
    if broken and not failures:
        # the tie is broken: search the implementation for an input on which the property itself fails
        more, errs2, n2 = explore(prop, 'thorough' if tier == 'thorough' else 'quick', seed + 7919, False,
                                  extra_lines=group_lines(disagreements), scale=3)
        _, failures, _ = analyse(prop, more)
        extra = {'search_after_broken_tie': {'cases': len(more), 'failing_inputs': len(failures)}}
    evidence(prop, tier, seed, info, cases, n_spec, disagreements, failures, broken, t0, extra)
    if not broken and not failures:
        print(f'OK property={prop} theorems={len(info["theorems"])} cases={len(cases)} wall={time.time() - t0:.1f}s')
        return 0
    rc = 0
    if failures:
        reported = set()
        for c, r in failures:
            f = finding_for(prop, c, r)
            if f:
                key = ('known', f['id'])
                if key not in reported:
                    reported.add(key)
                    print(f'KNOWN-FINDING: property={prop} {f["what"]}')
                continue
            key = ('v', r['what'])
            if key in reported:
                continue
            reported.add(key)
            if sum(1 for k in reported if k[0] == 'v') <= 2:
                c, r = shrink_case(prop, c, r)
            path = write_replay(prop, 'failing-input', c, r, broken, seed)
            if ('p', path) not in reported:
                reported.add(('p', path))
                print(f'VIOLATION property={prop} replay={path}')
            rc = 1
        return rc
    path = write_replay(prop, 'broken-tie', disagreements[0] if disagreements else None, None, broken, seed)
    print(f'VIOLATION property={prop} replay={path} no-failing-input-found')
    return 1


def group_lines(cases):
    out = {}
    for c in cases[:200]:
        out.setdefault(c['component'], []).append(c['line'])
    return out


def replay(prop, path):
    rp = json.load(open(path if os.path.isabs(path) else os.path.join(ROOT, path)))
    if rp.get('input') is None:
        print('this replay names what no longer checks, it carries no input:')
        for b in rp.get('broken', []):
            print('  ' + b)
        broken, info = build_and_audit(prop, 'quick')
        print('now: ' + ('; '.join(broken) if broken else 'proofs and audit check'))
        return 1 if broken else 0
    lake_build(['driver', 'specdriver'])
    try:
        c = evaluate(prop, rp['component'], [rp['input']], have_driver=True, proj=rp.get('project'), strict=False,
                     pyflags=rp.get('interpreter_flags'), hashseed=rp.get('hashseed'), env=rp.get('environment'),
                     python=rp.get('interpreter') if rp.get('interpreter') and os.path.exists(rp['interpreter']) else None)[0]
    except (RuntimeError, IndexError) as e:
        print('replay could not run: ' + str(e), file=sys.stderr)
        return 2
    model = [c['model']] if c.get('model') is not None else None
    if rp.get('interpreter_flags'):
        print('interpreter flags ' + ' '.join(rp['interpreter_flags']))
    if rp.get('environment'):
        print('environment ' + ' '.join(f'{k}={v}' for k, v in rp['environment'].items()))
    if rp.get('interpreter'):
        print('interpreter ' + rp['interpreter'] + ('' if os.path.exists(rp['interpreter']) else ' (not present here: run under the default one)'))
    print('input    ' + c['line'][:2000])
    print('code     ' + str(c['real'])[:2000])
    print('model    ' + (model[0][:2000] if model else '(model driver unavailable)'))
    bad = False
    if model and project(c.get('project'), c['real']) != project(c.get('project'), c['model']):
        print('correspondence: model and code differ on the observables of the property')
    for rec in c['recs']:
        if rec['prop'] == prop:
            print(f'oracle   ok={rec["ok"]} {rec["what"]}')
            if rec['ok'] is False:
                print('  expected ' + str(rec.get('expected'))[:2000])
                print('  observed ' + str(rec.get('observed'))[:2000])
                bad = True
    return 1 if bad else 0


def setup():
    t = translate()
    if t:
        print(t, file=sys.stderr)
    print('source-level translation:', translate_source())
    lake_build([f'UbxModel.Proofs.SrcEquiv.{c}' for c in list(SRC_THEOREMS) + list(TRANSFERS)])       # pre-built when it applies; not required
    ok, errs = lake_build(['UbxModel', 'driver', 'specdriver'])
    if not ok:
        print('setup: lake build failed: ' + ' | '.join(errs), file=sys.stderr)
        return 2
    print('setup ok')
    return 0


if __name__ == '__main__':
    sys.exit(main())

#!/usr/bin/env python3
"""Correspondence prototype, part 2: field codec of every class, key codec, GNSS helpers."""
import json as _json, sys, os, random, subprocess, logging, struct, importlib
REPO = sys.argv[1] if len(sys.argv) > 1 else '/root/work/repo-fixed'
SEED = int(os.environ.get('VERIF_SEED', '0'))
sys.path.insert(0, REPO)
logging.getLogger('ubxlib').setLevel(logging.CRITICAL)
from ubxlib.types import Padding, CH
from ubxlib.cfgkeys import CfgKeyData, UbxKeyId
rng = random.Random(SEED)

CLASSES = {
 'UbxAckAck': ('ubx_ack', 2), 'UbxAckNak': ('ubx_ack', 2), 'UbxCfgCfgAction': ('ubx_cfg_cfg', 12),
 'UbxCfgEsfAlg': ('ubx_cfg_esfalg', 12), 'UbxCfgEsflaSet': ('ubx_cfg_esfla', 12), 'UbxCfgNav5': ('ubx_cfg_nav5', 36),
 'UbxCfgNavx5': ('ubx_cfg_navx5', 44), 'UbxCfgNmea': ('ubx_cfg_nmea', 20), 'UbxCfgPrtUart': ('ubx_cfg_prt', 20),
 'UbxCfgPrtPoll': ('ubx_cfg_prt', 1), 'UbxCfgRate': ('ubx_cfg_rate', 6), 'UbxCfgRstAction': ('ubx_cfg_rst', 4),
 'UbxCfgTp5': ('ubx_cfg_tp5', 32), 'UbxCfgTp5Poll': ('ubx_cfg_tp5', 1), 'UbxEsfAlg': ('ubx_esf_alg', 16),
 'UbxEsfMeas': ('ubx_esf_meas', 12), 'UbxMgaAckData0': ('ubx_mga_ack_data0', 8), 'UbxMgaIniTimeUtc': ('ubx_mga_ini_time_utc', 24),
 'UbxNavStatus': ('ubx_nav_status', 16), 'UbxUpdSos': ('ubx_upd_sos', 8), 'UbxUpdSosAction': ('ubx_upd_sos', 4),
 'UbxCfgGnss': ('ubx_cfg_gnss', None), 'UbxEsfStatus': ('ubx_esf_status', None), 'UbxMonVer': ('ubx_mon_ver', None),
}

def payload_for(name, size):
    if name == 'UbxCfgGnss':
        n = rng.choice([0, 1, 2, 3, 7, 8, 31]); pl = bytearray(rng.randrange(256) for _ in range(4 + 8 * n)); pl[3] = n
    elif name == 'UbxEsfStatus':
        n = rng.choice([0, 1, 2, 5, 40]); pl = bytearray(rng.randrange(256) for _ in range(16 + 4 * n)); pl[15] = n
    elif name == 'UbxMonVer':
        n = rng.choice([0, 1, 2, 6]); pl = bytearray(rng.choice(b'ABCxyz019 .=\x00\x00') for _ in range(40 + 30 * n))
        if rng.random() < .5: pl[25:30] = bytes(5); pl[36:40] = bytes(4)
    else:
        k = rng.random()
        if k < .2: pl = bytearray([0xff] * size)
        elif k < .3: pl = bytearray(size)
        elif k < .45: pl = bytearray((i * 37 + 11) % 251 | (0x80 if i % 3 == 0 else 0) for i in range(size))
        else: pl = bytearray(rng.randrange(256) for _ in range(size))
        if name == 'UbxCfgNmea': pl[12:14] = bytes(rng.choice(b'GPBD\x00') for _ in range(2))
    r = rng.random()
    if r < .08: pl = pl[:rng.randrange(0, len(pl) + 1)]          # too short
    elif r < .12: pl += bytes(rng.randrange(1, 4))               # too long
    return bytes(pl)

def show(v):
    if isinstance(v, str): return 's:' + v.encode().hex()
    if isinstance(v, bool): return str(int(v))
    return str(v)

def real_fields(name, pl):
    mod = importlib.import_module('ubxlib.' + CLASSES[name][0]); cls = getattr(mod, name)
    try:
        f = cls.construct(bytearray(pl))
    except Exception as e:
        return 'EXC:' + type(e).__name__
    items = sorted(f.f._fields.values(), key=lambda it: it.order)
    dec = ','.join(f'{it.name}={show(it.value)}' for it in items if not isinstance(it, Padding))
    try:
        f.pack(); return dec + ' pack=' + bytes(f.data).hex()
    except Exception as e:
        return dec + ' pack=EXC:' + type(e).__name__

def key_cases():
    out = []
    for _ in range(400):
        bits = rng.choice([1, 8, 16, 32, 64, 64, 0, 7, 24]); signed = rng.random() < .5
        g = rng.choice([0, 1, 0x7f, 0xff, 0x100, -1, 6]); i = rng.choice([0, 1, 0x3ff, 0x400, 0x7ff, 0x800, 0xfff, 0x1000, -1, 0x2e])
        w = bits if bits in (8, 16, 32, 64) else 8
        v = rng.choice([0, 1, 2, (1 << (w - 1)) - 1, 1 << (w - 1), (1 << w) - 1, 1 << w, -1, -(1 << (w - 1)), -(1 << (w - 1)) - 1, rng.randrange(-(1 << w), 1 << w)])
        line = f'keypack|{g}|{i}|{bits}|{int(signed)}|{v}'
        try: r = bytes(CfgKeyData('x', g, i, bits, v, signed).pack()).hex()
        except Exception as e: r = 'EXC:' + type(e).__name__
        out.append((line, r))
    keys = [v for k, v in vars(UbxKeyId).items() if isinstance(v, int)]
    for _ in range(400):
        k = rng.random()
        if k < .4:
            key = rng.choice(keys) if rng.random() < .6 else (rng.randrange(8) << 28 | rng.randrange(256) << 16 | rng.randrange(4096))
            if rng.random() < .2: key |= rng.choice([1 << 31, 0xf << 24, 0xf << 12])
            data = struct.pack('<I', key) + bytes(rng.choice([0, 1, 2, 0xff, 0x80, rng.randrange(256)]) for _ in range(rng.randrange(0, 10)))
        else:
            data = bytes(rng.randrange(256) for _ in range(rng.randrange(0, 14)))
        u = CfgKeyData('x')
        try:
            n = u.unpack(bytearray(data)); r = f'{u.group_id},{u.item_id},{u.bits},{int(u.signed)},{int(u.value)} n={n}'
        except Exception as e: r = 'EXC:' + type(e).__name__
        out.append(('keyunpack|' + data.hex(), r))
    for key in keys + [rng.randrange(1 << 32) for _ in range(100)]:
        v = rng.choice([0, 1, 100, -100, 70000, -5])
        try:
            c = CfgKeyData.from_key(key, v)
            head = f'{c.group_id},{c.item_id},{c.bits},{int(c.signed)},{v}'
            try: r = head + ' ' + bytes(c.pack()).hex()
            except Exception as e: r = head + ' EXC:' + type(e).__name__
        except Exception as e: r = 'EXC:' + type(e).__name__
        out.append((f'fromkey|{key}|{v}', r))
    return out

def gnss_cases():
    from ubxlib.ubx_cfg_gnss import UbxCfgGnss
    out = []
    for _ in range(400):
        ids = [rng.randrange(8) for _ in range(rng.randrange(0, 6))] if rng.random() < .3 else rng.sample(range(8), rng.randrange(0, 8))
        blocks = [(i, rng.choice([0, 1, 0x01010000, 0x01010001, 0xffffffff, 0xfffffffe])) for i in ids]
        op = rng.choice(['enable', 'disable', 'gps_glonass', 'gps_galileo_beidou']); sysn = rng.randrange(8)
        pl = bytearray([0, 32, 32, len(blocks)])
        for i, fl in blocks: pl += bytes([i, 0, 0, 0]) + struct.pack('<I', fl)
        f = UbxCfgGnss.construct(pl)
        try:
            {'enable': lambda: f.enable_gnss(sysn), 'disable': lambda: f.disable_gnss(sysn),
             'gps_glonass': f.gps_glonass, 'gps_galileo_beidou': f.gps_galileo_beidou}[op]()
            f.pack(); d = bytes(f.data)
            r = ','.join(f'{d[4+8*k]}:{struct.unpack("<I", d[8+8*k:12+8*k])[0]}' for k in range(len(blocks)))
        except Exception as e: r = 'EXC:' + type(e).__name__
        out.append((f'gnss|{op}|{sysn}|' + ','.join(f'{i}:{fl}' for i, fl in blocks), r))
    return out

def main():
    cases = []
    for name, (mod, size) in CLASSES.items():
        for _ in range(int(os.environ.get('N', '60'))):
            pl = payload_for(name, size)
            cases.append((f'fields|{name}|{pl.hex()}', real_fields(name, pl)))
    cases += key_cases() + gnss_cases()
    model = subprocess.run(['/root/work/lean/.lake/build/bin/driver'], input='\n'.join(c[0] for c in cases) + '\n',
                           capture_output=True, text=True).stdout.splitlines()
    bad = 0; kinds = {}; mism = []
    for (l, r), m in zip(cases, model):
        k = '|'.join(l.split('|')[:2]) if l.startswith('fields') else l.split('|')[0]
        kinds.setdefault(k, [0, 0]); kinds[k][0] += 1
        if r != m:
            kinds[k][1] += 1; bad += 1
            if kinds[k][1] <= 3: mism.append({'in': l, 'real': r, 'model': m})
            if bad <= 8: print('MISMATCH\n  in   ', l[:200], '\n  real ', r[:260], '\n  model', m[:260])
    print('cases', len(cases), 'model lines', len(model), 'mismatches', bad)
    if os.environ.get('OUT'):
        _json.dump({'cases': len(model), 'kinds': kinds, 'mismatches': mism[:200], 'samples': [x[:200] for x in (lines if 'lines' in dir() else [c[0] for c in cases])[:3]]}, open(os.environ['OUT'], 'w'))
    print({k: v for k, v in kinds.items() if v[1]})
main()

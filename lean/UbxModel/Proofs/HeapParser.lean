import UbxModel.Model.HeapParser
namespace Ubx

/-- well-formedness of the heap parser: references are valid, and the cell being written is private -/
structure HParser.WF (h : HParser) : Prop where
  cur : h.cur < h.bufs.length
  valid : ∀ b ∈ h.shared, b < h.bufs.length
  priv : h.st ≠ .init → h.st ≠ .sync → h.cur ∉ h.shared

theorem HParser.wf_init : ({} : HParser).WF := ⟨by decide, by simp [HParser.shared], by simp⟩

/-- what a step may do to the heap as seen by the holders of references -/
structure Preserves (h h' : HParser) : Prop where
  grow : h.bufs.length ≤ h'.bufs.length
  same : ∀ b ∈ h.shared, h'.bufs[b]? = h.bufs[b]?
  out : h'.out = h.out
  sub : ∀ b ∈ h.shared, b ∈ h'.shared

theorem modify_other {α} (l : List α) (i j : Nat) (f : α → α) (h : i ≠ j) : (l.modify i f)[j]? = l[j]? := by
  simp [List.getElem?_modify, h]

theorem HParser.step_preserves (h : HParser) (hw : h.WF) (d : Nat) : (h.step d).WF ∧ Preserves h (h.step d) := by
  obtain ⟨hc, hv, hp⟩ := hw
  unfold HParser.step
  cases hst : h.st with
  | init =>
    simp only
    split
    · exact ⟨⟨hc, hv, by simp⟩, ⟨Nat.le_refl _, fun _ _ => rfl, rfl, fun _ hb => hb⟩⟩
    · exact ⟨⟨hc, hv, by simp [hst]⟩, ⟨Nat.le_refl _, fun _ _ => rfl, rfl, fun _ hb => hb⟩⟩
  | sync =>
    simp only
    split
    · -- `_reset()`: a fresh cell
      refine ⟨⟨by simp [HParser.reset], ?_, ?_⟩, ⟨by simp [HParser.reset], ?_, rfl, fun _ hb => hb⟩⟩
      · intro b hb
        have := hv b (by simpa [HParser.shared, HParser.reset] using hb)
        simp [HParser.reset]; omega
      · intro _ _ hmem
        have := hv h.bufs.length (by simpa [HParser.shared, HParser.reset] using hmem)
        omega
      · intro b hb
        have := hv b hb
        simp [HParser.reset, List.getElem?_append_left this]
    · split
      · exact ⟨⟨hc, hv, by simp [hst]⟩, ⟨Nat.le_refl _, fun _ _ => rfl, rfl, fun _ hb => hb⟩⟩
      · exact ⟨⟨hc, hv, by simp⟩, ⟨Nat.le_refl _, fun _ _ => rfl, rfl, fun _ hb => hb⟩⟩
  | cls =>
    have hpr := hp (by simp [hst]) (by simp [hst])
    exact ⟨⟨hc, hv, fun _ _ => hpr⟩, ⟨Nat.le_refl _, fun _ _ => rfl, rfl, fun _ hb => hb⟩⟩
  | id =>
    have hpr := hp (by simp [hst]) (by simp [hst])
    exact ⟨⟨hc, hv, fun _ _ => hpr⟩, ⟨Nat.le_refl _, fun _ _ => rfl, rfl, fun _ hb => hb⟩⟩
  | len1 =>
    have hpr := hp (by simp [hst]) (by simp [hst])
    exact ⟨⟨hc, hv, fun _ _ => hpr⟩, ⟨Nat.le_refl _, fun _ _ => rfl, rfl, fun _ hb => hb⟩⟩
  | len2 =>
    have hpr := hp (by simp [hst]) (by simp [hst])
    simp only
    split
    · exact ⟨⟨hc, hv, fun _ _ => hpr⟩, ⟨Nat.le_refl _, fun _ _ => rfl, rfl, fun _ hb => hb⟩⟩
    · split
      · exact ⟨⟨hc, hv, by simp⟩, ⟨Nat.le_refl _, fun _ _ => rfl, rfl, fun _ hb => hb⟩⟩
      · exact ⟨⟨hc, hv, fun _ _ => hpr⟩, ⟨Nat.le_refl _, fun _ _ => rfl, rfl, fun _ hb => hb⟩⟩
  | data =>
    have hpr := hp (by simp [hst]) (by simp [hst])
    have hsame : ∀ b ∈ h.shared, (h.append d)[b]? = h.bufs[b]? := by
      intro b hb
      have hne : h.cur ≠ b := fun e => hpr (e ▸ hb)
      exact modify_other _ _ _ _ hne
    simp only
    split
    · exact ⟨⟨by simpa [HParser.append] using hc, fun b hb => by simpa [HParser.append] using hv b hb, fun _ _ => hpr⟩,
        ⟨by simp [HParser.append], hsame, rfl, fun _ hb => hb⟩⟩
    · exact ⟨⟨by simpa [HParser.append] using hc, fun b hb => by simpa [HParser.append] using hv b hb, fun _ _ => hpr⟩,
        ⟨by simp [HParser.append], hsame, rfl, fun _ hb => hb⟩⟩
  | crc1 =>
    have hpr := hp (by simp [hst]) (by simp [hst])
    exact ⟨⟨hc, hv, fun _ _ => hpr⟩, ⟨Nat.le_refl _, fun _ _ => rfl, rfl, fun _ hb => hb⟩⟩
  | crc2 =>
    simp only
    split
    · split
      · refine ⟨⟨hc, ?_, by simp⟩, ⟨Nat.le_refl _, fun _ _ => rfl, rfl, ?_⟩⟩
        · intro b hb
          simp only [HParser.shared, List.filterMap_append, List.mem_append, List.filterMap_cons,
            List.filterMap_nil, List.mem_singleton] at hb
          rcases hb with hb | hb | hb
          · exact hv b (by simp [HParser.shared, hb])
          · exact hv b (by simp only [HParser.shared, List.mem_append]; exact Or.inr hb)
          · subst hb; exact hc
        · intro b hb
          simp only [HParser.shared, List.mem_append] at hb ⊢
          rcases hb with hb | hb
          · exact Or.inl hb
          · exact Or.inr (by simp [List.filterMap_append, hb])
      · exact ⟨⟨hc, hv, by simp⟩, ⟨Nat.le_refl _, fun _ _ => rfl, rfl, fun _ hb => hb⟩⟩
    · refine ⟨⟨hc, ?_, by simp⟩, ⟨Nat.le_refl _, fun _ _ => rfl, rfl, ?_⟩⟩
      · intro b hb
        exact hv b (by simpa [HParser.shared, List.filterMap_append] using hb)
      · intro b hb
        simpa [HParser.shared, List.filterMap_append] using hb

end Ubx

namespace Ubx

theorem HParser.process_preserves (h : HParser) (hw : h.WF) (bs : List Nat) :
    (h.process bs).WF ∧ (∀ b ∈ h.shared, (h.process bs).bufs[b]? = h.bufs[b]?) ∧
    (h.process bs).out = h.out ∧ (∀ b ∈ h.shared, b ∈ (h.process bs).shared) := by
  induction bs generalizing h with
  | nil => exact ⟨hw, fun _ _ => rfl, rfl, fun _ hb => hb⟩
  | cons d ds ih =>
    obtain ⟨w1, p1⟩ := h.step_preserves hw d
    obtain ⟨w2, s2, o2, m2⟩ := ih (h.step d) w1
    refine ⟨w2, fun b hb => ?_, by rw [show h.process (d :: ds) = (h.step d).process ds from rfl, o2, p1.out],
      fun b hb => m2 b (p1.sub b hb)⟩
    show ((h.step d).process ds).bufs[b]? = _
    rw [s2 b (p1.sub b hb), p1.same b hb]

/-- every operation keeps the heap well-formed, never alters a cell that has been handed out, and
    only ever extends the list of handed-out cells -/
theorem HParser.apply_preserves (h : HParser) (hw : h.WF) (op : Op) :
    (h.apply op).WF ∧ (∀ b ∈ h.out, (h.apply op).bufs[b]? = h.bufs[b]?) ∧
    (∃ more, (h.apply op).out = h.out ++ more) ∧
    (∀ b ∈ h.shared, b ∈ (h.apply op).shared → (h.apply op).bufs[b]? = h.bufs[b]?) := by
  have hout : ∀ b ∈ h.out, b ∈ h.shared := fun b hb => by simp [HParser.shared, hb]
  cases op with
  | process c =>
    obtain ⟨w, s, o, m⟩ := h.process_preserves hw c
    exact ⟨w, fun b hb => s b (hout b hb), ⟨[], by simp [HParser.apply, o]⟩, fun b hb _ => s b hb⟩
  | setFilters f =>
    exact ⟨⟨hw.cur, hw.valid, hw.priv⟩, fun _ _ => rfl, ⟨[], by simp [HParser.apply, HParser.setFilters]⟩, fun _ _ _ => rfl⟩
  | restart =>
    exact ⟨⟨hw.cur, hw.valid, by simp [HParser.apply, HParser.restart]⟩, fun _ _ => rfl,
      ⟨[], by simp [HParser.apply, HParser.restart]⟩, fun _ _ _ => rfl⟩
  | emptyQueue =>
    refine ⟨⟨hw.cur, fun b hb => hw.valid b ?_, fun h1 h2 hm => hw.priv h1 h2 ?_⟩, fun _ _ => rfl,
      ⟨[], by simp [HParser.apply, HParser.emptyQueue]⟩, fun _ _ _ => rfl⟩
    · simp only [HParser.apply, HParser.emptyQueue, HParser.shared, List.filterMap_nil, List.append_nil] at hb
      exact hout b hb
    · simp only [HParser.apply, HParser.emptyQueue, HParser.shared, List.filterMap_nil, List.append_nil] at hm
      exact hout _ hm
  | packet =>
    simp only [HParser.apply, HParser.packet]
    cases hq : h.queue with
    | nil => exact ⟨hw, fun _ _ => rfl, ⟨[], by simp⟩, fun _ _ _ => rfl⟩
    | cons x q =>
      cases x with
      | crcError =>
        refine ⟨⟨hw.cur, fun b hb => hw.valid b ?_, fun h1 h2 hm => hw.priv h1 h2 ?_⟩, fun _ _ => rfl, ⟨[], by simp⟩,
          fun _ _ _ => rfl⟩
        · simpa [HParser.shared, hq] using hb
        · simpa [HParser.shared, hq] using hm
      | data cid b0 =>
        refine ⟨⟨hw.cur, fun b hb => hw.valid b ?_, fun h1 h2 hm => hw.priv h1 h2 ?_⟩, fun _ _ => rfl, ⟨[b0], rfl⟩,
          fun _ _ _ => rfl⟩
        · simp only [HParser.shared, hq, List.filterMap_cons, List.mem_append, List.mem_cons] at hb ⊢
          rcases hb with (hb | hb | hb) | hb
          · exact Or.inl hb
          · exact Or.inr (Or.inl hb)
          · cases hb
          · exact Or.inr (Or.inr hb)
        · simp only [HParser.shared, hq, List.filterMap_cons, List.mem_append, List.mem_cons] at hm ⊢
          rcases hm with (hm | hm | hm) | hm
          · exact Or.inl hm
          · exact Or.inr (Or.inl hm)
          · cases hm
          · exact Or.inr (Or.inr hm)

/-- **C11 (payloads never change).** For every history of operations — parsing, filter changes,
    `empty_queue`, `packet`, `restart` — a payload that has been handed out keeps its contents for ever. -/
theorem HParser.history_stable (h : HParser) (hw : h.WF) (ops : List Op) :
    (ops.foldl HParser.apply h).WF ∧
    (∀ b ∈ h.out, (ops.foldl HParser.apply h).bufs[b]? = h.bufs[b]?) ∧
    (∃ more, (ops.foldl HParser.apply h).out = h.out ++ more) := by
  induction ops generalizing h with
  | nil => exact ⟨hw, fun _ _ => rfl, ⟨[], by simp⟩⟩
  | cons op rest ih =>
    obtain ⟨w1, s1, ⟨m1, o1⟩, -⟩ := h.apply_preserves hw op
    obtain ⟨w2, s2, ⟨m2, o2⟩⟩ := ih (h.apply op) w1
    refine ⟨w2, fun b hb => ?_, ⟨m1 ++ m2, by simp only [List.foldl_cons, o2, o1, List.append_assoc]⟩⟩
    simp only [List.foldl_cons]
    rw [s2 b (by rw [o1]; simp [hb]), s1 b hb]

end Ubx

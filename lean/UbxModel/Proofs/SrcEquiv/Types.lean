import UbxModel.Gen.SrcTypes
namespace SrcEquiv
open Ubx Py
set_option linter.unusedSimpArgs false

theorem bind_ok' {α β : Type} (x : α) (f : α → Except Exc β) : ((Except.ok x : Except Exc α) >>= f) = f x := rfl
theorem bind_error' {α β : Type} (e : Exc) (f : α → Except Exc β) : ((Except.error e : Except Exc α) >>= f) = .error e := rfl

theorem unpackU_take (w : Nat) (d : List Nat) : unpackU w (d.take w) = unpackU w d := by
  unfold unpackU
  by_cases h : d.length < w
  · have : (d.take w).length < w := by simp [List.length_take]; omega
    rw [if_pos this, if_pos h]
  · have : ¬ (d.take w).length < w := by simp [List.length_take]; omega
    rw [if_neg this, if_neg h, List.take_take, Nat.min_self]

theorem unpackI_take (w : Nat) (d : List Nat) : unpackI w (d.take w) = unpackI w d := by
  unfold unpackI
  by_cases h : d.length < w
  · have : (d.take w).length < w := by simp [List.length_take]; omega
    rw [if_pos this, if_pos h]
  · have : ¬ (d.take w).length < w := by simp [List.length_take]; omega
    rw [if_neg this, if_neg h, List.take_take, Nat.min_self]

theorem repeat_zero (n : Nat) : Py.repeatBytes [0] n = List.replicate n 0 := by
  induction n with
  | zero => rfl
  | succ k ih => simp only [Py.repeatBytes] at ih ⊢; simp [List.replicate_succ, ih]

/-- is the kind one of an `Item` subclass with a `struct` format (as opposed to `Padding` / `CH`) -/
def isNum : Kind → Bool
  | .uint _ => true | .sint _ => true | _ => false

/-- `Item.pack()` of an object of a numeric kind is the model's `Kind.pack` -/
theorem item_pack (k : Kind) (v : Val) (hk : Py.Kind.known k = true) :
    Gen.Src.Types.dispatch_pack (ItemObj.ofKind k v) = (k.pack v >>= fun bs => .ok (bs, ItemObj.ofKind k v)) := by
  cases k with
  | uint w =>
    simp only [Py.Kind.known, decide_eq_true_eq] at hk
    rcases hk with rfl | rfl | rfl | rfl <;> cases v <;>
      simp [Gen.Src.Types.dispatch_pack, Gen.Src.Types.Item.pack, ItemObj.ofKind, Py.structPackVal, Py.structPack, Kind.pack, bind_error']
  | sint w =>
    simp only [Py.Kind.known, decide_eq_true_eq] at hk
    rcases hk with rfl | rfl | rfl | rfl <;> cases v <;>
      simp [Gen.Src.Types.dispatch_pack, Gen.Src.Types.Item.pack, ItemObj.ofKind, Py.structPackVal, Py.structPack, Kind.pack, bind_error']
  | pad n =>
    simp [Gen.Src.Types.dispatch_pack, Gen.Src.Types.Padding.pack, ItemObj.ofKind, Kind.pack, repeat_zero, bind_ok']
  | text n =>
    cases v with
    | int i => simp [Gen.Src.Types.dispatch_pack, Gen.Src.Types.CH.pack, ItemObj.ofKind, Kind.pack, Py.encodeVal, bind_error']
    | str s =>
      simp only [Gen.Src.Types.dispatch_pack, Gen.Src.Types.CH.pack, ItemObj.ofKind, Kind.pack, Py.encodeVal, bind_ok']
      by_cases h1 : s.length < n
      · have h2 : ¬ s.length > n := by omega
        have hl : (s ++ List.replicate (n - s.length) 0).length ≤ n := by simp; omega
        simp [h1, h2, bind_ok', List.take_of_length_le hl]
      · by_cases h2 : s.length > n
        · simp [h1, h2, bind_error']
        · have : s.length = n := by omega
          simp [h1, h2, this, bind_ok', List.take_of_length_le (Nat.le_of_eq this)]

/-- `unpack(data)` of an item object is the model's `Kind.unpack`; a `Padding` object keeps the value it holds (0) -/
theorem item_unpack (k : Kind) (v0 : Val) (data : List Nat) (hk : Py.Kind.known k = true) :
    Gen.Src.Types.dispatch_unpack (ItemObj.ofKind k v0) data =
      (k.unpack data >>= fun r => .ok (r.2, ItemObj.ofKind k (match k with | .pad _ => v0 | _ => r.1))) := by
  cases k with
  | uint w =>
    simp only [Py.Kind.known, decide_eq_true_eq] at hk
    rcases hk with rfl | rfl | rfl | rfl <;>
      simp only [Gen.Src.Types.dispatch_unpack, Gen.Src.Types.Item.unpack, ItemObj.ofKind, Kind.unpack] <;>
      simp [Py.calcsize, Py.structUnpack, bind_ok', unpackU_take] <;>
      (generalize unpackU _ data = u; cases u <;> rfl)
  | sint w =>
    simp only [Py.Kind.known, decide_eq_true_eq] at hk
    rcases hk with rfl | rfl | rfl | rfl <;>
      simp only [Gen.Src.Types.dispatch_unpack, Gen.Src.Types.Item.unpack, ItemObj.ofKind, Kind.unpack] <;>
      simp [Py.calcsize, Py.structUnpack, bind_ok', unpackI_take] <;>
      (generalize unpackI _ data = u; cases u <;> rfl)
  | pad n => rfl
  | text n =>
    simp only [Gen.Src.Types.dispatch_unpack, Gen.Src.Types.CH.unpack, ItemObj.ofKind, Kind.unpack, Py.decodeUtf8]
    by_cases h1 : data.length < n
    · simp [h1, bind_error']
    · by_cases h2 : validUtf8 (List.take n data) = true
      · simp [h1, h2, Py.reraise, bind_ok']
      · simp [h1, h2, Py.reraise, bind_error']

/-- the item objects of a container with table `t` holding the values `vs` -/
def objs : Table → List Val → List ItemObj
  | (_, k) :: t, v :: vs => ItemObj.ofKind k v :: objs t vs
  | _, _ => []

/-- every reserved (`Padding`) field holds 0, as it does in every frame the API builds -/
def PadZero : Table → List Val → Prop
  | (_, .pad _) :: t, v :: vs => v = .int 0 ∧ PadZero t vs
  | _ :: t, _ :: vs => PadZero t vs
  | _, _ => True

def allKnown (t : Table) : Bool := t.all (fun e => Py.Kind.known e.2)

theorem forItems_cons {σ : Type} (v : ItemObj) (rest : List ItemObj) (acc : σ) (body : ItemObj → σ → Except Exc (σ × ItemObj)) :
    Py.forItems (v :: rest) acc body =
      (body v acc >>= fun (acc', v') => Py.forItems rest acc' body >>= fun (acc'', rest') => .ok (acc'', v' :: rest')) := rfl

/-- **`Fields.pack()` as the source has it is the model's `Table.encode`** -/
theorem fields_pack_acc (t : Table) : ∀ (vs : List Val) (acc : List Nat), vs.length = t.length → allKnown t = true →
    Py.forItems (objs t vs) acc (fun v work_data =>
        Gen.Src.Types.dispatch_pack v >>= fun x => .ok (work_data ++ x.1, x.2)) =
      (Table.encode t vs >>= fun bs => .ok (acc ++ bs, objs t vs)) := by
  induction t with
  | nil =>
    intro vs acc hl _
    cases vs with
    | nil => simp [objs, Py.forItems, Table.encode, bind_ok']
    | cons v vs => simp at hl
  | cons e t ih =>
    intro vs acc hl hk
    obtain ⟨name, k⟩ := e
    cases vs with
    | nil => simp at hl
    | cons v vs =>
      have hk1 : Py.Kind.known k = true := by simp [allKnown] at hk; exact hk.1
      have hk2 : allKnown t = true := by simp [allKnown] at hk ⊢; exact hk.2
      have hl2 : vs.length = t.length := by simpa using hl
      simp only [objs, forItems_cons, item_pack k v hk1, Table.encode]
      generalize k.pack v = pk
      cases pk with
      | error e => rfl
      | ok bs =>
        simp only [bind_ok']
        rw [ih vs (acc ++ bs) hl2 hk2]
        generalize Table.encode t vs = te
        cases te with
        | error e => rfl
        | ok more => simp [bind_ok', List.append_assoc]

theorem fields_pack (t : Table) (vs : List Val) (hl : vs.length = t.length) (hk : allKnown t = true) :
    Gen.Src.Types.Fields.pack (objs t vs) = (Table.encode t vs >>= fun bs => .ok (bs, objs t vs)) := by
  unfold Gen.Src.Types.Fields.pack
  simp only []
  rw [fields_pack_acc t vs [] hl hk]
  simp

/-- **`Fields.unpack(data)` as the source has it is the model's `Table.decode`**: the remaining data, and every item holding what was
    decoded for it (reserved fields keep their 0) -/
theorem fields_unpack (t : Table) : ∀ (vs0 : List Val) (data : List Nat), vs0.length = t.length → allKnown t = true → PadZero t vs0 →
    Gen.Src.Types.Fields.unpack (objs t vs0) data = (Table.decode t data >>= fun r => .ok (r.2, objs t r.1)) := by
  unfold Gen.Src.Types.Fields.unpack
  simp only []
  induction t with
  | nil =>
    intro vs0 data hl _ _
    cases vs0 with
    | nil => simp [objs, Py.forItems, Table.decode, bind_ok']
    | cons v vs => simp at hl
  | cons e t ih =>
    intro vs0 data hl hk hp
    obtain ⟨name, k⟩ := e
    cases vs0 with
    | nil => simp at hl
    | cons v0 vs0 =>
      have hk1 : Py.Kind.known k = true := by simp [allKnown] at hk; exact hk.1
      have hk2 : allKnown t = true := by simp [allKnown] at hk ⊢; exact hk.2
      have hl2 : vs0.length = t.length := by simpa using hl
      have hp2 : PadZero t vs0 := by cases k <;> simp [PadZero] at hp <;> first | exact hp | exact hp.2
      simp only [objs, forItems_cons, item_unpack k v0 data hk1, Table.decode]
      generalize hu : k.unpack data = u
      cases u with
      | error e => rfl
      | ok r =>
        obtain ⟨v, n⟩ := r
        simp only [bind_ok']
        rw [ih vs0 (data.drop n) hl2 hk2 hp2]
        generalize Table.decode t (List.drop n data) = td
        cases td with
        | error e => rfl
        | ok r2 =>
          obtain ⟨vs, rem⟩ := r2
          simp only [bind_ok', objs]
          cases k with
          | pad m =>
            have hv0 : v0 = .int 0 := by simp [PadZero] at hp; exact hp.1
            have hv : v = .int 0 := by simp [Kind.unpack] at hu; exact hu.1.symm
            rw [hv0, hv]
          | uint w => rfl
          | sint w => rfl
          | text m => rfl

end SrcEquiv

import UbxModel.Gen.SrcGpsdTx
/-! The command framing of the gpsd back end as `tools/pysrc2lean_gpsdtx.py` reads it off `ubxlib/server.py` (`Gen.Src.GpsdTx.*`) against the
    hand-written model (`Ubx.Gpsd.cmdHeader`, `command`, `commandAfterSetup`, `transmitOk`): the literals `&`, `=`, `OK`, `ACK`, the order
    of header and hexadecimal text, and that success starts as false and becomes true in exactly one place. -/
namespace SrcEquiv
open Ubx Ubx.Gpsd

/-- **the command header `setup()` builds is the model's `cmdHeader`** for a selected device -/
theorem gtx_header (d : String) (st : State) (h : st.selected = some d) : Gen.Src.GpsdTx.cmd_header d = cmdHeader st := by
  simp [Gen.Src.GpsdTx.cmd_header, Py.GpsdTx.encodeAscii, cmdHeader, h, String.toList_append]

/-- **what `_transmit()` sends is `&`, the selected device, `=` and the hexadecimal form of the bytes** -/
theorem gtx_cmd (d : String) (data : List Nat) :
    Gen.Src.GpsdTx.cmd (Gen.Src.GpsdTx.cmd_header d) data = command (d.toList.map Char.toNat) data := by
  simp [Gen.Src.GpsdTx.cmd, Gen.Src.GpsdTx.cmd_header, Py.GpsdTx.encodeAscii, command, String.toList_append]

/-- after `setup()`: the generated framing is the model's `commandAfterSetup` -/
theorem gtx_after_setup (d : String) (st : State) (h : st.selected = some d) (data : List Nat) :
    Gen.Src.GpsdTx.cmd (Gen.Src.GpsdTx.cmd_header d) data = commandAfterSetup (cmdHeader st) data := by
  rw [gtx_header d st h]; rfl

/-- **success exactly when gpsd answers OK or ACK** -/
theorem gtx_success (r : List Nat) : Gen.Src.GpsdTx.success r = transmitOk (.data r) := rfl

end SrcEquiv

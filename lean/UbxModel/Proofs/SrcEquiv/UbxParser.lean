import UbxModel.Proofs.SrcEquiv.Checksum
/-! The definitions generated from `ubxlib/parser_ubx.py` equal the hand-written model of `UbxParser`. -/
namespace SrcEquiv
open Ubx

theorem py_filter (f : Option (List Cid)) (cid : Cid) :
    (Py.truthyOptList f && Py.inOptList cid f) = filterPasses f cid := by
  cases f with
  | none => rfl
  | some l =>
    cases l with
    | nil => rfl
    | cons a r => simp [Py.truthyOptList, Py.inOptList, filterPasses]

theorem ubx_reset (p : Parser) : Gen.Src.UbxParser._reset p = p.reset := rfl

theorem ubx_step (p : Parser) (d : Nat) : Gen.Src.UbxParser._process_byte p d = p.step d := by
  unfold Gen.Src.UbxParser._process_byte Parser.step
  cases h : p.st <;> simp only [h, decide_true, decide_false, if_true, if_false, reduceCtorEq, Bool.false_eq_true]
  · -- INIT
    simp only [Gen.Src.UbxParser._state_init, Gen.sync1]; split <;> simp_all
  · -- SYNC
    simp only [Gen.Src.UbxParser._state_sync, ubx_reset, Gen.sync1, Gen.sync2]
    by_cases h1 : d = 98 <;> by_cases h2 : d = 181 <;> simp [h1, h2]
  · simp only [Gen.Src.UbxParser._state_class, ck_add]
  · simp only [Gen.Src.UbxParser._state_id, ck_add]
  · simp only [Gen.Src.UbxParser._state_len1, ck_add]
  · -- LEN2
    simp only [Gen.Src.UbxParser._state_len2, ck_add, MAXLEN, Gen.maxMessageLength]
    by_cases h1 : p.msgLen + d * 256 = 0 <;> by_cases h2 : p.msgLen + d * 256 > 1000 <;> simp [h1, h2]
  · -- DATA
    simp only [Gen.Src.UbxParser._state_data, ck_add]
    by_cases h1 : p.ofs + 1 = p.msgLen <;> simp [h1, h]
  · simp only [Gen.Src.UbxParser._state_crc1]
  · -- CRC2
    simp only [Gen.Src.UbxParser._state_crc2, ck_matches, py_filter, Parser.passes, Ck.matches]
    by_cases h1 : p.ck.a = p.cka <;> by_cases h2 : p.ck.b = d <;> simp [h1, h2]
    split <;> simp_all

theorem ubx_process (p : Parser) (s : List Nat) : Gen.Src.UbxParser.process p s = p.process s := by
  simp only [Gen.Src.UbxParser.process, Parser.process]
  congr 1; funext q d; exact ubx_step q d

theorem ubx_restart (p : Parser) : Gen.Src.UbxParser.restart p = p.restart := rfl
theorem ubx_empty_queue (p : Parser) : Gen.Src.UbxParser.empty_queue p = p.emptyQueue := rfl
theorem ubx_set_filter (p : Parser) (c : Cid) : Gen.Src.UbxParser.set_filter p c = p.setFilter c := rfl
theorem ubx_set_filters (p : Parser) (cs : List Cid) : Gen.Src.UbxParser.set_filters p cs = p.setFilters cs := rfl

end SrcEquiv

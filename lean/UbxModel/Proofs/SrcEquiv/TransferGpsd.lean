import UbxModel.Proofs.SrcEquiv.Gpsd
/-! C20's headline theorems restated for the definitions generated from `ubxlib/server.py`. -/
namespace SrcEquiv
open Ubx Ubx.Gpsd

/-- **C20, never raises, at the source level**: whatever a chunk holds - binary, NMEA, JSON of any shape - `_parse_gpsd_msg`
    returns normally as long as VERSION and DEVICES objects are well-formed -/
theorem src_chunk_never_raises (sv : Py.Gpsd.Server) (c : Chunk) (h : ∀ ls, c = .lines ls → ∀ l ∈ ls, C20.LineOk l) :
    ∃ sv', Gen.Src.Gpsd._parse_gpsd_msg () sv c = (.ok (), sv') := by
  obtain ⟨sv', h1, _, _⟩ := g_parse_gpsd_msg sv c h
  exact ⟨sv', h1⟩

/-- **C20, decision table, at the source level**: `_parse_devices` on the object `__init__` leaves and a well-formed DEVICES
    object selects the requested device if listed, the first listed device if none was requested, and otherwise nothing -/
theorem src_decision_table (name : Option String) (kvs : List (String × Json)) (devs : List Json) (paths : List String)
    (hk : Json.get kvs "devices" = some (.arr devs)) (hp : devs.map C20.devPath = paths.map some) :
    ∃ sv', Gen.Src.Gpsd._parse_devices () { device_name := name } (.obj kvs) = (.ok (), sv') ∧
      (∀ d, (State.init name).requested = some d → d ∈ paths → (absG sv').selected = some d ∧ sv'.enabled = true) ∧
      (∀ d, (State.init name).requested = some d → d ∉ paths → (absG sv').selected = none ∧ sv'.enabled = false) ∧
      ((State.init name).requested = none → ∀ p ps, paths = p :: ps → (absG sv').selected = some p ∧ sv'.enabled = true) ∧
      (paths = [] → (absG sv').selected = none ∧ sv'.enabled = false) := by
  obtain ⟨sv', h1, h2, _, _⟩ := g_parse_devices { device_name := name } kvs devs paths hk hp
  rw [absG_init] at h2
  have := C20.decision_table name paths
  simp only at this
  rw [← h2] at this
  exact ⟨sv', h1, this⟩

/-- **C20, ready exactly when a device is selected, at the source level**: from the object `__init__` leaves, after any sequence of
    chunks of any content - however each call ended - `enabled` is set exactly when `selected_device` is -/
theorem src_ready_after (name : Option String) (cs : List Chunk) :
    ReadyS (cs.foldl (fun sv c => (Gen.Src.Gpsd._parse_gpsd_msg () sv c).2) { device_name := name }) := by
  have h0 : ReadyS ({ device_name := name } : Py.Gpsd.Server) := by simp [ReadyS]
  generalize ({ device_name := name } : Py.Gpsd.Server) = sv at h0
  induction cs generalizing sv with
  | nil => exact h0
  | cons c rest ih => exact ih _ (g_ready sv c h0)

/-- the requested name is never written by the handshake (what `_parse_devices` compares against is what the caller asked for) -/
theorem src_requested_kept (sv : Py.Gpsd.Server) (c : Chunk) (h : ∀ ls, c = .lines ls → ∀ l ∈ ls, C20.LineOk l) :
    (Gen.Src.Gpsd._parse_gpsd_msg () sv c).2.device_name = sv.device_name := by
  obtain ⟨sv', h1, _, h3⟩ := g_parse_gpsd_msg sv c h
  rw [h1]; exact h3

/-- non-vacuity: a chunk with noise, a VERSION and a DEVICES line, asked for the second device -/
example : (Gen.Src.Gpsd._parse_gpsd_msg () { device_name := some "/dev/b" } (.lines [.notJson, .value (.arr []),
      .value (.obj [("class", .str "VERSION"), ("release", .str "3.25")]),
      .value (.obj [("class", .str "DEVICES"), ("devices", .arr [.obj [("path", .str "/dev/a")], .obj [("path", .str "/dev/b")]])])])).2.enabled
    = true := by decide

end SrcEquiv

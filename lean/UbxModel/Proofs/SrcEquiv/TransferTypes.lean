import UbxModel.Proofs.SrcEquiv.Types
import UbxModel.Props.C07
import UbxModel.Props.C08
/-! Headline theorems of C07 and C08 restated for the definitions that `tools/pysrc2lean_types.py` generates from
    `ubxlib/types.py` (`Gen.Src.Types.Fields.unpack / pack` over the item objects of a table). -/
namespace SrcEquiv
open Ubx Spec Py
variable [KeyTable]

theorem decode_length (t : Table) : ∀ (pl : List Nat) (vs : List Val) (rem : List Nat), t.decode pl = .ok (vs, rem) → vs.length = t.length := by
  induction t with
  | nil => intro pl vs rem h; simp [Table.decode] at h; simp [h.1.symm]
  | cons e t ih =>
    intro pl vs rem h
    obtain ⟨name, k⟩ := e
    simp only [Table.decode] at h
    cases hu : k.unpack pl with
    | error e => simp [hu] at h
    | ok r =>
      obtain ⟨v, n⟩ := r
      simp only [hu] at h
      cases hd : Table.decode t (pl.drop n) with
      | error e => simp [hd] at h
      | ok r2 =>
        obtain ⟨vs', rem'⟩ := r2
        simp only [hd] at h
        injection h with h
        injection h with h1 h2
        rw [← h1]
        simp [ih _ _ _ hd]

/-- every item of every generated fixed table is of a class / format the translated codec knows -/
theorem generated_tables_known :
    allKnown Gen.UbxAckAck ∧ allKnown Gen.UbxAckNak ∧ allKnown Gen.UbxCfgCfgAction ∧ allKnown Gen.UbxCfgEsfAlg ∧
    allKnown Gen.UbxCfgEsflaSet ∧ allKnown Gen.UbxCfgNav5 ∧ allKnown Gen.UbxCfgNavx5 ∧ allKnown Gen.UbxCfgNmea ∧
    allKnown Gen.UbxCfgPrtUart ∧ allKnown Gen.UbxCfgPrtPoll ∧ allKnown Gen.UbxCfgRate ∧ allKnown Gen.UbxCfgRstAction ∧
    allKnown Gen.UbxCfgTp5 ∧ allKnown Gen.UbxCfgTp5Poll ∧ allKnown Gen.UbxEsfAlg ∧ allKnown Gen.UbxEsfMeas ∧
    allKnown Gen.UbxMgaAckData0 ∧ allKnown Gen.UbxMgaIniTimeUtc ∧ allKnown Gen.UbxNavStatus ∧ allKnown Gen.UbxUpdSos ∧
    allKnown Gen.UbxUpdSosAction := by
  refine ⟨?_, ?_, ?_, ?_, ?_, ?_, ?_, ?_, ?_, ?_, ?_, ?_, ?_, ?_, ?_, ?_, ?_, ?_, ?_, ?_, ?_⟩ <;> decide

/-- **C07 at the source level**: what the generated `Fields.unpack` leaves in the item objects of a table that agrees with the
    specification is, for every field the specification names, the value at its prescribed offset, width, signedness -/
theorem src_decoded_as_prescribed (t : Table) (spec : Layout) (size : Nat) (hag : C07.Agrees t spec size)
    (vs0 : List Val) (hl : vs0.length = t.length) (hk : allKnown t = true) (hp : PadZero t vs0)
    (pl rem : List Nat) (items : List ItemObj) (h : Gen.Src.Types.Fields.unpack (objs t vs0) pl = .ok (rem, items))
    (name : String) (off w : Nat) (ty : Ty) (hm : (name, off, w, ty) ∈ spec) :
    ∃ (vs : List Val) (i : Nat) (k : Kind), items = objs t vs ∧ t[i]? = some (name, k) ∧ vs[i]? = some (specValue pl off w ty) := by
  rw [fields_unpack t vs0 pl hl hk hp] at h
  cases hd : t.decode pl with
  | error e => rw [hd] at h; cases h
  | ok r =>
    obtain ⟨vs, rem'⟩ := r
    rw [hd] at h
    injection h with h
    injection h with h1 h2
    obtain ⟨i, k, a, b⟩ := C07.decoded_as_prescribed t spec size hag pl vs rem' hd name off w ty hm
    exact ⟨vs, i, k, h2.symm, a, b⟩

/-- **C08 at the source level**: the generated `Fields.pack` after the generated `Fields.unpack` reproduces the payload,
    reserved bytes zero -/
theorem src_encode_after_decode (t : Table) (hwf : t.wf) (vs0 : List Val) (hl0 : vs0.length = t.length) (hk : allKnown t = true)
    (hp : PadZero t vs0) (pl : List Nat) (hb : Bytes pl) (hl : t.size ≤ pl.length) (rem : List Nat) (items : List ItemObj)
    (h : Gen.Src.Types.Fields.unpack (objs t vs0) pl = .ok (rem, items)) :
    ∃ items', Gen.Src.Types.Fields.pack items = .ok (t.zeroReserved pl, items') := by
  rw [fields_unpack t vs0 pl hl0 hk hp] at h
  cases hd : t.decode pl with
  | error e => rw [hd] at h; cases h
  | ok r =>
    obtain ⟨vs, rem'⟩ := r
    rw [hd] at h
    injection h with h
    injection h with h1 h2
    have henc := C08.encode_after_decode t hwf pl hb hl vs rem' hd
    have hlen : vs.length = t.length := decode_length t pl vs rem' hd
    rw [← h2, fields_pack t vs hlen hk, henc]
    exact ⟨_, rfl⟩

end SrcEquiv

import UbxModel.Proofs.SrcEquiv.ServerChecks
import UbxModel.Proofs.SrcEquiv.UbxParser
import UbxModel.Proofs.ServerIndependence
namespace SrcEquiv
open Ubx

abbrev WSt := Gen.Src.Server._wait.St

theorem build_eq (reg : Registry) (cid : Cid) (pl : List Nat) :
    Py.buildWithData reg cid pl = match reg.build cid pl with
      | some f => .ok f
      | none => if (reg.find? (fun e => e.1 = cid)).isSome then .error .valueError else .error .keyError := by
  unfold Py.buildWithData Registry.build
  cases h : reg.find? (fun e => e.1 = cid) with
  | none => rfl
  | some e => obtain ⟨c, ci⟩ := e; by_cases hd : ci.decodable pl <;> simp [hd]

theorem wait_inner (env : Env) (te : Option Nat) (q : List Packet) : ∀ (st : WSt), st.self.parser.queue = q →
    ∃ st' : WSt,
      st'.self = { st.self with parser := { st.self.parser with queue := (drain st.self.reg q).2 } } ∧
      st'.time_end_set = st.time_end_set ∧
      Py.whileFuel (q.length + 1) (Gen.Src.Server._wait.test2 env te) (Gen.Src.Server._wait.body2 env te) st =
        (match (drain st.self.reg q).1 with
         | some f => .ret (some f) st'
         | none => .next st') := by
  induction q with
  | nil =>
    intro st hq
    refine ⟨{ st with pkt := none }, ?_, rfl, ?_⟩
    · simp [drain, ← hq]
    · simp [Py.whileFuel, Gen.Src.Server._wait.body2, Gen.Src.Server._wait.test2, Py.packet, hq, drain]
  | cons x xs ih =>
    intro st hq
    cases x with
    | crcError =>
      obtain ⟨st', h1, h2, h3⟩ := ih { st with pkt := some .crcError, self := { st.self with parser := { st.self.parser with queue := xs } } } rfl
      refine ⟨st', ?_, ?_, ?_⟩
      · simp [h1, drain]
      · simp [h2]
      · rw [List.length_cons, Py.whileFuel_step (xs.length + 1) (Gen.Src.Server._wait.test2 env te) (Gen.Src.Server._wait.body2 env te) st rfl]
        simp only [Gen.Src.Server._wait.body2, Py.packet, hq, drain]
        exact h3
    | data cid pl =>
      cases hb : st.self.reg.build cid pl with
      | some f =>
        refine ⟨{ st with pkt := some (.data cid pl), self := { st.self with parser := { st.self.parser with queue := xs } } }, ?_, rfl, ?_⟩
        · simp [drain, hb]
        · rw [List.length_cons, Py.whileFuel_step (xs.length + 1) (Gen.Src.Server._wait.test2 env te) (Gen.Src.Server._wait.body2 env te) st rfl]
          simp [Gen.Src.Server._wait.body2, Py.packet, hq, drain, build_eq, hb]
      | none =>
        obtain ⟨st', h1, h2, h3⟩ := ih { st with pkt := some (.data cid pl), self := { st.self with parser := { st.self.parser with queue := xs } } } rfl
        refine ⟨st', ?_, ?_, ?_⟩
        · simp [h1, drain, hb]
        · simp [h2]
        · rw [List.length_cons, Py.whileFuel_step (xs.length + 1) (Gen.Src.Server._wait.test2 env te) (Gen.Src.Server._wait.body2 env te) st rfl]
          simp only [Gen.Src.Server._wait.body2, Py.packet, hq, drain, build_eq, hb]
          by_cases hf : (st.self.reg.find? (fun e => e.1 = cid)).isSome <;> simp [hf, Py.excIn] <;> exact h3


/-- the log after one `_receive()` -/
def rxLog (env : Env) (lg : Log) : Log :=
  { lg with
    now := lg.now + tick (env.rx lg.nRx).1
    nRx := lg.nRx + 1
    calls := lg.calls ++ [.rx] }

/-- the state of `_wait` after `data = self._receive()` and `self.parser.process(data)` -/
def waitSt1 (env : Env) (st : WSt) : WSt :=
  { st with
    data := (env.rx st.self.lg.nRx).2
    self := { st.self with
              parser := st.self.parser.process (env.rx st.self.lg.nRx).2
              lg := rxLog env st.self.lg } }

theorem wait_outer (env : Env) (te : Option Nat) (deadline : Nat) : ∀ (fuel : Nat) (st : WSt),
    st.time_end_set = deadline → deadline - st.self.lg.now ≤ fuel →
    ∃ st' : WSt,
      st'.self = { st.self with parser := (wait env st.self.reg deadline st.self.parser st.self.lg).2.1,
                                lg := (wait env st.self.reg deadline st.self.parser st.self.lg).2.2 } ∧
      Py.whileFuel fuel (Gen.Src.Server._wait.test1 env te) (Gen.Src.Server._wait.body1 env te) st =
        (match (wait env st.self.reg deadline st.self.parser st.self.lg).1 with
         | some f => .ret (some f) st'
         | none => .next st') := by
  intro fuel
  induction fuel with
  | zero =>
    intro st hte hf
    have hnl : ¬ st.self.lg.now < deadline := by omega
    refine ⟨st, ?_, ?_⟩
    · rw [wait, if_neg hnl]
    · rw [Py.whileFuel_done _ _ _ _ (by simp [Gen.Src.Server._wait.test1, Py.timeNow, hte, hnl])]
      rw [wait, if_neg hnl]
  | succ n ih =>
    intro st hte hf
    by_cases hlt : st.self.lg.now < deadline
    · rw [Py.whileFuel_step _ _ _ _ (by simp [Gen.Src.Server._wait.test1, Py.timeNow, hte, hlt])]
      rw [wait_eq, if_pos hlt]
      -- one turn of the loop body
      obtain ⟨st1, hst1⟩ : ∃ st1 : WSt, st1 = waitSt1 env st := ⟨_, rfl⟩
      have hbody : Gen.Src.Server._wait.body1 env te st =
          Py.whileFuel (st1.self.parser.queue.length + 1) (Gen.Src.Server._wait.test2 env te) (Gen.Src.Server._wait.body2 env te) st1 := by
        simp only [Gen.Src.Server._wait.body1, Py.receive, ubx_process]
        by_cases he : (env.rx st.self.lg.nRx).2.isEmpty = true
        · have : (env.rx st.self.lg.nRx).2 = [] := List.isEmpty_iff.mp he
          simp [Py.Ctl.bind, hst1, this, Parser.process, waitSt1, rxLog]
        · simp [he, Py.Ctl.bind, hst1, waitSt1, rxLog]
      obtain ⟨st2, h21, h22, h23⟩ := wait_inner env te st1.self.parser.queue st1 rfl
      rw [hbody, h23]
      have hreg : st1.self.reg = st.self.reg := by rw [hst1]; rfl
      have hq : st1.self.parser = st.self.parser.process (env.rx st.self.lg.nRx).2 := by rw [hst1]; rfl
      rw [hreg, hq] at h21
      rw [hreg, hq]
      cases hd : drain st.self.reg (st.self.parser.process (env.rx st.self.lg.nRx).2).queue with
      | mk o q =>
        rw [hd] at h21
        cases o with
        | some f =>
          refine ⟨st2, ?_, ?_⟩
          · rw [h21, hst1]; rfl
          · rfl
        | none =>
          have hte2 : st2.time_end_set = deadline := by rw [h22, hst1]; exact hte
          have hnow : st2.self.lg.now = st.self.lg.now + tick (env.rx st.self.lg.nRx).1 := by rw [h21, hst1]; rfl
          obtain ⟨st3, h31, h32⟩ := ih st2 hte2 (by rw [hnow]; simp only [tick]; omega)
          have e2 : st2.self = { st.self with parser := { st.self.parser.process (env.rx st.self.lg.nRx).2 with queue := q },
                                              lg := rxLog env st.self.lg } := by rw [h21, hst1]; rfl
          rw [e2] at h31 h32
          refine ⟨st3, ?_, ?_⟩
          · rw [h31]; rfl
          · exact h32
    · refine ⟨st, ?_, ?_⟩
      · rw [wait, if_neg hlt]
      · rw [Py.whileFuel_done _ _ _ _ (by simp [Gen.Src.Server._wait.test1, Py.timeNow, hte, hlt])]
        rw [wait, if_neg hlt]


/-- the deadline `_wait(time_end)` works with: the one handed in, or now + retry delay -/
def deadlineOf (sv : Py.Server) : Option Nat → Nat
  | none => sv.lg.now + sv.delay
  | some t => t

/-- **`_wait()` as the source has it is the model's `wait`** -/
theorem srv_wait (env : Env) (sv : Py.Server) (te : Option Nat) :
    Gen.Src.Server._wait env sv te =
      (.ok (wait env sv.reg (deadlineOf sv te) sv.parser sv.lg).1,
       { sv with parser := (wait env sv.reg (deadlineOf sv te) sv.parser sv.lg).2.1,
                 lg := (wait env sv.reg (deadlineOf sv te) sv.parser sv.lg).2.2 }) := by
  unfold Gen.Src.Server._wait
  cases te with
  | none =>
    simp only [deadlineOf]
    obtain ⟨st', h1, h2⟩ := wait_outer env none (sv.lg.now + sv.delay) (sv.lg.now + sv.delay - Py.timeNow sv)
      { self := sv, retry_delay_in_s := sv.delay, time_end_set := sv.lg.now + sv.delay } rfl (by simp [Py.timeNow])
    simp only [] at h1 h2
    simp only [Py.timeNow] at h2 ⊢
    rw [h2]
    cases hw : (wait env sv.reg (sv.lg.now + sv.delay) sv.parser sv.lg).1 <;> simp [Py.finish, h1]
  | some t =>
    simp only [deadlineOf]
    obtain ⟨st', h1, h2⟩ := wait_outer env (some t) t (t - Py.timeNow sv)
      { self := sv, retry_delay_in_s := sv.delay, time_end_set := t } rfl (by simp [Py.timeNow])
    simp only [] at h1 h2
    rw [h2]
    cases hw : (wait env sv.reg t sv.parser sv.lg).1 <;> simp [Py.finish, h1]

end SrcEquiv

import UbxModel.Gen.SrcRender
namespace SrcEquiv
open Ubx Ubx.Render
set_option linter.unusedSimpArgs false

theorem rok {α β : Type} (x : α) (f : α → Except Exc β) : ((Except.ok x : Except Exc α) >>= f) = f x := rfl
theorem rerr {α β : Type} (e : Exc) (f : α → Except Exc β) : ((Except.error e : Except Exc α) >>= f) = .error e := rfl
theorem map_ok {α β : Type} (x : α) (f : α → β) : (Except.ok x : Except Exc α).map f = .ok (f x) := rfl
theorem map_err {α β : Type} (e : Exc) (f : α → β) : (Except.error e : Except Exc α).map f = .error e := rfl

theorem r_lever (name : String) (v d : Nat) : Gen.Src.Render.U1_LeverArmType.str name v d = line name .leverArmType v d := by
  simp only [Gen.Src.Render.U1_LeverArmType.str, line, render]
  by_cases h : v < Gen.U1_LeverArmType_type_names.length
  · simp only [h, decide_true, if_true]
    cases idx Gen.U1_LeverArmType_type_names v <;> simp [rok, rerr, map_ok, map_err, Except.map, String.append_assoc]
  · simp [h, map_ok, Except.map, String.append_assoc]

theorem r_gnssid (name : String) (v d : Nat) : Gen.Src.Render.U1_GnssId.str name v d = line name .gnssId v d := by
  simp only [Gen.Src.Render.U1_GnssId.str, line, render]
  by_cases h : v < Gen.U1_GnssId_gnss_system_names.length
  · simp only [h, decide_true, if_true]
    cases idx Gen.U1_GnssId_gnss_system_names v <;> simp [rok, rerr, Except.map, String.append_assoc]
  · simp [h, Except.map, String.append_assoc]

theorem r_fusion (name : String) (v d : Nat) : Gen.Src.Render.U1_FusionMode.str name v d = line name .fusionMode v d := by
  simp only [Gen.Src.Render.U1_FusionMode.str, line, render]
  by_cases h : v < Gen.U1_FusionMode_fusion_mode_strings.length
  · simp only [h, decide_true, if_true]
    cases idx Gen.U1_FusionMode_fusion_mode_strings v <;> simp [rok, rerr, Except.map, String.append_assoc]
  · simp [h, Except.map, String.append_assoc]

theorem r_gpsfix (name : String) (v d : Nat) : Gen.Src.Render.U1_GpsFix.str name v d = line name .gpsFix v d := by
  simp only [Gen.Src.Render.U1_GpsFix.str, line, render]
  by_cases h : v < Gen.U1_GpsFix_gps_fix_strings.length
  · simp only [h, decide_true, if_true]
    cases idx Gen.U1_GpsFix_gps_fix_strings v <;> simp [rok, rerr, Except.map, String.append_assoc]
  · simp [h, Except.map, String.append_assoc]

theorem r_flags_enable (name : String) (v d : Nat) : Gen.Src.Render.X4_Flags.str name v d = line name .flagsEnable v d := by
  simp only [Gen.Src.Render.X4_Flags.str, line, render, Except.map]
  have h01 : (v >>> 0) &&& 1 = 0 ∨ (v >>> 0) &&& 1 = 1 := by
    have : (v >>> 0) &&& 1 < 2 := Nat.and_lt_two_pow _ (by decide : 1 < 2 ^ 1)
    omega
  rcases h01 with h | h <;> simp [h, String.append_assoc]

/-- what is left after the control flow has been resolved: two texts that differ in how their literals are split -/
macro "str_eq" : tactic =>
  `(tactic| first
     | rfl
     | (simp only [Except.ok.injEq]; apply String.ext; simp [String.toList_append])
     | (apply String.ext; simp [String.toList_append]))

theorem bit_cases (x : Nat) : x &&& 1 = 0 ∨ x &&& 1 = 1 := by
  have : x &&& 1 < 2 := Nat.and_lt_two_pow _ (by decide : 1 < 2 ^ 1)
  omega

theorem r_alg_flags (name : String) (v d : Nat) : Gen.Src.Render.U1_Flags.str name v d = line name .algFlags v d := by
  simp only [Gen.Src.Render.U1_Flags.str, line, render]
  rcases bit_cases (d >>> 0) with hb | hb <;>
  cases idx Gen.U1_Flags_status_strings ((d >>> 1) &&& 7) <;>
    simp [hb, rok, rerr, Except.map, bind, Except.bind, pure, Except.pure, -String.reduceAppend] <;> str_eq

theorem r_init1 (name : String) (v d : Nat) : Gen.Src.Render.X1_InitStatus1.str name v d = line name .initStatus1 v d := by
  simp only [Gen.Src.Render.X1_InitStatus1.str, line, render]
  cases idx Gen.X1_InitStatus1_wt_init_strings ((d >>> 0) &&& 3) <;>
    cases idx Gen.X1_InitStatus1_mnt_alg_strings ((d >>> 2) &&& 7) <;>
    cases idx Gen.X1_InitStatus1_ins_init_strings ((d >>> 5) &&& 3) <;>
    simp [rok, rerr, Except.map, bind, Except.bind, pure, Except.pure, -String.reduceAppend] <;> str_eq

theorem r_init2 (name : String) (v d : Nat) : Gen.Src.Render.X1_InitStatus2.str name v d = line name .initStatus2 v d := by
  simp only [Gen.Src.Render.X1_InitStatus2.str, line, render]
  cases idx Gen.X1_InitStatus2_imu_init_strings ((d >>> 0) &&& 3) <;>
    simp [rok, rerr, Except.map, bind, Except.bind, pure, Except.pure, -String.reduceAppend] <;> str_eq

theorem r_sens1 (name : String) (v d : Nat) : Gen.Src.Render.X1_SensStatus1.str name v d = line name .sensStatus1 v d := by
  simp only [Gen.Src.Render.X1_SensStatus1.str, line, render, Nat.shiftRight_zero]
  rcases bit_cases (d >>> 6) with h6 | h6 <;> rcases bit_cases (d >>> 7) with h7 | h7 <;>
  by_cases h : (d &&& 63) < Gen.X1_SensStatus1_sensor_types.length <;>
  cases idx Gen.X1_SensStatus1_sensor_types (d &&& 63) <;>
    simp [h, h6, h7, rok, rerr, Except.map, bind, Except.bind, pure, Except.pure, -String.reduceAppend] <;> str_eq

theorem r_sens2 (name : String) (v d : Nat) : Gen.Src.Render.X1_SensStatus2.str name v d = line name .sensStatus2 v d := by
  simp only [Gen.Src.Render.X1_SensStatus2.str, line, render]
  cases idx Gen.X1_SensStatus2_calib_strings ((d >>> 0) &&& 3) <;>
    cases idx Gen.X1_SensStatus2_time_strings ((d >>> 2) &&& 3) <;>
    simp [rok, rerr, Except.map, bind, Except.bind, pure, Except.pure, -String.reduceAppend] <;> str_eq

theorem r_nav_flags (name : String) (v d : Nat) : Gen.Src.Render.X1_Flags.str name v d = line name .navFlags v d := by
  simp only [Gen.Src.Render.X1_Flags.str, line, render, Except.map]
  str_eq

theorem r_mode (name : String) (v d : Nat) : Gen.Src.Render.X4_Mode.str name v d = line name .mode v d := by
  simp only [Gen.Src.Render.X4_Mode.str, line, render, charlenStr, parityStr, stopbitsStr]
  cases idx ["5", "6", "7", "8"] ((v >>> 6) &&& 3) <;>
    cases idx ["even", "odd", "", "reserved", "none", "none", "reserved", "reserved"] ((v >>> 9) &&& 7) <;>
    cases idx ["1", "1.5", "2", "0.5"] ((v >>> 12) &&& 3) <;>
    first
    | (simp [rok, rerr, Except.map, bind, Except.bind, pure, Except.pure, -String.reduceAppend] <;> str_eq)
    | rfl

theorem r_proto (name : String) (v d : Nat) : Gen.Src.Render.X2_Proto.str name v d = line name .proto v d := by
  simp only [Gen.Src.Render.X2_Proto.str, line, render, Except.map, Gen.Src.Render.X2_Proto._protocols, Gen.Src.Render.X2_Proto.concat,
    Nat.and_one_is_mod]
  have hm : v % 2 = 0 ∨ v % 2 = 1 := by omega
  rcases hm with g | g <;> by_cases h2 : v &&& 2 = 0 <;> by_cases h4 : v &&& 4 = 0 <;>
    simp [g, h2, h4] <;> (first | decide | str_eq)

end SrcEquiv

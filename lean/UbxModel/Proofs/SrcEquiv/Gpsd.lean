import UbxModel.Gen.SrcGpsd
import UbxModel.Props.C20
/-! The gpsd handshake as `tools/pysrc2lean_gpsd.py` generates it from `ubxlib/server.py` (`Gen.Src.Gpsd.*`) against the hand-written
    model (`Ubx.Gpsd.parseLine` / `parseChunk`, Model/Gpsd.lean).

    * `g_parse_gpsd_msg`: on every chunk whose VERSION and DEVICES objects are well-formed in the sense of C20 (`C20.LineOk`) the
      generated `_parse_gpsd_msg` returns normally in the state the model computes, `absG` being the reading of the object's
      attributes as the model's state;
    * `g_ready`: for *every* chunk - ill-formed objects, wrong shapes, calls that end in an exception included - the object says
      "enabled" exactly when it holds a selected device (the invariant behind "setup() does not return before a device is selected"),
      proved on the generated definitions themselves, with no well-formedness assumed. -/
namespace SrcEquiv
open Ubx Ubx.Gpsd
set_option linter.unusedSimpArgs false

abbrev GSt := Gen.Src.Gpsd._parse_devices.St

/-- the model's state behind the attributes of the back-end object: an empty requested name counts as none, what is not a string is
    not a name -/
def absG (sv : Py.Gpsd.Server) : State :=
  { requested := if Py.Gpsd.truthyStr sv.device_name then sv.device_name else none
    selected := sv.selected_device.bind isStr
    enabled := sv.enabled
    release := sv.release.bind isStr }

theorem g_parse_version (sv : Py.Gpsd.Server) (kvs : List (String × Json)) :
    Gen.Src.Gpsd._parse_version () sv (.obj kvs) =
      (match Json.get kvs "release" with
       | none => (.error (.exc .keyError), sv)
       | some r => (.ok (), { sv with release := some r })) := by
  simp only [Gen.Src.Gpsd._parse_version, Py.Gpsd.subscript]
  cases Json.get kvs "release" <;> rfl

/-- the loop of `_parse_devices` over a well-formed device list is the decision table -/
theorem g_devices_loop (data : Json) : ∀ (devs : List Json) (paths : List String) (st : GSt),
    devs.map C20.devPath = paths.map some →
    ∃ st' : GSt, Py.Gpsd.forList (Gen.Src.Gpsd._parse_devices.body1 () data) devs st = .next st' ∧
      absG st'.self = C20.select (absG st.self) paths ∧ st'.self.device_name = st.self.device_name ∧ st'.self.release = st.self.release := by
  intro devs
  induction devs with
  | nil =>
    intro paths st h
    cases paths with
    | nil => refine ⟨st, rfl, ?_, rfl, rfl⟩; simp [C20.select]; cases (absG st.self).requested <;> simp
    | cons p ps => simp at h
  | cons d rest ih =>
    intro paths st h
    cases paths with
    | nil => simp at h
    | cons p ps =>
      simp only [List.map_cons, List.cons.injEq] at h
      obtain ⟨hd, hr⟩ := h
      cases d with
      | obj kv =>
        simp only [C20.devPath] at hd
        cases hg : Json.get kv "path" with
        | none => simp [hg] at hd
        | some pj =>
          simp only [hg, Option.bind] at hd
          have hpj : pj = .str p := by cases pj <;> simp [isStr] at hd; rw [hd]
          subst hpj
          simp only [Py.Gpsd.forList, Gen.Src.Gpsd._parse_devices.body1, Py.Gpsd.subscript, hg]
          by_cases ht : Py.Gpsd.truthyStr st.self.device_name = true
          · obtain ⟨want, hw⟩ : ∃ want, st.self.device_name = some want := by
              cases hdn : st.self.device_name with
              | none => simp [hdn, Py.Gpsd.truthyStr] at ht
              | some w => exact ⟨w, rfl⟩
            have ht' : Py.Gpsd.truthyStr (some want) = true := hw ▸ ht
            have hreq : (absG st.self).requested = some want := by simp [absG, hw, ht']
            rw [if_pos ht]
            simp only [hw, Py.Gpsd.eqStr]
            by_cases he : p = want
            · subst he
              simp only [beq_self_eq_true, if_true]
              refine ⟨_, rfl, ?_, hw.symm ▸ rfl, rfl⟩
              simp [absG, C20.select, hw, ht', isStr]
            · have hb : (p == want) = false := by simpa using he
              simp only [hb, Bool.false_eq_true, if_false]
              obtain ⟨st', h1, h2, h3, h4⟩ := ih ps st hr
              refine ⟨st', h1, ?_, h3.trans hw, h4⟩
              rw [h2]
              simp only [C20.select, hreq, List.mem_cons]
              have : ¬ want = p := fun e => he e.symm
              simp [this]
          · have hf : Py.Gpsd.truthyStr st.self.device_name = false := by simpa using ht
            rw [if_neg ht]
            refine ⟨_, rfl, ?_, rfl, rfl⟩
            simp [absG, C20.select, hf, isStr]
      | null => simp [C20.devPath] at hd
      | bool b => simp [C20.devPath] at hd
      | num => simp [C20.devPath] at hd
      | str s => simp [C20.devPath] at hd
      | arr xs => simp [C20.devPath] at hd

/-- `_parse_devices` on a well-formed DEVICES object -/
theorem g_parse_devices (sv : Py.Gpsd.Server) (kvs : List (String × Json)) (devs : List Json) (paths : List String)
    (hk : Json.get kvs "devices" = some (.arr devs)) (hp : devs.map C20.devPath = paths.map some) :
    ∃ sv', Gen.Src.Gpsd._parse_devices () sv (.obj kvs) = (.ok (), sv') ∧ absG sv' = C20.select (absG sv) paths ∧
      sv'.device_name = sv.device_name ∧ sv'.release = sv.release := by
  obtain ⟨st', h1, h2, h3, h4⟩ := g_devices_loop (.obj kvs) devs paths { self := sv } hp
  refine ⟨st'.self, ?_, h2, h3, h4⟩
  simp only [Gen.Src.Gpsd._parse_devices, Py.Gpsd.subscript, hk, Py.Gpsd.iter, h1, Py.Gpsd.finish]

theorem eqStr_iff (j : Json) (s : String) : Py.Gpsd.eqStr j s = true ↔ j = .str s := by
  cases j <;> simp [Py.Gpsd.eqStr]

abbrev MSt := Gen.Src.Gpsd._parse_gpsd_msg.St

/-- one line of `_parse_gpsd_msg`, well-formed in the sense of C20: the generated loop body falls off its end in the state the
    model's `parseLine` computes, and leaves the requested name alone -/
theorem g_line (data : Chunk) (dj : List Line) (l : Line) (st : MSt) (h : C20.LineOk l) :
    ∃ st' : MSt, Gen.Src.Gpsd._parse_gpsd_msg.body1 () data dj l st = .next st' ∧
      parseLine (absG st.self) l = .ok (absG st'.self) ∧ st'.self.device_name = st.self.device_name := by
  cases l with
  | notJson => exact ⟨st, rfl, rfl, rfl⟩
  | tooDeep => exact ⟨st, rfl, rfl, rfl⟩
  | value j =>
    cases j with
    | obj kvs =>
      obtain ⟨hv, hd⟩ := h
      cases hc : Json.get kvs "class" with
      | none =>
        refine ⟨st, ?_, ?_, rfl⟩
        · simp [Gen.Src.Gpsd._parse_gpsd_msg.body1, Py.Gpsd.loads, Py.Gpsd.isDict, Py.Gpsd.hasKey, hc, Py.Gpsd.tryExcept]
        · simp [parseLine, hc]
      | some c =>
        by_cases h1 : c = .str "VERSION"
        · subst h1
          have := hv hc
          cases hr : Json.get kvs "release" with
          | none => simp [hr] at this
          | some r =>
            refine ⟨{ st with self := { st.self with release := some r } }, ?_, ?_, rfl⟩
            · simp [Gen.Src.Gpsd._parse_gpsd_msg.body1, Py.Gpsd.loads, Py.Gpsd.isDict, Py.Gpsd.hasKey, hc, Py.Gpsd.tryExcept,
                Py.Gpsd.subscript, Py.Gpsd.eqStr, g_parse_version, hr]
            · simp [parseLine, hc, hr, absG]
        · by_cases h2 : c = .str "DEVICES"
          · subst h2
            obtain ⟨devs, paths, hk, hp⟩ := hd hc
            obtain ⟨sv', e1, e2, e3, _⟩ := g_parse_devices st.self kvs devs paths hk hp
            refine ⟨{ st with self := sv' }, ?_, ?_, e3⟩
            · simp [Gen.Src.Gpsd._parse_gpsd_msg.body1, Py.Gpsd.loads, Py.Gpsd.isDict, Py.Gpsd.hasKey, hc, Py.Gpsd.tryExcept,
                Py.Gpsd.subscript, Py.Gpsd.eqStr, e1]
            · simp [parseLine, hc, parseDevices, hk, C20.devices_go _ devs paths hp, e2]
          · have f1 : Py.Gpsd.eqStr c "VERSION" = false := by
              cases hh : Py.Gpsd.eqStr c "VERSION" with
              | false => rfl
              | true => exact absurd ((eqStr_iff _ _).mp hh) h1
            have f2 : Py.Gpsd.eqStr c "DEVICES" = false := by
              cases hh : Py.Gpsd.eqStr c "DEVICES" with
              | false => rfl
              | true => exact absurd ((eqStr_iff _ _).mp hh) h2
            refine ⟨st, ?_, ?_, rfl⟩
            · simp [Gen.Src.Gpsd._parse_gpsd_msg.body1, Py.Gpsd.loads, Py.Gpsd.isDict, Py.Gpsd.hasKey, hc, Py.Gpsd.tryExcept,
                Py.Gpsd.subscript, f1, f2]
            · simp only [parseLine, hc]
              split
              · rename_i hh; simp at hh; exact absurd hh h1
              · rename_i hh; simp at hh; exact absurd hh h2
              · rfl
    | null => exact ⟨st, rfl, rfl, rfl⟩
    | bool b => exact ⟨st, rfl, rfl, rfl⟩
    | num => exact ⟨st, rfl, rfl, rfl⟩
    | str s => exact ⟨st, rfl, rfl, rfl⟩
    | arr xs => exact ⟨st, rfl, rfl, rfl⟩

theorem g_lines (data : Chunk) (dj : List Line) : ∀ (ls : List Line) (st : MSt), (∀ l ∈ ls, C20.LineOk l) →
    ∃ st' : MSt, Py.Gpsd.forList (Gen.Src.Gpsd._parse_gpsd_msg.body1 () data dj) ls st = .next st' ∧
      ls.foldlM parseLine (absG st.self) = .ok (absG st'.self) ∧ st'.self.device_name = st.self.device_name := by
  intro ls
  induction ls with
  | nil => intro st _; exact ⟨st, rfl, rfl, rfl⟩
  | cons l rest ih =>
    intro st h
    obtain ⟨st1, a1, a2, a3⟩ := g_line data dj l st (h l (by simp))
    obtain ⟨st2, b1, b2, b3⟩ := ih st1 (fun x hx => h x (by simp [hx]))
    refine ⟨st2, ?_, ?_, b3.trans a3⟩
    · simp only [Py.Gpsd.forList, a1, b1]
    · simp only [List.foldlM, a2]; exact b2

/-- **`_parse_gpsd_msg` as generated from the source is the model's `parseChunk`** on every chunk whose VERSION and DEVICES
    objects are well-formed: it returns normally, in the state the model computes, and never writes the requested name -/
theorem g_parse_gpsd_msg (sv : Py.Gpsd.Server) (c : Chunk) (h : ∀ ls, c = .lines ls → ∀ l ∈ ls, C20.LineOk l) :
    ∃ sv', Gen.Src.Gpsd._parse_gpsd_msg () sv c = (.ok (), sv') ∧ parseChunk (absG sv) c = .ok (absG sv') ∧
      sv'.device_name = sv.device_name := by
  cases c with
  | undecodable => exact ⟨sv, rfl, rfl, rfl⟩
  | lines ls =>
    obtain ⟨st', h1, h2, h3⟩ := g_lines (.lines ls) ls ls { self := sv } (h ls rfl)
    exact ⟨st'.self, by simp only [Gen.Src.Gpsd._parse_gpsd_msg, h1, Py.Gpsd.finish], h2, h3⟩

/-- the object `__init__` leaves is the model's initial state -/
theorem absG_init (name : Option String) : absG { device_name := name } = State.init name := by
  cases name with
  | none => rfl
  | some s =>
    by_cases hs : s = ""
    · subst hs; rfl
    · have ht : Py.Gpsd.truthyStr (some s) = true := by simp [Py.Gpsd.truthyStr, hs]
      have hi : State.init (some s) = { requested := some s } := by
        simp only [State.init]
        split
        · rename_i heq; simp at heq; exact absurd heq hs
        · rfl
      rw [hi]; simp [absG, ht]

/-! ### ready exactly when a device is selected - for every input, well-formed or not, and however the call ends -/

def ReadyS (sv : Py.Gpsd.Server) : Prop := sv.enabled = true ↔ sv.selected_device.isSome

def ctlSt {σ ρ : Type} : Py.Ctl σ ρ → σ
  | .next s => s
  | .brk s => s
  | .ret _ s => s
  | .abort _ s => s

theorem finish_snd {σ ρ : Type} (proj : σ → Py.Gpsd.Server) (d : ρ) (c : Py.Ctl σ ρ) :
    (Py.Gpsd.finish proj d c).2 = proj (ctlSt c) := by cases c <;> rfl

theorem ready_dev_body (data d : Json) (st : GSt) (h : ReadyS st.self ∧ (Py.Gpsd.truthyStr st.self.device_name → st.self.device_name.isSome)) :
    ReadyS (ctlSt (Gen.Src.Gpsd._parse_devices.body1 () data d st)).self ∧
      (ctlSt (Gen.Src.Gpsd._parse_devices.body1 () data d st)).self.device_name = st.self.device_name := by
  simp only [Gen.Src.Gpsd._parse_devices.body1]
  cases Py.Gpsd.subscript d "path" with
  | error e => exact ⟨h.1, rfl⟩
  | ok p =>
    simp only
    by_cases ht : Py.Gpsd.truthyStr st.self.device_name = true
    · rw [if_pos ht]
      cases hdn : st.self.device_name with
      | none => simp [hdn, Py.Gpsd.truthyStr] at ht
      | some w =>
        simp only
        by_cases he : Py.Gpsd.eqStr p w = true
        · simp [he, ctlSt, ReadyS, hdn]
        · simp only [he]; exact ⟨h.1, hdn⟩
    · rw [if_neg ht]; simp [ctlSt, ReadyS]

theorem ready_dev_loop (data : Json) : ∀ (devs : List Json) (st : GSt), ReadyS st.self →
    ReadyS (ctlSt (Py.Gpsd.forList (Gen.Src.Gpsd._parse_devices.body1 () data) devs st)).self := by
  intro devs
  induction devs with
  | nil => intro st h; exact h
  | cons d rest ih =>
    intro st h
    have hb := (ready_dev_body data d st ⟨h, fun ht => by cases hd : st.self.device_name <;> simp_all [Py.Gpsd.truthyStr]⟩).1
    simp only [Py.Gpsd.forList]
    cases hc : Gen.Src.Gpsd._parse_devices.body1 () data d st with
    | next s => rw [hc] at hb; exact ih s hb
    | brk s => rw [hc] at hb; exact hb
    | ret r s => rw [hc] at hb; exact hb
    | abort a s => rw [hc] at hb; exact hb

theorem ready_parse_devices (sv : Py.Gpsd.Server) (data : Json) (h : ReadyS sv) : ReadyS (Gen.Src.Gpsd._parse_devices () sv data).2 := by
  simp only [Gen.Src.Gpsd._parse_devices, finish_snd]
  cases Py.Gpsd.subscript data "devices" with
  | error e => exact h
  | ok it =>
    simp only
    cases Py.Gpsd.iter it with
    | error e => exact h
    | ok xs => exact ready_dev_loop data xs _ h

theorem ready_parse_version (sv : Py.Gpsd.Server) (data : Json) (h : ReadyS sv) : ReadyS (Gen.Src.Gpsd._parse_version () sv data).2 := by
  simp only [Gen.Src.Gpsd._parse_version, finish_snd]
  cases Py.Gpsd.subscript data "release" with
  | error e => exact h
  | ok r => exact h

theorem ctlSt_tryExcept {σ ρ : Type} (b : Py.Ctl σ ρ) (hd : Exc → Bool) : ctlSt (Py.Gpsd.tryExcept b hd (fun s => .next s)) = ctlSt b := by
  cases b with
  | abort a s =>
    cases a with
    | exc e => simp only [Py.Gpsd.tryExcept]; by_cases he : hd e = true <;> simp [he, ctlSt]
    | _ => rfl
  | next s => rfl
  | brk s => rfl
  | ret r s => rfl

theorem ready_line_body (data : Chunk) (dj : List Line) (l : Line) (st : MSt) (h : ReadyS st.self) :
    ReadyS (ctlSt (Gen.Src.Gpsd._parse_gpsd_msg.body1 () data dj l st)).self := by
  simp only [Gen.Src.Gpsd._parse_gpsd_msg.body1, ctlSt_tryExcept]
  cases Py.Gpsd.loads l with
  | error e => exact h
  | ok dm =>
    simp only
    split
    · cases Py.Gpsd.subscript dm "class" with
      | error e => exact h
      | ok mc =>
        simp only
        split
        · have := ready_parse_version st.self dm h
          cases hv : Gen.Src.Gpsd._parse_version () st.self dm with
          | mk r s => rw [hv] at this; cases r <;> exact this
        · split
          · have := ready_parse_devices st.self dm h
            cases hv : Gen.Src.Gpsd._parse_devices () st.self dm with
            | mk r s => rw [hv] at this; cases r <;> exact this
          · exact h
    · exact h

theorem ready_lines (data : Chunk) (dj : List Line) : ∀ (ls : List Line) (st : MSt), ReadyS st.self →
    ReadyS (ctlSt (Py.Gpsd.forList (Gen.Src.Gpsd._parse_gpsd_msg.body1 () data dj) ls st)).self := by
  intro ls
  induction ls with
  | nil => intro st h; exact h
  | cons l rest ih =>
    intro st h
    have hb := ready_line_body data dj l st h
    simp only [Py.Gpsd.forList]
    cases hc : Gen.Src.Gpsd._parse_gpsd_msg.body1 () data dj l st with
    | next s => rw [hc] at hb; exact ih s hb
    | brk s => rw [hc] at hb; exact hb
    | ret r s => rw [hc] at hb; exact hb
    | abort a s => rw [hc] at hb; exact hb

/-- **whatever arrives and however `_parse_gpsd_msg` ends - normally or with an exception - the object says "enabled" exactly when
    it holds a selected device** -/
theorem g_ready (sv : Py.Gpsd.Server) (c : Chunk) (h : ReadyS sv) : ReadyS (Gen.Src.Gpsd._parse_gpsd_msg () sv c).2 := by
  simp only [Gen.Src.Gpsd._parse_gpsd_msg, finish_snd]
  cases c with
  | undecodable => exact h
  | lines ls => exact ready_lines _ ls ls _ h

end SrcEquiv

import UbxModel.Proofs.SrcEquiv.ServerSet
import UbxModel.Proofs.ServerIndependencePoll
namespace SrcEquiv
open Ubx

abbrev PSt := Gen.Src.Server.poll.St

theorem test2_wait_ack (env : Env) (req : Req) (st : PSt) (h : st.state = "wait-ack") :
    Gen.Src.Server.poll.test2 env req st = true := by
  simp [Gen.Src.Server.poll.test2, h]

theorem test2_wait_response (env : Env) (req : Req) (st : PSt) (h : st.state = "wait-response") :
    Gen.Src.Server.poll.test2 env req st = true := by
  simp [Gen.Src.Server.poll.test2, h]

theorem test2_ok (env : Env) (req : Req) (st : PSt) (h : st.state = "ok") :
    Gen.Src.Server.poll.test2 env req st = false := by
  simp [Gen.Src.Server.poll.test2, h]

/-- state 'wait-ack' of the loop of `poll()` is the model's `pollWaitAck` -/
theorem poll_wait_ack (env : Env) (req : Req) (deadline : Nat) : ∀ (k : Nat) (fuel : Nat) (st : PSt),
    deadline - st.self.lg.now = k → st.state = "wait-ack" → st.time_end = deadline → deadline - st.self.lg.now + 1 ≤ fuel →
    ∃ st' : PSt,
      st'.self = { st.self with
                   parser := (pollWaitAck env st.self.reg req.cid deadline st.self.parser st.self.lg).2.1
                   lg := (pollWaitAck env st.self.reg req.cid deadline st.self.parser st.self.lg).2.2 } ∧
      st'.state = (if (pollWaitAck env st.self.reg req.cid deadline st.self.parser st.self.lg).1 then "ok" else "timeout") ∧
      st'.response = st.response ∧
      Py.whileFuel fuel (Gen.Src.Server.poll.test2 env req) (Gen.Src.Server.poll.body2 env req) st = .next st' := by
  intro k
  induction k using Nat.strongRecOn with
  | _ k ih =>
    intro fuel st hk hs hte hf
    obtain ⟨n, rfl⟩ : ∃ n, fuel = n + 1 := ⟨fuel - 1, by omega⟩
    rw [Py.whileFuel_step _ _ _ _ (test2_wait_ack env req st hs)]
    rw [pollWaitAck_eq]
    simp only [Gen.Src.Server.poll.body2, srv_wait, deadlineOf, hte, srv_check_ack_nak, srv_check_poll, hs, ackString_ack, Py.timeNow]
    generalize hw : wait env st.self.reg deadline st.self.parser st.self.lg = w
    obtain ⟨o, p', lg'⟩ := w
    cases o with
    | none =>
      refine ⟨_, ?_, ?_, ?_, rfl⟩ <;> simp
    | some f =>
      have hadv := wait_some_advances env st.self.reg deadline st.self.parser st.self.lg f (by rw [hw])
      rw [hw] at hadv
      simp only [] at hadv
      by_cases hc : checkAckNak req.cid f = .ack
      · simp only [hc, decide_true, if_true]
        simp only [show ("wait-ack" == "wait-response") = false from by decide, show ("wait-ack" == "wait-ack") = true from by decide,
          if_true, Bool.false_eq_true, if_false]
        rw [Py.whileFuel_done _ _ _ _ (test2_ok env req _ rfl)]
        refine ⟨_, ?_, ?_, ?_, rfl⟩ <;> simp
      · simp only [hc, decide_false, if_false]
        simp only [show ("wait-ack" == "wait-response") = false from by decide, show ("wait-ack" == "wait-ack") = true from by decide,
          if_true, Bool.false_eq_true, if_false]
        obtain ⟨st', h1, h2, h3, h4⟩ := ih (deadline - lg'.now) (by omega) n
          { st with self := { st.self with parser := p', lg := lg' }, state := "wait-ack", time_end := deadline,
                    packet := some f, t_duration := lg'.now - st.t_start, check_optstr := ackString (checkAckNak req.cid f) }
          rfl rfl rfl (by simp only []; omega)
        refine ⟨st', ?_, ?_, ?_, ?_⟩
        · rw [h1]
        · rw [h2]
        · rw [h3]
        · exact h4

/-- the loop of `poll()` entered in state 'wait-response' is the model's `pollAttempt` -/
theorem poll_wait_response (env : Env) (req : Req) (deadline : Nat) : ∀ (k : Nat) (fuel : Nat) (st : PSt),
    deadline - st.self.lg.now = k → st.state = "wait-response" → st.time_end = deadline →
    deadline - st.self.lg.now + st.self.delay + 2 ≤ fuel →
    ∃ st' : PSt,
      st'.self = { st.self with
                   parser := (pollAttempt env st.self.reg req.cid st.self.delay deadline st.self.parser st.self.lg).2.1
                   lg := (pollAttempt env st.self.reg req.cid st.self.delay deadline st.self.parser st.self.lg).2.2 } ∧
      (match (pollAttempt env st.self.reg req.cid st.self.delay deadline st.self.parser st.self.lg).1 with
       | some f => st'.state = "ok" ∧ st'.response = some f
       | none => st'.state = "timeout") ∧
      Py.whileFuel fuel (Gen.Src.Server.poll.test2 env req) (Gen.Src.Server.poll.body2 env req) st = .next st' := by
  intro k
  induction k using Nat.strongRecOn with
  | _ k ih =>
    intro fuel st hk hs hte hf
    obtain ⟨n, rfl⟩ : ∃ n, fuel = n + 1 := ⟨fuel - 1, by omega⟩
    rw [Py.whileFuel_step _ _ _ _ (test2_wait_response env req st hs)]
    rw [pollAttempt_eq]
    simp only [Gen.Src.Server.poll.body2, srv_wait, deadlineOf, hte, srv_check_ack_nak, srv_check_poll, hs, ackString_ack, Py.timeNow]
    generalize hw : wait env st.self.reg deadline st.self.parser st.self.lg = w
    obtain ⟨o, p', lg'⟩ := w
    cases o with
    | none =>
      refine ⟨_, ?_, ?_, rfl⟩ <;> simp
    | some f =>
      have hadv := wait_some_advances env st.self.reg deadline st.self.parser st.self.lg f (by rw [hw])
      rw [hw] at hadv
      simp only [] at hadv
      simp only [show ("wait-response" == "wait-response") = true from by decide, if_true]
      by_cases hc : f.cid = req.cid
      · simp only [hc, decide_true, if_true]
        by_cases hcfg : req.cid.cls = CLASS_CFG
        · have h6 : (req.cid.cls == 6) = true := by rw [hcfg]; rfl
          simp only [h6, if_true, if_pos hcfg]
          obtain ⟨st', h1, h2, h3, h4⟩ := poll_wait_ack env req (lg'.now + st.self.delay) _ n
            { st with self := { st.self with parser := p', lg := lg' }, state := "wait-ack", response := some f,
                      time_end := lg'.now + st.self.delay, packet := some f, t_duration := lg'.now - st.t_start, check := true }
            rfl rfl rfl (by simp only []; omega)
          simp only [] at h1 h2 h3 h4
          rw [h4]
          refine ⟨st', ?_, ?_, rfl⟩
          · rw [h1]
            cases hb : (pollWaitAck env st.self.reg req.cid (lg'.now + st.self.delay) p' lg') with
            | mk b r => cases b <;> rfl
          · cases hb : (pollWaitAck env st.self.reg req.cid (lg'.now + st.self.delay) p' lg') with
            | mk b r =>
              rw [hb] at h2
              cases b
              · simpa using h2
              · exact ⟨by simpa using h2, h3⟩
        · have h6 : (req.cid.cls == 6) = false := by
            simp only [CLASS_CFG] at hcfg; simp [hcfg]
          simp only [h6, if_false, Bool.false_eq_true, if_neg hcfg]
          rw [Py.whileFuel_done _ _ _ _ (test2_ok env req _ rfl)]
          refine ⟨_, ?_, ?_, rfl⟩ <;> simp
      · simp only [hc, decide_false, if_false, Bool.false_eq_true]
        obtain ⟨st', h1, h2, h4⟩ := ih (deadline - lg'.now) (by omega) n
          { st with self := { st.self with parser := p', lg := lg' }, state := "wait-response", time_end := deadline,
                    packet := some f, t_duration := lg'.now - st.t_start, check := false }
          rfl rfl rfl (by simp only []; omega)
        exact ⟨st', h1, h2, h4⟩

theorem poll_loop (env : Env) (req : Req) : ∀ (n i : Nat) (st : PSt),
    Py.finish (fun st : PSt => st.self) none (Py.forRangeFrom (Gen.Src.Server.poll.body1 env req) i n st) =
      (.ok (pollLoop env st.self.reg st.self.delay req n st.self.parser st.self.lg).1,
       { st.self with
         parser := (pollLoop env st.self.reg st.self.delay req n st.self.parser st.self.lg).2.1
         lg := (pollLoop env st.self.reg st.self.delay req n st.self.parser st.self.lg).2.2 }) := by
  intro n
  induction n with
  | zero => intro i st; simp [pollLoop, Py.forRangeFrom, Py.finish]
  | succ n ih =>
    intro i st
    rw [forRangeFrom_succ]
    simp only [Gen.Src.Server.poll.body1, srv_send, ubx_empty_queue, ubx_restart, Py.flushInput,
      Py.timeNow, sentLog, List.append_assoc, List.cons_append, List.nil_append]
    simp only [pollLoop, flushSend]
    by_cases htx : env.tx st.self.lg.sent.length = true
    · simp only [htx, if_true]
      obtain ⟨st', h1, h2, h3⟩ := poll_wait_response env req (st.self.lg.now + st.self.delay) _ (st.self.lg.now + st.self.delay - st.self.lg.now + st.self.delay + 2)
        { st with self := { st.self with parser := st.self.parser.emptyQueue.restart,
                                         lg := { st.self.lg with sent := st.self.lg.sent ++ [req.wire],
                                                                 calls := st.self.lg.calls ++ [Call.flush, Call.tx req.wire] } },
                  res := true, state := "wait-response", response := none, t_start := st.self.lg.now,
                  time_end := st.self.lg.now + st.self.delay }
        rfl rfl rfl (by simp only []; omega)
      simp only [] at h1 h2 h3
      rw [h3]
      simp only [Py.Ctl.bind]
      generalize hw : pollAttempt env st.self.reg req.cid st.self.delay (st.self.lg.now + st.self.delay) st.self.parser.emptyQueue.restart
          { now := st.self.lg.now, nRx := st.self.lg.nRx, sent := st.self.lg.sent ++ [req.wire],
            calls := st.self.lg.calls ++ [Call.flush, Call.tx req.wire] } = w at h1 h2 ⊢
      obtain ⟨o, p2, lg2⟩ := w
      cases o with
      | none =>
        simp only [] at h1 h2
        simp only [h2, show ("timeout" == "ok") = false from by decide, Bool.false_eq_true, if_false, ih, h1]
        simp [Py.recover, recover]
      | some f =>
        simp only [] at h1 h2
        simp only [h2.1, h2.2, show ("ok" == "ok") = true from by decide, if_true]
        simp [Py.finish, h1]
    · simp only [htx]
      simp [ih]

/-- **`poll()` as the source has it is the model's `Srv.poll`** -/
theorem srv_poll (env : Env) (sv : Py.Server) (req : Req) :
    Gen.Src.Server.poll env sv req =
      (.ok ((srvOf sv).poll env sv.lg req).1,
       { sv with parser := ((srvOf sv).poll env sv.lg req).2.1.parser, reg := ((srvOf sv).poll env sv.lg req).2.1.reg,
                 lg := ((srvOf sv).poll env sv.lg req).2.2 }) := by
  unfold Gen.Src.Server.poll Py.forRange
  by_cases hcfg : req.cid.cls = CLASS_CFG
  · have h6 : (req.cid.cls == 6) = true := by rw [hcfg]; rfl
    simp only [h6, if_true, Py.Ctl.bind, ubx_set_filters, Py.register]
    rw [poll_loop]
    simp [Srv.poll, srvOf, ackCid, nakCid, hcfg]
  · have h6 : (req.cid.cls == 6) = false := by
      simp only [CLASS_CFG] at hcfg; simp [hcfg]
    simp only [h6, Bool.false_eq_true, if_false, Py.Ctl.bind, ubx_set_filters, Py.register]
    rw [poll_loop]
    simp [Srv.poll, srvOf, hcfg]

end SrcEquiv

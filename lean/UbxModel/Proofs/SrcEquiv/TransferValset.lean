import UbxModel.Proofs.SrcEquiv.Valset
import UbxModel.Props.C14
/-! C14's clauses about the two configuration requests restated for the definitions generated from `ubx_cfg_valset.py` /
    `ubx_cfg_valget.py`: constructor followed by `pack()`. -/
namespace SrcEquiv
open Ubx Py Py.Valget Spec
variable [KeyTable]

/-- constructor, then `pack()` -/
def builtAndPacked (init : Except Exc Container) : Except Exc (List Nat) :=
  init >>= fun c => Gen.Src.Valset.Fields.pack c.fields >>= fun r => .ok r.1

/-- **C14, VALSET at the source level**: for 1..64 items, `UbxCfgValSetAction(items).pack()` yields `00 01 00 00` followed by the items'
    encodings in the order given - or the exception of the first item that cannot be encoded -/
theorem src_valset_is_payload (items : List CfgItem) (h : 1 ≤ items.length ∧ items.length ≤ 64) :
    builtAndPacked (Gen.Src.Valset.UbxCfgValSetAction.init items) = valsetPayload items := by
  rw [builtAndPacked, (valset_init items).1 h, bind_ok, valset_pack]
  cases valsetPayload items with
  | error e => rfl
  | ok b => rfl

theorem src_valset_parts (items : List CfgItem) (bs : List Nat) (h : 1 ≤ items.length ∧ items.length ≤ 64)
    (hp : builtAndPacked (Gen.Src.Valset.UbxCfgValSetAction.init items) = .ok bs) :
    ∃ parts : List (List Nat), bs = [0, 1, 0, 0] ++ parts.flatten ∧ parts.length = items.length ∧
      ∀ i (hi : i < items.length) (hp : i < parts.length), items[i].pack = .ok parts[i] := by
  rw [src_valset_is_payload items h] at hp
  exact C14.valset_payload items bs hp

/-- too many items, or none: refused by the constructor -/
theorem src_valset_count (items : List CfgItem) (h : ¬ (1 ≤ items.length ∧ items.length ≤ 64)) :
    Gen.Src.Valset.UbxCfgValSetAction.init items = .error .assertionError := (valset_init items).2 h

/-- **C14, VALGET poll at the source level**: for 1..64 keys below 2³², `UbxCfgValGetPoll(keys).pack()` yields `00 00 00 00` followed
    by the keys, little-endian, in order -/
theorem src_poll_is_payload (keys : List Nat) (hk : ∀ k ∈ keys, k < 2 ^ 32) (h : 1 ≤ keys.length ∧ keys.length ≤ 64) :
    builtAndPacked (Gen.Src.Valset.UbxCfgValGetPoll.init (keys.map Int.ofNat)) = .ok ([0, 0, 0, 0] ++ (keys.map (leBytes 4)).flatten) := by
  have h' : 1 ≤ (keys.map Int.ofNat).length ∧ (keys.map Int.ofNat).length ≤ 64 := by simpa using h
  rw [builtAndPacked, (poll_init _).1 h', bind_ok, poll_pack, C14.valget_poll_payload keys hk]
  rfl

/-- non-vacuity: CFG-RATE-MEAS = 1000 and a 1-bit item holding 4 (its truth value goes on the wire) -/
example : (match builtAndPacked (Gen.Src.Valset.UbxCfgValSetAction.init
      [{ group := 0x21, item := 1, bits := 16, signed := false, value := 1000 }, { group := 0x31, item := 0x1f, bits := 1, signed := false, value := 4 }]) with
    | .ok bs => bs | .error _ => [])
    = [0, 1, 0, 0, 0x01, 0x00, 0x21, 0x30, 0xE8, 0x03, 0x1F, 0x00, 0x31, 0x10, 0x01] := by decide +kernel

end SrcEquiv

import UbxModel.Gen.SrcValget
import UbxModel.Proofs.SrcEquiv.Types
import UbxModel.Proofs.SrcEquiv.CfgItem
import UbxModel.Props.C14
/-! `UbxCfgValGet.unpack` as `tools/pysrc2lean_valget.py` generates it from `ubxlib/ubx_cfg_valget.py` (`Gen.Src.Valget.unpack`) against
    the hand-written model (`Ubx.valgetDecode`, Model/ValSetGet.lean), on top of the equivalences already proved for what it calls:
    `CfgKeyData.unpack` (`cfg_unpack`) and `Fields.unpack` (`fields_unpack`).

    * `valget_loop`: the `while len(work_data) >= 4` loop is `valgetItems` - the same items in the same order, or the same exception -
      and `Fields.add` never meets a name twice (the names are `data0`, `data1`, … in step with the counter);
    * `valget_unpack`: the whole method is `valgetDecode`; in particular it never runs out of the iterations the translation gave the
      loop (every pass drops at least the four key bytes: `unpack_consumed`). -/
namespace SrcEquiv
open Ubx Py
variable [KeyTable]
set_option linter.unusedSimpArgs false

abbrev VSt := Gen.Src.Valget.unpack.St

/-- the header of a VALGET response as a field table -/
def valgetHdr : Table := [("version", .uint 1), ("layer", .uint 1), ("position", .uint 2)]

def hdrNames : List Py.FName := [("version", none), ("layer", none), ("position", none)]
def dataNames (k : Nat) : List Py.FName := (List.range k).map fun i => ("data", some i)

/-- every pair consumes its four key bytes at least -/
theorem unpack_consumed (data : List Nat) (c : CfgItem) (n : Nat) (h : CfgItem.unpack data = .ok (c, n)) : 4 ≤ n := by
  unfold CfgItem.unpack at h
  split at h
  · cases h
  · cases h1 : unpackU 4 (List.take 4 data) with
    | error e => rw [h1] at h; cases h
    | ok k =>
      rw [h1] at h
      simp only [bind_ok] at h
      cases h2 : bitsFromKey k.toNat with
      | error e => rw [h2] at h; cases h
      | ok b =>
        rw [h2] at h
        simp only [bind_ok] at h
        cases h3 : structToValue (unpackValue b (keySigned k.toNat) (List.drop 4 data)) with
        | error e => rw [h3] at h; cases h
        | ok r =>
          rw [h3] at h
          obtain ⟨v, m⟩ := r
          simp only [bind_ok, pure, Except.pure] at h
          cases h
          omega

omit [KeyTable] in
theorem data_name_fresh (k : Nat) : (hdrNames ++ dataNames k).contains (("data", some k) : Py.FName) = false := by
  simp [hdrNames, dataNames, List.contains_iff_mem]

omit [KeyTable] in
theorem dataNames_succ (k : Nat) : dataNames k ++ [(("data", some k) : Py.FName)] = dataNames (k + 1) := by
  simp [dataNames, List.range_succ]

/-- one pass of the loop on a state whose container holds the header and `item` pairs -/
theorem valget_body_ok (st : VSt) (c : CfgItem) (n : Nat) (hn : st.names = hdrNames ++ dataNames st.item)
    (hu : CfgItem.unpack st.work_data = .ok (c, n)) :
    Gen.Src.Valget.unpack.body1 st = .next { st with names := hdrNames ++ dataNames (st.item + 1), pairs := st.pairs ++ [c],
                                                     item := st.item + 1, work_data := st.work_data.drop n } := by
  simp only [Gen.Src.Valget.unpack.body1, cfg_unpack, hu, bind_ok, Py.Valget.add, hn, data_name_fresh, Bool.false_eq_true, if_false,
    List.append_assoc, dataNames_succ]

theorem valget_body_err (st : VSt) (e : Exc) (hu : CfgItem.unpack st.work_data = .error e) :
    Gen.Src.Valget.unpack.body1 st = .abort (.exc e) st := by
  simp only [Gen.Src.Valget.unpack.body1, cfg_unpack, hu, bind_error]

/-- **the loop of `UbxCfgValGet.unpack` is the model's `valgetItems`**, whatever fuel either was given beyond the bytes there are -/
theorem valget_loop : ∀ (f1 f2 : Nat) (st : VSt), st.work_data.length ≤ f1 → st.work_data.length ≤ f2 →
    st.names = hdrNames ++ dataNames st.item →
    (∀ items, valgetItems f2 st.work_data = .ok items →
      ∃ st' : VSt, Py.whileFuel f1 Gen.Src.Valget.unpack.test1 Gen.Src.Valget.unpack.body1 st = .next st' ∧
        st'.pairs = st.pairs ++ items ∧ st'.fixed = st.fixed ∧ st'.names = hdrNames ++ dataNames (st.item + items.length)) ∧
    (∀ e, valgetItems f2 st.work_data = .error e →
      ∃ st' : VSt, Py.whileFuel f1 Gen.Src.Valget.unpack.test1 Gen.Src.Valget.unpack.body1 st = .abort (.exc e) st') := by
  intro f1
  induction f1 with
  | zero =>
    intro f2 st h1 _ hn
    have h0 : st.work_data = [] := List.length_eq_zero_iff.mp (Nat.le_zero.mp h1)
    have ht : Gen.Src.Valget.unpack.test1 st = false := by simp [Gen.Src.Valget.unpack.test1, h0]
    have hm : valgetItems f2 st.work_data = .ok [] := by cases f2 <;> simp [valgetItems, h0]
    rw [Py.whileFuel_done _ _ _ _ ht, hm]
    exact ⟨fun items hi => ⟨st, rfl, by cases hi; simp, rfl, by cases hi; simpa using hn⟩, fun e he => by cases he⟩
  | succ f1 ih =>
    intro f2 st h1 h2 hn
    by_cases h4 : st.work_data.length < 4
    · have ht : Gen.Src.Valget.unpack.test1 st = false := by simp [Gen.Src.Valget.unpack.test1]; omega
      have hm : valgetItems f2 st.work_data = .ok [] := by cases f2 <;> simp [valgetItems, h4]
      rw [Py.whileFuel_done _ _ _ _ ht, hm]
      exact ⟨fun items hi => ⟨st, rfl, by cases hi; simp, rfl, by cases hi; simpa using hn⟩, fun e he => by cases he⟩
    · have ht : Gen.Src.Valget.unpack.test1 st = true := by simp [Gen.Src.Valget.unpack.test1]; omega
      rw [Py.whileFuel_step _ _ _ _ ht]
      cases f2 with
      | zero => omega
      | succ f2 =>
        cases hu : CfgItem.unpack st.work_data with
        | error e =>
          rw [valget_body_err st e hu]
          simp only [valgetItems, if_neg h4, hu, bind_error]
          exact ⟨fun items hi => (by cases hi), fun e' he => ⟨st, (by cases he; rfl)⟩⟩
        | ok r =>
          obtain ⟨c, n⟩ := r
          have hc := unpack_consumed _ c n hu
          rw [valget_body_ok st c n hn hu, C14.valget_step f2 _ h4 c n hu]
          have hl : (st.work_data.drop n).length ≤ f1 := by simp; omega
          have hl2 : (st.work_data.drop n).length ≤ f2 := by simp; omega
          obtain ⟨ok, er⟩ := ih f2 { st with names := hdrNames ++ dataNames (st.item + 1), pairs := st.pairs ++ [c],
                                              item := st.item + 1, work_data := st.work_data.drop n } hl hl2 rfl
          refine ⟨fun items hi => ?_, fun e he => ?_⟩
          · cases hr : valgetItems f2 (st.work_data.drop n) with
            | error e => rw [hr] at hi; cases hi
            | ok more =>
              rw [hr] at hi
              cases hi
              obtain ⟨st', a1, a2, a3, a4⟩ := ok more hr
              refine ⟨st', a1, by simpa using a2, a3, ?_⟩
              rw [a4]; simp; congr 1; omega
          · cases hr : valgetItems f2 (st.work_data.drop n) with
            | error e' =>
              rw [hr] at he
              have : e' = e := by cases he; rfl
              subst this
              exact er e' hr
            | ok more => rw [hr] at he; cases he

omit [KeyTable] in
theorem hdr_decode (data : List Nat) : Table.decode valgetHdr data =
    (unpackU 1 data >>= fun v => unpackU 1 (data.drop 1) >>= fun l => unpackU 2 (data.drop 2) >>= fun p =>
      .ok ([.int v, .int l, .int p], data.drop 4)) := by
  simp only [valgetHdr, Table.decode, Kind.unpack]
  cases h1 : unpackU 1 data with
  | error e => rfl
  | ok v =>
    simp only [Except.map, bind_ok]
    cases h2 : unpackU 1 (data.drop 1) with
    | error e => rfl
    | ok l =>
      simp only [bind_ok, List.drop_drop]
      cases h3 : unpackU 2 (data.drop 2) with
      | error e => rfl
      | ok p => rfl

/-- the prelude of `unpack`: three header items added to an empty container, then `Fields.unpack` over them -/
theorem valget_prelude (data : List Nat) :
    Gen.Src.Valget.unpack data = Py.Valget.finish (
      match Table.decode valgetHdr data with
      | .error e => .abort (.exc e) ({ names := hdrNames, fixed := objs valgetHdr [.int 0, .int 0, .int 0] } : VSt)
      | .ok (vs, rest) =>
        Py.whileFuel rest.length Gen.Src.Valget.unpack.test1 Gen.Src.Valget.unpack.body1
          ({ names := hdrNames, fixed := objs valgetHdr vs, work_data := rest, item := 0 } : VSt)) := by
  have hf := fields_unpack valgetHdr [.int 0, .int 0, .int 0] data rfl rfl (by simp [PadZero, valgetHdr])
  simp only [objs, valgetHdr] at hf
  simp only [Gen.Src.Valget.unpack, Py.Valget.add, List.contains_nil, Bool.false_eq_true, if_false, List.nil_append,
    List.contains_cons, List.cons_append]
  simp only [show ((("version", none) : Py.FName) == ("layer", none)) = false by decide,
    show ((("version", none) : Py.FName) == ("position", none)) = false by decide,
    show ((("layer", none) : Py.FName) == ("position", none)) = false by decide,
    show ((("layer", none) : Py.FName) == ("version", none)) = false by decide,
    show ((("position", none) : Py.FName) == ("version", none)) = false by decide,
    show ((("position", none) : Py.FName) == ("layer", none)) = false by decide, Bool.or_false, Bool.false_eq_true, if_false, hf, valgetHdr]
  cases Table.decode [("version", Kind.uint 1), ("layer", Kind.uint 1), ("position", Kind.uint 2)] data with
  | error e => rfl
  | ok r => obtain ⟨vs, rest⟩ := r; rfl

/-- **`UbxCfgValGet.unpack` as the source has it is the model's `valgetDecode`**: the same exception, or a container with the header
    values and the key/value items of the model, in payload order, under the names `data0`, `data1`, … - and the loop never runs
    out of the iterations it was given -/
theorem valget_unpack (data : List Nat) :
    (∀ v l p items, valgetDecode data = .ok (v, l, p, items) →
      ∃ st : VSt, Gen.Src.Valget.unpack data = .ok st ∧ st.pairs = items ∧ st.fixed = objs valgetHdr [.int v, .int l, .int p] ∧
        st.names = hdrNames ++ dataNames items.length) ∧
    (∀ e, valgetDecode data = .error e → Gen.Src.Valget.unpack data = .error (.exc e)) := by
  rw [valget_prelude, hdr_decode]
  unfold valgetDecode
  cases h1 : unpackU 1 data with
  | error e => exact ⟨fun _ _ _ _ h => (by cases h), fun e' h => (by cases h; rfl)⟩
  | ok v =>
    cases h2 : unpackU 1 (data.drop 1) with
    | error e => exact ⟨fun _ _ _ _ h => (by cases h), fun e' h => (by cases h; rfl)⟩
    | ok l =>
      cases h3 : unpackU 2 (data.drop 2) with
      | error e => exact ⟨fun _ _ _ _ h => (by cases h), fun e' h => (by cases h; rfl)⟩
      | ok p =>
        simp only [bind_ok]
        obtain ⟨ok, er⟩ := valget_loop (data.drop 4).length data.length
          ({ names := hdrNames, fixed := objs valgetHdr [.int v, .int l, .int p], work_data := data.drop 4, item := 0 } : VSt)
          (Nat.le_refl _) (by simp) (by simp [dataNames])
        cases hi : valgetItems data.length (data.drop 4) with
        | error e =>
          obtain ⟨st', hs⟩ := er e hi
          refine ⟨fun _ _ _ _ h => (by cases h), fun e' h => ?_⟩
          have : e' = e := by cases h; rfl
          subst this
          simp only [hs, Py.Valget.finish]
        | ok items =>
          obtain ⟨st', a1, a2, a3, a4⟩ := ok items hi
          refine ⟨fun v' l' p' items' h => ?_, fun e' h => (by cases h)⟩
          simp only [bind_ok, pure, Except.pure] at h
          cases h
          exact ⟨st', by simp only [a1, Py.Valget.finish], by simpa using a2, a3, by simpa using a4⟩

end SrcEquiv

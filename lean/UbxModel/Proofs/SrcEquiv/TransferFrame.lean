import UbxModel.Proofs.SrcEquiv.Checksum
import UbxModel.Proofs.SrcEquiv.UbxFrame
import UbxModel.Props.C01
import UbxModel.Props.C15
/-! Headline theorems of C01 and C15 restated for the definitions that `tools/pysrc2lean.py` generated from the Python
    source on this run (`Gen.Src.*`): while this file builds, they are theorems about what the source says now. -/
namespace SrcEquiv
open Ubx Spec

/-- `to_bytes()` as written in `ubxlib/frame.py` produces the wire format, for every frame object — whatever
    checksum state an earlier serialisation left in it — and every payload of up to 65535 bytes -/
theorem src_to_bytes_is_wire (f : Frame) (h : f.data.length < 65536) :
    (Gen.Src.UbxFrame.to_bytes f).2 = wire f.cls f.id f.data := by
  rw [frame_to_bytes]; exact C01.toBytes_eq_wire f h

/-- `Checksum.add` as written in `ubxlib/checksum.py`, folded over any byte sequence from the state after
    creation, is the closed-form Fletcher pair -/
theorem src_checksum_is_fletcher (s : List Nat) :
    Gen.Src.Checksum.value (s.foldl Gen.Src.Checksum.add Ck.zero) = (ckA s, ckB s) := by
  have h : s.foldl Gen.Src.Checksum.add Ck.zero = Ck.zero.addAll s := by
    unfold Ck.addAll; congr 1
  rw [h, ck_value]; exact C15.value_is_fletcher s

end SrcEquiv

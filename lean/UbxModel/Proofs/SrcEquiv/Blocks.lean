import UbxModel.Gen.SrcBlocks
import UbxModel.Proofs.SrcEquiv.Types
import UbxModel.Model.Messages
/-! The `unpack` methods of the messages whose field table depends on the payload, as `tools/pysrc2lean_blocks.py` generates them from
    `ubx_cfg_gnss.py`, `ubx_cfg_esfla.py`, `ubx_esf_status.py`, `ubx_mon_ver.py` (`Gen.Src.Blocks.*`), against the hand-written model
    (`Ubx.decodeCounted`, `Ubx.decodeMonVer`, Model/Messages.lean) - on top of `fields_unpack` (the generated `Fields.unpack` is
    `Table.decode`).

    * `blocks_loop`: the loop that adds the fields of `n` blocks never meets a name twice (`Fields.add` never raises `KeyError`),
      whatever `n`;
    * `counted_eq`: the shape the three count-prefixed methods share - header items, first pass, optional `assert`, as many blocks as
      the count field says, second pass over everything - is `decodeCounted`: the same exception, or items of the same kinds in the same
      order holding the same values; `blk_gnss`, `blk_esfla`, `blk_esfstatus` instantiate it (the generated definitions are
      *definitionally* that shape); `blk_monver` is the one-pass variant with `int((len − 40) / 30)` extension strings. -/
namespace SrcEquiv
open Ubx Py Py.Blocks
set_option linter.unusedSimpArgs false

/-- what a fresh item of a kind holds (`value=0`, for `CH` `value=''`) -/
def zeroOf : Kind → Val
  | .text _ => .str []
  | _ => .int 0

def hdrOf (t : Table) : List (Py.FName × ItemObj) := t.map fun e => ((e.1, none), ItemObj.ofKind e.2 (zeroOf e.2))
def blkOf (P : List String) (KB : List Kind) (i : Nat) : List (Py.FName × ItemObj) :=
  (P.zip KB).map fun x => ((x.1, some i), ItemObj.ofKind x.2 (zeroOf x.2))

/-- `self.f.add(…)` for each of a list, in order -/
def addAll (st : Container) : List (Py.FName × ItemObj) → Except Exc Container
  | [] => .ok st
  | x :: r => st.add x.1 x.2 >>= fun st => addAll st r

theorem addAll_fresh : ∀ (new : List (Py.FName × ItemObj)) (st : Container), (∀ x ∈ new, x.1 ∉ st.names) → (new.map (·.1)).Nodup →
    addAll st new = .ok { names := st.names ++ new.map (·.1), items := st.items ++ new.map (·.2) } := by
  intro new
  induction new with
  | nil => intro st _ _; simp [addAll]
  | cons x r ih =>
    intro st hf hn
    have hx : st.names.contains x.1 = false := by
      rw [List.contains_eq_mem]; simpa using hf x (by simp)
    simp only [addAll, Container.add, hx, Bool.false_eq_true, if_false, bind_ok']
    rw [List.map_cons, List.nodup_cons] at hn
    rw [ih]
    · simp
    · intro y hy
      simp only [List.mem_append, List.mem_singleton, not_or]
      refine ⟨hf y (by simp [hy]), fun h => hn.1 (h ▸ List.mem_map_of_mem hy)⟩
    · exact hn.2

theorem blkOf_names (P : List String) (KB : List Kind) (i : Nat) (hl : P.length = KB.length) :
    (blkOf P KB i).map (·.1) = P.map fun p => ((p, some i) : Py.FName) := by
  simp only [blkOf, List.map_map]
  have : (P.zip KB).map (fun x => x.1) = P := List.map_fst_zip (by omega)
  calc (P.zip KB).map ((fun x => x.1) ∘ fun x => ((x.1, some i), ItemObj.ofKind x.2 (zeroOf x.2)))
      = ((P.zip KB).map (fun x => x.1)).map (fun p => ((p, some i) : Py.FName)) := by simp [List.map_map, Function.comp_def]
    _ = _ := by rw [this]

theorem blkOf_items (P : List String) (KB : List Kind) (i : Nat) (hl : P.length = KB.length) :
    (blkOf P KB i).map (·.2) = KB.map fun k => ItemObj.ofKind k (zeroOf k) := by
  simp only [blkOf, List.map_map]
  have : (P.zip KB).map (fun x => x.2) = KB := List.map_snd_zip (by omega)
  calc (P.zip KB).map ((fun x => x.2) ∘ fun x => ((x.1, some i), ItemObj.ofKind x.2 (zeroOf x.2)))
      = ((P.zip KB).map (fun x => x.2)).map (fun k => ItemObj.ofKind k (zeroOf k)) := by simp [List.map_map, Function.comp_def]
    _ = _ := by rw [this]

/-- the loop that adds the fields of `n` blocks: never a name twice -/
theorem blocks_loop (P : List String) (KB : List Kind) (hl : P.length = KB.length) (hP : P.Nodup) :
    ∀ (n i0 : Nat) (st : Container), (∀ x ∈ st.names, x.2 = none ∨ ∃ j, j < i0 ∧ x.2 = some j) →
      forRangeFromE (fun i st => addAll st (blkOf P KB i)) i0 n st =
        .ok { names := st.names ++ (List.range' i0 n).flatMap (fun i => P.map fun p => ((p, some i) : Py.FName)),
              items := st.items ++ (List.range' i0 n).flatMap (fun _ => KB.map fun k => ItemObj.ofKind k (zeroOf k)) } := by
  intro n
  induction n with
  | zero => intro i0 st _; simp [forRangeFromE]
  | succ n ih =>
    intro i0 st hf
    have hfresh : ∀ x ∈ blkOf P KB i0, x.1 ∉ st.names := by
      intro x hx hm
      have hx1 : x.1 ∈ (blkOf P KB i0).map (·.1) := List.mem_map_of_mem hx
      rw [blkOf_names P KB i0 hl, List.mem_map] at hx1
      obtain ⟨p, _, hp⟩ := hx1
      rcases hf x.1 hm with h | ⟨j, hj, h⟩
      · rw [← hp] at h; simp at h
      · rw [← hp] at h; simp at h; omega
    have hnd : ((blkOf P KB i0).map (·.1)).Nodup := by
      rw [blkOf_names P KB i0 hl]
      rw [List.nodup_iff_pairwise_ne] at *
      rw [List.pairwise_map]
      exact hP.imp (fun h heq => h (by simpa using heq))
    simp only [forRangeFromE]
    rw [addAll_fresh _ st hfresh hnd, bind_ok', blkOf_names P KB i0 hl, blkOf_items P KB i0 hl]
    rw [ih (i0 + 1)]
    · simp [List.range'_succ, List.append_assoc]
    · intro x hx
      simp only [List.mem_append, List.mem_map] at hx
      rcases hx with hx | ⟨p, _, hp⟩
      · rcases hf x hx with h | ⟨j, hj, h⟩
        · exact Or.inl h
        · exact Or.inr ⟨j, by omega, h⟩
      · exact Or.inr ⟨i0, by omega, by rw [← hp]⟩

/-! ### items, kinds, values -/

theorem objs_append (a b : Table) (va vb : List Val) (h : va.length = a.length) :
    objs (a ++ b) (va ++ vb) = objs a va ++ objs b vb := by
  induction a generalizing va with
  | nil => cases va with
    | nil => rfl
    | cons _ _ => simp at h
  | cons e a ih =>
    cases va with
    | nil => simp at h
    | cons v va => obtain ⟨n, k⟩ := e; simp only [List.cons_append, objs, ih va (by simpa using h)]

theorem hdrOf_items (t : Table) : (hdrOf t).map (·.2) = objs t (t.map fun e => zeroOf e.2) := by
  induction t with
  | nil => rfl
  | cons e t ih => obtain ⟨n, k⟩ := e; simp only [hdrOf, List.map_cons, objs] at ih ⊢; rw [ih]

theorem padzero_zeros (t : Table) : PadZero t (t.map fun e => zeroOf e.2) := by
  induction t with
  | nil => simp [PadZero]
  | cons e t ih =>
    obtain ⟨n, k⟩ := e
    cases k with
    | pad m => exact ⟨rfl, ih⟩
    | uint w => exact ih
    | sint w => exact ih
    | text m => exact ih

theorem padzero_append (a b : Table) (va vb : List Val) (h : va.length = a.length) (ha : PadZero a va) (hb : PadZero b vb) :
    PadZero (a ++ b) (va ++ vb) := by
  induction a generalizing va with
  | nil => cases va with
    | nil => simpa using hb
    | cons _ _ => simp at h
  | cons e a ih =>
    cases va with
    | nil => simp at h
    | cons v va =>
      obtain ⟨n, k⟩ := e
      cases k <;> simp only [List.cons_append, PadZero] at ha ⊢
      · exact ih va (by simpa using h) ha
      · exact ih va (by simpa using h) ha
      · exact ⟨ha.1, ih va (by simpa using h) ha.2⟩
      · exact ih va (by simpa using h) ha

/-- what a decode leaves in the reserved fields is the 0 they held -/
theorem padzero_decoded (t : Table) : ∀ (d : List Nat) (vs : List Val) (r : List Nat), t.decode d = .ok (vs, r) → PadZero t vs := by
  induction t with
  | nil => intro d vs r h; simp [Table.decode] at h; simp [← h.1, PadZero]
  | cons e t ih =>
    intro d vs r h
    obtain ⟨n, k⟩ := e
    simp only [Table.decode] at h
    cases hk : k.unpack d with
    | error e => simp [hk] at h
    | ok x =>
      obtain ⟨v, w⟩ := x
      simp only [hk] at h
      cases ht : Table.decode t (d.drop w) with
      | error e => simp [ht] at h
      | ok y =>
        obtain ⟨vs', r'⟩ := y
        simp only [ht, Except.ok.injEq, Prod.mk.injEq] at h
        obtain ⟨h1, _⟩ := h
        subst h1
        have := ih _ _ _ ht
        cases k with
        | pad m => simp only [Kind.unpack, Except.ok.injEq, Prod.mk.injEq] at hk; simp [PadZero, ← hk.1, this]
        | uint _ => simpa [PadZero] using this
        | sint _ => simpa [PadZero] using this
        | text _ => simpa [PadZero] using this

/-- `super().unpack()` over a container whose items are those of a table -/
theorem unpack_objs (st : Container) (t : Table) (vs0 : List Val) (data : List Nat) (hi : st.items = objs t vs0)
    (hl : vs0.length = t.length) (hk : allKnown t = true) (hp : PadZero t vs0) :
    Container.unpack st data = (Table.decode t data >>= fun r => .ok { st with items := objs t r.1 }) := by
  unfold Container.unpack
  rw [hi, fields_unpack t vs0 data hl hk hp]
  cases Table.decode t data with
  | error e => rfl
  | ok r => rfl

/-- `self.f.<name>` on a container whose names and items are those of a table -/
theorem valueAt_objs (t : Table) : ∀ (vs : List Val), vs.length = t.length → ∀ c : String,
    valueAt (t.map fun e => ((e.1, none) : Py.FName)) (objs t vs) (c, none) = ((t.zip vs).find? (fun x => x.1.1 == c)).map (·.2) := by
  induction t with
  | nil => intro vs _ c; cases vs <;> rfl
  | cons e t ih =>
    intro vs hl c
    cases vs with
    | nil => simp at hl
    | cons v vs =>
      obtain ⟨n, k⟩ := e
      simp only [List.map_cons, objs, valueAt, List.zip_cons_cons, List.find?_cons]
      have hv : (ItemObj.ofKind k v).value = v := by
        cases k with
        | uint w => simp only [ItemObj.ofKind]; split <;> rfl
        | sint w => simp only [ItemObj.ofKind]; split <;> rfl
        | pad m => rfl
        | text m => rfl
      by_cases hc : n = c
      · subst hc; simp [hv]
      · have h1 : (((n, none) : Py.FName) == (c, none)) = false := by simpa using hc
        have h2 : (n == c) = false := by simpa using hc
        simp only [h1, h2, Bool.false_eq_true, if_false]
        exact ih vs (by simpa using hl) c

theorem decode_ints (t : Table) (hnum : ∀ e ∈ t, ∀ m, e.2 ≠ .text m) :
    ∀ (d : List Nat) (vs : List Val) (r : List Nat), t.decode d = .ok (vs, r) → ∀ v ∈ vs, ∃ z, v = .int z := by
  induction t with
  | nil => intro d vs r h; simp [Table.decode] at h; intro v hv; rw [h.1] at hv; simp at hv
  | cons e t ih =>
    intro d vs r h
    obtain ⟨n, k⟩ := e
    simp only [Table.decode] at h
    cases hk : k.unpack d with
    | error e => simp [hk] at h
    | ok x =>
      obtain ⟨v, w⟩ := x
      simp only [hk] at h
      cases ht : Table.decode t (d.drop w) with
      | error e => simp [ht] at h
      | ok y =>
        obtain ⟨vs', r'⟩ := y
        simp only [ht, Except.ok.injEq, Prod.mk.injEq] at h
        obtain ⟨h1, _⟩ := h
        subst h1
        intro u hu
        rcases List.mem_cons.mp hu with rfl | hu
        · cases k with
          | uint w' => simp only [Kind.unpack, Except.map] at hk; split at hk <;> simp at hk; exact ⟨_, hk.1.symm⟩
          | sint w' => simp only [Kind.unpack, Except.map] at hk; split at hk <;> simp at hk; exact ⟨_, hk.1.symm⟩
          | pad m => simp only [Kind.unpack, Except.ok.injEq, Prod.mk.injEq] at hk; exact ⟨0, hk.1.symm⟩
          | text m => exact absurd rfl (hnum (n, .text m) (by simp) m)
        · exact ih (fun e he => hnum e (by simp [he])) _ _ _ ht u hu

theorem decode_len (t : Table) : ∀ (d : List Nat) (vs : List Val) (r : List Nat), t.decode d = .ok (vs, r) → vs.length = t.length := by
  induction t with
  | nil => intro d vs r h; simp [Table.decode] at h; simp [← h.1]
  | cons e t ih =>
    intro d vs r h
    obtain ⟨n, k⟩ := e
    simp only [Table.decode] at h
    cases hk : k.unpack d with
    | error e => simp [hk] at h
    | ok x =>
      obtain ⟨v, w⟩ := x
      simp only [hk] at h
      cases ht : Table.decode t (d.drop w) with
      | error e => simp [ht] at h
      | ok y =>
        obtain ⟨vs', r'⟩ := y
        simp only [ht, Except.ok.injEq, Prod.mk.injEq] at h
        obtain ⟨h1, _⟩ := h
        subst h1
        simp [ih _ _ _ ht]

theorem find_named (t : Table) : ∀ (vs : List Val), vs.length = t.length → ∀ c : String, c ∈ t.map (·.1) →
    ∃ e v, (t.zip vs).find? (fun x => x.1.1 == c) = some (e, v) ∧ v ∈ vs := by
  induction t with
  | nil => intro vs _ c hc; simp at hc
  | cons e t ih =>
    intro vs hl c hc
    cases vs with
    | nil => simp at hl
    | cons v vs =>
      simp only [List.zip_cons_cons, List.find?_cons]
      by_cases h : e.1 = c
      · exact ⟨e, v, by simp [h], by simp⟩
      · have h2 : (e.1 == c) = false := by simpa using h
        simp only [h2]
        have hc' : c ∈ t.map (·.1) := by
          simp only [List.map_cons, List.mem_cons] at hc
          rcases hc with rfl | hc
          · exact absurd rfl h
          · exact hc
        obtain ⟨e', v', h1, h3⟩ := ih vs (by simpa using hl) c hc'
        exact ⟨e', v', h1, by simp [h3]⟩

/-- the limit `assert`ed between the two passes, if the method has one -/
def guardLimit (st : Container) (c : String) : Option Nat → Except Exc Container → Except Exc Container
  | none, k => k
  | some l, k => Container.attr st (c, none) >>= fun v => valLe v l >>= fun ok => if !ok then .error .assertionError else k

/-- the shape the three count-prefixed `unpack` methods share -/
def countedShape (hdrT : Table) (P : List String) (KB : List Kind) (c : String) (limit : Option Nat) (data : List Nat) : Except Exc Container :=
  addAll {} (hdrOf hdrT) >>= fun st =>
  Container.unpack st data >>= fun st =>
  guardLimit st c limit (
    Container.attr st (c, none) >>= fun v =>
    rangeOf v >>= fun n =>
    forRangeE n st (fun i st => addAll st (blkOf P KB i)) >>= fun st =>
    Container.unpack st data >>= fun st =>
    .ok st)

theorem map_blocks {β : Type} (blkT : Nat → Table) (KB : List Kind) (hblk : ∀ i, (blkT i).map (·.2) = KB) (g : Kind → β) (n : Nat) :
    (blocks blkT n).map (fun e => g e.2) = (List.range' 0 n).flatMap (fun _ => KB.map g) := by
  simp only [blocks, List.map_flatMap, List.range_eq_range']
  congr 1
  funext i
  rw [← hblk i, List.map_map]
  rfl

theorem allKnown_iff (t : Table) : allKnown t = (t.map (·.2)).all Py.Kind.known := by
  simp [allKnown, List.all_map, Function.comp_def]

/-- **the three count-prefixed `unpack` methods are the model's `decodeCounted`** -/
theorem counted_eq (hdrT : Table) (blkT : Nat → Table) (P : List String) (KB : List Kind) (c : String) (limit : Option Nat) (data : List Nat)
    (hk : allKnown hdrT = true) (hKB : KB.all Py.Kind.known = true) (hPl : P.length = KB.length) (hP : P.Nodup)
    (hnames : (hdrT.map (·.1)).Nodup) (hblk : ∀ i, (blkT i).map (·.2) = KB) (hnum : ∀ e ∈ hdrT, ∀ m, e.2 ≠ .text m)
    (hc : c ∈ hdrT.map (·.1)) :
    (countedShape hdrT P KB c limit data).map (·.items) = (decodeCounted hdrT blkT c limit data).map (fun r => objs r.1 r.2) := by
  unfold countedShape decodeCounted
  -- the header items
  have h1 : addAll {} (hdrOf hdrT) = .ok { names := hdrT.map (fun e => ((e.1, none) : Py.FName)), items := objs hdrT (hdrT.map fun e => zeroOf e.2) } := by
    rw [addAll_fresh _ {} (by simp)]
    · simp only [List.nil_append, hdrOf_items]
      congr 1
      simp [hdrOf, List.map_map, Function.comp_def]
    · have : (hdrOf hdrT).map (·.1) = (hdrT.map (·.1)).map (fun n => ((n, none) : Py.FName)) := by
        simp [hdrOf, List.map_map, Function.comp_def]
      rw [this, List.nodup_iff_pairwise_ne] at *
      rw [List.pairwise_map]
      exact hnames.imp (fun h heq => h (by simpa using heq))
  rw [h1, bind_ok']
  rw [unpack_objs _ hdrT _ data rfl (by simp) hk (padzero_zeros hdrT)]
  cases hd : Table.decode hdrT data with
  | error e => rfl
  | ok r1 =>
    obtain ⟨hv, r⟩ := r1
    simp only [bind_ok']
    have hlen := decode_len hdrT data hv r hd
    obtain ⟨e, v, hf, hvm⟩ := find_named hdrT hv hlen c hc
    obtain ⟨z, hz⟩ := decode_ints hdrT hnum data hv r hd v hvm
    subst hz
    have hattr : Container.attr { names := hdrT.map (fun e => ((e.1, none) : Py.FName)), items := objs hdrT hv } (c, none) = .ok (.int z) := by
      simp only [Container.attr, valueAt_objs hdrT hv hlen c, hf, Option.map]
    have hn : fieldNat hdrT hv c = z.toNat := by simp only [fieldNat, hf]
    -- the second half, once the guard is out of the way
    have rest : (Container.attr { names := hdrT.map (fun e => ((e.1, none) : Py.FName)), items := objs hdrT hv } (c, none) >>= fun v =>
        rangeOf v >>= fun n =>
        forRangeE n ({ names := hdrT.map (fun e => ((e.1, none) : Py.FName)), items := objs hdrT hv } : Container) (fun i st => addAll st (blkOf P KB i)) >>= fun st =>
        Container.unpack st data >>= fun st => (.ok st : Except Exc Container)).map (·.items) =
      (match (hdrT ++ blocks blkT z.toNat).decode data with
       | .error e => (.error e : Except Exc (Table × List Val))
       | .ok (vs, _) => .ok (hdrT ++ blocks blkT z.toNat, vs)).map (fun (r : Table × List Val) => objs r.1 r.2) := by
      rw [hattr, bind_ok']
      simp only [rangeOf, bind_ok', forRangeE]
      rw [blocks_loop P KB hPl hP z.toNat 0 _ (by intro x hx; left; simp only [List.mem_map] at hx; obtain ⟨e, _, he⟩ := hx; rw [← he])]
      rw [bind_ok']
      have hitems : objs hdrT hv ++ (List.range' 0 z.toNat).flatMap (fun _ => KB.map fun k => ItemObj.ofKind k (zeroOf k)) =
          objs (hdrT ++ blocks blkT z.toNat) (hv ++ (blocks blkT z.toNat).map fun e => zeroOf e.2) := by
        rw [objs_append hdrT _ hv _ hlen, ← hdrOf_items]
        congr 1
        rw [← map_blocks blkT KB hblk (fun k => ItemObj.ofKind k (zeroOf k)) z.toNat]
        simp [hdrOf, List.map_map, Function.comp_def]
      rw [unpack_objs _ (hdrT ++ blocks blkT z.toNat) _ data hitems (by simp [hlen])
        (by
          rw [allKnown_iff, List.map_append, List.all_append, ← allKnown_iff, hk, Bool.true_and]
          have := map_blocks blkT KB hblk id z.toNat
          simp only [id] at this
          rw [this, List.all_flatMap]
          simp [hKB])
        (padzero_append hdrT _ hv _ hlen (padzero_decoded hdrT data hv r hd) (padzero_zeros _))]
      cases Table.decode (hdrT ++ blocks blkT z.toNat) data with
      | error e => rfl
      | ok r2 => obtain ⟨vs, r'⟩ := r2; rfl
    cases limit with
    | none =>
      simp only [guardLimit, hn, Bool.false_eq_true, if_false]
      rw [hattr, bind_ok'] at rest
      rw [hattr, bind_ok']
      exact rest
    | some l =>
      simp only [guardLimit, hattr, bind_ok', valLe, hn]
      by_cases hle : z ≤ (l : Int)
      · have h2 : ¬ z.toNat > l := by omega
        simp only [hle, decide_true, Bool.not_true, Bool.false_eq_true, if_false, h2, decide_false]
        rw [hattr, bind_ok'] at rest
        exact rest
      · have h2 : z.toNat > l := by omega
        simp only [hle, decide_false, Bool.not_false, if_true, h2, decide_true]
        rfl

/-! ### the four classes -/

theorem blk_gnss (data : List Nat) :
    (Gen.Src.Blocks.UbxCfgGnss.unpack data).map (·.items) = (decodeGnss data).map (fun r => objs r.1 r.2) := by
  have hs : Gen.Src.Blocks.UbxCfgGnss.unpack data = countedShape Gen.UbxCfgGnss_header ["gnssId_", "resTrkCh_", "maxTrkCh_", "res1_", "flags_"]
      [.uint 1, .uint 1, .uint 1, .pad 1, .uint 4] "numConfigBlocks" none data := rfl
  rw [hs]
  exact counted_eq _ Gen.UbxCfgGnss_block _ _ _ none data (by decide) (by decide) rfl (by decide) (by decide) (fun i => rfl)
    (by intro e he m; simp [Gen.UbxCfgGnss_header] at he; rcases he with rfl | rfl | rfl | rfl <;> simp) (by decide)

theorem blk_esfla (data : List Nat) :
    (Gen.Src.Blocks.UbxCfgEsfla.unpack data).map (·.items) = (decodeEsfla data).map (fun r => objs r.1 r.2) := by
  have hs : Gen.Src.Blocks.UbxCfgEsfla.unpack data = countedShape Gen.UbxCfgEsfla_header ["leverArmType_", "res2_", "leverArmX_", "leverArmY_", "leverArmZ_"]
      [.uint 1, .pad 1, .sint 2, .sint 2, .sint 2] "numConfigs" (some 5) data := rfl
  rw [hs]
  exact counted_eq _ Gen.UbxCfgEsfla_block _ _ _ (some 5) data (by decide) (by decide) rfl (by decide) (by decide) (fun i => rfl)
    (by intro e he m; simp [Gen.UbxCfgEsfla_header] at he; rcases he with rfl | rfl | rfl <;> simp) (by decide)

theorem blk_esfstatus (data : List Nat) :
    (Gen.Src.Blocks.UbxEsfStatus.unpack data).map (·.items) = (decodeEsfStatus data).map (fun r => objs r.1 r.2) := by
  have hs : Gen.Src.Blocks.UbxEsfStatus.unpack data = countedShape Gen.UbxEsfStatus_header ["sensStatus1_", "sensStatus2_", "freq_", "faults_"]
      [.uint 1, .uint 1, .uint 1, .uint 1] "numSens" none data := rfl
  rw [hs]
  exact counted_eq _ Gen.UbxEsfStatus_block _ _ _ none data (by decide) (by decide) rfl (by decide) (by decide) (fun i => rfl)
    (by intro e he m; simp [Gen.UbxEsfStatus_header] at he; rcases he with rfl | rfl | rfl | rfl | rfl | rfl | rfl | rfl <;> simp) (by decide)

theorem quot_len (len : Nat) : (intQuot (((len : Nat) : Int) - ((40 : Nat) : Int)) 30).toNat = (len - 40) / 30 := by
  unfold intQuot
  by_cases h : 40 ≤ len
  · have : ((len : Int) - ((40 : Nat) : Int)) = (((len - 40 : Nat)) : Int) := by omega
    rw [this, Int.tdiv_eq_ediv_of_nonneg (by omega)]
    norm_cast
  · have h1 : len - 40 = 0 := by omega
    rw [h1]
    have hneg : ((len : Int) - ((40 : Nat) : Int)) = -(((40 - len : Nat)) : Int) := by omega
    have : (Int.tdiv ((len : Int) - ((40 : Nat) : Int)) ((30 : Nat) : Int)) ≤ 0 := by
      rw [hneg, Int.neg_tdiv]
      have := Int.tdiv_nonneg (a := ((40 - len : Nat) : Int)) (b := ((30 : Nat) : Int)) (by omega) (by omega)
      omega
    omega

/-- **`UbxMonVer.unpack` is the model's `decodeMonVer`**: one pass, as many extension strings as `int((len − 40) / 30)` says -/
theorem blk_monver (data : List Nat) :
    (Gen.Src.Blocks.UbxMonVer.unpack data).map (·.items) = (decodeMonVer data).map (fun r => objs r.1 r.2) := by
  have hs : Gen.Src.Blocks.UbxMonVer.unpack data =
      (addAll {} (hdrOf Gen.UbxMonVer_header) >>= fun st =>
       forRangeE (intQuot (((data.length : Nat) : Int) - ((40 : Nat) : Int)) 30).toNat st (fun i st => addAll st (blkOf ["extension_"] [.text 30] i)) >>= fun st =>
       Container.unpack st data >>= fun st => .ok st) := rfl
  rw [hs, quot_len]
  unfold decodeMonVer
  generalize (data.length - 40) / 30 = n
  have h1 : addAll {} (hdrOf Gen.UbxMonVer_header) =
      .ok { names := Gen.UbxMonVer_header.map (fun e => ((e.1, none) : Py.FName)), items := objs Gen.UbxMonVer_header (Gen.UbxMonVer_header.map fun e => zeroOf e.2) } := rfl
  rw [h1, bind_ok']
  simp only [forRangeE]
  rw [blocks_loop ["extension_"] [.text 30] rfl (by decide) n 0 _ (by intro x hx; left; simp only [List.mem_map] at hx; obtain ⟨e, _, he⟩ := hx; rw [← he])]
  rw [bind_ok']
  have hitems : objs Gen.UbxMonVer_header (Gen.UbxMonVer_header.map fun e => zeroOf e.2) ++
        (List.range' 0 n).flatMap (fun _ => [Kind.text 30].map fun k => ItemObj.ofKind k (zeroOf k)) =
      objs (Gen.UbxMonVer_header ++ blocks Gen.UbxMonVer_block n)
        (Gen.UbxMonVer_header.map (fun e => zeroOf e.2) ++ (blocks Gen.UbxMonVer_block n).map fun e => zeroOf e.2) := by
    rw [objs_append _ _ _ _ (by simp), ← hdrOf_items (blocks Gen.UbxMonVer_block n)]
    congr 1
    rw [← map_blocks Gen.UbxMonVer_block [.text 30] (fun i => rfl) (fun k => ItemObj.ofKind k (zeroOf k)) n]
    simp [hdrOf, List.map_map, Function.comp_def]
  rw [unpack_objs _ (Gen.UbxMonVer_header ++ blocks Gen.UbxMonVer_block n) _ data hitems (by simp)
    (by
      rw [allKnown_iff, List.map_append, List.all_append]
      have := map_blocks Gen.UbxMonVer_block [.text 30] (fun i => rfl) id n
      simp only [id] at this
      rw [this, List.all_flatMap]
      simp [Gen.UbxMonVer_header, Py.Kind.known])
    (padzero_append _ _ _ _ (by simp) (padzero_zeros _) (padzero_zeros _))]
  cases Table.decode (Gen.UbxMonVer_header ++ blocks Gen.UbxMonVer_block n) data with
  | error e => rfl
  | ok r2 => obtain ⟨vs, r'⟩ := r2; rfl

end SrcEquiv

import UbxModel.Gen.SrcFields
/-! The bookkeeping of the field container as `tools/pysrc2lean_fields.py` generates it from `ubxlib/types.py` (`Gen.Src.Fields.*`): what
    the translations of `Fields.pack/unpack`, of the VALSET / VALGET constructors and of the block-structured `unpack` methods take as
    primitives is proved here of the source.

    * `fields_add`: `add()` takes the ordinal and advances the counter first; a name already there is `KeyError` and the dict is left
      alone; otherwise the item goes to the end of the dict under its name (`add_names`: the view the other translations use);
    * `sorted_is_added` / `sorted_reachable`: in every container reachable from a fresh one by any history of `add` calls - refused ones
      included - the ordinals grow strictly along the dict, so `sorted(self._fields.items(), key=lambda item: item[1].order)` is the
      order the items were added in (`List.mergeSort_of_pairwise`). -/
namespace SrcEquiv
open Py Py.Fields
abbrev FSt := Py.Fields.St
set_option linter.unusedSimpArgs false

theorem contains_iff {κ ν : Type} [DecidableEq κ] (d : Dict κ ν) (k : κ) : Dict.contains d k = true ↔ k ∈ d.map (·.1) := by
  induction d with
  | nil => simp [Dict.contains]
  | cons e rest ih =>
    obtain ⟨k', v⟩ := e
    simp only [Dict.contains, List.map_cons, List.mem_cons]
    by_cases h : k' = k
    · simp [h]
    · simp only [h, if_false, ih]
      constructor
      · exact Or.inr
      · rintro (h2 | h2)
        · exact absurd h2.symm h
        · exact h2

theorem setitem_fresh {κ ν : Type} [DecidableEq κ] (d : Dict κ ν) (k : κ) (v : ν) (h : Dict.contains d k = false) :
    Dict.setitem d k v = d ++ [(k, v)] := by
  induction d with
  | nil => rfl
  | cons e rest ih =>
    obtain ⟨k', v'⟩ := e
    simp only [Dict.contains] at h
    by_cases hk : k' = k
    · simp [hk] at h
    · simp only [hk, if_false] at h
      simp only [Dict.setitem, hk, if_false, ih h, List.cons_append]

/-- what holds of every container the methods can build: every item sits under its own name, the ordinals grow along the dict and
    stay below the counter -/
def Inv (st : FSt) : Prop :=
  (∀ e ∈ st._fields, e.1 = e.2.name ∧ e.2.order < st._next) ∧ List.Pairwise (fun a b => a.2.order < b.2.order) st._fields

theorem inv_init : Inv Gen.Src.Fields.init := by simp [Inv, Gen.Src.Fields.init]

/-- **`add()` as the source has it**: the ordinal is taken (and the counter advanced) first; a name already there is refused with
    `KeyError` and the dict left alone; otherwise the item goes to the end of the dict under its name -/
theorem fields_add (st : FSt) (f : Item) :
    Gen.Src.Fields.add st f =
      if Dict.contains st._fields f.name then
        (.error Ubx.Exc.keyError, { f with order := st._next }, { st with _next := st._next + 1 })
      else
        (.ok (), { f with order := st._next }, { _fields := st._fields ++ [(f.name, { f with order := st._next })], _next := st._next + 1 }) := by
  unfold Gen.Src.Fields.add Gen.Src.Fields.next_ord
  by_cases h : Dict.contains st._fields f.name = true
  · simp [h]
  · have h' : Dict.contains st._fields f.name = false := by simpa using h
    simp [h', setitem_fresh _ _ _ h']

theorem add_inv (st : FSt) (f : Item) (h : Inv st) : Inv (Gen.Src.Fields.add st f).2.2 := by
  rw [fields_add]
  obtain ⟨h1, h2⟩ := h
  by_cases hc : Dict.contains st._fields f.name = true
  · simp only [hc, if_true]
    exact ⟨fun e he => ⟨(h1 e he).1, by have := (h1 e he).2; show e.2.order < st._next + 1; omega⟩, h2⟩
  · simp only [hc, Bool.false_eq_true, if_false]
    refine ⟨fun e he => ?_, ?_⟩
    · simp only [List.mem_append, List.mem_singleton] at he
      rcases he with he | rfl
      · exact ⟨(h1 e he).1, by have := (h1 e he).2; show e.2.order < st._next + 1; omega⟩
      · exact ⟨rfl, by show st._next < st._next + 1; omega⟩
    · rw [List.pairwise_append]
      exact ⟨h2, by simp, fun a ha b hb => by simp only [List.mem_singleton] at hb; subst hb; exact (h1 a ha).2⟩

/-- any history of `add` calls, refused ones included -/
def addMany (st : FSt) : List Item → FSt
  | [] => st
  | f :: fs => addMany (Gen.Src.Fields.add st f).2.2 fs

theorem addMany_inv (fs : List Item) : ∀ st, Inv st → Inv (addMany st fs) := by
  induction fs with
  | nil => intro st h; exact h
  | cons f fs ih => intro st h; exact ih _ (add_inv st f h)

/-- **`sorted(self._fields.items(), key=lambda item: item[1].order)` is the order the items were added in** -/
theorem sorted_is_added (st : FSt) (h : Inv st) : Gen.Src.Fields.sortedItems st = st._fields := by
  unfold Gen.Src.Fields.sortedItems
  apply List.mergeSort_of_pairwise
  exact h.2.imp (fun hab => by simpa using Int.le_of_lt hab)

/-- … for every container reachable from a fresh one -/
theorem sorted_reachable (fs : List Item) :
    Gen.Src.Fields.sortedItems (addMany Gen.Src.Fields.init fs) = (addMany Gen.Src.Fields.init fs)._fields :=
  sorted_is_added _ (addMany_inv fs _ inv_init)

/-- the names of a container, in the order added: what the other translations call `names` -/
def namesOf (st : FSt) : List String := st._fields.map (·.1)

/-- **`add` refuses exactly the names already there, and otherwise appends the name** - the primitive `Container.add` of the
    translations of the constructors and of the block-structured `unpack` methods -/
theorem add_names (st : FSt) (f : Item) :
    ((Gen.Src.Fields.add st f).1 = .error Ubx.Exc.keyError ∧ f.name ∈ namesOf st ∧ namesOf (Gen.Src.Fields.add st f).2.2 = namesOf st) ∨
    ((Gen.Src.Fields.add st f).1 = .ok () ∧ f.name ∉ namesOf st ∧ namesOf (Gen.Src.Fields.add st f).2.2 = namesOf st ++ [f.name]) := by
  rw [fields_add]
  by_cases hc : Dict.contains st._fields f.name = true
  · left
    simp only [hc, if_true]
    exact ⟨trivial, (contains_iff _ _).mp hc, rfl⟩
  · right
    simp only [hc, Bool.false_eq_true, if_false]
    exact ⟨trivial, fun hm => hc ((contains_iff _ _).mpr hm), by simp [namesOf]⟩

/-- `get(name)` after `add`: the item as it was added, with the ordinal it was given -/
theorem get_added (st : FSt) (f : Item) (h : Dict.contains st._fields f.name = false) :
    Gen.Src.Fields.get (Gen.Src.Fields.add st f).2.2 f.name = .ok { f with order := st._next } := by
  rw [fields_add]
  simp only [h, Bool.false_eq_true, if_false, Gen.Src.Fields.get]
  have : ∀ (d : Dict String Item), Dict.contains d f.name = false → Dict.getitem (d ++ [(f.name, { f with order := st._next })]) f.name = .ok { f with order := st._next } := by
    intro d
    induction d with
    | nil => intro _; simp [Dict.getitem]
    | cons e rest ih =>
      intro hd
      obtain ⟨k', v'⟩ := e
      simp only [Dict.contains] at hd
      by_cases hk : k' = f.name
      · simp [hk] at hd
      · simp only [hk, if_false] at hd
        simp only [List.cons_append, Dict.getitem, hk, if_false]
        exact ih hd
  exact this _ h

end SrcEquiv

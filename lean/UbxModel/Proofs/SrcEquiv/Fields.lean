import UbxModel.Gen.SrcFields
/-! The bookkeeping of the field container as `tools/pysrc2lean_fields.py` generates it from `ubxlib/types.py` (`Gen.Src.Fields.*`): what
    the translations of `Fields.pack/unpack`, of the VALSET / VALGET constructors and of the block-structured `unpack` methods take as
    primitives is proved here of the source.

    * `fields_add`: `add()` takes the ordinal and advances the counter first; a name already there is `KeyError` and the dict is left
      alone; otherwise the item goes to the end of the dict under its name (`add_names`: the view the other translations use);
    * `sorted_is_added` / `sorted_reachable`: in every container reachable from a fresh one by any history of `add` calls - refused ones
      included - the ordinals grow strictly along the dict, so `sorted(self._fields.items(), key=lambda item: item[1].order)` is the
      order the items were added in (`List.mergeSort_of_pairwise`). -/
namespace SrcEquiv
open Py Py.Fields
abbrev FSt := Py.Fields.St
set_option linter.unusedSimpArgs false

theorem contains_iff {κ ν : Type} [DecidableEq κ] (d : Dict κ ν) (k : κ) : Dict.contains d k = true ↔ k ∈ d.map (·.1) := by
  induction d with
  | nil => simp [Dict.contains]
  | cons e rest ih =>
    obtain ⟨k', v⟩ := e
    simp only [Dict.contains, List.map_cons, List.mem_cons]
    by_cases h : k' = k
    · simp [h]
    · simp only [h, if_false, ih]
      constructor
      · exact Or.inr
      · rintro (h2 | h2)
        · exact absurd h2.symm h
        · exact h2

theorem setitem_fresh {κ ν : Type} [DecidableEq κ] (d : Dict κ ν) (k : κ) (v : ν) (h : Dict.contains d k = false) :
    Dict.setitem d k v = d ++ [(k, v)] := by
  induction d with
  | nil => rfl
  | cons e rest ih =>
    obtain ⟨k', v'⟩ := e
    simp only [Dict.contains] at h
    by_cases hk : k' = k
    · simp [hk] at h
    · simp only [hk, if_false] at h
      simp only [Dict.setitem, hk, if_false, ih h, List.cons_append]

/-- what holds of every container the methods can build: every item sits under its own name, the ordinals grow along the dict and
    stay below the counter -/
def Inv (st : FSt) : Prop :=
  (∀ e ∈ st._fields, e.1 = e.2.name ∧ e.2.order < st._next) ∧ List.Pairwise (fun a b => a.2.order < b.2.order) st._fields

theorem inv_init : Inv Gen.Src.Fields.init := by simp [Inv, Gen.Src.Fields.init]

/-- **`add()` as the source has it**: the ordinal is taken (and the counter advanced) first; a name already there is refused with
    `KeyError` and the dict left alone; otherwise the item goes to the end of the dict under its name -/
theorem fields_add (st : FSt) (f : Item) :
    Gen.Src.Fields.add st f =
      if Dict.contains st._fields f.name then
        (.error Ubx.Exc.keyError, { f with order := st._next }, { st with _next := st._next + 1 })
      else
        (.ok (), { f with order := st._next }, { _fields := st._fields ++ [(f.name, { f with order := st._next })], _next := st._next + 1 }) := by
  unfold Gen.Src.Fields.add Gen.Src.Fields.next_ord
  by_cases h : Dict.contains st._fields f.name = true
  · simp [h]
  · have h' : Dict.contains st._fields f.name = false := by simpa using h
    simp [h', setitem_fresh _ _ _ h']

theorem add_inv (st : FSt) (f : Item) (h : Inv st) : Inv (Gen.Src.Fields.add st f).2.2 := by
  rw [fields_add]
  obtain ⟨h1, h2⟩ := h
  by_cases hc : Dict.contains st._fields f.name = true
  · simp only [hc, if_true]
    exact ⟨fun e he => ⟨(h1 e he).1, by have := (h1 e he).2; show e.2.order < st._next + 1; omega⟩, h2⟩
  · simp only [hc, Bool.false_eq_true, if_false]
    refine ⟨fun e he => ?_, ?_⟩
    · simp only [List.mem_append, List.mem_singleton] at he
      rcases he with he | rfl
      · exact ⟨(h1 e he).1, by have := (h1 e he).2; show e.2.order < st._next + 1; omega⟩
      · exact ⟨rfl, by show st._next < st._next + 1; omega⟩
    · rw [List.pairwise_append]
      exact ⟨h2, by simp, fun a ha b hb => by simp only [List.mem_singleton] at hb; subst hb; exact (h1 a ha).2⟩

/-- any history of `add` calls, refused ones included -/
def addMany (st : FSt) : List Item → FSt
  | [] => st
  | f :: fs => addMany (Gen.Src.Fields.add st f).2.2 fs

theorem addMany_inv (fs : List Item) : ∀ st, Inv st → Inv (addMany st fs) := by
  induction fs with
  | nil => intro st h; exact h
  | cons f fs ih => intro st h; exact ih _ (add_inv st f h)

/-- **`sorted(self._fields.items(), key=lambda item: item[1].order)` is the order the items were added in** -/
theorem sorted_is_added (st : FSt) (h : Inv st) : Gen.Src.Fields.sortedItems st = st._fields := by
  unfold Gen.Src.Fields.sortedItems
  apply List.mergeSort_of_pairwise
  exact h.2.imp (fun hab => by simpa using Int.le_of_lt hab)

/-- … for every container reachable from a fresh one -/
theorem sorted_reachable (fs : List Item) :
    Gen.Src.Fields.sortedItems (addMany Gen.Src.Fields.init fs) = (addMany Gen.Src.Fields.init fs)._fields :=
  sorted_is_added _ (addMany_inv fs _ inv_init)

/-- the names of a container, in the order added: what the other translations call `names` -/
def namesOf (st : FSt) : List String := st._fields.map (·.1)

/-- **`add` refuses exactly the names already there, and otherwise appends the name** - the primitive `Container.add` of the
    translations of the constructors and of the block-structured `unpack` methods -/
theorem add_names (st : FSt) (f : Item) :
    ((Gen.Src.Fields.add st f).1 = .error Ubx.Exc.keyError ∧ f.name ∈ namesOf st ∧ namesOf (Gen.Src.Fields.add st f).2.2 = namesOf st) ∨
    ((Gen.Src.Fields.add st f).1 = .ok () ∧ f.name ∉ namesOf st ∧ namesOf (Gen.Src.Fields.add st f).2.2 = namesOf st ++ [f.name]) := by
  rw [fields_add]
  by_cases hc : Dict.contains st._fields f.name = true
  · left
    simp only [hc, if_true]
    exact ⟨trivial, (contains_iff _ _).mp hc, rfl⟩
  · right
    simp only [hc, Bool.false_eq_true, if_false]
    exact ⟨trivial, fun hm => hc ((contains_iff _ _).mpr hm), by simp [namesOf]⟩

/-- `get(name)` after `add`: the item as it was added, with the ordinal it was given -/
theorem get_added (st : FSt) (f : Item) (h : Dict.contains st._fields f.name = false) :
    Gen.Src.Fields.get (Gen.Src.Fields.add st f).2.2 f.name = .ok { f with order := st._next } := by
  rw [fields_add]
  simp only [h, Bool.false_eq_true, if_false, Gen.Src.Fields.get]
  have : ∀ (d : Dict String Item), Dict.contains d f.name = false → Dict.getitem (d ++ [(f.name, { f with order := st._next })]) f.name = .ok { f with order := st._next } := by
    intro d
    induction d with
    | nil => intro _; simp [Dict.getitem]
    | cons e rest ih =>
      intro hd
      obtain ⟨k', v'⟩ := e
      simp only [Dict.contains] at hd
      by_cases hk : k' = f.name
      · simp [hk] at hd
      · simp only [hk, if_false] at hd
        simp only [List.cons_append, Dict.getitem, hk, if_false]
        exact ih hd
  exact this _ h


/-! ### `Fields.__setattr__` / `__getattribute__`: the attribute magic behind `self.f.<name>` -/

theorem bok {α β : Type} (x : α) (f : α → Except Ubx.Exc β) : ((Except.ok x : Except Ubx.Exc α) >>= f) = f x := rfl

theorem gs {κ ν : Type} [DecidableEq κ] (d : Dict κ ν) (k k' : κ) (v : ν) :
    Dict.getitem (Dict.setitem d k v) k' = if k = k' then .ok v else Dict.getitem d k' := by
  induction d with
  | nil => simp [Dict.setitem, Dict.getitem]
  | cons e rest ih =>
    obtain ⟨k0, v0⟩ := e
    simp only [Dict.setitem]
    by_cases h0 : k0 = k
    · subst h0
      simp only [if_true, Dict.getitem]
      by_cases h1 : k0 = k' <;> simp [h1]
    · simp only [h0, if_false, Dict.getitem, ih]
      by_cases h1 : k0 = k'
      · have : ¬ k = k' := fun h => h0 (h1.trans h.symm)
        simp [h1, this]
      · simp [h1]

theorem getitem_ok_contains {κ ν : Type} [DecidableEq κ] (d : Dict κ ν) (k : κ) (v : ν) (h : Dict.getitem d k = .ok v) : Dict.contains d k = true := by
  induction d with
  | nil => simp [Dict.getitem] at h
  | cons e rest ih =>
    obtain ⟨k', v'⟩ := e
    simp only [Dict.getitem, Dict.contains] at *
    by_cases hk : k' = k
    · simp [hk]
    · simp only [hk, if_false] at h ⊢; exact ih h

theorem contains_false_getitem {κ ν : Type} [DecidableEq κ] (d : Dict κ ν) (k : κ) (h : Dict.contains d k = false) :
    Dict.getitem d k = .error Ubx.Exc.keyError := by
  induction d with
  | nil => rfl
  | cons e rest ih =>
    obtain ⟨k', v'⟩ := e
    simp only [Dict.getitem, Dict.contains] at *
    by_cases hk : k' = k
    · simp [hk] at h
    · simp only [hk, if_false] at h ⊢; exact ih h

/-- **`self.f.<name> = v` on a field**: the item of that name gets the value, in place; nothing else in the object changes -/
theorem setattr_field (d : ObjDict) (fs : Dict String Item) (name : String) (v : Int) (it : Item)
    (h1 : Dict.getitem d "_fields" = .ok (.fields fs)) (h2 : Dict.getitem fs name = .ok it) :
    Gen.Src.Fields.__setattr__ d name v = .ok (Dict.setitem d "_fields" (.fields (Dict.setitem fs name { it with value := v }))) := by
  unfold Gen.Src.Fields.__setattr__
  have c1 := getitem_ok_contains d "_fields" _ h1
  have c2 := getitem_ok_contains fs name _ h2
  simp only [c1, if_true, h1, asFields, c2, h2, bok]

/-- **`self.f.<name> = v` on a name that is no field**: an ordinary attribute of the container; no field sees it -/
theorem setattr_other (d : ObjDict) (fs : Dict String Item) (name : String) (v : Int)
    (h1 : Dict.getitem d "_fields" = .ok (.fields fs)) (h2 : Dict.contains fs name = false) :
    Gen.Src.Fields.__setattr__ d name v = .ok (Dict.setitem d name (.val v)) := by
  unfold Gen.Src.Fields.__setattr__
  have c1 := getitem_ok_contains d "_fields" _ h1
  simp only [c1, if_true, h1, asFields, h2, bok, Bool.false_eq_true, if_false]
  try rfl

/-- before `__init__` has set `_fields` (its own assignments go this way) -/
theorem setattr_early (d : ObjDict) (name : String) (v : Int) (h : Dict.contains d "_fields" = false) :
    Gen.Src.Fields.__setattr__ d name v = .ok (Dict.setitem d name (.val v)) := by
  unfold Gen.Src.Fields.__setattr__
  simp only [h, Bool.false_eq_true, if_false, bok]
  rfl

/-- **`self.f.<name>` on a field**: the value the item holds -/
theorem getattr_field (d : ObjDict) (fs : Dict String Item) (name : String) (it : Item)
    (h1 : Dict.getitem d "_fields" = .ok (.fields fs)) (h2 : Dict.getitem fs name = .ok it) :
    Gen.Src.Fields.__getattribute__ d name = .ok (.val it.value) := by
  unfold Gen.Src.Fields.__getattribute__
  have c1 := getitem_ok_contains d "_fields" _ h1
  have c2 := getitem_ok_contains fs name _ h2
  simp only [c1, if_true, objectGetattr, h1, asFields, c2, h2, bok]

/-- **`self.f.<name>` on a name that is no field**: an ordinary attribute, `AttributeError` if there is none -/
theorem getattr_other (d : ObjDict) (fs : Dict String Item) (name : String)
    (h1 : Dict.getitem d "_fields" = .ok (.fields fs)) (h2 : Dict.contains fs name = false) :
    Gen.Src.Fields.__getattribute__ d name = objectGetattr d name := by
  unfold Gen.Src.Fields.__getattribute__
  have c1 := getitem_ok_contains d "_fields" _ h1
  simp only [c1, if_true, objectGetattr, h1, asFields, h2, bok, Bool.false_eq_true, if_false]

theorem getattr_missing (d : ObjDict) (fs : Dict String Item) (name : String)
    (h1 : Dict.getitem d "_fields" = .ok (.fields fs)) (h2 : Dict.contains fs name = false) (h3 : Dict.contains d name = false) :
    Gen.Src.Fields.__getattribute__ d name = .error Ubx.Exc.attributeError := by
  rw [getattr_other d fs name h1 h2, objectGetattr, contains_false_getitem d name h3]

/-- assigning to a field keeps every name where it is and every ordinal as it was: only that one value changes -/
theorem setitem_value_only (fs : Dict String Item) (name : String) (it : Item) (v : Int) (h : Dict.getitem fs name = .ok it) :
    (Dict.setitem fs name { it with value := v }).map (fun e => (e.1, e.2.name, e.2.order, e.2.tag)) =
      fs.map (fun e => (e.1, e.2.name, e.2.order, e.2.tag)) ∧
    ∀ other, other ≠ name → Dict.getitem (Dict.setitem fs name { it with value := v }) other = Dict.getitem fs other := by
  constructor
  · induction fs with
    | nil => simp [Dict.getitem] at h
    | cons e rest ih =>
      obtain ⟨k', v'⟩ := e
      simp only [Dict.getitem] at h
      by_cases hk : k' = name
      · simp only [hk, if_true, Except.ok.injEq] at h
        subst h
        simp [Dict.setitem, hk]
      · simp only [hk, if_false] at h
        simp [Dict.setitem, hk, ih h]
  · intro other ho
    rw [gs]
    simp [Ne.symm ho]

/-- read after write -/
theorem getattr_after_setattr (d : ObjDict) (fs : Dict String Item) (name : String) (v : Int) (it : Item)
    (h1 : Dict.getitem d "_fields" = .ok (.fields fs)) (h2 : Dict.getitem fs name = .ok it) :
    (Gen.Src.Fields.__setattr__ d name v >>= fun d' => Gen.Src.Fields.__getattribute__ d' name) = .ok (.val v) := by
  rw [setattr_field d fs name v it h1 h2]
  show Gen.Src.Fields.__getattribute__ _ name = _
  rw [getattr_field _ (Dict.setitem fs name { it with value := v }) name { it with value := v }]
  · rw [gs]; simp
  · rw [gs]; simp


end SrcEquiv

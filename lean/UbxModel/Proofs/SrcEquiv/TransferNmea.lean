import UbxModel.Proofs.SrcEquiv.NmeaParser
import UbxModel.Props.C16
/-! Headline theorems restated for the definitions that `tools/pysrc2lean.py` generated from the Python source on this
    run (`Gen.Src.*`): while this file builds, they are theorems about what the source says now. -/
namespace SrcEquiv
open Ubx Spec

/-- `NmeaParser.process` as written in `ubxlib/parser_nmea.py` counts exactly the valid sentences, for every byte
    string and chunking -/
theorem src_nmea_counts_exactly (s : List Nat) (chunks : List (List Nat)) (hc : chunks.flatten = s) :
    (chunks.foldl Gen.Src.NmeaParser.process Nmea.P.fresh).framesRx = Spec.Nmea.count s := by
  have h : chunks.foldl Gen.Src.NmeaParser.process Nmea.P.fresh = chunks.foldl Nmea.P.process Nmea.P.fresh := by
    congr 1; funext q x; exact nmea_process q x
  rw [h]; exact C16.counts_exactly s chunks hc

end SrcEquiv

import UbxModel.Proofs.SrcEquiv.ServerWait
namespace SrcEquiv
open Ubx

abbrev SSt := Gen.Src.Server.«set».St

theorem forRangeFrom_succ {σ ρ : Type} (body : Nat → σ → Py.Ctl σ ρ) (i n : Nat) (s : σ) :
    Py.forRangeFrom body i (n + 1) s =
      (match body i s with
       | .next s' => Py.forRangeFrom body (i + 1) n s'
       | .brk s' => .next s'
       | .ret r s' => .ret r s'
       | .abort a s' => .abort a s') := by
  rw [Py.forRangeFrom]
  cases body i s <;> rfl

theorem ackString_ack (c : AckCheck) : (ackString c == some "ACK") = decide (c = .ack) := by cases c <;> decide
theorem ackString_nak (c : AckCheck) : (ackString c == some "NAK") = decide (c = .nak) := by cases c <;> decide

theorem set_loop (env : Env) (req : Req) : ∀ (n i : Nat) (st : SSt),
    Py.finish (fun st : SSt => st.self) none (Py.forRangeFrom (Gen.Src.Server.set.body1 env req) i n st) =
      (.ok (setLoop env st.self.reg st.self.delay req n st.self.parser st.self.lg).1,
       { st.self with
         parser := (setLoop env st.self.reg st.self.delay req n st.self.parser st.self.lg).2.1
         lg := (setLoop env st.self.reg st.self.delay req n st.self.parser st.self.lg).2.2 }) := by
  intro n
  induction n with
  | zero => intro i st; simp [setLoop, Py.forRangeFrom, Py.finish]
  | succ n ih =>
    intro i st
    rw [forRangeFrom_succ]
    simp only [Gen.Src.Server.set.body1, srv_send, srv_wait, srv_check_ack_nak, ubx_empty_queue, ubx_restart, Py.flushInput,
      deadlineOf, Py.timeNow, sentLog, ackString_ack, ackString_nak, List.append_assoc, List.cons_append, List.nil_append]
    simp only [setLoop, flushSend]
    by_cases htx : env.tx st.self.lg.sent.length = true
    · simp only [htx, if_true]
      generalize hw : wait env st.self.reg (st.self.lg.now + st.self.delay) st.self.parser.emptyQueue.restart
          { now := st.self.lg.now, nRx := st.self.lg.nRx, sent := st.self.lg.sent ++ [req.wire],
            calls := st.self.lg.calls ++ [Call.flush, Call.tx req.wire] } = w
      obtain ⟨o, p2, lg2⟩ := w
      cases o with
      | none => simp only [ih]; simp [Py.recover, recover]
      | some f =>
        cases hc : checkAckNak req.cid f <;>
          simp only [hc, decide_true, decide_false, if_true, if_false, reduceCtorEq, Bool.false_eq_true, ih] <;>
          simp [Py.finish]
    · simp only [htx]
      simp [ih]

/-- the model's server object behind a `Py.Server` -/
def srvOf (sv : Py.Server) : Srv := { parser := sv.parser, reg := sv.reg, retries := sv.retries, delay := sv.delay }

/-- **`set()` as the source has it is the model's `Srv.set`** -/
theorem srv_set (env : Env) (sv : Py.Server) (req : Req) :
    Gen.Src.Server.«set» env sv req =
      (.ok ((srvOf sv).set env sv.lg req).1,
       { sv with parser := ((srvOf sv).set env sv.lg req).2.1.parser, lg := ((srvOf sv).set env sv.lg req).2.2 }) := by
  unfold Gen.Src.Server.«set» Py.forRange
  simp only [ubx_set_filters]
  rw [set_loop]
  simp [Srv.set, srvOf, ackCid, nakCid]

abbrev MSt := Gen.Src.Server.set_mga.St

theorem mga_loop (env : Env) (req : Req) : ∀ (n i : Nat) (st : MSt),
    Py.finish (fun st : MSt => st.self) none (Py.forRangeFrom (Gen.Src.Server.set_mga.body1 env req) i n st) =
      (.ok (mgaLoop env st.self.reg st.self.delay req n st.self.parser st.self.lg).1,
       { st.self with
         parser := (mgaLoop env st.self.reg st.self.delay req n st.self.parser st.self.lg).2.1
         lg := (mgaLoop env st.self.reg st.self.delay req n st.self.parser st.self.lg).2.2 }) := by
  intro n
  induction n with
  | zero => intro i st; simp [mgaLoop, Py.forRangeFrom, Py.finish]
  | succ n ih =>
    intro i st
    rw [forRangeFrom_succ]
    simp only [Gen.Src.Server.set_mga.body1, srv_send, srv_wait, srv_check_mga, ubx_empty_queue, ubx_restart, Py.flushInput,
      deadlineOf, Py.timeNow, sentLog, List.append_assoc, List.cons_append, List.nil_append]
    simp only [mgaLoop, flushSend]
    by_cases htx : env.tx st.self.lg.sent.length = true
    · simp only [htx, if_true]
      generalize hw : wait env st.self.reg (st.self.lg.now + st.self.delay) st.self.parser.emptyQueue.restart
          { now := st.self.lg.now, nRx := st.self.lg.nRx, sent := st.self.lg.sent ++ [req.wire],
            calls := st.self.lg.calls ++ [Call.flush, Call.tx req.wire] } = w
      obtain ⟨o, p2, lg2⟩ := w
      cases o with
      | none => simp only [ih]; simp [Py.recover, recover]
      | some f =>
        cases hc : checkMga f <;>
          simp only [hc, if_true, if_false, Bool.false_eq_true, ih] <;>
          simp [Py.finish]
    · simp only [htx]
      simp [ih]

/-- **`set_mga()` as the source has it is the model's `Srv.setMga`** (for a request of the MGA class; any other class
    fails the method's `assert`) -/
theorem srv_set_mga (env : Env) (sv : Py.Server) (req : Req) (h : req.cid.cls = 0x13) :
    Gen.Src.Server.set_mga env sv req =
      (.ok ((srvOf sv).setMga env sv.lg req).1,
       { sv with parser := ((srvOf sv).setMga env sv.lg req).2.1.parser, lg := ((srvOf sv).setMga env sv.lg req).2.2 }) := by
  unfold Gen.Src.Server.set_mga Py.forRange
  simp only [ubx_set_filter, h]
  simp only [show ((19 : Nat) == 19) = true from rfl, if_true]
  rw [mga_loop]
  simp [Srv.setMga, srvOf, mgaAckCid]

theorem srv_set_mga_other_class (env : Env) (sv : Py.Server) (req : Req) (h : req.cid.cls ≠ 0x13) :
    Gen.Src.Server.set_mga env sv req = (.error (.exc .assertionError), sv) := by
  unfold Gen.Src.Server.set_mga
  simp [h, Py.finish]

/-- **`fire_and_forget()`**: one transmission, no flush, nothing read -/
theorem srv_fire_and_forget (env : Env) (sv : Py.Server) (req : Req) :
    Gen.Src.Server.fire_and_forget env sv req =
      (.ok (), { sv with lg := ((srvOf sv).fireAndForget env sv.lg req).2 }) := by
  simp [Gen.Src.Server.fire_and_forget, srv_send, Py.finish, Srv.fireAndForget, sentLog]

theorem srv_set_retries (env : Env) (sv : Py.Server) (n : Nat) :
    Gen.Src.Server.set_retries env sv n =
      if n ≤ 10 then (.ok sv.retries, { sv with retries := n }) else (.error (.exc .assertionError), sv) := by
  unfold Gen.Src.Server.set_retries
  by_cases h : n ≤ 10 <;> simp [h, Py.finish]

theorem srv_set_retry_delay (env : Env) (sv : Py.Server) (d : Nat) :
    Gen.Src.Server.set_retry_delay env sv d =
      if d ≤ 5000 then (.ok sv.delay, { sv with delay := d }) else (.error (.exc .assertionError), sv) := by
  unfold Gen.Src.Server.set_retry_delay
  by_cases h : d ≤ 5000 <;> simp [h, Py.finish]

end SrcEquiv

import UbxModel.Gen.SrcServer
namespace SrcEquiv
open Ubx

theorem srv_check_poll (env : Env) (sv : Py.Server) (req : Req) (f : RFrame) :
    Gen.Src.Server._check_poll env sv req f = (.ok (decide (f.cid = req.cid)), sv) := by
  unfold Gen.Src.Server._check_poll
  by_cases h : f.cid = req.cid <;> simp [h, Py.finish]

theorem decode_ack_shape (pl : List Nat) (vs : List Val) (rem : List Nat)
    (h : Gen.UbxAckAck.decode pl = .ok (vs, rem)) : ∃ a b : Int, vs = [.int a, .int b] := by
  simp only [Gen.UbxAckAck, Table.decode, Kind.unpack] at h
  cases h1 : unpackU 1 pl with
  | error e => simp [h1, Except.map] at h
  | ok a =>
    simp only [h1, Except.map] at h
    cases h2 : unpackU 1 pl.tail with
    | error e => simp [h2, List.drop_one] at h
    | ok b =>
      simp only [h2, List.drop_one] at h
      injection h with h
      injection h with h3 h4
      exact ⟨a, b, h3.symm⟩

theorem field_ack (f : RFrame) (req : Cid) :
    Py.cidOfFieldsEq (Py.field Gen.UbxAckAck f "clsId") (Py.field Gen.UbxAckAck f "msgId") req
      = decide (ackNames f = some ((req.cls : Int), (req.id : Int))) := by
  unfold Py.field ackNames
  cases h : Gen.UbxAckAck.decode f.payload with
  | error e => simp [Py.cidOfFieldsEq]
  | ok r =>
    obtain ⟨vs, rem⟩ := r
    obtain ⟨a, b, rfl⟩ := decode_ack_shape _ _ _ h
    have e1 : (Gen.UbxAckAck.map (·.1)).idxOf? "clsId" = some 0 := by decide
    have e2 : (Gen.UbxAckAck.map (·.1)).idxOf? "msgId" = some 1 := by decide
    simp only [e1, e2]
    simp [Py.cidOfFieldsEq]
    by_cases ha : a = ↑req.cls <;> by_cases hb : b = ↑req.id <;> simp [ha, hb]

/-- the answer of `_check_ack_nak` as a string, as the Python returns it -/
def ackString : AckCheck → Option String
  | .ack => some "ACK" | .nak => some "NAK" | .other => none

theorem srv_check_ack_nak (env : Env) (sv : Py.Server) (req : Req) (f : RFrame) :
    Gen.Src.Server._check_ack_nak env sv req f = (.ok (ackString (checkAckNak req.cid f)), sv) := by
  unfold Gen.Src.Server._check_ack_nak checkAckNak
  simp only [field_ack, ackCid, nakCid]
  by_cases h1 : f.cid = ⟨5, 1⟩
  · by_cases h2 : ackNames f = some ((req.cid.cls : Int), (req.cid.id : Int)) <;> simp [h1, h2, Py.finish, ackString]
  · by_cases h2 : f.cid = ⟨5, 0⟩ <;> simp [h1, h2, Py.finish, ackString]

theorem field_mga_type (f : RFrame) :
    (f.cid == mgaAckCid && (Py.field Gen.UbxMgaAckData0 f "type" == some (1 : Int))) = checkMga f := by
  unfold checkMga Py.field
  congr 1
  have e1 : (Gen.UbxMgaAckData0.map (·.1)).idxOf? "type" = some 0 := by decide
  simp only [e1]
  cases h : Gen.UbxMgaAckData0.decode f.payload with
  | error e => rfl
  | ok r =>
    obtain ⟨vs, rem⟩ := r
    cases vs with
    | nil => rfl
    | cons v vs => cases v <;> simp

theorem srv_check_mga (env : Env) (sv : Py.Server) (req : Req) (f : RFrame) :
    Gen.Src.Server._check_mga env sv req f = (.ok (checkMga f), sv) := by
  unfold Gen.Src.Server._check_mga
  rw [← field_mga_type]
  simp only [mgaAckCid]
  by_cases h1 : f.cid = ⟨19, 96⟩ <;> by_cases h2 : Py.field Gen.UbxMgaAckData0 f "type" = some 1 <;> simp [h1, h2, Py.finish]

/-- the model's log after `_send` -/
def sentLog (lg : Log) (bytes : List Nat) : Log :=
  { lg with sent := lg.sent ++ [bytes], calls := lg.calls ++ [.tx bytes] }

theorem srv_send (env : Env) (sv : Py.Server) (req : Req) :
    Gen.Src.Server._send env sv req = (.ok (env.tx sv.lg.sent.length), { sv with lg := sentLog sv.lg req.wire }) := by
  simp [Gen.Src.Server._send, Py.finish, Py.transmit, Py.toBytes, sentLog]

end SrcEquiv

import UbxModel.Gen.SrcFactory
import UbxModel.Model.PyServer
import UbxModel.Proofs.SrcEquiv.Types
/-! The frame registry as `tools/pysrc2lean_factory.py` generates it from `ubxlib/frame_factory.py` and `UbxFrame.construct`
    (`Gen.Src.Factory.*`) against the registry of the hand-written model (`Ubx.Registry`) and the primitives the translation of the
    request loop is written over (`Py.register`, `Py.buildWithData`): the dict of the source and the list of the model answer alike
    (`Agree`) initially and after every `register()`, and on agreeing registries `build_with_data()` is `Py.buildWithData`. -/
namespace SrcEquiv
open Ubx Py Py.Factory
set_option linter.unusedSimpArgs false

theorem getitem_setitem {κ ν : Type} [DecidableEq κ] (d : Dict κ ν) (k k' : κ) (v : ν) :
    Dict.getitem (Dict.setitem d k v) k' = if k = k' then .ok v else Dict.getitem d k' := by
  induction d with
  | nil => simp [Dict.setitem, Dict.getitem]
  | cons e rest ih =>
    obtain ⟨k0, v0⟩ := e
    simp only [Dict.setitem]
    by_cases h0 : k0 = k
    · subst h0
      simp only [if_true, Dict.getitem]
      by_cases h1 : k0 = k' <;> simp [h1]
    · simp only [h0, if_false, Dict.getitem, ih]
      by_cases h1 : k0 = k'
      · have : ¬ k = k' := fun h => h0 (h1.trans h.symm)
        simp [h1, this]
      · simp [h1]

theorem getitem_err {κ ν : Type} [DecidableEq κ] (d : Dict κ ν) (k : κ) (e : Exc) (h : Dict.getitem d k = .error e) : e = .keyError := by
  induction d with
  | nil => simp [Dict.getitem] at h; exact h.symm
  | cons x rest ih =>
    obtain ⟨k0, v0⟩ := x
    simp only [Dict.getitem] at h
    by_cases h0 : k0 = k
    · simp [h0] at h
    · simp only [h0, if_false] at h; exact ih h

/-- what the registry of the model answers for a class/id -/
def lookupR (r : Registry) (cid : Cid) : Option ClassInfo := (r.find? (fun e => e.1 = cid)).map (·.2)

theorem find_filter_ne (r : Registry) (cid cid' : Cid) (h : ¬ cid = cid') :
    List.find? (fun e => decide (e.1 = cid')) (List.filter (fun e => decide (e.1 ≠ cid)) r) = List.find? (fun e => decide (e.1 = cid')) r := by
  induction r with
  | nil => rfl
  | cons e rest ih =>
    by_cases h1 : e.1 = cid
    · have h2 : ¬ e.1 = cid' := fun h2 => h (h1.symm.trans h2)
      rw [List.filter_cons, List.find?_cons]
      have d1 : decide (e.1 ≠ cid) = false := by simp [h1]
      have d2 : decide (e.1 = cid') = false := by simp [h2]
      rw [d1, d2]; exact ih
    · rw [List.filter_cons]
      simp only [ne_eq, h1, not_false_eq_true, decide_true, if_true, List.find?_cons]
      by_cases h2 : e.1 = cid'
      · simp [h2]
      · simp only [h2, decide_false]; exact ih

theorem lookupR_register (r : Registry) (cid cid' : Cid) (ci : ClassInfo) :
    lookupR (r.register cid ci) cid' = if cid = cid' then some ci else lookupR r cid' := by
  unfold lookupR Registry.register
  by_cases h : cid = cid'
  · simp [h, List.find?]
  · simp only [h, if_false, List.find?_cons, decide_false]
    rw [find_filter_ne r cid cid' h]

/-- the dict of the source and the registry of the model answer alike, and every class sits under its own `CID` -/
def Agree (d : Frames) (r : Registry) : Prop :=
  ∀ cid, (match Dict.getitem d cid with | .ok c => c.cid = cid ∧ lookupR r cid = some c.info | .error _ => lookupR r cid = none)

theorem agree_empty : Agree [] [] := by intro cid; simp [Dict.getitem, lookupR]

/-- **`register()` as the source has it is the model's `Registry.register`** -/
theorem fac_register (d : Frames) (r : Registry) (c : Class) (h : Agree d r) :
    ∃ d', Gen.Src.Factory.register d c = .ok ((), d') ∧ Agree d' (r.register c.cid c.info) := by
  refine ⟨Dict.setitem d c.cid c, rfl, ?_⟩
  intro cid
  rw [getitem_setitem, lookupR_register]
  by_cases hc : c.cid = cid
  · simp [hc]
  · simp only [hc, if_false]; exact h cid

/-- **`build_with_data()` as the source has it (through `UbxFrame.construct`) is the primitive the request loop is translated over** -/
theorem fac_build_with_data (d : Frames) (r : Registry) (cid : Cid) (pl : List Nat) (h : Agree d r) :
    Gen.Src.Factory.build_with_data d cid pl = Py.buildWithData r cid pl := by
  have hc := h cid
  unfold Gen.Src.Factory.build_with_data Py.buildWithData
  unfold lookupR at hc
  cases hg : Dict.getitem d cid with
  | error e =>
    rw [hg] at hc
    have := getitem_err d cid e hg
    subst this
    cases hf : List.find? (fun e => decide (e.1 = cid)) r with
    | none => rfl
    | some x => simp [hf] at hc
  | ok c =>
    rw [hg] at hc
    obtain ⟨h1, h2⟩ := hc
    cases hf : List.find? (fun e => decide (e.1 = cid)) r with
    | none => simp [hf] at h2
    | some x =>
      obtain ⟨k, ci⟩ := x
      simp [hf] at h2
      subst h2
      simp only [Gen.Src.Factory.construct, Py.Factory.unpack, Py.Factory.instantiate]
      rw [bind_ok']
      by_cases hd : c.info.decodable pl = true
      · rw [if_pos hd, if_pos hd, bind_ok', bind_ok', h1]
      · rw [if_neg hd, if_neg hd]; rfl

/-- `build()`: an empty frame of the class registered last for the class/id, `KeyError` for one never registered -/
theorem fac_build (d : Frames) (r : Registry) (cid : Cid) (h : Agree d r) :
    Gen.Src.Factory.build d cid = (match lookupR r cid with | some ci => .ok ⟨cid, ci.tag, []⟩ | none => .error .keyError) := by
  have hc := h cid
  unfold Gen.Src.Factory.build
  cases hg : Dict.getitem d cid with
  | error e =>
    rw [hg] at hc
    have := getitem_err d cid e hg
    subst this
    rw [hc]; rfl
  | ok c =>
    rw [hg] at hc
    obtain ⟨h1, h2⟩ := hc
    rw [h2, bind_ok']
    simp [Py.Factory.instantiate, h1]

end SrcEquiv

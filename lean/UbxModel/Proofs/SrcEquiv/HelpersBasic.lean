import UbxModel.Gen.SrcHelpers
import UbxModel.Model.Helpers
namespace SrcEquiv
open Ubx Py
set_option linter.unusedSimpArgs false

/-! ### the store -/

theorem item_assign_same (st : Store) (n : FName) (v : Int) (h : (st.find? (fun e => e.1 == n)).isSome) :
    Store.item (Store.assign st n v) n = .ok v := by
  induction st with
  | nil => simp at h
  | cons e rest ih =>
    by_cases he : (e.1 == n) = true
    · simp [Store.assign, Store.item, he]
    · simp only [Store.assign, he, Bool.false_eq_true, if_false, Store.item, List.find?_cons] at ih ⊢
      simp only [List.find?_cons, he] at h
      exact ih h

theorem item_assign_other (st : Store) (n m : FName) (v : Int) (h : m ≠ n) :
    Store.item (Store.assign st n v) m = Store.item st m := by
  induction st with
  | nil => rfl
  | cons e rest ih =>
    by_cases he : (e.1 == n) = true
    · have hem : (e.1 == m) = false := by
        have : e.1 = n := by simpa using he
        simp [this, Ne.symm h]
      simp [Store.assign, Store.item, he, hem, List.find?_cons]
    · by_cases hem : (e.1 == m) = true
      · simp [Store.assign, Store.item, he, hem, List.find?_cons]
      · simp only [Store.assign, he, Bool.false_eq_true, if_false, Store.item, List.find?_cons, hem] at ih ⊢
        exact ih

theorem assign_names (st : Store) (n : FName) (v : Int) : (Store.assign st n v).map (·.1) = st.map (·.1) := by
  induction st with
  | nil => rfl
  | cons e rest ih => by_cases he : (e.1 == n) = true <;> simp [Store.assign, he, ih]

/-! ### the setters: each is a fixed sequence of assignments of the values the model prescribes -/

theorem h_set_rate (st : Store) (rate : Nat) (h1 : 1 ≤ rate) (h2 : rate ≤ 10) :
    Gen.Src.Helpers.UbxCfgRate.set_rate_in_hz st rate =
      .ok ((), Store.assign (Store.assign st ("measRate", none) (setRateInHz rate).1) ("navRate", none) (setRateInHz rate).2) := by
  have e1 : decide ((1 : Int) ≤ (rate : Int)) = true := by simp; omega
  have e2 : decide ((rate : Int) ≤ (10 : Int)) = true := by simp; omega
  simp only [Gen.Src.Helpers.UbxCfgRate.set_rate_in_hz, e1, e2, Bool.and_self, if_true, setRateInHz]
  congr 3

theorem h_set_rate_refused (st : Store) (rate : Int) (h : rate < 1 ∨ 10 < rate) :
    Gen.Src.Helpers.UbxCfgRate.set_rate_in_hz st rate = .error .assertionError := by
  simp only [Gen.Src.Helpers.UbxCfgRate.set_rate_in_hz]
  rcases h with h | h
  · have : decide ((1 : Int) ≤ rate) = false := by simp; omega
    simp [this]
  · have : decide (rate ≤ (10 : Int)) = false := by simp; omega
    simp [this]

theorem h_cfg_save (st : Store) (settings : Nat) :
    Gen.Src.Helpers.UbxCfgCfgAction.save st settings =
      .ok ((), Store.assign (Store.assign (Store.assign st ("saveMask", none) (cfgSave settings).2.1) ("clearMask", none) (cfgSave settings).1)
                 ("loadMask", none) (cfgSave settings).2.2) := rfl

theorem h_cfg_reset (st : Store) (settings : Nat) :
    Gen.Src.Helpers.UbxCfgCfgAction.reset st settings =
      .ok ((), Store.assign (Store.assign (Store.assign st ("clearMask", none) (cfgReset settings).1) ("loadMask", none) (cfgReset settings).2.2)
                 ("saveMask", none) (cfgReset settings).2.1) := rfl

theorem h_rst (st : Store) :
    Gen.Src.Helpers.UbxCfgRstAction.warm_start st =
      .ok ((), Store.assign (Store.assign st ("resetMode", none) rstWarmStart.2) ("navBbrMask", none) rstWarmStart.1) ∧
    Gen.Src.Helpers.UbxCfgRstAction.cold_start st =
      .ok ((), Store.assign (Store.assign st ("resetMode", none) rstColdStart.2) ("navBbrMask", none) rstColdStart.1) ∧
    Gen.Src.Helpers.UbxCfgRstAction.start st =
      .ok ((), Store.assign (Store.assign st ("resetMode", none) rstStart.2) ("navBbrMask", none) rstStart.1) ∧
    Gen.Src.Helpers.UbxCfgRstAction.stop st =
      .ok ((), Store.assign (Store.assign st ("resetMode", none) rstStop.2) ("navBbrMask", none) rstStop.1) := ⟨rfl, rfl, rfl, rfl⟩

theorem h_sos (st : Store) :
    Gen.Src.Helpers.UbxUpdSosAction.backup st = .ok ((), Store.assign st ("cmd", none) sosBackup) ∧
    Gen.Src.Helpers.UbxUpdSosAction.clear st = .ok ((), Store.assign st ("cmd", none) sosClear) := ⟨rfl, rfl⟩

theorem h_esfla_set (st : Store) (ty x y z : Int) :
    Gen.Src.Helpers.UbxCfgEsflaSet.«set» st ty x y z =
      (match esflaSet ty x y z with
       | some _ => .ok ((), Store.assign (Store.assign (Store.assign (Store.assign st ("leverArmType", none) ty) ("leverArmX", none) x)
                               ("leverArmY", none) y) ("leverArmZ", none) z)
       | none => .error .assertionError) := by
  unfold Gen.Src.Helpers.UbxCfgEsflaSet.«set» esflaSet
  by_cases h1 : ty ≤ 1 <;> by_cases h2 : -1000 ≤ x <;> by_cases h3 : x ≤ 1000 <;> by_cases h4 : -1000 ≤ y <;>
    by_cases h5 : y ≤ 1000 <;> by_cases h6 : -1000 ≤ z <;> by_cases h7 : z ≤ 1000 <;> simp [h1, h2, h3, h4, h5, h6, h7]

theorem h_set_datetime (st : Store) (y mo d h mi s : Nat) :
    ∃ st', Gen.Src.Helpers.UbxMgaIniTimeUtc.set_datetime st y mo d h mi s = .ok ((), st') ∧
      st'.map (·.1) = st.map (·.1) ∧
      ∀ (names : List String), names = ["type", "version", "ref", "leapSecs", "year", "month", "day", "hour", "minute", "second", "res1", "ns",
                                         "tAccS", "res2", "tAccNs"] →
        ∀ i (hi : i < names.length), (st.find? (fun e => e.1 == (names[i], none))).isSome → names[i] ≠ "res1" → names[i] ≠ "res2" →
          Store.item st' (names[i], none) = .ok ((setDatetime y mo d h mi s)[i]!) := by
  refine ⟨_, rfl, by simp [assign_names], ?_⟩
  intro names hn i hi hpres hr1 hr2
  subst hn
  have hfind : ∀ (st : Store) (n m : FName) (v : Int), (st.find? (fun e => e.1 == m)).isSome →
      ((Store.assign st n v).find? (fun e => e.1 == m)).isSome := by
    intro st n m v h
    have : ((Store.assign st n v).map (·.1)).contains m = (st.map (·.1)).contains m := by rw [assign_names]
    simp only [List.find?_isSome] at h ⊢
    obtain ⟨e, he, hm⟩ := h
    have hmem : m ∈ (Store.assign st n v).map (·.1) := by
      rw [assign_names]; exact List.mem_map.mpr ⟨e, he, by simpa using hm⟩
    obtain ⟨e', he', hm'⟩ := List.mem_map.mp hmem
    exact ⟨e', he', by simpa using hm'⟩
  simp only [List.length_cons, List.length_nil] at hi
  have : i = 0 ∨ i = 1 ∨ i = 2 ∨ i = 3 ∨ i = 4 ∨ i = 5 ∨ i = 6 ∨ i = 7 ∨ i = 8 ∨ i = 9 ∨ i = 10 ∨ i = 11 ∨ i = 12 ∨ i = 13 ∨ i = 14 := by omega
  rcases this with rfl | rfl | rfl | rfl | rfl | rfl | rfl | rfl | rfl | rfl | rfl | rfl | rfl | rfl | rfl <;>
    simp only [List.getElem_cons_zero, List.getElem_cons_succ] at hpres hr1 hr2 ⊢ <;>
    first
    | exact absurd rfl hr1
    | exact absurd rfl hr2
    | (simp only [setDatetime]
       repeat (first
         | (rw [item_assign_same]; · rfl
            repeat (first | exact hpres | apply hfind))
         | rw [item_assign_other _ _ _ _ (by decide)]))

end SrcEquiv

import UbxModel.Proofs.SrcEquiv.Render
import UbxModel.Props.C19
/-! The first clause of C19 restated for the definitions that `tools/pysrc2lean_render.py` generates from the message classes
    (`Gen.Src.Render.*`): the thirteen table-driven `__str__` methods return text - no table index is ever out of range - for every
    current value and every value the derived attributes may have been computed from, and the text begins with the item's name. -/
namespace SrcEquiv
open Ubx Ubx.Render
variable [KeyTable]

theorem line_total (name : String) (k : RKind) (v d : Nat) : ∃ s, line name k v d = .ok (name ++ ": " ++ s) := by
  obtain ⟨s, hs⟩ := C19.render_total k v d
  exact ⟨s, by simp [line, hs, Except.map]⟩

/-- **C19 at the source level**: every generated renderer is total -/
theorem src_renderers_total (name : String) (v d : Nat) :
    (∃ s, Gen.Src.Render.U1_LeverArmType.str name v d = .ok (name ++ ": " ++ s)) ∧
    (∃ s, Gen.Src.Render.U1_GnssId.str name v d = .ok (name ++ ": " ++ s)) ∧
    (∃ s, Gen.Src.Render.X4_Flags.str name v d = .ok (name ++ ": " ++ s)) ∧
    (∃ s, Gen.Src.Render.X2_Proto.str name v d = .ok (name ++ ": " ++ s)) ∧
    (∃ s, Gen.Src.Render.X4_Mode.str name v d = .ok (name ++ ": " ++ s)) ∧
    (∃ s, Gen.Src.Render.U1_Flags.str name v d = .ok (name ++ ": " ++ s)) ∧
    (∃ s, Gen.Src.Render.X1_InitStatus1.str name v d = .ok (name ++ ": " ++ s)) ∧
    (∃ s, Gen.Src.Render.X1_InitStatus2.str name v d = .ok (name ++ ": " ++ s)) ∧
    (∃ s, Gen.Src.Render.U1_FusionMode.str name v d = .ok (name ++ ": " ++ s)) ∧
    (∃ s, Gen.Src.Render.X1_SensStatus1.str name v d = .ok (name ++ ": " ++ s)) ∧
    (∃ s, Gen.Src.Render.X1_SensStatus2.str name v d = .ok (name ++ ": " ++ s)) ∧
    (∃ s, Gen.Src.Render.U1_GpsFix.str name v d = .ok (name ++ ": " ++ s)) ∧
    (∃ s, Gen.Src.Render.X1_Flags.str name v d = .ok (name ++ ": " ++ s)) := by
  rw [r_lever, r_gnssid, r_flags_enable, r_proto, r_mode, r_alg_flags, r_init1, r_init2, r_fusion, r_sens1, r_sens2, r_gpsfix, r_nav_flags]
  exact ⟨line_total .., line_total .., line_total .., line_total .., line_total .., line_total .., line_total .., line_total ..,
    line_total .., line_total .., line_total .., line_total .., line_total ..⟩

end SrcEquiv

import UbxModel.Proofs.SrcEquiv.Checksum
/-! The definitions generated from `ubxlib/frame.py` equal the hand-written model of `to_bytes()`. -/
namespace SrcEquiv
open Ubx

theorem fold_ck (d : List Nat) (f : Frame) :
    d.foldl (fun self x => { self with ck := self.ck.add x }) f = { f with ck := f.ck.addAll d } := by
  induction d generalizing f with
  | nil => rfl
  | cons x r ih => simp only [List.foldl_cons]; rw [ih]; rfl

theorem frame_calc (f : Frame) : Gen.Src.UbxFrame._calc_checksum f = f.calcChecksum := by
  simp only [Gen.Src.UbxFrame._calc_checksum, ck_reset, ck_add, ck_value]
  rw [fold_ck]
  rfl

theorem frame_to_bytes (f : Frame) : Gen.Src.UbxFrame.to_bytes f = f.toBytes := by
  simp only [Gen.Src.UbxFrame.to_bytes, frame_calc, Frame.toBytes, Gen.sync1, Gen.sync2]
  simp [Frame.calcChecksum]

end SrcEquiv

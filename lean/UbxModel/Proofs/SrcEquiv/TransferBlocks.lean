import UbxModel.Proofs.SrcEquiv.Blocks
/-! C07 for the block-structured messages, restated for the definitions generated from the message classes: what the generated
    `unpack` leaves in the container is the decode of the payload against header + `n` blocks, `n` read from the payload - the table
    whose offsets `C07.cfgGnss` / `cfgEsfla` / `esfStatus` / `monVer` prove to be the protocol's for every `n`. -/
namespace SrcEquiv
open Ubx Py Py.Blocks

theorem counted_ok (hdr : Table) (blk : Nat → Table) (c : String) (limit : Option Nat) (data : List Nat) (t : Table) (vs : List Val)
    (h : decodeCounted hdr blk c limit data = .ok (t, vs)) :
    ∃ n rem, t = hdr ++ blocks blk n ∧ t.decode data = .ok (vs, rem) := by
  unfold decodeCounted at h
  cases hd : hdr.decode data with
  | error e => rw [hd] at h; cases h
  | ok r =>
    obtain ⟨hv, r'⟩ := r
    rw [hd] at h
    simp only at h
    cases h2 : Table.decode (hdr ++ blocks blk (fieldNat hdr hv c)) data with
    | error e =>
      rw [h2] at h
      cases limit with
      | none => simp at h
      | some l => by_cases hg : fieldNat hdr hv c > l <;> simp [hg] at h
    | ok r2 =>
      obtain ⟨vs', rem⟩ := r2
      rw [h2] at h
      have key : hdr ++ blocks blk (fieldNat hdr hv c) = t ∧ vs' = vs := by
        cases limit with
        | none => simpa using h
        | some l =>
          by_cases hg : fieldNat hdr hv c > l
          · simp [hg] at h
          · simpa [hg] using h
      obtain ⟨h3, h4⟩ := key
      subst h3 h4
      exact ⟨_, rem, rfl, h2⟩

theorem items_of_eq {α : Type} (x : Except Exc Container) (y : Except Exc α) (f : α → List ItemObj) (st : Container)
    (h : x.map (·.items) = y.map f) (hx : x = .ok st) : ∃ a, y = .ok a ∧ f a = st.items := by
  subst hx
  cases y with
  | error e => cases h
  | ok a => exact ⟨a, rfl, by injection h with h; exact h.symm⟩

/-- **C07, UBX-CFG-GNSS at the source level**: what the generated `unpack` leaves is the decode against the header and `n` blocks -/
theorem src_gnss_items (data : List Nat) (st : Container) (h : Gen.Src.Blocks.UbxCfgGnss.unpack data = .ok st) :
    ∃ n vs rem, (Gen.UbxCfgGnss_header ++ blocks Gen.UbxCfgGnss_block n).decode data = .ok (vs, rem) ∧
      st.items = objs (Gen.UbxCfgGnss_header ++ blocks Gen.UbxCfgGnss_block n) vs := by
  obtain ⟨⟨t, vs⟩, h1, h2⟩ := items_of_eq _ _ _ st (blk_gnss data) h
  obtain ⟨n, rem, ht, hd⟩ := counted_ok _ _ _ _ _ _ _ h1
  subst ht
  exact ⟨n, vs, rem, hd, h2.symm⟩

/-- **C07, UBX-CFG-ESFLA at the source level** -/
theorem src_esfla_items (data : List Nat) (st : Container) (h : Gen.Src.Blocks.UbxCfgEsfla.unpack data = .ok st) :
    ∃ n vs rem, (Gen.UbxCfgEsfla_header ++ blocks Gen.UbxCfgEsfla_block n).decode data = .ok (vs, rem) ∧
      st.items = objs (Gen.UbxCfgEsfla_header ++ blocks Gen.UbxCfgEsfla_block n) vs := by
  obtain ⟨⟨t, vs⟩, h1, h2⟩ := items_of_eq _ _ _ st (blk_esfla data) h
  obtain ⟨n, rem, ht, hd⟩ := counted_ok _ _ _ _ _ _ _ h1
  subst ht
  exact ⟨n, vs, rem, hd, h2.symm⟩

/-- **C07, UBX-ESF-STATUS at the source level** -/
theorem src_esfstatus_items (data : List Nat) (st : Container) (h : Gen.Src.Blocks.UbxEsfStatus.unpack data = .ok st) :
    ∃ n vs rem, (Gen.UbxEsfStatus_header ++ blocks Gen.UbxEsfStatus_block n).decode data = .ok (vs, rem) ∧
      st.items = objs (Gen.UbxEsfStatus_header ++ blocks Gen.UbxEsfStatus_block n) vs := by
  obtain ⟨⟨t, vs⟩, h1, h2⟩ := items_of_eq _ _ _ st (blk_esfstatus data) h
  obtain ⟨n, rem, ht, hd⟩ := counted_ok _ _ _ _ _ _ _ h1
  subst ht
  exact ⟨n, vs, rem, hd, h2.symm⟩

/-- **C07, UBX-MON-VER at the source level**: as many extension strings as the length allows -/
theorem src_monver_items (data : List Nat) (st : Container) (h : Gen.Src.Blocks.UbxMonVer.unpack data = .ok st) :
    ∃ vs rem, (Gen.UbxMonVer_header ++ blocks Gen.UbxMonVer_block ((data.length - 40) / 30)).decode data = .ok (vs, rem) ∧
      st.items = objs (Gen.UbxMonVer_header ++ blocks Gen.UbxMonVer_block ((data.length - 40) / 30)) vs := by
  obtain ⟨⟨t, vs⟩, h1, h2⟩ := items_of_eq _ _ _ st (blk_monver data) h
  unfold decodeMonVer at h1
  simp only at h1
  cases hd : Table.decode (Gen.UbxMonVer_header ++ blocks Gen.UbxMonVer_block ((data.length - 40) / 30)) data with
  | error e => rw [hd] at h1; cases h1
  | ok r =>
    obtain ⟨vs', rem⟩ := r
    rw [hd] at h1
    simp only [Except.ok.injEq, Prod.mk.injEq] at h1
    obtain ⟨h3, h4⟩ := h1
    subst h3 h4
    exact ⟨_, rem, rfl, h2.symm⟩

/-- the `assert` of UBX-CFG-ESFLA: more than five lever arms announced is `AssertionError`, before any block is looked at -/
example : (Gen.Src.Blocks.UbxCfgEsfla.unpack [0, 6, 0, 0]).toOption.isNone = true := by decide +kernel
/-- non-vacuity: two GNSS blocks decode into 4 + 2·5 items -/
example : ((Gen.Src.Blocks.UbxCfgGnss.unpack [0, 32, 32, 2, 0, 8, 16, 0, 1, 0, 1, 1, 6, 8, 14, 0, 1, 0, 1, 1]).toOption.map (·.items.length)) = some 14 := by
  decide +kernel

end SrcEquiv

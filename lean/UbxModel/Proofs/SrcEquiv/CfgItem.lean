import UbxModel.Gen.SrcCfg
import UbxModel.Proofs.SrcEquiv.CfgKeyData
namespace SrcEquiv
open Ubx
set_option linter.unusedSectionVars false
set_option linter.unusedSimpArgs false
variable [KeyTable]

theorem sp_B (v : Int) : Py.structPack "<B" v = packU 1 v := by simp [Py.structPack]
theorem sp_b (v : Int) : Py.structPack "<b" v = packI 1 v := by simp [Py.structPack]
theorem sp_H (v : Int) : Py.structPack "<H" v = packU 2 v := by simp [Py.structPack]
theorem sp_h (v : Int) : Py.structPack "<h" v = packI 2 v := by simp [Py.structPack]
theorem sp_I (v : Int) : Py.structPack "<I" v = packU 4 v := by simp [Py.structPack]
theorem sp_i (v : Int) : Py.structPack "<i" v = packI 4 v := by simp [Py.structPack]
theorem sp_Q (v : Int) : Py.structPack "<Q" v = packU 8 v := by simp [Py.structPack]
theorem sp_q (v : Int) : Py.structPack "<q" v = packI 8 v := by simp [Py.structPack]
theorem su_B (d : List Nat) : Py.structUnpack "<B" d = unpackU 1 d := by simp [Py.structUnpack]
theorem su_b (d : List Nat) : Py.structUnpack "<b" d = unpackI 1 d := by simp [Py.structUnpack]
theorem su_H (d : List Nat) : Py.structUnpack "<H" d = unpackU 2 d := by simp [Py.structUnpack]
theorem su_h (d : List Nat) : Py.structUnpack "<h" d = unpackI 2 d := by simp [Py.structUnpack]
theorem su_I (d : List Nat) : Py.structUnpack "<I" d = unpackU 4 d := by simp [Py.structUnpack]
theorem su_i (d : List Nat) : Py.structUnpack "<i" d = unpackI 4 d := by simp [Py.structUnpack]
theorem su_Q (d : List Nat) : Py.structUnpack "<Q" d = unpackU 8 d := by simp [Py.structUnpack]
theorem su_q (d : List Nat) : Py.structUnpack "<q" d = unpackI 8 d := by simp [Py.structUnpack]

/-- an `Except` value paired with the object it leaves behind -/
def withSelf {α : Type} (c : CfgItem) (x : Except Exc α) : Except Exc (α × CfgItem) := x >>= fun v => .ok (v, c)

theorem bind_ok {α β : Type} (x : α) (f : α → Except Exc β) : ((Except.ok x : Except Exc α) >>= f) = f x := rfl
theorem bind_error {α β : Type} (e : Exc) (f : α → Except Exc β) : ((Except.error e : Except Exc α) >>= f) = .error e := rfl
theorem withSelf_ok {α : Type} (c : CfgItem) (v : α) : withSelf c (.ok v : Except Exc α) = .ok (v, c) := rfl
theorem withSelf_error {α : Type} (c : CfgItem) (e : Exc) : withSelf c (.error e : Except Exc α) = .error e := rfl

theorem cfg_pack_value (c : CfgItem) : Gen.Src.CfgItem._pack_value c = withSelf c c.packValue := by
  unfold Gen.Src.CfgItem._pack_value CfgItem.packValue withSelf
  simp only [sp_B, sp_b, sp_H, sp_h, sp_I, sp_i, sp_Q, sp_q, beq_iff_eq]
  by_cases h1 : c.bits = 1
  · simp only [h1, if_true]; by_cases hv : c.value = 0 <;> simp [hv]
  by_cases h8 : c.bits = 8
  · cases hs : c.signed <;> simp [h8, hs]
  by_cases h16 : c.bits = 16
  · cases hs : c.signed <;> simp [h16, hs]
  by_cases h32 : c.bits = 32
  · cases hs : c.signed <;> simp [h32, hs]
  by_cases h64 : c.bits = 64
  · cases hs : c.signed <;> simp [h64, hs]
  simp [h1, h8, h16, h32, h64, bind_error]

theorem cfg_pack_keyid (c : CfgItem) :
    Gen.Src.CfgItem._pack_keyid c =
      withSelf c (buildHeader c.group.toNat c.item.toNat c.bits >>= fun h => packU 4 (h : Int)) := by
  unfold Gen.Src.CfgItem._pack_keyid withSelf
  simp only [key_header, sp_I]
  generalize buildHeader c.group.toNat c.item.toNat c.bits = bh
  cases bh with
  | error e => rw [bind_error, bind_error, bind_error]
  | ok h => rw [bind_ok, bind_ok]

theorem reraise_eq {α : Type} (x : Except Exc α) : Py.reraise .structError .valueError x = structToValue x := by
  cases x <;> rfl

/-- **`pack()` as the source has it is the model's `CfgItem.pack`** -/
theorem cfg_pack (c : CfgItem) : Gen.Src.CfgItem.pack c = withSelf c c.pack := by
  unfold Gen.Src.CfgItem.pack CfgItem.pack
  simp only [cfg_pack_keyid, cfg_pack_value, reraise_eq]
  by_cases hg : c.group < 0 ∨ c.group > 0xFF
  · have : (decide (c.group < ((0 : Nat) : Int)) || decide (c.group > ((255 : Nat) : Int))) = true := by
      rcases hg with h | h <;> simp [h]
    rw [if_pos this, if_pos hg]; rfl
  · have : ¬ (decide (c.group < ((0 : Nat) : Int)) || decide (c.group > ((255 : Nat) : Int))) = true := by
      simp only [not_or] at hg; simp [hg.1, hg.2]
    rw [if_neg this, if_neg hg]
    by_cases hi : c.item < 0 ∨ c.item > 0xFFF
    · have : (decide (c.item < ((0 : Nat) : Int)) || decide (c.item > ((4095 : Nat) : Int))) = true := by
        rcases hi with h | h <;> simp [h]
      rw [if_pos this, if_pos hi]; rfl
    · have : ¬ (decide (c.item < ((0 : Nat) : Int)) || decide (c.item > ((4095 : Nat) : Int))) = true := by
        simp only [not_or] at hi; simp [hi.1, hi.2]
      rw [if_neg this, if_neg hi]
      generalize buildHeader c.group.toNat c.item.toNat c.bits = bh
      cases bh with
      | error e => rw [bind_error, bind_error, withSelf_error, bind_error]; rfl
      | ok h =>
        rw [bind_ok, bind_ok]
        generalize packU 4 (h : Int) = pk
        cases pk with
        | error e => rw [bind_error, withSelf_error, bind_error]; rfl
        | ok key =>
          rw [bind_ok, withSelf_ok, bind_ok]
          generalize c.packValue = pv
          cases pv with
          | error e => rw [bind_error, withSelf_error, bind_error]; rfl
          | ok v => rfl

/-- what `_unpack_value` leaves behind: the bytes needed, and the object with the decoded value -/
def unpackedInto (c : CfgItem) (x : Except Exc (Int × Nat)) : Except Exc (Nat × CfgItem) :=
  x >>= fun r => .ok (r.2, { c with value := r.1 })

theorem cfg_unpack_value (c : CfgItem) (data : List Nat) :
    Gen.Src.CfgItem._unpack_value c data = unpackedInto c (unpackValue c.bits c.signed data) := by
  unfold Gen.Src.CfgItem._unpack_value unpackValue unpackedInto
  simp only [su_B, su_b, su_H, su_h, su_I, su_i, su_Q, su_q, key_bytes, beq_iff_eq]
  generalize bytesForSize c.bits = bn
  cases bn with
  | error e => rfl
  | ok n =>
    simp only [bind_ok]
    by_cases h1 : c.bits = 1
    · simp only [h1, if_true]
      generalize unpackU 1 (List.take n data) = u
      cases u with
      | error e => rfl
      | ok v =>
        simp only [bind_ok]
        by_cases h0 : v = 0
        · simp [h0, bind_ok]
        · by_cases h11 : v = 1
          · simp [h11, bind_ok]
          · simp [h0, h11, bind_error]
    by_cases h8 : c.bits = 8
    · cases hs : c.signed <;> simp only [h8, hs, if_true, if_false, Bool.false_eq_true] <;> simp <;>
        (first | (generalize unpackU _ _ = u; cases u <;> rfl) | (generalize unpackI _ _ = u; cases u <;> rfl))
    by_cases h16 : c.bits = 16
    · cases hs : c.signed <;> simp only [h16, hs, if_true, if_false, Bool.false_eq_true] <;> simp <;>
        (first | (generalize unpackU _ _ = u; cases u <;> rfl) | (generalize unpackI _ _ = u; cases u <;> rfl))
    by_cases h32 : c.bits = 32
    · cases hs : c.signed <;> simp only [h32, hs, if_true, if_false, Bool.false_eq_true] <;> simp <;>
        (first | (generalize unpackU _ _ = u; cases u <;> rfl) | (generalize unpackI _ _ = u; cases u <;> rfl))
    by_cases h64 : c.bits = 64
    · cases hs : c.signed <;> simp only [h64, hs, if_true, if_false, Bool.false_eq_true] <;> simp <;>
        (first | (generalize unpackU _ _ = u; cases u <;> rfl) | (generalize unpackI _ _ = u; cases u <;> rfl))
    simp [h1, h8, h16, h32, h64, bind_error]

/-- **`unpack()` as the source has it is the model's `CfgItem.unpack`**: whatever the object held before, it holds the decoded
    item afterwards, and the number of bytes consumed is returned -/
theorem cfg_unpack (c : CfgItem) (data : List Nat) :
    Gen.Src.CfgItem.unpack c data = (CfgItem.unpack data >>= fun r => .ok (r.2, r.1)) := by
  unfold Gen.Src.CfgItem.unpack CfgItem.unpack
  simp only [su_I, key_bits, key_group, key_item, cfg_unpack_value, reraise_eq]
  by_cases hl : data.length < 4
  · rw [if_pos (by simp [hl]), if_pos hl]; rfl
  · rw [if_neg (by simp [hl]), if_neg hl]
    generalize unpackU 4 (List.take 4 data) = u
    cases u with
    | error e => rfl
    | ok k =>
      rw [bind_ok, bind_ok]
      generalize bitsFromKey k.toNat = b
      cases b with
      | error e => rfl
      | ok bits =>
        rw [bind_ok, bind_ok, bind_ok, bind_ok]
        generalize unpackValue bits (keySigned k.toNat) (List.drop 4 data) = uv
        cases uv with
        | error e => simp only [unpackedInto, bind_error, structToValue]
        | ok r =>
          obtain ⟨v, n⟩ := r
          simp only [unpackedInto, bind_ok, structToValue]
          rfl

/-- **`from_key()`** -/
theorem cfg_from_key (key : Nat) (value : Int) : Gen.Src.CfgItem.from_key key value = CfgItem.fromKey key value := by
  unfold Gen.Src.CfgItem.from_key CfgItem.fromKey
  simp only [key_bits, key_group, key_item]
  generalize bitsFromKey key = b
  cases b <;> rfl

end SrcEquiv

import UbxModel.Proofs.SrcEquiv.ServerPoll
/-! The request loop of `ubxlib/server_base.py` as generated from the source (`Gen/SrcServer.lean`) equals the hand-written
    model (`Model/Server.lean`): `ServerChecks` (`_check_poll`, `_check_ack_nak`, `_check_mga`, `_send`), `ServerWait`
    (`_wait`: both loops), `ServerSet` (`set`, `set_mga`, `fire_and_forget`, `set_retries`, `set_retry_delay`),
    `ServerPoll` (`poll`: the state loop is `pollAttempt` / `pollWaitAck`, the retry loop is `pollLoop`). -/

import UbxModel.Gen.SrcKeyStr
import UbxModel.Proofs.SrcEquiv.CfgKeyData
/-! `CfgKeyData.__str__` as `tools/pysrc2lean_keystr.py` generates it from `ubxlib/cfgkeys.py` against the hand-written model
    (`Ubx.CfgItem.text`, Model/RenderKeys.lean): `keystr_eq` - the same text or the same `ValueError`, for every item (any group, item,
    width, sign flag and value, negative ones included: `_build_header` sees an `int` only through `& 0xff` / `& 0xfff`, `header_low`). -/
namespace SrcEquiv
open Ubx Py
variable [KeyTable]
set_option linter.unusedSectionVars false
set_option linter.unusedSimpArgs false

theorem low_and_ff (v : Int) : Py.KeyStr.lowBits v &&& 0xFF = (v % 256).toNat &&& 0xFF := by
  have h1 : ∀ x : Nat, x &&& 0xFF = x % 256 := fun x => Nat.and_two_pow_sub_one_eq_mod x 8
  rw [h1, h1]
  unfold Py.KeyStr.lowBits
  omega

theorem low_and_fff (v : Int) : Py.KeyStr.lowBits v &&& 0xFFF = (v % 4096).toNat &&& 0xFFF := by
  have h1 : ∀ x : Nat, x &&& 0xFFF = x % 4096 := fun x => Nat.and_two_pow_sub_one_eq_mod x 12
  rw [h1, h1]
  unfold Py.KeyStr.lowBits
  omega

theorem header_low (g i : Int) (bits : Nat) :
    Gen.Src.CfgKeyData._build_header (Py.KeyStr.lowBits g) (Py.KeyStr.lowBits i) bits = buildHeader (g % 256).toNat (i % 4096).toNat bits := by
  rw [key_header]
  unfold buildHeader
  cases Gen.sizeFromBits.find? (fun e => e.1 == bits) with
  | none => rfl
  | some e => simp only [low_and_ff, low_and_fff]

macro "str_eq'" : tactic => `(tactic| (apply String.ext; simp [String.toList_append, -String.reduceAppend]))

/-- **`CfgKeyData.__str__` as the source has it is the model's `CfgItem.text`** -/
theorem keystr_eq (name : String) (c : CfgItem) : Gen.Src.KeyStr.CfgKeyData.__str__ name c = CfgItem.text name c := by
  unfold Gen.Src.KeyStr.CfgKeyData.__str__ CfgItem.text
  rw [header_low]
  cases buildHeader (c.group % 256).toNat (c.item % 4096).toNat c.bits with
  | error e => rfl
  | ok header =>
    simp only [bind, Except.bind, pure, Except.pure, throw, throwThe, MonadExceptOf.throw]
    cases keyName header with
    | none =>
      simp only [valueText]
      by_cases h1 : c.bits = 1
      · simp [h1]; str_eq'
      · by_cases h8 : c.bits = 8
        · cases hs : c.signed <;> simp [h8, hs] <;> str_eq'
        · by_cases h16 : c.bits = 16
          · cases hs : c.signed <;> simp [h16, hs] <;> str_eq'
          · by_cases h32 : c.bits = 32
            · cases hs : c.signed <;> simp [h32, hs] <;> str_eq'
            · by_cases h64 : c.bits = 64
              · cases hs : c.signed <;> simp [h64, hs] <;> str_eq'
              · simp [h1, h8, h16, h32, h64]
    | some k =>
      simp only [valueText]
      by_cases h1 : c.bits = 1
      · simp [h1]; str_eq'
      · by_cases h8 : c.bits = 8
        · cases hs : c.signed <;> simp [h8, hs] <;> str_eq'
        · by_cases h16 : c.bits = 16
          · cases hs : c.signed <;> simp [h16, hs] <;> str_eq'
          · by_cases h32 : c.bits = 32
            · cases hs : c.signed <;> simp [h32, hs] <;> str_eq'
            · by_cases h64 : c.bits = 64
              · cases hs : c.signed <;> simp [h64, hs] <;> str_eq'
              · simp [h1, h8, h16, h32, h64]

end SrcEquiv

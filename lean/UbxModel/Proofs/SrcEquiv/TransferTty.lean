import UbxModel.Proofs.SrcEquiv.Tty
import UbxModel.Props.C18
import UbxModel.Props.C12
/-! Headline theorems of C18 (and the serial part of C12) restated for the definitions that `tools/pysrc2lean_tty.py`
    generates from `ubxlib/server_tty.py` (`Gen.Src.Tty.*`). -/
namespace SrcEquiv
open Ubx Ubx.Tty

/-- **C18 at the source level**: the generated `scan`, on an open port with nothing read before, returns - no exception, no loop
    out of fuel - and says yes only if the bytes received contain two checksum-valid UBX frames or two valid NMEA sentences, no only
    if they contain fewer than two of each -/
theorem src_scan_verdict (env : Py.Tty.Env) (sv : Py.Tty.Server) (interval : Nat) (ho : sv.port.isOpen = true)
    (hj : sv.j = 0) (hs : sv.seen = []) (hb : ∀ j d, (env.rd j).2 = some d → d < 256) :
    ∃ (b : Bool) (sv' : Py.Tty.Server), Gen.Src.Tty.scan env sv interval = (.ok b, sv') ∧
      (b = true → evGood (Spec.scan 1000 sv'.seen) ≥ 2 ∨ Spec.Nmea.count sv'.seen ≥ 2) ∧
      (b = false → evGood (Spec.scan 1000 sv'.seen) < 2 ∧ Spec.Nmea.count sv'.seen < 2) := by
  obtain ⟨sv', h1, _, _, h4, _, _, _⟩ := tty_scan env sv interval ho
  have hv := C18.verdict_spec ⟨env.rd⟩ sv.now interval hb
  simp only [Ubx.Tty.scan] at hv
  rw [hj, hs] at h1 h4
  refine ⟨_, sv', h1, ?_, ?_⟩
  · intro hb1; rw [h4]; exact hv.1 hb1
  · intro hb0; rw [h4]; exact hv.2 hb0

/-- **C18, time, at the source level**: the generated `scan` returns no later than the interval plus one read time-out -/
theorem src_scan_time (env : Py.Tty.Env) (sv : Py.Tty.Server) (interval T : Nat) (ho : sv.port.isOpen = true)
    (hT : 1 ≤ T ∧ ∀ j, (env.rd j).1 ≤ T) :
    ∃ (b : Bool) (sv' : Py.Tty.Server), Gen.Src.Tty.scan env sv interval = (.ok b, sv') ∧ sv'.now ≤ sv.now + interval + T := by
  obtain ⟨sv', h1, h2, _, _, _, _, _⟩ := tty_scan env sv interval ho
  have ht := (C18.time ⟨env.rd⟩ T hT (sv.now + interval) { now := sv.now, j := sv.j, seen := sv.seen }).1
  refine ⟨_, sv', h1, ?_⟩
  rw [h2]
  simp only [] at ht
  omega

/-- **C12 at the source level, serial back end**: the generated `_transmit` reports success iff the driver wrote every byte; the
    generated `_recover` leaves the port open at the bit rate it had -/
theorem src_tty_transmit (env : Py.Tty.Env) (sv : Py.Tty.Server) (data : List Nat) (ho : sv.port.isOpen = true) :
    ∃ sv', Gen.Src.Tty._transmit env sv data = (.ok (decide (env.wr sv.k = data.length)), sv') := by
  rw [tty_transmit env sv data ho]
  refine ⟨{ sv with k := sv.k + 1 }, ?_⟩
  have : Ubx.Tty.transmit (env.wr sv.k) data = decide (env.wr sv.k = data.length) := by
    unfold Ubx.Tty.transmit
    by_cases h : env.wr sv.k = data.length <;> simp [h]
  rw [this]

theorem src_tty_recover (env : Py.Tty.Env) (sv : Py.Tty.Server) (ho : sv.port.isOpen = true) :
    ∃ sv', Gen.Src.Tty._recover env sv = (.ok (), sv') ∧ sv'.port.isOpen = true ∧ sv'.port.baud = sv.port.baud := by
  rw [tty_recover env sv ho]
  exact ⟨_, rfl, ho, rfl⟩

end SrcEquiv

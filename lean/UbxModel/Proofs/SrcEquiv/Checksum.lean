import UbxModel.Gen.Src
/-! The definitions generated from `ubxlib/checksum.py` (tools/pysrc2lean.py) equal the hand-written model. -/
namespace SrcEquiv
open Ubx

theorem ck_reset (c : Ck) : Gen.Src.Checksum.reset c = c.reset := rfl
theorem ck_add (c : Ck) (x : Nat) : Gen.Src.Checksum.add c x = c.add x := rfl
theorem ck_value (c : Ck) : Gen.Src.Checksum.value c = c.value := rfl
theorem ck_matches (c : Ck) (a b : Nat) : Gen.Src.Checksum.«matches» c a b = c.matches a b := by
  by_cases h1 : c.a = a <;> by_cases h2 : c.b = b <;> simp [Gen.Src.Checksum.«matches», Ck.matches, h1, h2]

end SrcEquiv

import UbxModel.Gen.SrcValset
import UbxModel.Proofs.SrcEquiv.Types
import UbxModel.Proofs.SrcEquiv.CfgItem
import UbxModel.Model.ValSetGet
/-! The constructors of UBX-CFG-VALSET and UBX-CFG-VALGET (poll) and `Fields.pack` over what they build, as `tools/pysrc2lean_valset.py`
    generates them (`Gen.Src.Valset.*`), against the hand-written model (`Ubx.valsetPayload`, `Ubx.valgetPollPayload`):

    * `valset_init` / `poll_init`: `AssertionError` outside 1..64 entries; otherwise the container holds the header fields with the
      values the constructors assign and one field per entry, in order, under `data<i>` / `key<i>` (so `Fields.add` never refuses);
    * `valset_pack` / `poll_pack`: `Fields.pack` over that container is the model's payload - the same bytes or the same exception -
      and leaves the fields as they are (on top of `cfg_pack` and `item_pack`). -/
namespace SrcEquiv
open Ubx Py Py.Valget
variable [KeyTable]
set_option linter.unusedSectionVars false
set_option linter.unusedSimpArgs false

def keyNames (k : Nat) : List Py.FName := (List.range k).map fun i => ("key", some i)
def dataNames' (k : Nat) : List Py.FName := (List.range k).map fun i => ("data", some i)

def valsetHdrNames : List Py.FName := [("version", none), ("layer", none), ("res0", none), ("res1", none)]
def pollHdrNames : List Py.FName := [("version", none), ("layer", none), ("position", none)]

def u1 (v : Int) : Field := .item (ItemObj.ofKind (.uint 1) (.int v))
def u2 (v : Int) : Field := .item (ItemObj.ofKind (.uint 2) (.int v))
def u4 (v : Int) : Field := .item (ItemObj.ofKind (.uint 4) (.int v))

/-- the body of `Fields.pack`'s loop -/
def packBody (v : Field) (work_data : List Nat) : Except Exc (List Nat × Field) :=
  Gen.Src.Valset.dispatch_pack v >>= fun (r, v) => .ok (work_data ++ r, v)

theorem pack_eq (fs : List Field) : Gen.Src.Valset.Fields.pack fs = forFields fs [] packBody := rfl

theorem forFields_append {σ : Type} (xs ys : List Field) (acc : σ) (body : Field → σ → Except Exc (σ × Field)) :
    forFields (xs ++ ys) acc body =
      (forFields xs acc body >>= fun (a, xs') => forFields ys a body >>= fun (a', ys') => .ok (a', xs' ++ ys')) := by
  induction xs generalizing acc with
  | nil =>
    simp only [List.nil_append, forFields, bind_ok]
    cases forFields ys acc body with
    | error e => rfl
    | ok r => rfl
  | cons x xs ih =>
    simp only [List.cons_append, forFields]
    cases body x acc with
    | error e => rfl
    | ok r =>
      obtain ⟨a1, x'⟩ := r
      simp only [bind_ok, ih]
      cases forFields xs a1 body with
      | error e => rfl
      | ok r2 =>
        obtain ⟨a2, xs'⟩ := r2
        simp only [bind_ok]
        cases forFields ys a2 body with
        | error e => rfl
        | ok r3 => rfl

/-- the key/value items of a container pack as the model's `packItems`, and stay what they are -/
theorem pack_cfgs (cs : List CfgItem) (acc : List Nat) :
    forFields (cs.map Field.cfg) acc packBody = (packItems cs >>= fun b => .ok (acc ++ b, cs.map Field.cfg)) := by
  induction cs generalizing acc with
  | nil => simp [forFields, packItems, bind_ok]
  | cons c cs ih =>
    simp only [List.map_cons, forFields, packBody, Gen.Src.Valset.dispatch_pack, cfg_pack, withSelf, packItems]
    cases c.pack with
    | error e => rfl
    | ok b =>
      simp only [bind_ok, ih]
      cases packItems cs with
      | error e => rfl
      | ok more => simp [bind_ok, pure, Except.pure]

/-- an unsigned item holding an integer packs as `packU`, and stays what it is -/
theorem pack_uint (w : Nat) (hw : w = 1 ∨ w = 2 ∨ w = 4 ∨ w = 8) (v : Int) (acc : List Nat) :
    packBody (.item (ItemObj.ofKind (.uint w) (.int v))) acc =
      (packU w v >>= fun b => .ok (acc ++ b, Field.item (ItemObj.ofKind (.uint w) (.int v)))) := by
  have hk : Py.Kind.known (.uint w) = true := by rcases hw with rfl | rfl | rfl | rfl <;> decide
  simp only [packBody, Gen.Src.Valset.dispatch_pack, item_pack (.uint w) (.int v) hk, Kind.pack]
  cases packU w v with
  | error e => rfl
  | ok b => rfl

/-! ### the constructors -/

theorem names_fresh (hdr : List Py.FName) (tag : String) (k : Nat) (h : ∀ n ∈ hdr, n.2 = none) :
    (hdr ++ (List.range k).map (fun i => ((tag, some i) : Py.FName))).contains ((tag, some k) : Py.FName) = false := by
  rw [List.contains_eq_mem]
  simp only [List.mem_append, List.mem_map, List.mem_range, decide_eq_false_iff_not, not_or]
  refine ⟨fun hm => by have := h _ hm; simp at this, ?_⟩
  rintro ⟨i, hi, he⟩
  simp only [Prod.mk.injEq, Option.some.injEq] at he
  omega

theorem range_succ_map (tag : String) (k : Nat) :
    (List.range k).map (fun i => ((tag, some i) : Py.FName)) ++ [((tag, some k) : Py.FName)] =
      (List.range (k + 1)).map (fun i => ((tag, some i) : Py.FName)) := by
  simp [List.range_succ]

theorem add_fresh (hdr : List Py.FName) (tag : String) (i : Nat) (F : List Field) (f : Field) (h : ∀ n ∈ hdr, n.2 = none) :
    Py.Valget.Container.add { names := hdr ++ (List.range i).map (fun j => ((tag, some j) : Py.FName)), fields := F } (tag, some i) f =
      .ok { names := hdr ++ (List.range (i + 1)).map (fun j => ((tag, some j) : Py.FName)), fields := F ++ [f] } := by
  unfold Py.Valget.Container.add
  rw [names_fresh hdr tag i h]
  simp only [Bool.false_eq_true, if_false, List.append_assoc, range_succ_map]

/-- the loop of `UbxCfgValSetAction.__init__`: every item is added, in order, as `data<i>` -/
theorem valset_loop (hdrF : List Field) : ∀ (cs : List CfgItem) (i : Nat) (done : List CfgItem),
    Py.Valget.forEnumFrom (fun item cfgkey st =>
        (Py.Valget.Container.add st ("data", some item) (.cfg cfgkey)) >>= fun st => .ok st) i cs
      { names := valsetHdrNames ++ dataNames' i, fields := hdrF ++ done.map Field.cfg } =
    .ok { names := valsetHdrNames ++ dataNames' (i + cs.length), fields := hdrF ++ (done ++ cs).map Field.cfg } := by
  intro cs
  induction cs with
  | nil => intro i done; simp [Py.Valget.forEnumFrom]
  | cons c cs ih =>
    intro i done
    rw [Py.Valget.forEnumFrom]
    simp only [dataNames']
    rw [add_fresh valsetHdrNames "data" i _ _ (by simp [valsetHdrNames]), bind_ok, bind_ok]
    have := ih (i + 1) (done ++ [c])
    simp only [dataNames', List.map_append, List.map_cons, List.map_nil, List.append_assoc] at this
    rw [List.append_assoc, this]
    simp [List.length_cons, Nat.add_assoc, Nat.add_comm 1]

theorem hdr_valset : ∃ (c : Container), c = { names := valsetHdrNames, fields := [u1 0, u1 1, u1 0, u1 0] } ∧
    ((Py.Valget.Container.add {} ("version", none) (.item (Py.ItemObj.ofKind (.uint 1) (.int 0)))) >>= fun st =>
     (Py.Valget.Container.add st ("layer", none) (.item (Py.ItemObj.ofKind (.uint 1) (.int 0)))) >>= fun st =>
     (Py.Valget.Container.add st ("res0", none) (.item (Py.ItemObj.ofKind (.uint 1) (.int 0)))) >>= fun st =>
     (Py.Valget.Container.add st ("res1", none) (.item (Py.ItemObj.ofKind (.uint 1) (.int 0)))) >>= fun st =>
     (Except.ok (Py.Valget.Container.assign (Py.Valget.Container.assign st ("version", none) 0) ("layer", none) 1) : Except Exc Container)) = .ok c :=
  ⟨_, rfl, by rfl⟩

/-- **`UbxCfgValSetAction(items)` as the source has it**: `AssertionError` for no item or more than 64; otherwise a container with
    `version = 0`, `layer = 1`, `res0 = res1 = 0` and the items in the order given, under the names `data0`, `data1`, … -/
theorem valset_init (cs : List CfgItem) :
    (1 ≤ cs.length ∧ cs.length ≤ 64 → Gen.Src.Valset.UbxCfgValSetAction.init cs =
        .ok { names := valsetHdrNames ++ dataNames' cs.length, fields := [u1 0, u1 1, u1 0, u1 0] ++ cs.map Field.cfg }) ∧
    (¬ (1 ≤ cs.length ∧ cs.length ≤ 64) → Gen.Src.Valset.UbxCfgValSetAction.init cs = .error .assertionError) := by
  unfold Gen.Src.Valset.UbxCfgValSetAction.init
  constructor
  · rintro ⟨h1, h2⟩
    have d1 : (!decide (cs.length ≥ 1)) = false := by simp; omega
    have d2 : (!decide (cs.length ≤ 64)) = false := by simp; omega
    simp only [d1, d2, Bool.false_eq_true, if_false]
    show (Py.Valget.forEnumFrom (fun item cfgkey st =>
        (Py.Valget.Container.add st ("data", some item) (.cfg cfgkey)) >>= fun st => .ok st) 0 cs
      { names := valsetHdrNames ++ dataNames' 0, fields := [u1 0, u1 1, u1 0, u1 0] ++ ([] : List CfgItem).map Field.cfg } >>= fun st => .ok st) = _
    rw [valset_loop [u1 0, u1 1, u1 0, u1 0] cs 0 []]
    simp
    rfl
  · intro h
    by_cases h1 : cs.length ≥ 1
    · have h2 : ¬ cs.length ≤ 64 := fun h2 => h ⟨h1, h2⟩
      have d1 : (!decide (cs.length ≥ 1)) = false := by simp; omega
      have d2 : (!decide (cs.length ≤ 64)) = true := by simp; omega
      simp only [d1, d2, Bool.false_eq_true, if_false, if_true]
    · have d1 : (!decide (cs.length ≥ 1)) = true := by simp at h1 ⊢; omega
      simp only [d1, if_true]

/-- **`UbxCfgValSetAction(items).pack()` as the source has it is the model's `valsetPayload`** -/
theorem valset_pack (cs : List CfgItem) :
    Gen.Src.Valset.Fields.pack ([u1 0, u1 1, u1 0, u1 0] ++ cs.map Field.cfg) =
      (valsetPayload cs >>= fun bs => .ok (bs, [u1 0, u1 1, u1 0, u1 0] ++ cs.map Field.cfg)) := by
  rw [pack_eq, forFields_append]
  have hh : forFields [u1 0, u1 1, u1 0, u1 0] ([] : List Nat) packBody = .ok ([0, 1, 0, 0], [u1 0, u1 1, u1 0, u1 0]) := by
    simp only [forFields, u1, pack_uint 1 (Or.inl rfl)]
    rfl
  rw [hh, bind_ok]
  simp only [pack_cfgs, valsetPayload]
  cases packItems cs with
  | error e => rfl
  | ok b => rfl

/-! ### VALGET poll -/

theorem poll_loop (hdrF : List Field) : ∀ (ks : List Int) (i : Nat) (done : List Int),
    Py.Valget.forEnumFrom (fun item cfgkey st =>
        let key : Py.ItemObj := Py.ItemObj.ofKind (.uint 4) (.int 0)
        let key := { key with value := .int cfgkey }
        (Py.Valget.Container.add st ("key", some item) (.item key)) >>= fun st => .ok st) i ks
      { names := pollHdrNames ++ keyNames i, fields := hdrF ++ done.map u4 } =
    .ok { names := pollHdrNames ++ keyNames (i + ks.length), fields := hdrF ++ (done ++ ks).map u4 } := by
  intro ks
  induction ks with
  | nil => intro i done; simp [Py.Valget.forEnumFrom]
  | cons k ks ih =>
    intro i done
    rw [Py.Valget.forEnumFrom]
    simp only [keyNames]
    rw [add_fresh pollHdrNames "key" i _ _ (by simp [pollHdrNames]), bind_ok, bind_ok]
    have := ih (i + 1) (done ++ [k])
    simp only [keyNames, List.map_append, List.map_cons, List.map_nil, List.append_assoc] at this
    rw [List.append_assoc]
    show Py.Valget.forEnumFrom _ (i + 1) ks ({ names := _, fields := hdrF ++ (List.map u4 done ++ [u4 k]) } : Container) = _
    rw [this]
    simp [List.length_cons, Nat.add_assoc, Nat.add_comm 1]

/-- **`UbxCfgValGetPoll(keys)` as the source has it**: `AssertionError` for no key or more than 64; otherwise `version = 0`,
    `layer = 0`, `position = 0` and one `U4` per key, in order, under the names `key0`, `key1`, … -/
theorem poll_init (ks : List Int) :
    (1 ≤ ks.length ∧ ks.length ≤ 64 → Gen.Src.Valset.UbxCfgValGetPoll.init ks =
        .ok { names := pollHdrNames ++ keyNames ks.length, fields := [u1 0, u1 0, u2 0] ++ ks.map u4 }) ∧
    (¬ (1 ≤ ks.length ∧ ks.length ≤ 64) → Gen.Src.Valset.UbxCfgValGetPoll.init ks = .error .assertionError) := by
  unfold Gen.Src.Valset.UbxCfgValGetPoll.init
  constructor
  · rintro ⟨h1, h2⟩
    have d1 : (!decide (ks.length ≥ 1)) = false := by simp; omega
    have d2 : (!decide (ks.length ≤ 64)) = false := by simp; omega
    simp only [d1, d2, Bool.false_eq_true, if_false]
    show (Py.Valget.forEnumFrom (fun item cfgkey st =>
        let key : Py.ItemObj := Py.ItemObj.ofKind (.uint 4) (.int 0)
        let key := { key with value := .int cfgkey }
        (Py.Valget.Container.add st ("key", some item) (.item key)) >>= fun st => .ok st) 0 ks
      { names := pollHdrNames ++ keyNames 0, fields := [u1 0, u1 0, u2 0] ++ ([] : List Int).map u4 } >>= fun st => .ok st) = _
    rw [poll_loop [u1 0, u1 0, u2 0] ks 0 []]
    simp
    rfl
  · intro h
    by_cases h1 : ks.length ≥ 1
    · have h2 : ¬ ks.length ≤ 64 := fun h2 => h ⟨h1, h2⟩
      have d1 : (!decide (ks.length ≥ 1)) = false := by simp; omega
      have d2 : (!decide (ks.length ≤ 64)) = true := by simp; omega
      simp only [d1, d2, Bool.false_eq_true, if_false, if_true]
    · have d1 : (!decide (ks.length ≥ 1)) = true := by simp at h1 ⊢; omega
      simp only [d1, if_true]

theorem pack_u4s (ks : List Int) (acc : List Nat) :
    forFields (ks.map u4) acc packBody = (ks.mapM (packU 4) >>= fun bs => .ok (acc ++ bs.flatten, ks.map u4)) := by
  induction ks generalizing acc with
  | nil => simp [forFields, bind_ok, pure, Except.pure]
  | cons k ks ih =>
    simp only [List.map_cons, forFields, u4, pack_uint 4 (Or.inr (Or.inr (Or.inl rfl))), List.mapM_cons]
    generalize packU 4 k = r
    cases r with
    | error e => rfl
    | ok b =>
      simp only [bind_ok]
      have := ih (acc ++ b)
      rw [this]
      generalize List.mapM (packU 4) ks = rs
      cases rs with
      | error e => rfl
      | ok bs =>
        simp only [bind_ok, pure, Except.pure, List.flatten_cons, List.append_assoc]

/-- **`UbxCfgValGetPoll(keys).pack()` as the source has it is the model's `valgetPollPayload`** -/
theorem poll_pack (ks : List Int) :
    Gen.Src.Valset.Fields.pack ([u1 0, u1 0, u2 0] ++ ks.map u4) =
      (valgetPollPayload ks >>= fun bs => .ok (bs, [u1 0, u1 0, u2 0] ++ ks.map u4)) := by
  rw [pack_eq, forFields_append]
  have hh : forFields [u1 0, u1 0, u2 0] ([] : List Nat) packBody = .ok ([0, 0, 0, 0], [u1 0, u1 0, u2 0]) := by
    simp only [forFields, u1, u2, pack_uint 1 (Or.inl rfl), pack_uint 2 (Or.inr (Or.inl rfl))]
    rfl
  rw [hh, bind_ok]
  simp only [pack_u4s, valgetPollPayload]
  generalize List.mapM (packU 4) ks = rs
  cases rs with
  | error e => rfl
  | ok bs => rfl

end SrcEquiv

import UbxModel.Gen.SrcStr
/-! The base renderers as `tools/pysrc2lean_str.py` generates them from `ubxlib/types.py` and `ubxlib/frame.py` (`Gen.Src.Str.*`): the
    first clause of C19 - "str() of any frame returns text containing the message name and the name of every non-reserved field,
    without raising" - proved of the source, for every frame class, every number of fields and every value:

    * `frame_str_names`: whenever `UbxFrame.__str__` returns, its text holds the message name and, for every item that is no
      `Padding`, the item's name - given that each item's own `__str__` names the item (`item_str_named` for the base class; the
      table-driven overrides begin with the name by `src_renderers_total`, TransferRender.lean);
    * `frame_str_total`: it returns whenever the `__str__` of every item that is no padding does (`item_str_total` for the base
      class: every value without a format specification, every integer under `02x` / `04x` / `08x` / `016x`). -/
namespace SrcEquiv
open Ubx Py Py.Str
set_option linter.unusedSimpArgs false

/-- `a` occurs in `b` -/
def Occurs (a b : String) : Prop := ∃ pre post : List Char, b.toList = pre ++ a.toList ++ post

theorem occurs_append_left (a b c : String) (h : Occurs a b) : Occurs a (c ++ b) := by
  obtain ⟨pre, post, hb⟩ := h
  exact ⟨c.toList ++ pre, post, by simp [String.toList_append, hb]⟩

theorem occurs_append_right (a b c : String) (h : Occurs a b) : Occurs a (b ++ c) := by
  obtain ⟨pre, post, hb⟩ := h
  exact ⟨pre, post ++ c.toList, by simp [String.toList_append, hb]⟩

theorem occurs_prefix (a c : String) : Occurs a (a ++ c) := ⟨[], c.toList, by simp [String.toList_append]⟩

theorem sbind_ok {α β : Type} (x : α) (f : α → Except Exc β) : ((Except.ok x : Except Exc α) >>= f) = f x := rfl

/-- **`Item.__str__` as the source has it names the item**, whenever it returns -/
theorem item_str_named (o : Obj) (t : String) (h : Gen.Src.Str.Item.__str__ o = .ok t) : Occurs o.name t := by
  unfold Gen.Src.Str.Item.__str__ at h
  cases hf : o.fmt_string with
  | none =>
    rw [hf] at h
    injection h with h
    rw [← h, String.append_assoc]
    exact occurs_prefix _ _
  | some spec =>
    rw [hf] at h
    cases hs : fmtSpec o.value spec with
    | error e => simp [hs] at h; cases h
    | ok s =>
      simp only [hs, sbind_ok] at h
      injection h with h
      rw [← h, String.append_assoc]
      exact occurs_prefix _ _

/-- … and returns for every integer value under the specifications the library's classes carry, and for every value without one -/
theorem item_str_total (o : Obj) (h : ∀ spec, o.fmt_string = some spec → (∃ z, o.value = .int z) ∧ (spec = "02x" ∨ spec = "04x" ∨ spec = "08x" ∨ spec = "016x")) :
    ∃ t, Gen.Src.Str.Item.__str__ o = .ok t := by
  unfold Gen.Src.Str.Item.__str__
  cases hf : o.fmt_string with
  | none => exact ⟨_, rfl⟩
  | some spec =>
    obtain ⟨⟨z, hz⟩, hs⟩ := h spec hf
    simp only [hz, fmtSpec]
    rcases hs with rfl | rfl | rfl | rfl <;> exact ⟨_, rfl⟩

/-- the loop of `Fields.__str__`: what was there stays in front, and every item that is no padding is named in what is added -/
theorem fields_loop (strOf : Obj → Except Exc String) (hn : ∀ v t, strOf v = .ok t → Occurs v.name t) :
    ∀ (items : List Obj) (res text : String),
      forItems items res (fun v res => if !v.isPadding then (strOf v) >>= fun t1 => .ok (res ++ "\n  " ++ t1) else .ok res) = .ok text →
      ∃ more : String, text = res ++ more ∧ ∀ v ∈ items, v.isPadding = false → Occurs v.name more := by
  intro items
  induction items with
  | nil =>
    intro res text h
    simp only [forItems] at h
    injection h with h
    exact ⟨"", by simp [h], by simp⟩
  | cons v rest ih =>
    intro res text h
    simp only [forItems] at h
    by_cases hp : v.isPadding = true
    · simp only [hp, Bool.not_true, Bool.false_eq_true, if_false, sbind_ok] at h
      obtain ⟨more, h1, h2⟩ := ih res text h
      refine ⟨more, h1, fun w hw hwp => ?_⟩
      rcases List.mem_cons.mp hw with rfl | hw
      · simp [hp] at hwp
      · exact h2 w hw hwp
    · have hp' : v.isPadding = false := by simpa using hp
      simp only [hp', Bool.not_false, if_true] at h
      cases hs : strOf v with
      | error e => simp [hs] at h; cases h
      | ok t =>
        simp only [hs, sbind_ok] at h
        obtain ⟨more, h1, h2⟩ := ih _ text h
        refine ⟨"\n  " ++ t ++ more, by rw [h1]; simp [String.append_assoc], fun w hw hwp => ?_⟩
        rcases List.mem_cons.mp hw with rfl | hw
        · exact occurs_append_right _ _ _ (occurs_append_left _ _ _ (hn _ t hs))
        · exact occurs_append_left _ _ _ (h2 w hw hwp)

/-- **C19, first clause, at the source level**: whenever `str(frame)` returns, the text holds the message name and the name of every
    field that is no padding - for every frame class, every number of fields, every value -/
theorem frame_str_names (strOf : Obj → Except Exc String) (hn : ∀ v t, strOf v = .ok t → Occurs v.name t)
    (name cid : String) (items : List Obj) (text : String) (h : Gen.Src.Str.UbxFrame.__str__ strOf name cid items = .ok text) :
    Occurs name text ∧ ∀ v ∈ items, v.isPadding = false → Occurs v.name text := by
  unfold Gen.Src.Str.UbxFrame.__str__ Gen.Src.Str.Fields.__str__ at h
  cases hf : forItems items "" (fun v res => if !v.isPadding then (strOf v) >>= fun t1 => .ok (res ++ "\n  " ++ t1) else .ok res) with
  | error e => rw [hf] at h; cases h
  | ok ft =>
    rw [hf, sbind_ok] at h
    injection h with h
    obtain ⟨more, h1, h2⟩ := fields_loop strOf hn items "" ft hf
    rw [← h]
    refine ⟨?_, fun v hv hp => ?_⟩
    · rw [String.append_assoc, String.append_assoc]; exact occurs_prefix _ _
    · apply occurs_append_left
      rw [h1]
      exact occurs_append_left _ _ _ (h2 v hv hp)

/-- … and it returns whenever the text of every field that is no padding does -/
theorem frame_str_total (strOf : Obj → Except Exc String) (name cid : String) (items : List Obj)
    (ht : ∀ v ∈ items, v.isPadding = false → ∃ t, strOf v = .ok t) :
    ∃ text, Gen.Src.Str.UbxFrame.__str__ strOf name cid items = .ok text := by
  unfold Gen.Src.Str.UbxFrame.__str__ Gen.Src.Str.Fields.__str__
  have key : ∀ (its : List Obj) (res : String), (∀ v ∈ its, v.isPadding = false → ∃ t, strOf v = .ok t) →
      ∃ ft, forItems its res (fun v res => if !v.isPadding then (strOf v) >>= fun t1 => .ok (res ++ "\n  " ++ t1) else .ok res) = .ok ft := by
    intro its
    induction its with
    | nil => intro res _; exact ⟨res, rfl⟩
    | cons v rest ih =>
      intro res hh
      simp only [forItems]
      by_cases hp : v.isPadding = true
      · simp only [hp, Bool.not_true, Bool.false_eq_true, if_false, sbind_ok]
        exact ih res (fun w hw => hh w (by simp [hw]))
      · have hp' : v.isPadding = false := by simpa using hp
        obtain ⟨t, hs⟩ := hh v (by simp) hp'
        simp only [hp', Bool.not_false, if_true, hs, sbind_ok]
        exact ih _ (fun w hw => hh w (by simp [hw]))
  obtain ⟨ft, hf⟩ := key items "" ht
  exact ⟨name ++ " " ++ cid ++ ft, by rw [hf, sbind_ok]⟩

/-- the base classes: with `Item.__str__` itself as every item's renderer -/
theorem frame_str_base (name cid : String) (items : List Obj) (text : String)
    (h : Gen.Src.Str.UbxFrame.__str__ Gen.Src.Str.Item.__str__ name cid items = .ok text) :
    Occurs name text ∧ ∀ v ∈ items, v.isPadding = false → Occurs v.name text :=
  frame_str_names _ item_str_named name cid items text h

end SrcEquiv

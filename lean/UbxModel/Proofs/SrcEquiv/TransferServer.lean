import UbxModel.Proofs.SrcEquiv.ServerPoll
import UbxModel.Props.C04
import UbxModel.Props.C05
import UbxModel.Props.C06
import UbxModel.Props.C10
import UbxModel.Props.C12
/-! Headline theorems of C04, C05, C06, C10 and C12 restated for the definitions that `tools/pysrc2lean_server.py`
    generates from `ubxlib/server_base.py` (`Gen.Src.Server.*`): what is said about the model's `Srv.set` / `setMga` /
    `poll` holds of what the source says now, as long as `Proofs/SrcEquiv/Server*.lean` check.  In particular every
    request *returns* - no exception leaves it and no loop exhausts the iterations the translator allotted to it. -/
namespace SrcEquiv
open Ubx Spec C06

/-- **C05 at the source level, `set()`**: the generated definition returns (`.ok`: no exception, no loop out of fuel)
    within `(retries+1)·(delay+T)` ticks after at most `retries+1` transmissions of the same bytes -/
theorem src_set_returns_bounded (env : Env) (sv : Py.Server) (T : Nat) (hT : env.rxBound T) (req : Req) :
    let r := Gen.Src.Server.«set» env sv req
    (∃ v, r.1 = .ok v) ∧
    r.2.lg.now - sv.lg.now ≤ (sv.retries + 1) * (sv.delay + T) ∧
    (∃ k, k ≤ sv.retries + 1 ∧ r.2.lg.sent = sv.lg.sent ++ List.replicate k req.wire) := by
  simp only [srv_set]
  have h := C05.set_bounded (srvOf sv) env T hT sv.lg req
  exact ⟨⟨_, rfl⟩, h.1, h.2.1⟩

theorem src_set_mga_returns_bounded (env : Env) (sv : Py.Server) (T : Nat) (hT : env.rxBound T) (req : Req)
    (hc : req.cid.cls = 0x13) :
    let r := Gen.Src.Server.set_mga env sv req
    (∃ v, r.1 = .ok v) ∧
    r.2.lg.now - sv.lg.now ≤ (sv.retries + 1) * (sv.delay + T) ∧
    (∃ k, k ≤ sv.retries + 1 ∧ r.2.lg.sent = sv.lg.sent ++ List.replicate k req.wire) := by
  simp only [srv_set_mga env sv req hc]
  have h := C05.setMga_bounded (srvOf sv) env T hT sv.lg req
  exact ⟨⟨_, rfl⟩, h.1, h.2.1⟩

/-- **C05 at the source level, `poll()`**: two waiting periods per attempt at most -/
theorem src_poll_returns_bounded (env : Env) (sv : Py.Server) (T : Nat) (hT : env.rxBound T) (req : Req) :
    let r := Gen.Src.Server.poll env sv req
    (∃ v, r.1 = .ok v) ∧
    r.2.lg.now - sv.lg.now ≤ (sv.retries + 1) * (2 * (sv.delay + T)) ∧
    (∃ k, k ≤ sv.retries + 1 ∧ r.2.lg.sent = sv.lg.sent ++ List.replicate k req.wire) := by
  simp only [srv_poll]
  have h := C05.poll_bounded (srvOf sv) env T hT sv.lg req
  exact ⟨⟨_, rfl⟩, h.1, h.2.2.1⟩

/-- **C04 at the source level, `set()`**: what the generated `set` returns is an acknowledgement of *this* request,
    decoded by the registered class, out of bytes received after a transmission of this request -/
theorem src_set_result (env : Env) (henv : ∀ j, Bytes (env.rx j).2) (sv : Py.Server) (req : Req) (f : RFrame)
    (h : (Gen.Src.Server.«set» env sv req).1 = .ok (some f)) :
    ((f.cid = ackCid ∧ ackNames f = some ((req.cid.cls : Int), (req.cid.id : Int))) ∨ f.cid = nakCid) ∧
    sv.reg.build f.cid f.payload = some f ∧
    (∃ j0 m pre post, j0 + m = (Gen.Src.Server.«set» env sv req).2.lg.nRx ∧
      rxBytes env j0 m = pre ++ wire f.cid.cls f.cid.id f.payload ++ post ∧ f.payload.length ≤ 1000) ∧
    sv.lg.sent.length < (Gen.Src.Server.«set» env sv req).2.lg.sent.length := by
  rw [srv_set] at h ⊢
  have hf : ((srvOf sv).set env sv.lg req).1 = some f := by simpa using h
  exact C04.set_returns (srvOf sv) env henv sv.lg req f hf

/-- **C04 at the source level, `poll()`** -/
theorem src_poll_result (env : Env) (henv : ∀ j, Bytes (env.rx j).2) (sv : Py.Server) (req : Req) (f : RFrame)
    (h : (Gen.Src.Server.poll env sv req).1 = .ok (some f)) :
    ((srvOf sv).poll env sv.lg req).1 = some f := by
  rw [srv_poll] at h
  simpa using h

/-- **C06 at the source level, `set()`**: `k` failed attempts, then the answer in time ⇒ returned after exactly `k+1`
    transmissions of the same bytes -/
theorem src_set_kth (env : Env) (sv : Py.Server) (req : Req) (f : RFrame) (k : Nat) (hk : k ≤ sv.retries)
    (h : SetFailsThen env sv.reg sv.delay req (SetAnswered env sv.reg sv.delay req f) k
      (sv.parser.setFilters [ackCid, nakCid]) sv.lg) :
    (Gen.Src.Server.«set» env sv req).1 = .ok (some f) ∧
    (Gen.Src.Server.«set» env sv req).2.lg.sent = sv.lg.sent ++ List.replicate (k + 1) req.wire := by
  rw [srv_set]
  have := C06.set (srvOf sv) env sv.lg req f k hk h
  exact ⟨by rw [this.1], this.2⟩

/-- **C10 at the source level**: the outcome of the generated `set` does not depend on what the parser object held -/
theorem src_set_like_fresh (env : Env) (sv : Py.Server) (req : Req) :
    (Gen.Src.Server.«set» env sv req).1 = (Gen.Src.Server.«set» env { sv with parser := {} } req).1 ∧
    (Gen.Src.Server.«set» env sv req).2.lg = (Gen.Src.Server.«set» env { sv with parser := {} } req).2.lg := by
  rw [srv_set, srv_set]
  have := C10.set_like_fresh (srvOf sv) env sv.lg req
  exact ⟨by simp only [srvOf] at this ⊢; rw [this.1], by simp only [srvOf] at this ⊢; exact this.2⟩

theorem src_poll_like_fresh (env : Env) (sv : Py.Server) (req : Req) :
    (Gen.Src.Server.poll env sv req).1 = (Gen.Src.Server.poll env { sv with parser := {} } req).1 ∧
    (Gen.Src.Server.poll env sv req).2.lg = (Gen.Src.Server.poll env { sv with parser := {} } req).2.lg := by
  rw [srv_poll, srv_poll]
  have := C10.poll_like_fresh (srvOf sv) env sv.lg req
  exact ⟨by simp only [srvOf] at this ⊢; rw [this.1], by simp only [srvOf] at this ⊢; exact this.2⟩

/-- **C12 at the source level**: every transmission of a generated request is the canonical wire form of the frame -/
theorem src_poll_all_same (env : Env) (sv : Py.Server) (req : Req) :
    ∃ k, k ≤ sv.retries + 1 ∧ (Gen.Src.Server.poll env sv req).2.lg.sent = sv.lg.sent ++ List.replicate k req.wire := by
  rw [srv_poll]
  exact C12.poll_all_same (srvOf sv) env sv.lg req

end SrcEquiv

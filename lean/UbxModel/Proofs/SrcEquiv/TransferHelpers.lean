import UbxModel.Proofs.SrcEquiv.Helpers
import UbxModel.Props.C17
/-! Headline theorems of C17 restated for the definitions that `tools/pysrc2lean_helpers.py` generates from the message classes
    (`Gen.Src.Helpers.*`), on the field container of a decoded UBX-CFG-GNSS / UBX-CFG-ESFLA frame. -/
namespace SrcEquiv
open Ubx Py

/-- **C17 at the source level, `enable_gnss`**: on the fields of a decoded frame with any blocks, the generated method returns
    normally and leaves the fields of a block list in which only bit 0 of the flags of the first block with that `gnssId` is set - and
    nothing at all is changed when there is no such block -/
theorem src_enable_gnss_spec (h : Int × Int × Int) (bs : List GnssBlock) (sys : Nat) (hs : sys ≤ 7) :
    ∃ bs', Gen.Src.Helpers.UbxCfgGnss.enable_gnss (gnssStore h bs) sys = .ok ((), gnssStore h bs') ∧ bs'.length = bs.length ∧
      (∀ pos, findEntry bs sys = some pos → ∀ j (hj : j < bs.length) (hj' : j < bs'.length),
        bs'[j] = if j = pos then { bs[j] with flags := bs[j].flags ||| 1 } else bs[j]) ∧
      (findEntry bs sys = none → bs' = bs) := by
  obtain ⟨a, b, c⟩ := C17.enable_spec bs sys
  exact ⟨enableGnss bs sys, h_enable_gnss h bs sys hs, a, b, c⟩

theorem src_disable_gnss_spec (h : Int × Int × Int) (bs : List GnssBlock) (sys : Nat) (hs : sys ≤ 7) :
    ∃ bs', Gen.Src.Helpers.UbxCfgGnss.disable_gnss (gnssStore h bs) sys = .ok ((), gnssStore h bs') ∧ bs'.length = bs.length ∧
      (∀ pos, findEntry bs sys = some pos → ∀ j (hj : j < bs.length) (hj' : j < bs'.length),
        bs'[j] = if j = pos then { bs[j] with flags := bs[j].flags - bs[j].flags % 2 } else bs[j]) ∧
      (findEntry bs sys = none → bs' = bs) := by
  obtain ⟨a, b, c⟩ := C17.disable_spec bs sys
  exact ⟨disableGnss bs sys, h_disable_gnss h bs sys hs, a, b, c⟩

/-- **C17 at the source level, the lever-arm query**: the first block of the requested type, or nothing -/
theorem src_lever_arm_first (version : Int) (arms : List (Nat × Int × Int × Int)) (ty : Nat) :
    Gen.Src.Helpers.UbxCfgEsfla.lever_arm (esflaStore version arms) ty =
      .ok ((arms.find? (fun a => a.1 == ty)).map (·.2), esflaStore version arms) :=
  h_lever_arm version arms ty

end SrcEquiv

import UbxModel.Proofs.SrcEquiv.UbxParser
import UbxModel.Props.C02
/-! The refinement theorem behind C02 / C03 / C09 / C11 restated for the definitions that `tools/pysrc2lean.py`
    generated from `ubxlib/parser_ubx.py` on this run. -/
namespace SrcEquiv
open Ubx Spec

theorem src_process_chunks (p : Parser) (chunks : List (List Nat)) :
    chunks.foldl Gen.Src.UbxParser.process p = chunks.foldl Parser.process p := by
  congr 1; funext q s; exact ubx_process q s

/-- `UbxParser.process` as written in `ubxlib/parser_ubx.py`: for every byte string, chunking and filter the queue is
    what the whole-stream reference scanner prescribes and `frames_rx` its number of valid frames -/
theorem src_parser_refines_scanner (f : Option (List Cid)) (s : List Nat) (hs : Bytes s) (chunks : List (List Nat))
    (hc : chunks.flatten = s) :
    (chunks.foldl Gen.Src.UbxParser.process (Parser.fresh f)).queue = evPackets f (scan 1000 s) ∧
    (chunks.foldl Gen.Src.UbxParser.process (Parser.fresh f)).framesRx = evGood (scan 1000 s) := by
  rw [src_process_chunks]; exact C02.refines_reference_scanner f s hs chunks hc

end SrcEquiv

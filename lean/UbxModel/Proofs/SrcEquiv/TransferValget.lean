import UbxModel.Proofs.SrcEquiv.Valget
import UbxModel.Proofs.ValgetRoundtrip
/-! C14's clauses about a decoded UBX-CFG-VALGET response restated for the definition generated from `ubxlib/ubx_cfg_valget.py`. -/
namespace SrcEquiv
open Ubx Py Spec
variable [KeyTable]

/-- **the decoding loop ends by itself**: whatever the payload, `UbxCfgValGet.unpack` returns a container or raises one of the
    library's exceptions - it never needs more passes than there are bytes -/
theorem src_valget_terminates (data : List Nat) : Gen.Src.Valget.unpack data ≠ .error .outOfFuel := by
  obtain ⟨ok, er⟩ := valget_unpack data
  cases h : valgetDecode data with
  | error e => rw [er e h]; intro hh; cases hh
  | ok r =>
    obtain ⟨v, l, p, items⟩ := r
    obtain ⟨st, hs, _⟩ := ok v l p items h
    rw [hs]; intro hh; cases hh

/-- **C14, VALGET dichotomy at the source level**: on a payload of bytes with its four header bytes there, the generated method
    returns a container or raises `ValueError` - never another exception -/
theorem src_valget_dichotomy (data : List Nat) (hb : Bytes data) (h4 : 4 ≤ data.length) :
    Gen.Src.Valget.unpack data = .error (.exc .valueError) ∨ ∃ st, Gen.Src.Valget.unpack data = .ok st := by
  obtain ⟨ok, er⟩ := valget_unpack data
  have hd : ∀ r, valgetDecode data = r → r = .error .valueError ∨ ∃ x, r = .ok x := by
    intro r hr
    unfold valgetDecode at hr
    have e1 : unpackU 1 data = .ok (leVal (data.take 1)) := by
      unfold unpackU; rw [if_neg (by omega)]
    have e2 : unpackU 1 (data.drop 1) = .ok (leVal ((data.drop 1).take 1)) := by
      unfold unpackU; rw [if_neg (by simp; omega)]
    have e3 : unpackU 2 (data.drop 2) = .ok (leVal ((data.drop 2).take 2)) := by
      unfold unpackU; rw [if_neg (by simp; omega)]
    rw [e1, e2, e3] at hr
    simp only [bind_ok] at hr
    rcases C14.valget_dichotomy data.length (data.drop 4) (fun b hbm => hb b (List.mem_of_mem_drop hbm)) with he | ⟨items, hi⟩
    · rw [he] at hr; left; rw [← hr]; rfl
    · rw [hi] at hr; right; exact ⟨_, hr.symm⟩
  rcases hd _ rfl with he | ⟨⟨v, l, p, items⟩, hx⟩
  · left; exact er _ he
  · right
    obtain ⟨st, hs, _⟩ := ok v l p items hx
    exact ⟨st, hs⟩

/-- **C14 / C08, decode then encode, at the source level**: the items the generated method leaves in the container pack - pair by
    pair, in payload order - to the key id with its reserved bits cleared followed by the original value bytes; 1-3 trailing bytes
    are dropped -/
theorem src_valget_reencode (data : List Nat) (hb : Bytes data) (st : Gen.Src.Valget.unpack.St)
    (h : Gen.Src.Valget.unpack data = .ok st) : packItems st.pairs = .ok (valgetCanon data.length (data.drop 4)) := by
  obtain ⟨ok, er⟩ := valget_unpack data
  cases hd : valgetDecode data with
  | error e => rw [er e hd] at h; cases h
  | ok r =>
    obtain ⟨v, l, p, items⟩ := r
    obtain ⟨st', hs, hp, _⟩ := ok v l p items hd
    rw [hs] at h
    cases h
    rw [hp]
    unfold valgetDecode at hd
    cases h1 : unpackU 1 data with
    | error e => rw [h1, bind_error] at hd; cases hd
    | ok v' =>
      rw [h1, bind_ok] at hd
      cases h2 : unpackU 1 (data.drop 1) with
      | error e => rw [h2, bind_error] at hd; cases hd
      | ok l' =>
        rw [h2, bind_ok] at hd
        cases h3 : unpackU 2 (data.drop 2) with
        | error e => rw [h3, bind_error] at hd; cases hd
        | ok p' =>
          rw [h3, bind_ok] at hd
          cases h4 : valgetItems data.length (data.drop 4) with
          | error e => rw [h4, bind_error] at hd; cases hd
          | ok its =>
            rw [h4, bind_ok] at hd
            have hi : its = items := by injection hd with hd; injection hd with _ hd; injection hd with _ hd; injection hd with _ hd
            subst hi
            exact valget_reencode _ _ (fun b hbm => hb b (List.mem_of_mem_drop hbm)) its h4

/-- non-vacuity: a response with a 16-bit item, a 1-bit item and two stray bytes decodes to two items named data0, data1 -/
example : (match @Gen.Src.Valget.unpack publishedTable [0, 0, 0, 0, 0x01, 0x00, 0x21, 0x30, 0xE8, 0x03, 0x1F, 0x00, 0x31, 0x10, 0x01, 0xAA, 0xBB] with
    | .ok st => (st.pairs.map (·.value), st.names.drop 3) | .error _ => ([], [])) = ([1000, 1], [("data", some 0), ("data", some 1)]) := by
  decide +kernel

end SrcEquiv

import UbxModel.Proofs.SrcEquiv.HelpersBasic
namespace SrcEquiv
open Ubx Py
set_option linter.unusedSimpArgs false

/-- the fields of the configuration blocks `bs` of a decoded UBX-CFG-GNSS frame, numbered from `o` -/
def gnssBlockFields : Nat → List GnssBlock → Store
  | _, [] => []
  | o, b :: r =>
    [(("gnssId_", some o), (b.gnssId : Int)), (("resTrkCh_", some o), (b.resTrkCh : Int)), (("maxTrkCh_", some o), (b.maxTrkCh : Int)),
     (("res1_", some o), 0), (("flags_", some o), (b.flags : Int))] ++ gnssBlockFields (o + 1) r

/-- the field container of a decoded UBX-CFG-GNSS frame with header values `h` and blocks `bs` -/
def gnssStore (h : Int × Int × Int) (bs : List GnssBlock) : Store :=
  [(("msgVer", none), h.1), (("numTrkChHw", none), h.2.1), (("numTrkChUse", none), h.2.2), (("numConfigBlocks", none), (bs.length : Int))]
    ++ gnssBlockFields 0 bs

theorem bok {α β : Type} (x : α) (f : α → Except Exc β) : ((Except.ok x : Except Exc α) >>= f) = f x := rfl

theorem block_index_ge (o : Nat) (bs : List GnssBlock) :
    ∀ e ∈ gnssBlockFields o bs, ∃ j, o ≤ j ∧ e.1.2 = some j := by
  induction bs generalizing o with
  | nil => intro e he; simp [gnssBlockFields] at he
  | cons b r ih =>
    intro e he
    simp only [gnssBlockFields, List.cons_append, List.nil_append, List.mem_cons] at he
    rcases he with rfl | rfl | rfl | rfl | rfl | he
    · exact ⟨o, Nat.le_refl _, rfl⟩
    · exact ⟨o, Nat.le_refl _, rfl⟩
    · exact ⟨o, Nat.le_refl _, rfl⟩
    · exact ⟨o, Nat.le_refl _, rfl⟩
    · exact ⟨o, Nat.le_refl _, rfl⟩
    · obtain ⟨j, hj, hej⟩ := ih (o + 1) e he
      exact ⟨j, by omega, hej⟩

theorem find_block_field (tag : String) (o i : Nat) (bs : List GnssBlock) :
    (gnssBlockFields o bs).find? (fun e => e.1 == (tag, some (o + i))) =
      (match bs[i]? with
       | some b =>
         if tag = "gnssId_" then some ((tag, some (o + i)), (b.gnssId : Int))
         else if tag = "resTrkCh_" then some ((tag, some (o + i)), (b.resTrkCh : Int))
         else if tag = "maxTrkCh_" then some ((tag, some (o + i)), (b.maxTrkCh : Int))
         else if tag = "res1_" then some ((tag, some (o + i)), 0)
         else if tag = "flags_" then some ((tag, some (o + i)), (b.flags : Int))
         else none
       | none => none) := by
  induction bs generalizing o i with
  | nil => simp [gnssBlockFields]
  | cons b r ih =>
    cases i with
    | zero =>
      simp only [gnssBlockFields, Nat.add_zero, List.getElem?_cons_zero]
      by_cases h1 : tag = "gnssId_"
      · subst h1; simp
      by_cases h2 : tag = "resTrkCh_"
      · subst h2; simp
      by_cases h3 : tag = "maxTrkCh_"
      · subst h3; simp
      by_cases h4 : tag = "res1_"
      · subst h4; simp
      by_cases h5 : tag = "flags_"
      · subst h5; simp
      simp [h1, h2, h3, h4, h5, Ne.symm h1, Ne.symm h2, Ne.symm h3, Ne.symm h4, Ne.symm h5, List.find?_cons]
      intro a b' v hmem _ hb
      obtain ⟨j, hj, hej⟩ := block_index_ge (o + 1) r _ hmem
      simp only [] at hej
      rw [hb] at hej
      injection hej with hej
      omega
    | succ k =>
      have hne : ∀ t : String, ((t, some o) == (tag, some (o + (k + 1)))) = false := by
        intro t; simp
      simp only [gnssBlockFields, List.cons_append, List.nil_append, List.find?_cons, hne, List.getElem?_cons_succ]
      have := ih (o + 1) k
      rw [show o + 1 + k = o + (k + 1) by omega] at this
      exact this

theorem item_block_field (h : Int × Int × Int) (bs : List GnssBlock) (tag : String) (i : Nat) :
    (gnssStore h bs).find? (fun e => e.1 == (tag, some i)) = (gnssBlockFields 0 bs).find? (fun e => e.1 == (tag, some i)) := by
  simp [gnssStore, List.find?_cons]

theorem item_gnssId (h : Int × Int × Int) (bs : List GnssBlock) (i : Nat) (hi : i < bs.length) :
    Store.item (gnssStore h bs) ("gnssId_", some i) = .ok (bs[i].gnssId : Int) := by
  have := find_block_field "gnssId_" 0 i bs
  simp only [Nat.zero_add] at this
  simp [Store.item, item_block_field, this, List.getElem?_eq_getElem hi]

theorem item_flags (h : Int × Int × Int) (bs : List GnssBlock) (i : Nat) (hi : i < bs.length) :
    Store.item (gnssStore h bs) ("flags_", some i) = .ok (bs[i].flags : Int) := by
  have := find_block_field "flags_" 0 i bs
  simp only [Nat.zero_add] at this
  simp [Store.item, item_block_field, this, List.getElem?_eq_getElem hi]

theorem attr_count (h : Int × Int × Int) (bs : List GnssBlock) :
    Store.attr (gnssStore h bs) ("numConfigBlocks", none) = .ok (bs.length : Int) := by
  simp [Store.attr, gnssStore, List.find?_cons]

/-- the search loop of `_find_entry` over the fields of the blocks is the model's `findIdx?` -/
theorem first_index_gnss (h : Int × Int × Int) (all : List GnssBlock) (sys : Nat) : ∀ (k o : Nat), o + k = all.length →
    Py.firstIndexFrom (fun i => Store.item (gnssStore h all) ("gnssId_", some i) >>= fun v => .ok (decide (v = (sys : Int)))) o k =
      .ok (((all.drop o).findIdx? (fun b => b.gnssId == sys)).map (· + o)) := by
  intro k
  induction k with
  | zero =>
    intro o ho
    have : all.drop o = [] := List.drop_eq_nil_of_le (by omega)
    simp [Py.firstIndexFrom, this]
  | succ k ih =>
    intro o ho
    have hlt : o < all.length := by omega
    have hd : all.drop o = all[o] :: all.drop (o + 1) := (List.drop_eq_getElem_cons hlt)
    rw [Py.firstIndexFrom, item_gnssId h all o hlt, hd, List.findIdx?_cons]
    simp only [bok]
    by_cases he : all[o].gnssId = sys
    · simp [he]
    · have hne : ¬ ((all[o].gnssId : Int) = (sys : Int)) := by exact_mod_cast he
      have hb : (all[o].gnssId == sys) = false := by simpa using he
      rw [hb]
      simp only [hne, decide_false, Bool.false_eq_true, if_false]
      rw [ih (o + 1) (by omega)]
      cases (all.drop (o + 1)).findIdx? (fun b => b.gnssId == sys) with
      | none => rfl
      | some j => simp; omega

/-- **`_find_entry(system)` as the source has it is the model's `findEntry`** on the field container of a decoded frame -/
theorem h_find_entry (h : Int × Int × Int) (bs : List GnssBlock) (sys : Nat) (hs : sys ≤ 7) :
    Gen.Src.Helpers.UbxCfgGnss._find_entry (gnssStore h bs) sys = .ok (findEntry bs sys, gnssStore h bs) := by
  have e1 : decide ((0 : Int) ≤ (sys : Int)) = true := by simp
  have e2 : decide ((sys : Int) ≤ (7 : Int)) = true := by simp; omega
  simp only [Gen.Src.Helpers.UbxCfgGnss._find_entry, e1, e2, Bool.and_self, if_true, attr_count, Py.firstIndex, bok, Int.toNat_natCast]
  rw [first_index_gnss h bs sys bs.length 0 (by omega)]
  simp [findEntry, bok]

theorem assign_block_flags (o i : Nat) (bs : List GnssBlock) (v : Nat) :
    Store.assign (gnssBlockFields o bs) ("flags_", some (o + i)) (v : Int) =
      gnssBlockFields o (bs.modify i (fun b => { b with flags := v })) := by
  induction bs generalizing o i with
  | nil => simp [gnssBlockFields, Store.assign]
  | cons b r ih =>
    cases i with
    | zero =>
      simp [gnssBlockFields, Store.assign, List.modify_cons]
    | succ k =>
      have hne : ∀ t : String, ((t, some o) == (("flags_", some (o + (k + 1))) : FName)) = false := by
        intro t; simp
      simp only [gnssBlockFields, List.cons_append, List.nil_append, Store.assign, hne, Bool.false_eq_true, if_false, List.modify_succ_cons]
      have := ih (o + 1) k
      rw [show o + 1 + k = o + (k + 1) by omega] at this
      rw [this]

theorem assign_flags (h : Int × Int × Int) (bs : List GnssBlock) (i v : Nat) :
    Store.assign (gnssStore h bs) ("flags_", some i) (v : Int) = gnssStore h (bs.modify i (fun b => { b with flags := v })) := by
  have := assign_block_flags 0 i bs v
  simp only [Nat.zero_add] at this
  simp [gnssStore, Store.assign, this]

theorem lor_one (n : Nat) : n ||| 1 = n - n % 2 + 1 := by
  have h1 : (n ||| 1) / 2 = n / 2 := by rw [Nat.or_div_two]; simp
  have h2 : (n ||| 1) % 2 = 1 := by simp [Nat.or_mod_two_eq_one]
  omega

theorem setBit0_nat (n : Nat) : Py.setBit0 (n : Int) = ((flagsEnable n : Nat) : Int) := by
  simp only [Py.setBit0, flagsEnable, lor_one]
  omega

theorem clearBit0_nat (n : Nat) : Py.clearBit0 (n : Int) = ((flagsDisable n : Nat) : Int) := by
  simp only [Py.clearBit0, flagsDisable]
  omega

/-- **`enable_gnss(system)` as the source has it is the model's `enableGnss`** on the field container of a decoded frame -/
theorem h_enable_gnss (h : Int × Int × Int) (bs : List GnssBlock) (sys : Nat) (hs : sys ≤ 7) :
    Gen.Src.Helpers.UbxCfgGnss.enable_gnss (gnssStore h bs) sys = .ok ((), gnssStore h (enableGnss bs sys)) := by
  have e1 : decide ((0 : Int) ≤ (sys : Int)) = true := by simp
  have e2 : decide ((sys : Int) ≤ (7 : Int)) = true := by simp; omega
  simp only [Gen.Src.Helpers.UbxCfgGnss.enable_gnss, e1, e2, Bool.and_self, if_true, h_find_entry h bs sys hs, bok, enableGnss]
  cases hf : findEntry bs sys with
  | none => rfl
  | some pos =>
    have hlt : pos < bs.length := by
      simp only [findEntry, List.findIdx?_eq_some_iff_getElem] at hf; exact hf.1
    simp only [item_flags h bs pos hlt, bok, Gen.Src.Helpers.X4_Flags.enable, setBit0_nat, assign_flags, modifyAt]
    congr 3
    apply List.ext_getElem (by simp)
    intro j h1 h2
    simp only [List.getElem_modify]
    split
    · rename_i he; subst he; rfl
    · rfl

theorem h_disable_gnss (h : Int × Int × Int) (bs : List GnssBlock) (sys : Nat) (hs : sys ≤ 7) :
    Gen.Src.Helpers.UbxCfgGnss.disable_gnss (gnssStore h bs) sys = .ok ((), gnssStore h (disableGnss bs sys)) := by
  have e1 : decide ((0 : Int) ≤ (sys : Int)) = true := by simp
  have e2 : decide ((sys : Int) ≤ (7 : Int)) = true := by simp; omega
  simp only [Gen.Src.Helpers.UbxCfgGnss.disable_gnss, e1, e2, Bool.and_self, if_true, h_find_entry h bs sys hs, bok, disableGnss]
  cases hf : findEntry bs sys with
  | none => rfl
  | some pos =>
    have hlt : pos < bs.length := by
      simp only [findEntry, List.findIdx?_eq_some_iff_getElem] at hf; exact hf.1
    simp only [item_flags h bs pos hlt, bok, Gen.Src.Helpers.X4_Flags.disable, clearBit0_nat, assign_flags, modifyAt]
    congr 3
    apply List.ext_getElem (by simp)
    intro j h1 h2
    simp only [List.getElem_modify]
    split
    · rename_i he; subst he; rfl
    · rfl

/-- **the presets** are the model's compositions -/
theorem h_gps_glonass (h : Int × Int × Int) (bs : List GnssBlock) :
    Gen.Src.Helpers.UbxCfgGnss.gps_glonass (gnssStore h bs) = .ok ((), gnssStore h (gpsGlonass bs)) := by
  simp only [Gen.Src.Helpers.UbxCfgGnss.gps_glonass, gpsGlonass, GNSS_GPS, GNSS_SBAS, GNSS_GLONASS, GNSS_Galileo, GNSS_BeiDou, GNSS_IMES, GNSS_QZSS]
  rw [show ((0 : Int)) = ((0 : Nat) : Int) from rfl, show ((1 : Int)) = ((1 : Nat) : Int) from rfl, show ((6 : Int)) = ((6 : Nat) : Int) from rfl,
      show ((2 : Int)) = ((2 : Nat) : Int) from rfl, show ((3 : Int)) = ((3 : Nat) : Int) from rfl, show ((4 : Int)) = ((4 : Nat) : Int) from rfl,
      show ((5 : Int)) = ((5 : Nat) : Int) from rfl]
  simp only [h_enable_gnss _ _ _ (by omega : (0 : Nat) ≤ 7), h_enable_gnss _ _ _ (by omega : (1 : Nat) ≤ 7), h_enable_gnss _ _ _ (by omega : (6 : Nat) ≤ 7),
    h_disable_gnss _ _ _ (by omega : (2 : Nat) ≤ 7), h_disable_gnss _ _ _ (by omega : (3 : Nat) ≤ 7), h_disable_gnss _ _ _ (by omega : (4 : Nat) ≤ 7),
    h_disable_gnss _ _ _ (by omega : (5 : Nat) ≤ 7), bok]

theorem h_gps_galileo_beidou (h : Int × Int × Int) (bs : List GnssBlock) :
    Gen.Src.Helpers.UbxCfgGnss.gps_galileo_beidou (gnssStore h bs) = .ok ((), gnssStore h (gpsGalileoBeidou bs)) := by
  simp only [Gen.Src.Helpers.UbxCfgGnss.gps_galileo_beidou, gpsGalileoBeidou, GNSS_GPS, GNSS_SBAS, GNSS_GLONASS, GNSS_Galileo, GNSS_BeiDou, GNSS_IMES, GNSS_QZSS]
  rw [show ((0 : Int)) = ((0 : Nat) : Int) from rfl, show ((1 : Int)) = ((1 : Nat) : Int) from rfl, show ((6 : Int)) = ((6 : Nat) : Int) from rfl,
      show ((2 : Int)) = ((2 : Nat) : Int) from rfl, show ((3 : Int)) = ((3 : Nat) : Int) from rfl, show ((4 : Int)) = ((4 : Nat) : Int) from rfl,
      show ((5 : Int)) = ((5 : Nat) : Int) from rfl]
  simp only [h_enable_gnss _ _ _ (by omega : (0 : Nat) ≤ 7), h_enable_gnss _ _ _ (by omega : (1 : Nat) ≤ 7), h_enable_gnss _ _ _ (by omega : (2 : Nat) ≤ 7),
    h_enable_gnss _ _ _ (by omega : (3 : Nat) ≤ 7), h_disable_gnss _ _ _ (by omega : (4 : Nat) ≤ 7), h_disable_gnss _ _ _ (by omega : (5 : Nat) ≤ 7),
    h_disable_gnss _ _ _ (by omega : (6 : Nat) ≤ 7), bok]

/-! ### UBX-CFG-ESFLA: the lever-arm query -/

def esflaBlockFields : Nat → List (Nat × Int × Int × Int) → Store
  | _, [] => []
  | o, a :: r =>
    [(("leverArmType_", some o), (a.1 : Int)), (("res2_", some o), 0), (("leverArmX_", some o), a.2.1), (("leverArmY_", some o), a.2.2.1),
     (("leverArmZ_", some o), a.2.2.2)] ++ esflaBlockFields (o + 1) r

def esflaStore (version : Int) (arms : List (Nat × Int × Int × Int)) : Store :=
  [(("version", none), version), (("numConfigs", none), (arms.length : Int)), (("res1", none), 0)] ++ esflaBlockFields 0 arms

theorem esfla_index_ge (o : Nat) (arms : List (Nat × Int × Int × Int)) :
    ∀ e ∈ esflaBlockFields o arms, ∃ j, o ≤ j ∧ e.1.2 = some j := by
  induction arms generalizing o with
  | nil => intro e he; simp [esflaBlockFields] at he
  | cons b r ih =>
    intro e he
    simp only [esflaBlockFields, List.cons_append, List.nil_append, List.mem_cons] at he
    rcases he with rfl | rfl | rfl | rfl | rfl | he
    · exact ⟨o, Nat.le_refl _, rfl⟩
    · exact ⟨o, Nat.le_refl _, rfl⟩
    · exact ⟨o, Nat.le_refl _, rfl⟩
    · exact ⟨o, Nat.le_refl _, rfl⟩
    · exact ⟨o, Nat.le_refl _, rfl⟩
    · obtain ⟨j, hj, hej⟩ := ih (o + 1) e he
      exact ⟨j, by omega, hej⟩

theorem find_esfla_field (tag : String) (htag : tag = "leverArmType_" ∨ tag = "leverArmX_" ∨ tag = "leverArmY_" ∨ tag = "leverArmZ_")
    (o i : Nat) (arms : List (Nat × Int × Int × Int)) (hi : i < arms.length) :
    (esflaBlockFields o arms).find? (fun e => e.1 == (tag, some (o + i))) =
      some ((tag, some (o + i)),
        if tag = "leverArmType_" then (arms[i].1 : Int) else if tag = "leverArmX_" then arms[i].2.1
        else if tag = "leverArmY_" then arms[i].2.2.1 else arms[i].2.2.2) := by
  induction arms generalizing o i with
  | nil => simp at hi
  | cons b r ih =>
    cases i with
    | zero =>
      simp only [esflaBlockFields, Nat.add_zero, List.getElem_cons_zero]
      rcases htag with rfl | rfl | rfl | rfl <;> simp [List.find?_cons]
    | succ k =>
      have hne : ∀ t : String, ((t, some o) == (tag, some (o + (k + 1)))) = false := by
        intro t; simp
      simp only [esflaBlockFields, List.cons_append, List.nil_append, List.find?_cons, hne, List.getElem_cons_succ]
      have := ih (o + 1) k (by simpa using hi)
      rw [show o + 1 + k = o + (k + 1) by omega] at this
      exact this

theorem esfla_item (version : Int) (arms : List (Nat × Int × Int × Int)) (tag : String)
    (htag : tag = "leverArmType_" ∨ tag = "leverArmX_" ∨ tag = "leverArmY_" ∨ tag = "leverArmZ_") (i : Nat) (hi : i < arms.length) :
    Store.item (esflaStore version arms) (tag, some i) =
      .ok (if tag = "leverArmType_" then (arms[i].1 : Int) else if tag = "leverArmX_" then arms[i].2.1
           else if tag = "leverArmY_" then arms[i].2.2.1 else arms[i].2.2.2) := by
  have := find_esfla_field tag htag 0 i arms hi
  simp only [Nat.zero_add] at this
  simp [Store.item, esflaStore, List.find?_cons, this]

theorem first_index_esfla (version : Int) (all : List (Nat × Int × Int × Int)) (ty : Nat) : ∀ (k o : Nat), o + k = all.length →
    Py.firstIndexFrom (fun i => Store.item (esflaStore version all) ("leverArmType_", some i) >>= fun v => .ok (decide (v = (ty : Int)))) o k =
      .ok (((all.drop o).findIdx? (fun a => a.1 == ty)).map (· + o)) := by
  intro k
  induction k with
  | zero =>
    intro o ho
    have : all.drop o = [] := List.drop_eq_nil_of_le (by omega)
    simp [Py.firstIndexFrom, this]
  | succ k ih =>
    intro o ho
    have hlt : o < all.length := by omega
    have hd : all.drop o = all[o] :: all.drop (o + 1) := (List.drop_eq_getElem_cons hlt)
    rw [Py.firstIndexFrom, esfla_item version all "leverArmType_" (Or.inl rfl) o hlt, hd, List.findIdx?_cons]
    simp only [bok, if_true]
    by_cases he : all[o].1 = ty
    · simp [he]
    · have hne : ¬ ((all[o].1 : Int) = (ty : Int)) := by exact_mod_cast he
      have hb : (all[o].1 == ty) = false := by simpa using he
      rw [hb]
      simp only [hne, decide_false, Bool.false_eq_true, if_false]
      rw [ih (o + 1) (by omega)]
      cases (all.drop (o + 1)).findIdx? (fun a => a.1 == ty) with
      | none => rfl
      | some j => simp; omega

/-- **`lever_arm(armType)` as the source has it is the model's `leverArm`**: the offsets of the first block of that type, or nothing -/
theorem h_lever_arm (version : Int) (arms : List (Nat × Int × Int × Int)) (ty : Nat) :
    Gen.Src.Helpers.UbxCfgEsfla.lever_arm (esflaStore version arms) ty = .ok (leverArm arms ty, esflaStore version arms) := by
  have hattr : Store.attr (esflaStore version arms) ("numConfigs", none) = .ok (arms.length : Int) := by
    simp [Store.attr, esflaStore, List.find?_cons]
  simp only [Gen.Src.Helpers.UbxCfgEsfla.lever_arm, hattr, bok, Py.firstIndex, Int.toNat_natCast]
  rw [first_index_esfla version arms ty arms.length 0 (by omega)]
  simp only [List.drop_zero, Nat.add_zero, bok, leverArm]
  cases hf : arms.findIdx? (fun a => a.1 == ty) with
  | none =>
    have : arms.find? (fun a => a.1 == ty) = none := by
      rw [List.findIdx?_eq_none_iff] at hf; exact List.find?_eq_none.mpr (by simpa using hf)
    simp [this]
  | some k =>
    have hk := hf
    rw [List.findIdx?_eq_some_iff_getElem] at hk
    obtain ⟨hlt, hk1, hk2⟩ := hk
    have hfind : arms.find? (fun a => a.1 == ty) = some arms[k] := by
      rw [List.find?_eq_some_iff_getElem]
      exact ⟨hk1, k, hlt, rfl, fun j hj => by simpa using hk2 j hj⟩
    simp only [Option.map_some, esfla_item version arms "leverArmX_" (Or.inr (Or.inl rfl)) k hlt,
      esfla_item version arms "leverArmY_" (Or.inr (Or.inr (Or.inl rfl))) k hlt,
      esfla_item version arms "leverArmZ_" (Or.inr (Or.inr (Or.inr rfl))) k hlt, bok, hfind]
    simp

end SrcEquiv

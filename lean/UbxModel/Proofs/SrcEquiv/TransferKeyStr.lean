import UbxModel.Proofs.SrcEquiv.KeyStr
import UbxModel.Props.C19
/-! The statements of C19 about the text of a configuration item, restated for `CfgKeyData.__str__` as `tools/pysrc2lean_keystr.py`
    reads it off `ubxlib/cfgkeys.py`: an item of a valid width renders whatever its group, item, signedness and value, and the text
    starts with the field's name; an item of any other width raises `ValueError`; every item decoded from a payload renders. -/
namespace SrcEquiv
open Ubx Py
variable [KeyTable]

/-- **an item of a valid width renders**, and the text starts with the field's name -/
theorem src_keystr_total (name : String) (c : CfgItem) (hb : validBits c.bits) :
    ∃ rest, Gen.Src.KeyStr.CfgKeyData.__str__ name c = .ok (name ++ ":" ++ rest) := by
  rw [keystr_eq]; exact C19.cfgitem_text_total name c hb

/-- an item of any other width does not render: `ValueError` -/
theorem src_keystr_invalid (name : String) (c : CfgItem) (hb : ¬ validBits c.bits) :
    Gen.Src.KeyStr.CfgKeyData.__str__ name c = .error .valueError := by
  rw [keystr_eq]; exact C19.cfgitem_text_invalid name c hb

/-- **every item decoded from a payload renders** -/
theorem src_decoded_item_renders (name : String) (s : List Nat) (hs : Spec.Bytes s) (c : CfgItem) (n : Nat)
    (h : CfgItem.unpack s = .ok (c, n)) : ∃ rest, Gen.Src.KeyStr.CfgKeyData.__str__ name c = .ok (name ++ ":" ++ rest) := by
  rw [keystr_eq]; exact C19.decoded_item_renders name s hs c n h

end SrcEquiv

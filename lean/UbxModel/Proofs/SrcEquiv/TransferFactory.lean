import UbxModel.Proofs.SrcEquiv.Factory
/-! What the request loop relies on in the registry ("the response class is registered before waiting", C06 / C10), for the
    definitions generated from `ubxlib/frame_factory.py`. -/
namespace SrcEquiv
open Ubx Py Py.Factory

/-- `register()` for every class of a list, in order -/
def registerAll (d : Frames) : List Class → Frames
  | [] => d
  | c :: cs => match Gen.Src.Factory.register d c with
               | .ok (_, d') => registerAll d' cs
               | .error _ => d

/-- **any history of registrations**: the dict the source builds and the registry the model builds answer alike -/
theorem src_registry_refines (cs : List Class) (d : Frames) (r : Registry) (h : Agree d r) :
    Agree (registerAll d cs) (cs.foldl (fun r c => r.register c.cid c.info) r) := by
  induction cs generalizing d r with
  | nil => exact h
  | cons c cs ih =>
    obtain ⟨d', h1, h2⟩ := fac_register d r c h
    simp only [registerAll, h1, List.foldl]
    exact ih d' _ h2

/-- **the class registered last for a class/id is the one a frame is built with** -/
theorem src_last_registration_wins (d : Frames) (c : Class) (pl : List Nat) :
    ∃ d', Gen.Src.Factory.register d c = .ok ((), d') ∧
      Gen.Src.Factory.build_with_data d' c.cid pl = (if c.info.decodable pl then .ok ⟨c.cid, c.info.tag, pl⟩ else .error .valueError) := by
  refine ⟨Dict.setitem d c.cid c, rfl, ?_⟩
  unfold Gen.Src.Factory.build_with_data
  rw [getitem_setitem, if_pos rfl, bind_ok']
  simp only [Gen.Src.Factory.construct, Py.Factory.unpack, Py.Factory.instantiate]
  by_cases hd : c.info.decodable pl = true
  · rw [if_pos hd, if_pos hd, bind_ok', bind_ok']
  · rw [if_neg hd, if_neg hd]; rfl

/-- **registering a class leaves every other class/id as it was** -/
theorem src_registration_local (d : Frames) (c : Class) (cid : Cid) (pl : List Nat) (h : c.cid ≠ cid) :
    ∃ d', Gen.Src.Factory.register d c = .ok ((), d') ∧
      Gen.Src.Factory.build_with_data d' cid pl = Gen.Src.Factory.build_with_data d cid pl := by
  refine ⟨Dict.setitem d c.cid c, rfl, ?_⟩
  unfold Gen.Src.Factory.build_with_data
  rw [getitem_setitem, if_neg h]

/-- a class/id nobody registered: `KeyError` (what `_wait()` catches and skips) -/
theorem src_unregistered (cs : List Class) (cid : Cid) (pl : List Nat) (h : ∀ c ∈ cs, c.cid ≠ cid) :
    Gen.Src.Factory.build_with_data (registerAll [] cs) cid pl = .error .keyError := by
  have key : ∀ (d : Frames), Dict.getitem d cid = .error .keyError → ∀ cs : List Class, (∀ c ∈ cs, c.cid ≠ cid) →
      Dict.getitem (registerAll d cs) cid = .error .keyError := by
    intro d hd cs
    induction cs generalizing d with
    | nil => intro _; exact hd
    | cons c cs ih =>
      intro hc
      simp only [registerAll, Gen.Src.Factory.register]
      apply ih
      · rw [getitem_setitem, if_neg (hc c (by simp))]; exact hd
      · exact fun x hx => hc x (by simp [hx])
  unfold Gen.Src.Factory.build_with_data
  rw [key [] rfl cs h]; rfl

end SrcEquiv

import UbxModel.Gen.Src
/-! The definitions generated from `ubxlib/parser_nmea.py` equal the hand-written model of `NmeaParser`. -/
namespace SrcEquiv
open Nmea

theorem nmea_to_bin_small : ∀ c, c < 128 → Gen.Src.NmeaParser._to_bin c = toBin c := by decide

theorem nmea_to_bin (c : Nat) : Gen.Src.NmeaParser._to_bin c = toBin c := by
  by_cases h : c < 128
  · exact nmea_to_bin_small c h
  · unfold Gen.Src.NmeaParser._to_bin toBin Py.inChars
    have hc : ¬ (48 ≤ c ∧ c ≤ 57) := by omega
    have hd : ¬ (97 ≤ c ∧ c ≤ 102) := by omega
    have he : ¬ (65 ≤ c ∧ c ≤ 70) := by omega
    have hn : ([48, 49, 50, 51, 52, 53, 54, 55, 56, 57, 97, 98, 99, 100, 101, 102, 65, 66, 67, 68, 69, 70] : List Nat).contains c = false := by
      simp only [List.contains_eq_mem, List.mem_cons, List.not_mem_nil, or_false, decide_eq_false_iff_not]
      omega
    rw [hn]
    simp [hc, hd, he]

theorem nmea_step (p : P) (c : Nat) : Gen.Src.NmeaParser._process_byte p c = p.step c := by
  unfold Gen.Src.NmeaParser._process_byte P.step
  by_cases h0 : c = 36
  · simp [h0, Gen.Src.NmeaParser._reset, DOLLAR]
  · simp only [h0, decide_false, DOLLAR, if_false, Bool.false_eq_true]
    cases h : p.st <;> simp only [h, decide_true, decide_false, if_true, if_false, reduceCtorEq, Bool.false_eq_true]
    · simp [Gen.Src.NmeaParser._state_wait_sync, h0]
    · simp only [Gen.Src.NmeaParser._state_data, STAR]; split <;> simp_all
    · simp only [Gen.Src.NmeaParser._state_checksum1, nmea_to_bin]; cases toBin c <;> rfl
    · simp only [Gen.Src.NmeaParser._state_checksum2, nmea_to_bin]
      cases toBin c with
      | none => rfl
      | some v => by_cases h1 : p.cs + v = p.acc <;> simp [h1]
    · simp only [Gen.Src.NmeaParser._state_lineend, NL]; split <;> simp_all

theorem nmea_process (p : P) (s : List Nat) : Gen.Src.NmeaParser.process p s = p.process s := by
  simp only [Gen.Src.NmeaParser.process, P.process]
  congr 1; funext q d; exact nmea_step q d

theorem nmea_restart (p : P) : Gen.Src.NmeaParser.restart p = p.restart := rfl

end SrcEquiv

import UbxModel.Proofs.SrcEquiv.GpsdTx
import UbxModel.Props.C12
/-! Headline statements of C12 / C20 about the gpsd command, restated for the definitions `tools/pysrc2lean_gpsdtx.py` generates from
    `ubxlib/server.py`: what gpsd receives is the header followed by text from which exactly the frame bytes are recovered, of the
    prescribed length, and success is reported only on a reply that holds `OK` or `ACK`. -/
namespace SrcEquiv
open Ubx Spec Ubx.Gpsd

/-- **the bytes survive the framing**: what follows the generated header in the generated command un-hexlifies to the data -/
theorem src_command_carries_bytes (d : String) (data : List Nat) (h : Bytes data) :
    unhexlify ((Gen.Src.GpsdTx.cmd (Gen.Src.GpsdTx.cmd_header d) data).drop (Gen.Src.GpsdTx.cmd_header d).length) = data := by
  simp only [Gen.Src.GpsdTx.cmd, List.drop_left]
  exact C12.unhexlify_hexlify data h

/-- the generated command is the header `&<device>=` and two characters per byte -/
theorem src_command_length (d : String) (data : List Nat) :
    (Gen.Src.GpsdTx.cmd (Gen.Src.GpsdTx.cmd_header d) data).length = d.toList.length + 2 + 2 * data.length := by
  rw [gtx_cmd, (C12.gpsd_command _ data).1]
  simp [(C12.gpsd_command (d.toList.map Char.toNat) data).2]; omega

/-- the generated header starts with `&` and ends with `=` around exactly the device's characters -/
theorem src_header_shape (d : String) :
    Gen.Src.GpsdTx.cmd_header d = [38] ++ d.toList.map Char.toNat ++ [61] := by
  simp [Gen.Src.GpsdTx.cmd_header, Py.GpsdTx.encodeAscii, String.toList_append]

/-- **success only on OK or ACK**, for the generated test -/
theorem src_success_only_if (r : List Nat) (h : Gen.Src.GpsdTx.success r = true) :
    contains r [79, 75] = true ∨ contains r [65, 67, 75] = true := by
  simpa [Gen.Src.GpsdTx.success] using h

/-- … and on every such reply -/
theorem src_success_if (r : List Nat) (h : contains r [79, 75] = true ∨ contains r [65, 67, 75] = true) :
    Gen.Src.GpsdTx.success r = true := by
  simpa [Gen.Src.GpsdTx.success] using h

example : Gen.Src.GpsdTx.cmd (Gen.Src.GpsdTx.cmd_header "/dev/gnss0") [0xb5, 0x62] =
    [38, 47, 100, 101, 118, 47, 103, 110, 115, 115, 48, 61, 98, 53, 54, 50] := by decide

end SrcEquiv

import UbxModel.Proofs.SrcEquiv.CfgItem
import UbxModel.Props.C13
import UbxModel.Props.C14
/-! Headline theorems of C13 and C14 restated for the definitions that `tools/pysrc2lean_cfg.py` generates from
    `ubxlib/cfgkeys.py` (`Gen.Src.CfgItem.*`). -/
namespace SrcEquiv
open Ubx Spec
variable [KeyTable]

/-- **C13 at the source level**: what the generated `pack` encodes, the generated `unpack` decodes back - into any
    object, whatever it held before - consuming exactly the key and the value, whatever bytes follow -/
theorem src_item_roundtrip (c other : CfgItem) (bs : List Nat) (h : Gen.Src.CfgItem.pack c = .ok (bs, c)) (hb : validBits c.bits)
    (h1 : c.bits = 1 → c.value = 0 ∨ c.value = 1)
    (hs : c.signed = keySigned (keyId (sizeCode c.bits) c.group.toNat c.item.toNat)) (rest : List Nat) :
    Gen.Src.CfgItem.unpack other (bs ++ rest) = .ok (4 + valueBytes c.bits, c) := by
  rw [cfg_pack] at h
  have hp : c.pack = .ok bs := by
    cases hq : c.pack with
    | error e => rw [hq, withSelf_error] at h; cases h
    | ok b => rw [hq, withSelf_ok] at h; injection h with h; injection h with h; rw [h]
  rw [cfg_unpack, (C13.roundtrip c bs hp hb h1 hs rest).1]
  rfl

/-- **C14 at the source level**: for every byte string the generated `unpack` raises `ValueError` - nothing else - or
    decodes a prefix faithfully -/
theorem src_unpack_dichotomy (other : CfgItem) (s : List Nat) (hs : Bytes s) :
    Gen.Src.CfgItem.unpack other s = .error .valueError ∨
    ∃ item n, Gen.Src.CfgItem.unpack other s = .ok (n, item) ∧ n = 4 + valueBytes item.bits ∧ n ≤ s.length ∧
      validBits item.bits ∧ (item.bits = 1 → item.value = 0 ∨ item.value = 1) := by
  rw [cfg_unpack]
  rcases C14.unpack_dichotomy s hs with h | ⟨item, n, h, a, b, c, d, _⟩
  · left; rw [h]; rfl
  · right; exact ⟨item, n, by rw [h]; rfl, a, b, c, d⟩

/-- **C14 at the source level**: the generated `pack` refuses a group or item id that does not fit its field -/
theorem src_pack_rejects_ids (c : CfgItem) (h : c.group < 0 ∨ c.group > 255 ∨ c.item < 0 ∨ c.item > 4095) :
    Gen.Src.CfgItem.pack c = .error .valueError := by
  rw [cfg_pack]
  have : c.pack = .error .valueError := by
    rcases h with h | h | h | h
    · exact C14.pack_rejects_group c (Or.inl h)
    · exact C14.pack_rejects_group c (Or.inr h)
    · by_cases hg : c.group < 0 ∨ c.group > 255
      · exact C14.pack_rejects_group c hg
      · exact C14.pack_rejects_item c (Or.inl h)
    · by_cases hg : c.group < 0 ∨ c.group > 255
      · exact C14.pack_rejects_group c hg
      · exact C14.pack_rejects_item c (Or.inr h)
  rw [this]; rfl

end SrcEquiv

import UbxModel.Gen.Src
import UbxModel.Model.CfgKeys
/-! The static helpers of `CfgKeyData` as generated from `ubxlib/cfgkeys.py` equal the hand-written model
    (`bitsFromKey`, `bytesForSize`, `groupFromKey`, `itemFromKey`, `buildHeader`). -/
namespace SrcEquiv
open Ubx

theorem key_bits (k : Nat) : Gen.Src.CfgKeyData._bits_from_key k = bitsFromKey k := by
  unfold Gen.Src.CfgKeyData._bits_from_key Py.listIndex bitsFromKey
  rfl

theorem key_group (k : Nat) : Gen.Src.CfgKeyData._group_from_key k = .ok (groupFromKey k) := rfl
theorem key_item (k : Nat) : Gen.Src.CfgKeyData._item_from_key k = .ok (itemFromKey k) := rfl

theorem key_bytes (bits : Nat) : Gen.Src.CfgKeyData._bytes_for_size bits = bytesForSize bits := by
  unfold Gen.Src.CfgKeyData._bytes_for_size Py.dictHas Py.dictGet bytesForSize
  generalize Gen.bytesFromBits.find? (fun e => e.1 == bits) = x
  cases x <;> rfl

theorem key_header (g i bits : Nat) : Gen.Src.CfgKeyData._build_header g i bits = buildHeader g i bits := by
  simp only [Gen.Src.CfgKeyData._build_header, Py.dictGet, buildHeader]
  cases h : Gen.sizeFromBits.find? (fun e => e.1 == bits) with
  | none => rfl
  | some e => simp [bind, Except.bind, pure, Except.pure]

end SrcEquiv

import UbxModel.Gen.SrcTty
import UbxModel.Proofs.SrcEquiv.UbxParser
import UbxModel.Proofs.SrcEquiv.NmeaParser
namespace SrcEquiv
open Ubx

abbrev TSt := Gen.Src.Tty.scan.St

theorem tty_receive (env : Py.Tty.Env) (sv : Py.Tty.Server) (ho : sv.port.isOpen = true) :
    Gen.Src.Tty._receive env sv = (.ok (Py.Tty.read env sv).1, (Py.Tty.read env sv).2) := by
  simp [Gen.Src.Tty._receive, ho, Py.Tty.finish]

theorem tty_receive_closed (env : Py.Tty.Env) (sv : Py.Tty.Server) (ho : sv.port.isOpen = false) :
    Gen.Src.Tty._receive env sv = (.error (.exc .assertionError), sv) := by
  simp [Gen.Src.Tty._receive, ho, Py.Tty.finish]

/-- `_transmit(data)`: success iff `write()` reports all bytes written (the model's `Tty.transmit`) -/
theorem tty_transmit (env : Py.Tty.Env) (sv : Py.Tty.Server) (data : List Nat) (ho : sv.port.isOpen = true) :
    Gen.Src.Tty._transmit env sv data = (.ok (Ubx.Tty.transmit (env.wr sv.k) data), { sv with k := sv.k + 1 }) := by
  simp [Gen.Src.Tty._transmit, ho, Py.Tty.finish, Py.Tty.write, Ubx.Tty.transmit]

theorem tty_flush_input (env : Py.Tty.Env) (sv : Py.Tty.Server) (ho : sv.port.isOpen = true) :
    Gen.Src.Tty._flush_input env sv = (.ok (), Py.Tty.resetInput sv) := by
  simp [Gen.Src.Tty._flush_input, ho, Py.Tty.finish]

/-- `_recover()`: the bit rate is toggled to 9600 and back to what the port had (the model's `Tty.recover`) -/
theorem tty_recover (env : Py.Tty.Env) (sv : Py.Tty.Server) (ho : sv.port.isOpen = true) :
    Gen.Src.Tty._recover env sv = (.ok (), { sv with port := Ubx.Tty.recover sv.port }) := by
  simp [Gen.Src.Tty._recover, ho, Py.Tty.finish, Py.Tty.setBaud, Ubx.Tty.recover]

/-- the model's scan state behind the state of the generated `scan` -/
def scanStateOf (st : TSt) : Ubx.Tty.ScanState :=
  { ubx := st.parser_ubx, nmea := st.parser_nmea, now := st.self.now, j := st.self.j, seen := st.self.seen }

theorem scanLoop_eq (env : Ubx.Tty.Env) (tEnd : Nat) (s : Ubx.Tty.ScanState) :
    Ubx.Tty.scanLoop env tEnd s =
      if s.now < tEnd then
        match (env.rd s.j).2 with
        | none => Ubx.Tty.scanLoop env tEnd { s with now := s.now + Ubx.Tty.tick (env.rd s.j).1, j := s.j + 1 }
        | some d =>
            if (s.ubx.process [d]).framesRx ≥ 2 then
              (true, { s with ubx := s.ubx.process [d], now := s.now + Ubx.Tty.tick (env.rd s.j).1, j := s.j + 1, seen := s.seen ++ [d] })
            else if (s.nmea.process [d]).framesRx ≥ 2 then
              (true, { s with ubx := s.ubx.process [d], nmea := s.nmea.process [d], now := s.now + Ubx.Tty.tick (env.rd s.j).1,
                              j := s.j + 1, seen := s.seen ++ [d] })
            else Ubx.Tty.scanLoop env tEnd { s with ubx := s.ubx.process [d], nmea := s.nmea.process [d],
                                                    now := s.now + Ubx.Tty.tick (env.rd s.j).1, j := s.j + 1, seen := s.seen ++ [d] }
      else (false, s) := by
  rw [Ubx.Tty.scanLoop]
  split
  · cases h : (env.rd s.j).2 <;> simp only [h] <;> rfl
  · rfl

/-- the loop of `scan()` as the source has it is the model's `scanLoop` -/
theorem scan_loop (env : Py.Tty.Env) (iv tEnd : Nat) : ∀ (fuel : Nat) (st : TSt),
    st.t_end = tEnd → tEnd - st.self.now ≤ fuel → st.ubx_frames = 0 → st.nmea_frames = 0 → st.self.port.isOpen = true →
    ∃ st' : TSt,
      Py.whileFuel fuel (Gen.Src.Tty.scan.test1 env iv) (Gen.Src.Tty.scan.body1 env iv) st =
        (if (Ubx.Tty.scanLoop ⟨env.rd⟩ tEnd (scanStateOf st)).1 then .ret true st' else .next st') ∧
      scanStateOf st' = (Ubx.Tty.scanLoop ⟨env.rd⟩ tEnd (scanStateOf st)).2 ∧
      st'.self.port = st.self.port ∧ st'.self.k = st.self.k ∧ st'.self.flushed = st.self.flushed := by
  intro fuel
  induction fuel with
  | zero =>
    intro st hte hf _ _ _
    have hnl : ¬ (scanStateOf st).now < tEnd := by simp only [scanStateOf]; omega
    have hz : Ubx.Tty.scanLoop ⟨env.rd⟩ tEnd (scanStateOf st) = (false, scanStateOf st) := by rw [scanLoop_eq, if_neg hnl]
    refine ⟨st, ?_, by rw [hz], rfl, rfl, rfl⟩
    rw [Py.whileFuel_done _ _ _ _ (by simpa [Gen.Src.Tty.scan.test1, Py.Tty.timeNow, hte, scanStateOf] using hnl), hz]; rfl
  | succ n ih =>
    intro st hte hf hu hn ho
    by_cases hlt : (scanStateOf st).now < tEnd
    · have hlt' : st.self.now < tEnd := hlt
      rw [Py.whileFuel_step _ _ _ _ (by simp [Gen.Src.Tty.scan.test1, Py.Tty.timeNow, hte, hlt'])]
      rw [scanLoop_eq, if_pos hlt]
      obtain ⟨dt, od, hrd⟩ : ∃ dt od, env.rd st.self.j = (dt, od) := ⟨_, _, rfl⟩
      simp only [Gen.Src.Tty.scan.body1, tty_receive env st.self ho, Py.Tty.read, ubx_process, nmea_process, hu, hn, Nat.sub_zero,
        Py.Tty.timeNow, scanStateOf, hrd]
      cases od with
      | none =>
        simp only [List.isEmpty_nil, Bool.not_true, Bool.false_eq_true, if_false, List.append_nil]
        obtain ⟨st', h1, h2, h3, h4, h5⟩ := ih { st with self := { st.self with now := st.self.now + Ubx.Tty.tick dt, j := st.self.j + 1 }, data := [], ubx_frames := 0, nmea_frames := 0 }
          hte (by simp only [Ubx.Tty.tick]; omega) rfl rfl ho
        exact ⟨st', h1, h2, h3, h4, h5⟩
      | some d =>
        simp only [List.isEmpty_cons, Bool.not_false, if_true]
        by_cases h2u : (st.parser_ubx.process [d]).framesRx ≥ 2
        · simp only [h2u, decide_true, if_true, Py.Ctl.bind]
          refine ⟨_, rfl, ?_, ?_, ?_, ?_⟩ <;> rfl
        · simp only [h2u, decide_false, if_false, Bool.false_eq_true, Py.Ctl.bind, Nat.sub_zero]
          by_cases h2n : (st.parser_nmea.process [d]).framesRx ≥ 2
          · simp only [h2n, decide_true, if_true]
            refine ⟨_, rfl, ?_, ?_, ?_, ?_⟩ <;> rfl
          · simp only [h2n, decide_false, if_false, Bool.false_eq_true]
            obtain ⟨st', h1, h2, h3, h4, h5⟩ := ih { st with self := { st.self with now := st.self.now + Ubx.Tty.tick dt, j := st.self.j + 1,
                                                                                      seen := st.self.seen ++ [d] },
                                                                 data := [d], t_duration := st.self.now + Ubx.Tty.tick dt - st.t_start,
                                                                 parser_ubx := st.parser_ubx.process [d], parser_nmea := st.parser_nmea.process [d], ubx_frames := 0, nmea_frames := 0 }
              hte (by simp only [Ubx.Tty.tick]; omega) rfl rfl ho
            exact ⟨st', h1, h2, h3, h4, h5⟩
    · have hz : Ubx.Tty.scanLoop ⟨env.rd⟩ tEnd (scanStateOf st) = (false, scanStateOf st) := by rw [scanLoop_eq, if_neg hlt]
      refine ⟨st, ?_, by rw [hz], rfl, rfl, rfl⟩
      rw [Py.whileFuel_done _ _ _ _ (by simpa [Gen.Src.Tty.scan.test1, Py.Tty.timeNow, hte, scanStateOf] using hlt), hz]; rfl

/-- the state of the generated `scan` when its loop is entered -/
def scanSt0 (sv : Py.Tty.Server) (interval : Nat) : TSt :=
  { self := { sv with flushed := sv.flushed + 1 }
    parser_ubx := Parser.fresh none
    parser_nmea := Nmea.P.fresh
    ubx_frames := 0
    nmea_frames := 0
    t_start := sv.now
    t_end := sv.now + interval }

/-- **`scan()` as the source has it is the model's `scanLoop`** run from new parsers until `now + interval`: it says yes
    exactly when the model does, after the same reads, and it leaves the port alone -/
theorem tty_scan (env : Py.Tty.Env) (sv : Py.Tty.Server) (interval : Nat) (ho : sv.port.isOpen = true) :
    ∃ sv' : Py.Tty.Server,
      Gen.Src.Tty.scan env sv interval =
        (.ok (Ubx.Tty.scanLoop ⟨env.rd⟩ (sv.now + interval) { now := sv.now, j := sv.j, seen := sv.seen }).1, sv') ∧
      sv'.now = (Ubx.Tty.scanLoop ⟨env.rd⟩ (sv.now + interval) { now := sv.now, j := sv.j, seen := sv.seen }).2.now ∧
      sv'.j = (Ubx.Tty.scanLoop ⟨env.rd⟩ (sv.now + interval) { now := sv.now, j := sv.j, seen := sv.seen }).2.j ∧
      sv'.seen = (Ubx.Tty.scanLoop ⟨env.rd⟩ (sv.now + interval) { now := sv.now, j := sv.j, seen := sv.seen }).2.seen ∧
      sv'.port = sv.port ∧ sv'.k = sv.k ∧ sv'.flushed = sv.flushed + 1 := by
  unfold Gen.Src.Tty.scan
  simp only [tty_flush_input env sv ho, Py.Tty.timeNow, Py.Tty.resetInput]
  obtain ⟨st', h1, h2, h3, h4, h5⟩ := scan_loop env interval (sv.now + interval) (sv.now + interval - sv.now)
    (scanSt0 sv interval) rfl (Nat.le_refl _) rfl rfl ho
  have hs : scanStateOf (scanSt0 sv interval) = ({ now := sv.now, j := sv.j, seen := sv.seen } : Ubx.Tty.ScanState) := rfl
  rw [hs] at h1 h2
  simp only [scanSt0] at h1 h3 h4 h5
  have hf0 : (Parser.fresh none).framesRx = 0 := rfl
  have hn0 : Nmea.P.fresh.framesRx = 0 := rfl
  simp only [hf0, hn0]
  generalize Ubx.Tty.scanLoop ⟨env.rd⟩ (sv.now + interval) { now := sv.now, j := sv.j, seen := sv.seen } = M at h1 h2 ⊢
  obtain ⟨b, S⟩ := M
  simp only [] at h1 h2 ⊢
  rw [h1]
  refine ⟨st'.self, ?_, ?_, ?_, ?_, h3, h4, h5⟩
  · cases b <;> simp [Py.Tty.finish]
  · rw [← h2]; rfl
  · rw [← h2]; rfl
  · rw [← h2]; rfl

end SrcEquiv

import UbxModel.Proofs.ParserBasic
namespace Ubx


/-- the fields a parser reads while it is inside a frame -/
def Parser.inFrame (p q : Parser) : Prop :=
  p.msgClass = q.msgClass ∧ p.msgId = q.msgId ∧ p.msgLen = q.msgLen ∧ p.ofs = q.ofs ∧
  p.msgData = q.msgData ∧ p.cka = q.cka ∧ p.ck = q.ck

/-- `p` is `q` plus an older queue prefix `q0` and an older count `n0`; while hunting, the
    stale frame fields of `p` are dead -/
structure Sim (q0 : List Packet) (n0 : Nat) (p q : Parser) : Prop where
  st : p.st = q.st
  filt : p.filter = q.filter
  fr : p.st = .init ∨ p.st = .sync ∨ p.inFrame q
  queue : p.queue = q0 ++ q.queue
  cnt : p.framesRx = n0 + q.framesRx

theorem Sim.step {q0 n0 p q} (h : Sim q0 n0 p q) (d : Nat) : Sim q0 n0 (p.step d) (q.step d) := by
  obtain ⟨hst, hf, hfr, hq, hn⟩ := h
  cases hp : p.st with
  | init =>
    have hq' : q.st = .init := by rw [← hst, hp]
    by_cases hd : d = 0xB5
    · rw [step_init_sync p d hp hd, step_init_sync q d hq' hd]
      exact ⟨rfl, hf, Or.inr (Or.inl rfl), hq, hn⟩
    · rw [step_init_other p d hp hd, step_init_other q d hq' hd]
      exact ⟨hst, hf, Or.inl hp, hq, hn⟩
  | sync =>
    have hq' : q.st = .sync := by rw [← hst, hp]
    by_cases h62 : d = 0x62
    · rw [step_sync_62 p d hp h62, step_sync_62 q d hq' h62]
      exact ⟨rfl, by simp [Parser.reset, hf], Or.inr (Or.inr (by simp [Parser.inFrame, Parser.reset, Ck.reset])),
        by simp [Parser.reset, hq], by simp [Parser.reset, hn]⟩
    · by_cases hb5 : d = 0xB5
      · rw [step_sync_b5 p d hp hb5, step_sync_b5 q d hq' hb5]
        exact ⟨hst, hf, Or.inr (Or.inl hp), hq, hn⟩
      · rw [step_sync_other p d hp h62 hb5, step_sync_other q d hq' h62 hb5]
        exact ⟨rfl, hf, Or.inl rfl, hq, hn⟩
  | cls | id | len1 | crc1 =>
    have hq' := hst; rw [hp] at hq'
    have hin : p.inFrame q := by
      rcases hfr with h | h | h
      · rw [hp] at h; cases h
      · rw [hp] at h; cases h
      · exact h
    obtain ⟨h1, h2, h3, h4, h5, h6, h7⟩ := hin
    refine ⟨?_, ?_, ?_, ?_, ?_⟩ <;>
      simp [Parser.step, hp, ← hq', h1, h2, h3, h4, h5, h6, h7, hf, hq, hn, Parser.inFrame]
  | len2 =>
    have hq' := hst; rw [hp] at hq'
    have hin : p.inFrame q := by
      rcases hfr with h | h | h
      · rw [hp] at h; cases h
      · rw [hp] at h; cases h
      · exact h
    obtain ⟨h1, h2, h3, h4, h5, h6, h7⟩ := hin
    have hq'' : q.st = .len2 := hq'.symm
    by_cases h0 : q.msgLen + d * 256 = 0
    · rw [step_len2_zero p d hp (by rw [h3]; exact h0), step_len2_zero q d hq'' h0]
      exact ⟨rfl, hf, Or.inr (Or.inr ⟨h1, h2, by simp [h3], h4, h5, h6, by simp [h7]⟩), hq, hn⟩
    · by_cases hbig : q.msgLen + d * 256 > MAXLEN
      · rw [step_len2_long p d hp (by rw [h3]; exact hbig), step_len2_long q d hq'' hbig]
        exact ⟨rfl, hf, Or.inl rfl, hq, hn⟩
      · rw [step_len2_data p d hp (by rw [h3]; exact h0) (by rw [h3]; exact hbig),
            step_len2_data q d hq'' h0 hbig]
        exact ⟨rfl, hf, Or.inr (Or.inr ⟨h1, h2, by simp [h3], rfl, h5, h6, by simp [h7]⟩), hq, hn⟩
  | data =>
    have hq' := hst; rw [hp] at hq'
    have hin : p.inFrame q := by
      rcases hfr with h | h | h
      · rw [hp] at h; cases h
      · rw [hp] at h; cases h
      · exact h
    obtain ⟨h1, h2, h3, h4, h5, h6, h7⟩ := hin
    by_cases hl : q.ofs + 1 = q.msgLen
    · refine ⟨?_, ?_, ?_, ?_, ?_⟩ <;>
        simp [Parser.step, hp, ← hq', h1, h2, h3, h4, h5, h6, h7, hf, hq, hn, Parser.inFrame, hl]
    · refine ⟨?_, ?_, ?_, ?_, ?_⟩ <;>
        simp [Parser.step, hp, ← hq', h1, h2, h3, h4, h5, h6, h7, hf, hq, hn, Parser.inFrame, hl]
  | crc2 =>
    have hq' := hst; rw [hp] at hq'
    have hin : p.inFrame q := by
      rcases hfr with h | h | h
      · rw [hp] at h; cases h
      · rw [hp] at h; cases h
      · exact h
    obtain ⟨h1, h2, h3, h4, h5, h6, h7⟩ := hin
    by_cases hok : q.ck.a = q.cka ∧ q.ck.b = d
    · refine ⟨?_, ?_, ?_, ?_, ?_⟩ <;>
        simp [Parser.step, hp, ← hq', h1, h2, h3, h4, h5, h6, h7, hf, hq, hn, hok, Parser.passes]
      · by_cases hfp : filterPasses q.filter ⟨q.msgClass, q.msgId⟩ = true <;> simp [hfp, List.append_assoc]
      · omega
    · refine ⟨?_, ?_, ?_, ?_, ?_⟩ <;>
        simp [Parser.step, hp, ← hq', h1, h2, h3, h4, h5, h6, h7, hf, hq, hn, hok, Parser.passes,
          List.append_assoc]

theorem Sim.process {q0 n0 p q} (h : Sim q0 n0 p q) (s : List Nat) :
    Sim q0 n0 (p.process s) (q.process s) := by
  induction s generalizing p q with
  | nil => exact h
  | cons d ds ih => exact ih (h.step d)

/-- C09: after restart() a parser behaves on all further input like a new parser with the
    same filter, keeping what was queued and counted -/
theorem restart_equiv (p : Parser) (s : List Nat) :
    let r := p.restart.process s
    let n := (Parser.fresh p.filter).process s
    r.queue = p.queue ++ n.queue ∧ r.framesRx = p.framesRx + n.framesRx ∧ r.st = n.st ∧
    r.filter = n.filter := by
  have h0 : Sim p.queue p.framesRx p.restart (Parser.fresh p.filter) :=
    ⟨rfl, rfl, Or.inl rfl, by simp [Parser.restart, Parser.fresh], by simp [Parser.restart, Parser.fresh]⟩
  have h := h0.process s
  exact ⟨h.queue, h.cnt, h.st, h.filt⟩

end Ubx

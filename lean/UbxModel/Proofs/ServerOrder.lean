import UbxModel.Proofs.ServerTracks
import UbxModel.Proofs.ServerFail
import UbxModel.Proofs.ServerIndependencePoll
/-! Order: the ACK-ACK that lets a configuration-class poll return was queued — hence received —
    *after* the response it confirms. -/
namespace Ubx

/-- what `drain` skips, what it returns, what it leaves -/
theorem drain_split (reg : Registry) (q : List Packet) (f : RFrame) (x : List Packet)
    (h : drain reg q = (some f, x)) : ∃ mid, q = mid ++ Packet.data f.cid f.payload :: x := by
  induction q with
  | nil => simp [drain] at h
  | cons y rest ih =>
    cases y with
    | crcError =>
      simp only [drain] at h
      obtain ⟨mid, hm⟩ := ih h
      exact ⟨Packet.crcError :: mid, by rw [hm]; rfl⟩
    | data cid pl =>
      simp only [drain] at h
      cases hb : reg.build cid pl with
      | none =>
        rw [hb] at h
        obtain ⟨mid, hm⟩ := ih h
        exact ⟨Packet.data cid pl :: mid, by rw [hm]; rfl⟩
      | some f0 =>
        rw [hb] at h
        simp only [Prod.mk.injEq, Option.some.injEq] at h
        obtain ⟨rfl, rfl⟩ := h
        obtain ⟨e1, e2⟩ := reg.build_some cid pl f0 hb
        exact ⟨[], by rw [e1, e2]; rfl⟩

/-- `Tracks`, with the part of the tracked queue that has been taken away made explicit -/
def TracksAt (env : Env) (p0 : Parser) (j0 : Nat) (taken : List Packet) (p : Parser) (lg : Log) : Prop :=
  j0 ≤ lg.nRx ∧ ∃ q, (p0.process (rxBytes env j0 (lg.nRx - j0))).queue = taken ++ q ∧
    p = { p0.process (rxBytes env j0 (lg.nRx - j0)) with queue := q }

theorem TracksAt.start (env : Env) (p0 : Parser) (lg : Log) (hq : p0.queue = []) : TracksAt env p0 lg.nRx [] p0 lg := by
  refine ⟨Nat.le_refl _, [], by simp [rxBytes, Parser.process, hq], ?_⟩
  simp only [Nat.sub_self, rxBytes, Parser.process, List.foldl_nil]
  cases p0; simp only at hq; subst hq; rfl

/-- **`_wait()` takes packets in queue order**: what has been taken grows at its end, and a returned
    frame is the last packet taken -/
theorem wait_tracksAt (env : Env) (reg : Registry) (deadline : Nat) (p0 : Parser) (j0 : Nat) (taken : List Packet)
    (p : Parser) (lg : Log) (h : TracksAt env p0 j0 taken p lg) :
    ∃ e, TracksAt env p0 j0 (taken ++ e) (wait env reg deadline p lg).2.1 (wait env reg deadline p lg).2.2 ∧
      ∀ f, (wait env reg deadline p lg).1 = some f → ∃ mid, e = mid ++ [Packet.data f.cid f.payload] := by
  generalize hn : deadline - lg.now = n
  induction n using Nat.strongRecOn generalizing p lg taken with
  | _ n ih =>
    rw [wait_eq]
    by_cases hlt : lg.now < deadline
    · simp only [hlt, if_true]
      obtain ⟨hj, q, hq, hp⟩ := h
      have hnr : lg.nRx + 1 - j0 = (lg.nRx - j0) + 1 := by omega
      have hidx : j0 + (lg.nRx - j0) = lg.nRx := by omega
      obtain ⟨app, a1, a2⟩ := process_with_queue (p0.process (rxBytes env j0 (lg.nRx - j0))) q (env.rx lg.nRx).2
      have hU : p0.process (rxBytes env j0 (lg.nRx + 1 - j0)) =
          (p0.process (rxBytes env j0 (lg.nRx - j0))).process (env.rx lg.nRx).2 := by
        rw [hnr, rxBytes_snoc, Parser.process_append, hidx]
      have hp1 : p.process (env.rx lg.nRx).2 =
          { (p0.process (rxBytes env j0 (lg.nRx - j0))).process (env.rx lg.nRx).2 with queue := q ++ app } := by
        rw [hp, a2]
      have hfull : (p0.process (rxBytes env j0 (lg.nRx + 1 - j0))).queue = taken ++ (q ++ app) := by
        rw [hU, a1, hq, List.append_assoc]
      rw [hp1]
      simp only
      cases hd : drain reg (q ++ app) with
      | mk fo x =>
        cases fo with
        | some f =>
          simp only
          obtain ⟨mid, hm⟩ := drain_split reg _ f x hd
          refine ⟨mid ++ [Packet.data f.cid f.payload], ⟨by show j0 ≤ lg.nRx + 1; omega, x, ?_, ?_⟩,
            fun f' hf => by simp only [Option.some.injEq] at hf; subst hf; exact ⟨mid, rfl⟩⟩
          · show (p0.process (rxBytes env j0 (lg.nRx + 1 - j0))).queue = _
            rw [hfull, hm]; simp [List.append_assoc]
          · show _ = ({ p0.process (rxBytes env j0 (lg.nRx + 1 - j0)) with queue := x } : Parser)
            rw [hU]
        | none =>
          simp only
          have hxe : x = [] := (drain_spec reg (q ++ app)).2 x hd
          have hT : TracksAt env p0 j0 (taken ++ (q ++ app))
              { (p0.process (rxBytes env j0 (lg.nRx - j0))).process (env.rx lg.nRx).2 with queue := x }
              { lg with now := lg.now + tick (env.rx lg.nRx).1, nRx := lg.nRx + 1, calls := lg.calls ++ [.rx] } := by
            refine ⟨by show j0 ≤ lg.nRx + 1; omega, [], ?_, ?_⟩
            · show (p0.process (rxBytes env j0 (lg.nRx + 1 - j0))).queue = _
              rw [hfull]; simp
            · show _ = ({ p0.process (rxBytes env j0 (lg.nRx + 1 - j0)) with queue := [] } : Parser)
              rw [hU, hxe]
          obtain ⟨e, he1, he2⟩ := ih (deadline - (lg.now + tick (env.rx lg.nRx).1)) (by simp only [tick]; omega)
            (taken ++ (q ++ app)) _ _ hT rfl
          refine ⟨(q ++ app) ++ e, by rw [← List.append_assoc]; exact he1, fun f hf => ?_⟩
          obtain ⟨mid, hm⟩ := he2 f hf
          exact ⟨(q ++ app) ++ mid, by rw [hm]; simp [List.append_assoc]⟩
    · simp only [hlt, if_false]
      exact ⟨[], by simpa using h, fun f hf => by simp at hf⟩

/-- state 'wait-ack': the accepted ACK is the last packet taken -/
theorem pollWaitAck_tracksAt (env : Env) (reg : Registry) (req : Cid) (deadline : Nat) (p0 : Parser) (j0 : Nat)
    (taken : List Packet) (p : Parser) (lg : Log) (h : TracksAt env p0 j0 taken p lg) :
    ∃ e, TracksAt env p0 j0 (taken ++ e) (pollWaitAck env reg req deadline p lg).2.1
        (pollWaitAck env reg req deadline p lg).2.2 ∧
      ((pollWaitAck env reg req deadline p lg).1 = true →
        ∃ a mid, checkAckNak req a = .ack ∧ e = mid ++ [Packet.data a.cid a.payload]) := by
  generalize hn : deadline - lg.now = n
  induction n using Nat.strongRecOn generalizing p lg taken with
  | _ n ih =>
    rw [pollWaitAck_eq]
    obtain ⟨e, he1, he2⟩ := wait_tracksAt env reg deadline p0 j0 taken p lg h
    have hadv := wait_some_advances env reg deadline p lg
    generalize wait env reg deadline p lg = res at he1 he2 hadv
    obtain ⟨fo, p', lg'⟩ := res
    simp only at he1 he2 hadv
    cases fo with
    | none => exact ⟨e, he1, fun hf => by simp at hf⟩
    | some f =>
      simp only
      obtain ⟨mid, hm⟩ := he2 f rfl
      by_cases hck : checkAckNak req f = .ack
      · rw [if_pos hck]
        exact ⟨e, he1, fun _ => ⟨f, mid, hck, hm⟩⟩
      · rw [if_neg hck]
        obtain ⟨h1, h2⟩ := hadv f rfl
        obtain ⟨e', k1, k2⟩ := ih (deadline - lg'.now) (by omega) (taken ++ e) p' lg' he1 rfl
        refine ⟨e ++ e', by rw [← List.append_assoc]; exact k1, fun hf => ?_⟩
        obtain ⟨a, mid', c1, c2⟩ := k2 hf
        exact ⟨a, e ++ mid', c1, by rw [c2, List.append_assoc]⟩

/-- one attempt of a configuration-class poll: in the queue of the tracked parser the response comes
    first and the accepted ACK-ACK later -/
theorem pollAttempt_order (env : Env) (reg : Registry) (req : Cid) (hcfg : req.cls = CLASS_CFG) (delay deadline : Nat)
    (p0 : Parser) (j0 : Nat) (taken : List Packet) (p : Parser) (lg : Log) (h : TracksAt env p0 j0 taken p lg) :
    ∀ f, (pollAttempt env reg req delay deadline p lg).1 = some f →
      ∃ a A B C, checkAckNak req a = .ack ∧
        (p0.process (rxBytes env j0 ((pollAttempt env reg req delay deadline p lg).2.2.nRx - j0))).queue =
          A ++ Packet.data f.cid f.payload :: (B ++ Packet.data a.cid a.payload :: C) := by
  generalize hn : deadline - lg.now = n
  induction n using Nat.strongRecOn generalizing p lg taken with
  | _ n ih =>
    rw [pollAttempt_eq]
    obtain ⟨e, he1, he2⟩ := wait_tracksAt env reg deadline p0 j0 taken p lg h
    have hadv := wait_some_advances env reg deadline p lg
    generalize wait env reg deadline p lg = res at he1 he2 hadv
    obtain ⟨fo, p', lg'⟩ := res
    simp only at he1 he2 hadv
    cases fo with
    | none => intro f hf; simp at hf
    | some f =>
      simp only
      obtain ⟨mid, hm⟩ := he2 f rfl
      by_cases hcid : f.cid = req
      · rw [if_pos hcid, if_pos hcfg]
        obtain ⟨e', k1, k2⟩ := pollWaitAck_tracksAt env reg req (lg'.now + delay) p0 j0 (taken ++ e) p' lg' he1
        generalize pollWaitAck env reg req (lg'.now + delay) p' lg' = r2 at k1 k2
        obtain ⟨b, p'', lg''⟩ := r2
        cases b with
        | false => intro f' hf; simp at hf
        | true =>
          simp only
          intro f' hf
          simp only [Option.some.injEq] at hf; subst hf
          obtain ⟨a, mid', c1, c2⟩ := k2 rfl
          obtain ⟨-, q, hq, -⟩ := k1
          refine ⟨a, taken ++ mid, mid', q, c1, ?_⟩
          simp only at hq
          rw [hq, hm, c2]; simp [List.append_assoc]
      · rw [if_neg hcid]
        obtain ⟨h1, h2⟩ := hadv f rfl
        exact ih (deadline - lg'.now) (by omega) (taken ++ e) p' lg' he1 rfl

/-- the retry loop of a configuration-class poll: a returned response precedes the accepted ACK-ACK in
    the queue that a *new* parser with the request's filter builds from the bytes received after a
    transmission -/
theorem pollLoop_order (env : Env) (reg : Registry) (delay : Nat) (req : Req) (hcfg : req.cid.cls = CLASS_CFG)
    (F : List Cid) (n : Nat) (p : Parser) (lg : Log) (hF : p.filter = some F) :
    ∀ f, (pollLoop env reg delay req n p lg).1 = some f →
      ∃ j0 m a A B C, j0 + m = (pollLoop env reg delay req n p lg).2.2.nRx ∧ lg.nRx ≤ j0 ∧
        checkAckNak req.cid a = .ack ∧
        ((Parser.fresh (some F)).process (rxBytes env j0 m)).queue =
          A ++ Packet.data f.cid f.payload :: (B ++ Packet.data a.cid a.payload :: C) := by
  induction n generalizing p lg with
  | zero => intro f hf; simp [pollLoop] at hf
  | succ n ih =>
    simp only [pollLoop]
    cases hok : (flushSend env lg req.wire).1
    · simp only [Bool.false_eq_true, if_false]
      exact ih p (flushSend env lg req.wire).2 hF
    · simp only [if_true]
      have ho := pollAttempt_order env reg req.cid hcfg delay ((flushSend env lg req.wire).2.now + delay)
        p.emptyQueue.restart (flushSend env lg req.wire).2.nRx [] p.emptyQueue.restart (flushSend env lg req.wire).2
        (TracksAt.start env _ _ rfl)
      have ht := pollAttempt_tracks env reg req.cid delay ((flushSend env lg req.wire).2.now + delay)
        p.emptyQueue.restart (flushSend env lg req.wire).2.nRx p.emptyQueue.restart (flushSend env lg req.wire).2
        (Tracks.start env _ _)
      generalize pollAttempt env reg req.cid delay ((flushSend env lg req.wire).2.now + delay)
        p.emptyQueue.restart (flushSend env lg req.wire).2 = res at ho ht
      obtain ⟨fo, p2, lg2⟩ := res
      obtain ⟨t1, -⟩ := ht
      simp only at t1 ho
      have hfil : p2.filter = some F := by
        obtain ⟨-, q, -, hp⟩ := t1
        rw [hp]; show (Parser.process _ _).filter = _
        rw [process_filter]; exact hF
      have hj := t1.nRx_le
      have hnr : (flushSend env lg req.wire).2.nRx = lg.nRx := rfl
      cases fo with
      | none =>
        simp only
        intro f hf
        obtain ⟨j0, m, a, A, B, C, c1, c2, c3, c4⟩ := ih p2 (recover lg2) hfil f hf
        have : (recover lg2).nRx = lg2.nRx := rfl
        exact ⟨j0, m, a, A, B, C, c1, by rw [this] at c2; omega, c3, c4⟩
      | some f0 =>
        simp only
        intro f hf
        simp only [Option.some.injEq] at hf; subst hf
        obtain ⟨a, A, B, C, c1, c2⟩ := ho f0 rfl
        refine ⟨lg.nRx, lg2.nRx - lg.nRx, a, A, B, C, by rw [hnr] at hj; omega, Nat.le_refl _, c1, ?_⟩
        rw [← restarted_queue p F hF]
        exact c2

end Ubx

import UbxModel.Proofs.ServerSuccess
import UbxModel.Proofs.ServerSuccessCfg
import UbxModel.Proofs.ServerSent
import UbxModel.Proofs.ServerFail
import UbxModel.Proofs.ServerIndependencePoll
import UbxModel.Props.C02
import UbxModel.Props.C03
/-! Lemmas behind C06 (kept in namespace `C06` so that the names the property file and DESIGN.md use stay
    valid): one successful attempt for `set` / `set_mga` / `poll` (configuration polls in two phases), the
    hand-over from a failed attempt to the next (`…_kth`), failed attempts described by the environment
    alone (`EnvFailsThen`, `ContainsAwaited`), and the premise definitions `Quiet`, `stream`, `…Answered`,
    `…FailsThen`. -/
namespace C06
open Ubx Spec

/-- benign traffic: items that queue nothing but error markers under the filter — filler, NMEA,
    corrupted frames, and valid frames whose class/id is not awaited -/
def Quiet (F : List Cid) (items : List Item) : Prop := Markers (expectedPackets (some F) items)

/-- the awaited stream: benign items, then filler `g` and the answer frame -/
def stream (items : List Item) (g : List Nat) (cls id : Nat) (pl : List Nat) : List Nat :=
  items.flatMap Item.bytes ++ (g ++ wire cls id pl)

/-- what a restarted, emptied parser makes of the awaited stream: only markers before the very last
    byte, the answer with it -/
theorem stream_queues (p0 : Parser) (hst : p0.st = .init) (hq : p0.queue = []) (F : List Cid)
    (hF : p0.filter = some F) (items : List Item) (hok : ∀ it ∈ items, it.ok) (hquiet : Quiet F items)
    (g : List Nat) (hg : noSyncPair g = true) (cls id : Nat) (pl : List Nat) (hpl : pl.length ≤ 1000)
    (hcid : (⟨cls, id⟩ : Cid) ∈ F) :
    let S := stream items g cls id pl
    S ≠ [] ∧ (p0.process S.dropLast).queue = expectedPackets (some F) items ∧
    (p0.process S).queue = expectedPackets (some F) items ++ [Packet.data ⟨cls, id⟩ pl] := by
  obtain ⟨hw, hv⟩ := C02.wire_is_valid_frame cls id pl
  intro S
  have hSne : S ≠ [] := by simp [S, stream, wire]
  refine ⟨hSne, ?_, ?_⟩
  · -- all but the last byte
    have hdl : S.dropLast = items.flatMap Item.bytes ++ (g ++ ([0xB5, 0x62] ++ ([cls, id, pl.length % 256, pl.length / 256]
        ++ (pl ++ [ckA (body cls id pl)])))) := by
      have : S = (items.flatMap Item.bytes ++ (g ++ ([0xB5, 0x62] ++ ([cls, id, pl.length % 256, pl.length / 256]
          ++ (pl ++ [ckA (body cls id pl)]))))) ++ [ckB (body cls id pl)] := by
        simp [S, stream, wire, body, List.append_assoc]
      rw [this, List.dropLast_concat]
    rw [hdl, Parser.process_append, Parser.process_append]
    obtain ⟨a1, a2, a3⟩ := p0.process_items_init hst items hok
    obtain ⟨b1, -, b3, -⟩ := (p0.process (items.flatMap Item.bytes)).process_gap g (Or.inl a1) (by simp [a1]) hg
    obtain ⟨-, c2⟩ := process_frame_butlast ((p0.process (items.flatMap Item.bytes)).process g) b1 cls id pl
      (ckA (body cls id pl)) hpl
    rw [c2, b3, a3, hq, hF]; simp
  · -- the whole stream: the answer is one more item
    let ans : Item := ⟨g, .frame cls id pl (ckA (body cls id pl)) (ckB (body cls id pl))⟩
    have hSi : S = (items ++ [ans]).flatMap Item.bytes ++ [] := by
      simp [S, stream, ans, Item.bytes, Shape.bytes, ← hw]
    have hok' : ∀ it ∈ items ++ [ans], it.ok := by
      intro it hit
      simp only [List.mem_append, List.mem_singleton] at hit
      rcases hit with h | h
      · exact hok it h
      · subst h; exact ⟨hg, hpl⟩
    obtain ⟨-, -, d3, -⟩ := p0.process_items hst (items ++ [ans]) hok' [] rfl
    rw [hSi, d3, hq, hF]
    have hpass : filterPasses (some F) ⟨cls, id⟩ = true := by simpa [filterPasses] using hcid
    simp [expectedPackets, Item.packets, ans, hv, hpass]

/-- **C06, one attempt of `set()`.** The transmission succeeds, and the bytes delivered by receive
    calls that start before the deadline are — however they are cut into chunks — benign traffic
    followed by filler and an ACK-ACK that names the request (or an ACK-NAK), possibly followed by
    more.  Then `set()` returns that frame, payload intact, and has transmitted exactly once more. -/
theorem set_attempt_success (env : Env) (reg : Registry) (delay : Nat) (req : Req) (n : Nat) (p : Parser) (lg : Log)
    (hF : p.filter = some [ackCid, nakCid]) (htx : env.tx lg.sent.length = true)
    (items : List Item) (hok : ∀ it ∈ items, it.ok) (hquiet : Quiet [ackCid, nakCid] items)
    (g : List Nat) (hg : noSyncPair g = true) (cid : Cid) (pl : List Nat) (hpl : pl.length ≤ 1000)
    (hcid : cid ∈ [ackCid, nakCid]) (f : RFrame) (hb : reg.build cid pl = some f)
    (hans : checkAckNak req.cid f ≠ .other)
    (hcov : Covers env (lg.now + delay) lg.now lg.nRx (stream items g cid.cls cid.id pl)) :
    (setLoop env reg delay req (n + 1) p lg).1 = some f ∧
    (setLoop env reg delay req (n + 1) p lg).2.2.sent = lg.sent ++ [req.wire] := by
  have hp0 : p.emptyQueue.restart.st = .init ∧ p.emptyQueue.restart.queue = [] ∧
      p.emptyQueue.restart.filter = some [ackCid, nakCid] := ⟨rfl, rfl, hF⟩
  obtain ⟨s1, s2, s3⟩ := stream_queues p.emptyQueue.restart hp0.1 hp0.2.1 [ackCid, nakCid] hp0.2.2 items hok hquiet
    g hg cid.cls cid.id pl hpl hcid
  have hfind := wait_finds env reg (lg.now + delay) p.emptyQueue.restart (stream items g cid.cls cid.id pl)
    (expectedPackets (some [ackCid, nakCid]) items) cid pl f s1 s2 hquiet s3 hb lg.now lg.nRx _ hcov []
    (flushSend env lg req.wire).2 (by simp) rfl rfl
  have hpe : ({ p.emptyQueue.restart.process [] with queue := [] } : Parser) = p.emptyQueue.restart := rfl
  rw [hpe] at hfind
  have hsent := wait_sent env reg (lg.now + delay) p.emptyQueue.restart (flushSend env lg req.wire).2
  simp only [setLoop]
  have hok1 : (flushSend env lg req.wire).1 = true := htx
  simp only [hok1, if_true]
  have hnow : (flushSend env lg req.wire).2.now = lg.now := rfl
  rw [hnow]
  generalize wait env reg (lg.now + delay) p.emptyQueue.restart (flushSend env lg req.wire).2 = res at hfind hsent
  obtain ⟨fo, p2, lg2⟩ := res
  simp only at hfind hsent
  subst hfind
  simp only [hans, if_false]
  exact ⟨trivial, hsent⟩

end C06

namespace C06
open Ubx Spec

/-- **C06, one attempt of `set_mga()`**: the accepting MGA-ACK arrives in time ⇒ it is returned after
    exactly one more transmission -/
theorem setMga_attempt_success (env : Env) (reg : Registry) (delay : Nat) (req : Req) (n : Nat) (p : Parser) (lg : Log)
    (hF : p.filter = some [mgaAckCid]) (htx : env.tx lg.sent.length = true)
    (items : List Item) (hok : ∀ it ∈ items, it.ok) (hquiet : Quiet [mgaAckCid] items)
    (g : List Nat) (hg : noSyncPair g = true) (pl : List Nat) (hpl : pl.length ≤ 1000)
    (f : RFrame) (hb : reg.build mgaAckCid pl = some f) (hans : checkMga f = true)
    (hcov : Covers env (lg.now + delay) lg.now lg.nRx (stream items g mgaAckCid.cls mgaAckCid.id pl)) :
    (mgaLoop env reg delay req (n + 1) p lg).1 = some f ∧
    (mgaLoop env reg delay req (n + 1) p lg).2.2.sent = lg.sent ++ [req.wire] := by
  have hp0 : p.emptyQueue.restart.st = .init ∧ p.emptyQueue.restart.queue = [] ∧
      p.emptyQueue.restart.filter = some [mgaAckCid] := ⟨rfl, rfl, hF⟩
  obtain ⟨s1, s2, s3⟩ := stream_queues p.emptyQueue.restart hp0.1 hp0.2.1 [mgaAckCid] hp0.2.2 items hok hquiet
    g hg mgaAckCid.cls mgaAckCid.id pl hpl (by simp)
  have hfind := wait_finds env reg (lg.now + delay) p.emptyQueue.restart (stream items g mgaAckCid.cls mgaAckCid.id pl)
    (expectedPackets (some [mgaAckCid]) items) mgaAckCid pl f s1 s2 hquiet s3 hb lg.now lg.nRx _ hcov []
    (flushSend env lg req.wire).2 (by simp) rfl rfl
  have hpe : ({ p.emptyQueue.restart.process [] with queue := [] } : Parser) = p.emptyQueue.restart := rfl
  rw [hpe] at hfind
  have hsent := wait_sent env reg (lg.now + delay) p.emptyQueue.restart (flushSend env lg req.wire).2
  simp only [mgaLoop]
  have hok1 : (flushSend env lg req.wire).1 = true := htx
  simp only [hok1, if_true]
  have hnow : (flushSend env lg req.wire).2.now = lg.now := rfl
  rw [hnow]
  generalize wait env reg (lg.now + delay) p.emptyQueue.restart (flushSend env lg req.wire).2 = res at hfind hsent
  obtain ⟨fo, p2, lg2⟩ := res
  simp only at hfind hsent
  subst hfind
  simp only [hans, if_true]
  exact ⟨trivial, hsent⟩

/-- **C06, one attempt of `poll()` for a request that is not configuration class**: the response
    arrives in time — behind any benign traffic, in any chunking — ⇒ it is returned, decoded by the
    declared response class, after exactly one more transmission -/
theorem poll_attempt_success (env : Env) (reg : Registry) (delay : Nat) (req : Req) (n : Nat) (p : Parser) (lg : Log)
    (hncfg : req.cid.cls ≠ CLASS_CFG)
    (hF : p.filter = some [req.cid]) (htx : env.tx lg.sent.length = true)
    (items : List Item) (hok : ∀ it ∈ items, it.ok) (hquiet : Quiet [req.cid] items)
    (g : List Nat) (hg : noSyncPair g = true) (pl : List Nat) (hpl : pl.length ≤ 1000)
    (f : RFrame) (hb : reg.build req.cid pl = some f)
    (hcov : Covers env (lg.now + delay) lg.now lg.nRx (stream items g req.cid.cls req.cid.id pl)) :
    (pollLoop env reg delay req (n + 1) p lg).1 = some f ∧
    (pollLoop env reg delay req (n + 1) p lg).2.2.sent = lg.sent ++ [req.wire] := by
  have hp0 : p.emptyQueue.restart.st = .init ∧ p.emptyQueue.restart.queue = [] ∧
      p.emptyQueue.restart.filter = some [req.cid] := ⟨rfl, rfl, hF⟩
  have hcid : (⟨req.cid.cls, req.cid.id⟩ : Cid) = req.cid := rfl
  obtain ⟨s1, s2, s3⟩ := stream_queues p.emptyQueue.restart hp0.1 hp0.2.1 [req.cid] hp0.2.2 items hok hquiet
    g hg req.cid.cls req.cid.id pl hpl (by simp)
  have hfind := wait_finds env reg (lg.now + delay) p.emptyQueue.restart (stream items g req.cid.cls req.cid.id pl)
    (expectedPackets (some [req.cid]) items) req.cid pl f s1 s2 hquiet s3 hb lg.now lg.nRx _ hcov []
    (flushSend env lg req.wire).2 (by simp) rfl rfl
  have hpe : ({ p.emptyQueue.restart.process [] with queue := [] } : Parser) = p.emptyQueue.restart := rfl
  rw [hpe] at hfind
  have hsent := wait_sent env reg (lg.now + delay) p.emptyQueue.restart (flushSend env lg req.wire).2
  have hfc : f.cid = req.cid := (reg.build_some req.cid pl f hb).1
  simp only [pollLoop]
  have hok1 : (flushSend env lg req.wire).1 = true := htx
  simp only [hok1, if_true]
  have hnow : (flushSend env lg req.wire).2.now = lg.now := rfl
  rw [hnow, pollAttempt_eq]
  generalize wait env reg (lg.now + delay) p.emptyQueue.restart (flushSend env lg req.wire).2 = res at hfind hsent
  obtain ⟨fo, p2, lg2⟩ := res
  simp only at hfind hsent
  subst hfind
  simp only [hfc, if_true, hncfg, if_false]
  exact ⟨trivial, hsent⟩

end C06

namespace C06
open Ubx Spec

/-- behind the awaited stream the parser is hunting from `INIT` again, filter unchanged -/
theorem stream_leaves_init (p0 : Parser) (hst : p0.st = .init) (items : List Item) (hok : ∀ it ∈ items, it.ok)
    (g : List Nat) (hg : noSyncPair g = true) (cls id : Nat) (pl : List Nat) (hpl : pl.length ≤ 1000) :
    (p0.process (stream items g cls id pl)).st = .init ∧ (p0.process (stream items g cls id pl)).filter = p0.filter := by
  obtain ⟨hw, -⟩ := C02.wire_is_valid_frame cls id pl
  let ans : Item := ⟨g, .frame cls id pl (ckA (body cls id pl)) (ckB (body cls id pl))⟩
  have hSi : stream items g cls id pl = (items ++ [ans]).flatMap Item.bytes := by
    simp [stream, ans, Item.bytes, Shape.bytes, ← hw]
  have hok' : ∀ it ∈ items ++ [ans], it.ok := by
    intro it hit
    simp only [List.mem_append, List.mem_singleton] at hit
    rcases hit with h | h
    · exact hok it h
    · subst h; exact ⟨hg, hpl⟩
  obtain ⟨d1, d2, -⟩ := p0.process_items_init hst (items ++ [ans]) hok'
  rw [hSi]; exact ⟨d1, d2⟩

/-- **C06, one attempt of `poll()` for a configuration-class request.** The response arrives in time
    (behind any benign traffic, in any chunking), and the ACK-ACK that names the request arrives in
    time counted from the moment the response was taken (again behind any benign traffic; it may even
    have been read by the same receive call) ⇒ `poll()` returns the response, decoded by the declared
    response class, payload intact, after exactly one more transmission. -/
theorem poll_cfg_attempt_success (env : Env) (reg : Registry) (delay : Nat) (req : Req) (n : Nat) (p : Parser) (lg : Log)
    (hcfg : req.cid.cls = CLASS_CFG)
    (hF : p.filter = some [req.cid, ackCid, nakCid]) (htx : env.tx lg.sent.length = true)
    (items1 : List Item) (hok1 : ∀ it ∈ items1, it.ok) (hquiet1 : Quiet [req.cid, ackCid, nakCid] items1)
    (g1 : List Nat) (hg1 : noSyncPair g1 = true) (pl1 : List Nat) (hpl1 : pl1.length ≤ 1000)
    (f : RFrame) (hb1 : reg.build req.cid pl1 = some f)
    (items2 : List Item) (hok2 : ∀ it ∈ items2, it.ok) (hquiet2 : Quiet [req.cid, ackCid, nakCid] items2)
    (g2 : List Nat) (hg2 : noSyncPair g2 = true) (pl2 : List Nat) (hpl2 : pl2.length ≤ 1000)
    (fa : RFrame) (hb2 : reg.build ackCid pl2 = some fa) (hck : checkAckNak req.cid fa = .ack)
    (hcov : CoversK env (lg.now + delay) (AckArrives env delay (stream items2 g2 ackCid.cls ackCid.id pl2))
      lg.now lg.nRx (stream items1 g1 req.cid.cls req.cid.id pl1)) :
    (pollLoop env reg delay req (n + 1) p lg).1 = some f ∧
    (pollLoop env reg delay req (n + 1) p lg).2.2.sent = lg.sent ++ [req.wire] := by
  let F := [req.cid, ackCid, nakCid]
  have hp0 : p.emptyQueue.restart.st = .init ∧ p.emptyQueue.restart.queue = [] ∧
      p.emptyQueue.restart.filter = some F := ⟨rfl, rfl, hF⟩
  obtain ⟨s1, s2, s3⟩ := stream_queues p.emptyQueue.restart hp0.1 hp0.2.1 F hp0.2.2 items1 hok1 hquiet1
    g1 hg1 req.cid.cls req.cid.id pl1 hpl1 (by simp [F])
  obtain ⟨i1, i2⟩ := stream_leaves_init p.emptyQueue.restart hp0.1 items1 hok1 g1 hg1 req.cid.cls req.cid.id pl1 hpl1
  obtain ⟨t1, t2, t3⟩ := stream_queues
    ({ p.emptyQueue.restart.process (stream items1 g1 req.cid.cls req.cid.id pl1) with queue := [] } : Parser)
    i1 rfl F (i2.trans hp0.2.2) items2 hok2 hquiet2 g2 hg2 ackCid.cls ackCid.id pl2 hpl2 (by simp [F])
  have hatt := pollAttempt_cfg_finds env reg req.cid hcfg delay p.emptyQueue.restart hp0.2.1
    (stream items1 g1 req.cid.cls req.cid.id pl1) _ pl1 f s1 rfl (by rw [s2]; exact hquiet1) (by rw [s2]; exact s3) hb1
    (stream items2 g2 ackCid.cls ackCid.id pl2) _ pl2 fa t1 rfl (by rw [t2]; exact hquiet2) (by rw [t2]; exact t3) hb2 hck
    (flushSend env lg req.wire).2 hcov
  have hsent := pollAttempt_sent env reg req.cid delay (lg.now + delay) p.emptyQueue.restart (flushSend env lg req.wire).2
  simp only [pollLoop]
  have hok1' : (flushSend env lg req.wire).1 = true := htx
  simp only [hok1', if_true]
  have hnow : (flushSend env lg req.wire).2.now = lg.now := rfl
  rw [hnow] at hatt ⊢
  generalize pollAttempt env reg req.cid delay (lg.now + delay) p.emptyQueue.restart (flushSend env lg req.wire).2 = res at hatt hsent
  obtain ⟨fo, p2, lg2⟩ := res
  simp only at hatt hsent
  subst hatt
  exact ⟨rfl, hsent⟩

end C06

/-! ### k failed attempts, then the answer -/
namespace C06
open Ubx Spec

theorem wait_filter (env : Env) (reg : Registry) (deadline : Nat) (p : Parser) (lg : Log) :
    (wait env reg deadline p lg).2.1.filter = p.filter := (wait_provenance env reg deadline p lg).1

theorem pollWaitAck_filter (env : Env) (reg : Registry) (req : Cid) (deadline : Nat) (p : Parser) (lg : Log) :
    (pollWaitAck env reg req deadline p lg).2.1.filter = p.filter := by
  fun_induction pollWaitAck env reg req deadline p lg with
  | case1 p lg f p' lg' hw hck => have := wait_filter env reg deadline p lg; rw [hw] at this; exact this
  | case2 p lg f p' lg' hw hck ih => have := wait_filter env reg deadline p lg; rw [hw] at this; rw [ih]; exact this
  | case3 p lg p' lg' hw => have := wait_filter env reg deadline p lg; rw [hw] at this; exact this

theorem pollAttempt_filter (env : Env) (reg : Registry) (req : Cid) (delay deadline : Nat) (p : Parser) (lg : Log) :
    (pollAttempt env reg req delay deadline p lg).2.1.filter = p.filter := by
  fun_induction pollAttempt env reg req delay deadline p lg with
  | case1 p lg f p' lg' hw hcid hcfg p'' lg'' hack =>
    have h1 := wait_filter env reg deadline p lg; rw [hw] at h1
    have h2 := pollWaitAck_filter env reg req (lg'.now + delay) p' lg'; rw [hack] at h2
    simp only at h1 h2 ⊢; rw [h2, h1]
  | case2 p lg f p' lg' hw hcid hcfg p'' lg'' hack =>
    have h1 := wait_filter env reg deadline p lg; rw [hw] at h1
    have h2 := pollWaitAck_filter env reg req (lg'.now + delay) p' lg'; rw [hack] at h2
    simp only at h1 h2 ⊢; rw [h2, h1]
  | case3 p lg f p' lg' hw hcid hcfg => have h1 := wait_filter env reg deadline p lg; rw [hw] at h1; exact h1
  | case4 p lg f p' lg' hw hcid ih => have h1 := wait_filter env reg deadline p lg; rw [hw] at h1; rw [ih]; exact h1
  | case5 p lg p' lg' hw => have h1 := wait_filter env reg deadline p lg; rw [hw] at h1; exact h1

/-- the answer to the transmission made at `lg` arrives in time: `set()` -/
def SetAnswered (env : Env) (reg : Registry) (delay : Nat) (req : Req) (f : RFrame) (lg : Log) : Prop :=
  env.tx lg.sent.length = true ∧
  ∃ items g cid pl, (∀ it ∈ items, it.ok) ∧ Quiet [ackCid, nakCid] items ∧ noSyncPair g = true ∧ pl.length ≤ 1000 ∧
    cid ∈ [ackCid, nakCid] ∧ reg.build cid pl = some f ∧ checkAckNak req.cid f ≠ .other ∧
    Covers env (lg.now + delay) lg.now lg.nRx (stream items g cid.cls cid.id pl)

/-- "the first `k` attempts of `set()` fail — the transmission fails, nothing acceptable is read before
    the deadline, or an answer-class frame that is not ours ends the attempt — and then `Q` holds of
    the log" -/
def SetFailsThen (env : Env) (reg : Registry) (delay : Nat) (req : Req) (Q : Log → Prop) : Nat → Parser → Log → Prop
  | 0, _, lg => Q lg
  | k + 1, p, lg =>
      let lg1 := (flushSend env lg req.wire).2
      if (flushSend env lg req.wire).1 then
        match wait env reg (lg1.now + delay) p.emptyQueue.restart lg1 with
        | (some f0, p2, lg2) => checkAckNak req.cid f0 = .other ∧ SetFailsThen env reg delay req Q k p2 lg2
        | (none, p2, lg2) => SetFailsThen env reg delay req Q k p2 (recover lg2)
      else SetFailsThen env reg delay req Q k p lg1

/-- **C06 for `set()`.** If the first `k` attempts fail and the `k+1`-th transmission is answered
    correctly and in time, `set()` returns that answer and has made exactly `k+1` transmissions —
    provided `k+1 ≤ retries+1`. -/
theorem set_kth (env : Env) (reg : Registry) (delay : Nat) (req : Req) (f : RFrame) (k n : Nat) (hkn : k ≤ n)
    (p : Parser) (lg : Log) (hF : p.filter = some [ackCid, nakCid])
    (h : SetFailsThen env reg delay req (SetAnswered env reg delay req f) k p lg) :
    (setLoop env reg delay req (n + 1) p lg).1 = some f ∧
    (setLoop env reg delay req (n + 1) p lg).2.2.sent = lg.sent ++ List.replicate (k + 1) req.wire := by
  induction k generalizing n p lg with
  | zero =>
    obtain ⟨htx, items, g, cid, pl, h1, h2, h3, h4, h5, h6, h7, h8⟩ := h
    exact set_attempt_success env reg delay req n p lg hF htx items h1 h2 g h3 cid pl h4 h5 f h6 h7 h8
  | succ k ih =>
    obtain ⟨n', rfl⟩ : ∃ n', n = n' + 1 := ⟨n - 1, by omega⟩
    have f3 : (flushSend env lg req.wire).2.sent = lg.sent ++ [req.wire] := rfl
    simp only [SetFailsThen] at h
    rw [setLoop]
    cases hok : (flushSend env lg req.wire).1
    · simp only [hok, Bool.false_eq_true, if_false] at h ⊢
      obtain ⟨r1, r2⟩ := ih n' (by omega) p _ hF h
      exact ⟨r1, by rw [r2, f3]; simp [List.replicate_succ]⟩
    · simp only [hok, if_true] at h ⊢
      have hws := wait_sent env reg ((flushSend env lg req.wire).2.now + delay) p.emptyQueue.restart (flushSend env lg req.wire).2
      have hwf := wait_filter env reg ((flushSend env lg req.wire).2.now + delay) p.emptyQueue.restart (flushSend env lg req.wire).2
      generalize wait env reg ((flushSend env lg req.wire).2.now + delay) p.emptyQueue.restart
        (flushSend env lg req.wire).2 = res at h hws hwf
      obtain ⟨fo, p2, lg2⟩ := res
      have hF2 : p2.filter = some [ackCid, nakCid] := hwf.trans hF
      cases fo with
      | none =>
        simp only at h hws ⊢
        obtain ⟨r1, r2⟩ := ih n' (by omega) p2 (recover lg2) hF2 h
        have : (recover lg2).sent = lg2.sent := rfl
        exact ⟨r1, by rw [r2, this, hws, f3]; simp [List.replicate_succ]⟩
      | some f0 =>
        simp only at h hws ⊢
        obtain ⟨hoth, hrest⟩ := h
        simp only [hoth, if_true]
        obtain ⟨r1, r2⟩ := ih n' (by omega) p2 lg2 hF2 hrest
        exact ⟨r1, by rw [r2, hws, f3]; simp [List.replicate_succ]⟩

/-- the answer to the transmission made at `lg` arrives in time: `set_mga()` -/
def MgaAnswered (env : Env) (reg : Registry) (delay : Nat) (f : RFrame) (lg : Log) : Prop :=
  env.tx lg.sent.length = true ∧
  ∃ items g pl, (∀ it ∈ items, it.ok) ∧ Quiet [mgaAckCid] items ∧ noSyncPair g = true ∧ pl.length ≤ 1000 ∧
    reg.build mgaAckCid pl = some f ∧ checkMga f = true ∧
    Covers env (lg.now + delay) lg.now lg.nRx (stream items g mgaAckCid.cls mgaAckCid.id pl)

def MgaFailsThen (env : Env) (reg : Registry) (delay : Nat) (req : Req) (Q : Log → Prop) : Nat → Parser → Log → Prop
  | 0, _, lg => Q lg
  | k + 1, p, lg =>
      let lg1 := (flushSend env lg req.wire).2
      if (flushSend env lg req.wire).1 then
        match wait env reg (lg1.now + delay) p.emptyQueue.restart lg1 with
        | (some f0, p2, lg2) => checkMga f0 = false ∧ MgaFailsThen env reg delay req Q k p2 lg2
        | (none, p2, lg2) => MgaFailsThen env reg delay req Q k p2 (recover lg2)
      else MgaFailsThen env reg delay req Q k p lg1

/-- **C06 for `set_mga()`** -/
theorem setMga_kth (env : Env) (reg : Registry) (delay : Nat) (req : Req) (f : RFrame) (k n : Nat) (hkn : k ≤ n)
    (p : Parser) (lg : Log) (hF : p.filter = some [mgaAckCid])
    (h : MgaFailsThen env reg delay req (MgaAnswered env reg delay f) k p lg) :
    (mgaLoop env reg delay req (n + 1) p lg).1 = some f ∧
    (mgaLoop env reg delay req (n + 1) p lg).2.2.sent = lg.sent ++ List.replicate (k + 1) req.wire := by
  induction k generalizing n p lg with
  | zero =>
    obtain ⟨htx, items, g, pl, h1, h2, h3, h4, h6, h7, h8⟩ := h
    exact setMga_attempt_success env reg delay req n p lg hF htx items h1 h2 g h3 pl h4 f h6 h7 h8
  | succ k ih =>
    obtain ⟨n', rfl⟩ : ∃ n', n = n' + 1 := ⟨n - 1, by omega⟩
    have f3 : (flushSend env lg req.wire).2.sent = lg.sent ++ [req.wire] := rfl
    simp only [MgaFailsThen] at h
    rw [mgaLoop]
    cases hok : (flushSend env lg req.wire).1
    · simp only [hok, Bool.false_eq_true, if_false] at h ⊢
      obtain ⟨r1, r2⟩ := ih n' (by omega) p _ hF h
      exact ⟨r1, by rw [r2, f3]; simp [List.replicate_succ]⟩
    · simp only [hok, if_true] at h ⊢
      have hws := wait_sent env reg ((flushSend env lg req.wire).2.now + delay) p.emptyQueue.restart (flushSend env lg req.wire).2
      have hwf := wait_filter env reg ((flushSend env lg req.wire).2.now + delay) p.emptyQueue.restart (flushSend env lg req.wire).2
      generalize wait env reg ((flushSend env lg req.wire).2.now + delay) p.emptyQueue.restart
        (flushSend env lg req.wire).2 = res at h hws hwf
      obtain ⟨fo, p2, lg2⟩ := res
      have hF2 : p2.filter = some [mgaAckCid] := hwf.trans hF
      cases fo with
      | none =>
        simp only at h hws ⊢
        obtain ⟨r1, r2⟩ := ih n' (by omega) p2 (recover lg2) hF2 h
        have : (recover lg2).sent = lg2.sent := rfl
        exact ⟨r1, by rw [r2, this, hws, f3]; simp [List.replicate_succ]⟩
      | some f0 =>
        simp only at h hws ⊢
        obtain ⟨hoth, hrest⟩ := h
        simp only [hoth, Bool.false_eq_true, if_false]
        obtain ⟨r1, r2⟩ := ih n' (by omega) p2 lg2 hF2 hrest
        exact ⟨r1, by rw [r2, hws, f3]; simp [List.replicate_succ]⟩

/-- the filter `poll()` installs for a request -/
def pollFilter (req : Cid) : List Cid := if req.cls = CLASS_CFG then [req, ackCid, nakCid] else [req]

/-- the answer to the transmission made at `lg` arrives in time: `poll()` — the response, followed for
    a configuration-class request by the ACK-ACK that names it -/
def PollAnswered (env : Env) (reg : Registry) (delay : Nat) (req : Req) (f : RFrame) (lg : Log) : Prop :=
  env.tx lg.sent.length = true ∧
  ∃ items1 g1 pl1, (∀ it ∈ items1, it.ok) ∧ Quiet (pollFilter req.cid) items1 ∧ noSyncPair g1 = true ∧
    pl1.length ≤ 1000 ∧ reg.build req.cid pl1 = some f ∧
    if req.cid.cls = CLASS_CFG then
      ∃ items2 g2 pl2 fa, (∀ it ∈ items2, it.ok) ∧ Quiet (pollFilter req.cid) items2 ∧ noSyncPair g2 = true ∧
        pl2.length ≤ 1000 ∧ reg.build ackCid pl2 = some fa ∧ checkAckNak req.cid fa = .ack ∧
        CoversK env (lg.now + delay) (AckArrives env delay (stream items2 g2 ackCid.cls ackCid.id pl2))
          lg.now lg.nRx (stream items1 g1 req.cid.cls req.cid.id pl1)
    else Covers env (lg.now + delay) lg.now lg.nRx (stream items1 g1 req.cid.cls req.cid.id pl1)

def PollFailsThen (env : Env) (reg : Registry) (delay : Nat) (req : Req) (Q : Log → Prop) : Nat → Parser → Log → Prop
  | 0, _, lg => Q lg
  | k + 1, p, lg =>
      let lg1 := (flushSend env lg req.wire).2
      if (flushSend env lg req.wire).1 then
        match pollAttempt env reg req.cid delay (lg1.now + delay) p.emptyQueue.restart lg1 with
        | (some _, _, _) => False
        | (none, p2, lg2) => PollFailsThen env reg delay req Q k p2 (recover lg2)
      else PollFailsThen env reg delay req Q k p lg1

/-- one answered attempt of `poll()`, either kind of request -/
theorem poll_attempt (env : Env) (reg : Registry) (delay : Nat) (req : Req) (f : RFrame) (n : Nat)
    (p : Parser) (lg : Log) (hF : p.filter = some (pollFilter req.cid)) (h : PollAnswered env reg delay req f lg) :
    (pollLoop env reg delay req (n + 1) p lg).1 = some f ∧
    (pollLoop env reg delay req (n + 1) p lg).2.2.sent = lg.sent ++ [req.wire] := by
  obtain ⟨htx, items1, g1, pl1, h1, h2, h3, h4, h5, h6⟩ := h
  by_cases hcfg : req.cid.cls = CLASS_CFG
  · rw [if_pos hcfg] at h6
    simp only [pollFilter, hcfg, if_true] at hF h2
    obtain ⟨items2, g2, pl2, fa, k1, k2, k3, k4, k5, k6, k7⟩ := h6
    simp only [pollFilter, hcfg, if_true] at k2
    exact poll_cfg_attempt_success env reg delay req n p lg hcfg hF htx items1 h1 h2 g1 h3 pl1 h4 f h5
      items2 k1 k2 g2 k3 pl2 k4 fa k5 k6 k7
  · rw [if_neg hcfg] at h6
    simp only [pollFilter, hcfg, if_false] at hF h2
    exact poll_attempt_success env reg delay req n p lg hcfg hF htx items1 h1 h2 g1 h3 pl1 h4 f h5 h6

/-- **C06 for `poll()`**, every request class -/
theorem poll_kth (env : Env) (reg : Registry) (delay : Nat) (req : Req) (f : RFrame) (k n : Nat) (hkn : k ≤ n)
    (p : Parser) (lg : Log) (hF : p.filter = some (pollFilter req.cid))
    (h : PollFailsThen env reg delay req (PollAnswered env reg delay req f) k p lg) :
    (pollLoop env reg delay req (n + 1) p lg).1 = some f ∧
    (pollLoop env reg delay req (n + 1) p lg).2.2.sent = lg.sent ++ List.replicate (k + 1) req.wire := by
  induction k generalizing n p lg with
  | zero => exact poll_attempt env reg delay req f n p lg hF h
  | succ k ih =>
    obtain ⟨n', rfl⟩ : ∃ n', n = n' + 1 := ⟨n - 1, by omega⟩
    have f3 : (flushSend env lg req.wire).2.sent = lg.sent ++ [req.wire] := rfl
    simp only [PollFailsThen] at h
    rw [pollLoop]
    cases hok : (flushSend env lg req.wire).1
    · simp only [hok, Bool.false_eq_true, if_false] at h ⊢
      obtain ⟨r1, r2⟩ := ih n' (by omega) p _ hF h
      exact ⟨r1, by rw [r2, f3]; simp [List.replicate_succ]⟩
    · simp only [hok, if_true] at h ⊢
      have hws := pollAttempt_sent env reg req.cid delay ((flushSend env lg req.wire).2.now + delay) p.emptyQueue.restart (flushSend env lg req.wire).2
      have hwf := pollAttempt_filter env reg req.cid delay ((flushSend env lg req.wire).2.now + delay) p.emptyQueue.restart (flushSend env lg req.wire).2
      generalize pollAttempt env reg req.cid delay ((flushSend env lg req.wire).2.now + delay) p.emptyQueue.restart
        (flushSend env lg req.wire).2 = res at h hws hwf
      obtain ⟨fo, p2, lg2⟩ := res
      have hF2 : p2.filter = some (pollFilter req.cid) := hwf.trans hF
      cases fo with
      | none =>
        simp only at h hws ⊢
        obtain ⟨r1, r2⟩ := ih n' (by omega) p2 (recover lg2) hF2 h
        have : (recover lg2).sent = lg2.sent := rfl
        exact ⟨r1, by rw [r2, this, hws, f3]; simp [List.replicate_succ]⟩
      | some f0 => simp only at h

end C06

/-! ### failed attempts described by the environment alone -/
namespace C06
open Ubx Spec

/-- attempts `1..k` fail for reasons visible in the environment: the transmission fails, or the reads
    made before the deadline deliver nothing from which a new parser with the request's filter produces
    a data packet (silence, garbage, NMEA, corrupted or truncated frames, frames that are not awaited);
    then `Q` holds of the log.  `idle` is the clock walk of the reads of such an attempt. -/
def EnvFailsThen (env : Env) (F : List Cid) (delay : Nat) (wire : List Nat) (Q : Log → Prop) : Nat → Log → Prop
  | 0, lg => Q lg
  | k + 1, lg =>
      let lg1 := (flushSend env lg wire).2
      if (flushSend env lg wire).1 then
        OnlyMarkers env (Parser.fresh (some F)) lg1.nRx (idle env (lg1.now + delay) lg1).nRx ∧
        EnvFailsThen env F delay wire Q k (recover (idle env (lg1.now + delay) lg1))
      else EnvFailsThen env F delay wire Q k lg1

theorem set_fails_of_env (env : Env) (reg : Registry) (delay : Nat) (req : Req) (Q : Log → Prop) (k : Nat)
    (p : Parser) (lg : Log) (hF : p.filter = some [ackCid, nakCid])
    (h : EnvFailsThen env [ackCid, nakCid] delay req.wire Q k lg) : SetFailsThen env reg delay req Q k p lg := by
  induction k generalizing p lg with
  | zero => exact h
  | succ k ih =>
    simp only [EnvFailsThen] at h
    simp only [SetFailsThen]
    cases hok : (flushSend env lg req.wire).1
    · simp only [hok, Bool.false_eq_true, if_false] at h ⊢
      exact ih p _ hF h
    · simp only [hok, if_true] at h ⊢
      obtain ⟨hm, hrest⟩ := h
      obtain ⟨w1, w2⟩ := wait_none_of_markers env reg ((flushSend env lg req.wire).2.now + delay) p.emptyQueue.restart
        (flushSend env lg req.wire).2 (hm.restarted p hF)
      have hwf := wait_filter env reg ((flushSend env lg req.wire).2.now + delay) p.emptyQueue.restart (flushSend env lg req.wire).2
      generalize wait env reg ((flushSend env lg req.wire).2.now + delay) p.emptyQueue.restart
        (flushSend env lg req.wire).2 = res at w1 w2 hwf
      obtain ⟨fo, p2, lg2⟩ := res
      simp only at w1 w2 hwf
      subst w1 w2
      exact ih p2 _ (hwf.trans hF) hrest

theorem mga_fails_of_env (env : Env) (reg : Registry) (delay : Nat) (req : Req) (Q : Log → Prop) (k : Nat)
    (p : Parser) (lg : Log) (hF : p.filter = some [mgaAckCid])
    (h : EnvFailsThen env [mgaAckCid] delay req.wire Q k lg) : MgaFailsThen env reg delay req Q k p lg := by
  induction k generalizing p lg with
  | zero => exact h
  | succ k ih =>
    simp only [EnvFailsThen] at h
    simp only [MgaFailsThen]
    cases hok : (flushSend env lg req.wire).1
    · simp only [hok, Bool.false_eq_true, if_false] at h ⊢
      exact ih p _ hF h
    · simp only [hok, if_true] at h ⊢
      obtain ⟨hm, hrest⟩ := h
      obtain ⟨w1, w2⟩ := wait_none_of_markers env reg ((flushSend env lg req.wire).2.now + delay) p.emptyQueue.restart
        (flushSend env lg req.wire).2 (hm.restarted p hF)
      have hwf := wait_filter env reg ((flushSend env lg req.wire).2.now + delay) p.emptyQueue.restart (flushSend env lg req.wire).2
      generalize wait env reg ((flushSend env lg req.wire).2.now + delay) p.emptyQueue.restart
        (flushSend env lg req.wire).2 = res at w1 w2 hwf
      obtain ⟨fo, p2, lg2⟩ := res
      simp only at w1 w2 hwf
      subst w1 w2
      exact ih p2 _ (hwf.trans hF) hrest

theorem poll_fails_of_env (env : Env) (reg : Registry) (delay : Nat) (req : Req) (Q : Log → Prop) (k : Nat)
    (p : Parser) (lg : Log) (hF : p.filter = some (pollFilter req.cid))
    (h : EnvFailsThen env (pollFilter req.cid) delay req.wire Q k lg) : PollFailsThen env reg delay req Q k p lg := by
  induction k generalizing p lg with
  | zero => exact h
  | succ k ih =>
    simp only [EnvFailsThen] at h
    simp only [PollFailsThen]
    cases hok : (flushSend env lg req.wire).1
    · simp only [hok, Bool.false_eq_true, if_false] at h ⊢
      exact ih p _ hF h
    · simp only [hok, if_true] at h ⊢
      obtain ⟨hm, hrest⟩ := h
      obtain ⟨w1, w2⟩ := wait_none_of_markers env reg ((flushSend env lg req.wire).2.now + delay) p.emptyQueue.restart
        (flushSend env lg req.wire).2 (hm.restarted p hF)
      have hwf := wait_filter env reg ((flushSend env lg req.wire).2.now + delay) p.emptyQueue.restart (flushSend env lg req.wire).2
      rw [pollAttempt_eq]
      generalize wait env reg ((flushSend env lg req.wire).2.now + delay) p.emptyQueue.restart
        (flushSend env lg req.wire).2 = res at w1 w2 hwf
      obtain ⟨fo, p2, lg2⟩ := res
      simp only at w1 w2 hwf
      subst w1 w2
      exact ih p2 _ (hwf.trans hF) hrest

end C06

/-! ### what makes a window fail: no awaited frame in it -/
namespace C06
open Ubx Spec

/-- the byte string contains a checksum-valid frame (length ≤ 1000) of an awaited class/id -/
def ContainsAwaited (F : List Cid) (s : List Nat) : Prop :=
  ∃ cid pl pre post, cid ∈ F ∧ pl.length ≤ 1000 ∧ s = pre ++ wire cid.cls cid.id pl ++ post

/-- a new parser fed bytes that contain no awaited frame queues nothing but error markers — whatever
    else they are: nothing at all, noise, NMEA, other UBX messages, corrupted or truncated frames -/
theorem markers_of_no_awaited (F : List Cid) (s : List Nat) (hs : Bytes s) (h : ¬ ContainsAwaited F s) :
    Markers ((Parser.fresh (some F)).process s).queue := by
  obtain ⟨segs, hwf, hbytes, hq, -⟩ := C03.sound (some F) s hs [s] (by simp)
  have hp : [s].foldl Parser.process (Parser.fresh (some F)) = (Parser.fresh (some F)).process s := rfl
  rw [hp] at hbytes hq
  intro x hx
  rw [hq, segPackets, List.mem_flatMap] at hx
  obtain ⟨g, hg, hxg⟩ := hx
  cases x with
  | crcError => rfl
  | data cid pl =>
    exfalso
    obtain ⟨e1, e2, e3⟩ := C03.data_packet_is_wire (some F) g cid pl (hwf g hg) hxg
    obtain ⟨l1, l2, hl⟩ := List.append_of_mem hg
    obtain ⟨pend, hb⟩ : ∃ pend, s = segBytes segs ++ pend := ⟨_, hbytes⟩
    apply h
    refine ⟨cid, pl, segBytes l1, segBytes l2 ++ pend, ?_, e2, ?_⟩
    · simpa [filterPasses] using e3
    · rw [hb, hl]
      simp [segBytes, e1, List.append_assoc]

/-- hence a window whose bytes contain no awaited frame is a failing window -/
theorem onlyMarkers_of_no_awaited (env : Env) (F : List Cid) (j j' : Nat)
    (hb : ∀ m, j + m ≤ j' → Bytes (rxBytes env j m))
    (h : ∀ m, j + m ≤ j' → ¬ ContainsAwaited F (rxBytes env j m)) :
    OnlyMarkers env (Parser.fresh (some F)) j j' :=
  fun m hm => markers_of_no_awaited F _ (hb m hm) (h m hm)

/-- in particular silence -/
theorem onlyMarkers_of_silence (env : Env) (F : List Cid) (j j' : Nat)
    (h : ∀ i, j ≤ i → i < j' → (env.rx i).2 = []) : OnlyMarkers env (Parser.fresh (some F)) j j' := by
  intro m hm
  have : rxBytes env j m = [] := by
    induction m generalizing j with
    | zero => rfl
    | succ m ih =>
      rw [rxBytes, h j (Nat.le_refl _) (by omega), List.nil_append]
      exact ih (j + 1) (fun i h1 h2 => h i (by omega) h2) (by omega)
  rw [this]
  intro x hx
  simp [Parser.process, Parser.fresh] at hx

end C06

import UbxModel.Proofs.ServerSuccess
import UbxModel.Proofs.ServerTracks
/-! When an attempt fails: the receive calls made before the deadline deliver nothing from which the
    parser produces a data packet (silence, garbage, NMEA, corrupted or truncated frames, frames that
    are not awaited).  Stated on the environment alone. -/
namespace Ubx

/-- the clock walk of a `_wait()` that finds nothing: receive until the deadline has passed -/
def idle (env : Env) (deadline : Nat) (lg : Log) : Log :=
  if lg.now < deadline then
    idle env deadline { lg with now := lg.now + tick (env.rx lg.nRx).1, nRx := lg.nRx + 1, calls := lg.calls ++ [.rx] }
  else lg
termination_by deadline - lg.now
decreasing_by simp only [tick]; omega

theorem idle_eq (env : Env) (deadline : Nat) (lg : Log) :
    idle env deadline lg =
      if lg.now < deadline then
        idle env deadline { lg with now := lg.now + tick (env.rx lg.nRx).1, nRx := lg.nRx + 1, calls := lg.calls ++ [.rx] }
      else lg := by
  rw [idle]

theorem idle_nRx_mono (env : Env) (deadline : Nat) (lg : Log) : lg.nRx ≤ (idle env deadline lg).nRx := by
  fun_induction idle env deadline lg with
  | case1 lg hlt ih => simp only at ih; omega
  | case2 lg hnl => exact Nat.le_refl _

/-- from receive call `j` up to (not including) call `j'`, parser `p` queues nothing but error markers -/
def OnlyMarkers (env : Env) (p : Parser) (j j' : Nat) : Prop :=
  ∀ m, j + m ≤ j' → Markers (p.process (rxBytes env j m)).queue

/-- **a window without data packets makes `_wait()` time out**, having made exactly the receive calls
    of the clock walk -/
theorem wait_none_of_markers (env : Env) (reg : Registry) (deadline : Nat) (p : Parser) (lg : Log)
    (h : OnlyMarkers env p lg.nRx (idle env deadline lg).nRx) :
    (wait env reg deadline p lg).1 = none ∧ (wait env reg deadline p lg).2.2 = idle env deadline lg := by
  generalize hn : deadline - lg.now = n
  induction n using Nat.strongRecOn generalizing p lg with
  | _ n ih =>
    rw [wait_eq, idle_eq]
    rw [idle_eq] at h
    by_cases hlt : lg.now < deadline
    · simp only [hlt, if_true] at h ⊢
      have hmono := idle_nRx_mono env deadline
        { lg with now := lg.now + tick (env.rx lg.nRx).1, nRx := lg.nRx + 1, calls := lg.calls ++ [.rx] }
      have hm1 : Markers (p.process (env.rx lg.nRx).2).queue := by
        have := h 1 (by simp only at hmono; omega)
        simpa [rxBytes] using this
      rw [drain_markers reg _ hm1]
      simp only
      refine ih (deadline - (lg.now + tick (env.rx lg.nRx).1)) (by simp only [tick]; omega) _ _ ?_ rfl
      intro m hm
      obtain ⟨app, a1, a2⟩ := process_with_queue (p.process (env.rx lg.nRx).2) [] (rxBytes env (lg.nRx + 1) m)
      rw [a2]
      simp only [List.nil_append]
      have := h (m + 1) (by simp only at hm ⊢; omega)
      rw [show m + 1 = m + 1 from rfl, rxBytes, Parser.process_append, a1] at this
      exact fun x hx => this x (by simp [hx])
    · simp only [hlt, if_false]
      exact ⟨trivial, trivial⟩

/-- a parser that has been emptied and restarted queues what a new parser with its filter queues -/
theorem restarted_queue (p : Parser) (F : List Cid) (hF : p.filter = some F) (bs : List Nat) :
    (p.emptyQueue.restart.process bs).queue = ((Parser.fresh (some F)).process bs).queue := by
  have h : Alike p.emptyQueue.restart (Parser.fresh (some F)) :=
    ⟨p.framesRx, ⟨rfl, hF, Or.inl rfl, by simp [Parser.emptyQueue, Parser.restart, Parser.fresh],
      by simp [Parser.emptyQueue, Parser.restart, Parser.fresh]⟩⟩
  exact (h.process bs).queue

theorem OnlyMarkers.restarted {env : Env} {F : List Cid} {j j' : Nat} (h : OnlyMarkers env (Parser.fresh (some F)) j j')
    (p : Parser) (hF : p.filter = some F) : OnlyMarkers env p.emptyQueue.restart j j' := by
  intro m hm
  rw [restarted_queue p F hF]
  exact h m hm

end Ubx
